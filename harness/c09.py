"""C09 — the cached, sparse and seed coherence paths equal the dense computation.

Correspondence: the cache model of `CohBase.lean` (driver `drvC09`, K = binary64 pairs; its contract:
equality with the dense Welch path) against cache_fft + cache_to_*, SparseCoherenceAnalyzer
and SeedCoherenceAnalyzer; plus the dense side (`welchBin` + `coherencySpec`) against tsa.coherency.
Oracle (never the Lean model): the dense implementation itself (get_spectra / coherency on the same
data, the same pairs and the bins whose dense frequency lies in [lb, ub]); equality of the two memory
settings.
"""
import math
import warnings
import numpy as np
from common import Case, Failure, f2x, flist, clist, parse_flist, np_rng
import c08
from c08 import close_gen, circ, gen_data, run, win_vals

PID = 'C09'
LEAN_TARGETS = ['Nitime.Props.C09']
RULE = ('scenarios from one PRNG state over the configuration lattice: 2..5 channels; NFFT of both parities; explicit / default overlap; '
        'window as function (default hanning) or array; data shorter than, equal to and longer than NFFT (single zero-padded window .. many); '
        'lb/ub full band or off-grid band; prefer_speed_over_memory and scale_by_freq both ways; pair lists with repeated, self and reversed '
        'pairs; 1-d and 2-d seeds. One case per observable (freqs, coherency, psd, relative phase, phase, seed rows, dense side); '
        'session 3: window handed over as array / list / tuple / float32 array / integer array / function (stratified by the scenario index); every 6th scenario '
        'with exact binary64 grids (Fs, NFFT powers of two) and band edges ON a bin, 1 ulp below / above it, ub on / above Nyquist; analyzer series given '
        'by rate, by an interval in ms / us, or with an explicit Fs in the method dict that overrides another series rate; an INPUT-FAMILY block: every '
        'representation of the data (int16/int32/int64/uint8/float32/Fortran/strided/read-only/big-endian) x every window form, expectation = the dense '
        'path on the values converted to float64 (exact); histories: one cache re-queried with other pair lists / after cache_to_psd and the phases / after a '
        'second cache_fft with other band and flags, every result handed out (frequency vector too) overwritten in place, then the first query again on the '
        'same and on a fresh cache; a NEW Sparse / Seed analyzer after all results of an earlier one were overwritten. '
        'distinct = distinct protocol line'
        ' ROUND 2 (own small scenarios; every exception of a refused call is caught): held results -- ONE cache queried again and again through the four cache_to_* functions with other and equal pair lists '
        '(several of equal output shape), every result kept and re-inspected at the END (unchanged, no memory shared with the cache or another result, still the dense values), also SparseCoherenceAnalyzer.coherency '
        'held while analyzer.cache is queried again; sessions -- ONE SparseCoherenceAnalyzer (or a copy.copy of it) through 8 patterns of set_input calls with a series lacking a channel of ij, a 1-d series, a good series '
        'of another rate, the same object after an in-place change, a row-strided view, reset(), with / without a caller-fixed Fs: frequencies / spectrum / delay / coherency = the dense computation on the input '
        'ACTUALLY HELD, vars() compared across a refused call; cache_fft refused (lb > ub, window length, unknown this_method, non-integer NFFT) and cache_to_* for a pair the cache lacks, then the proper call with the '
        'same method dict / cache; SeedCoherenceAnalyzer whose seed samples are a row-strided / reversed VIEW of the target samples, the result held across an in-place change of the seed. ' 
        ' WAVE 6 (deterministic in every run): a CHANNEL-LABEL block -- 1..16, 34 and 40 channels, each with its own dominant frequency / scale / delay, pair lists that are sparse, unsorted, reversed, repeated, with gaps, '
        'largest index first, and channel sets CPython iterates out of order ({1,8} -> 8,1; {33,1,2,3,4}); judged: every value under every key of cache[\'FFT_slices\'], cache_to_psd, cache_to_phase is the one of ITS channel, '
        'SparseCoherenceAnalyzer.spectrum / phases / delay; the block also enumerates the corners NFFT parity x {default, 0, NFFT-1, NFFT//2} overlap x {shorter, equal, one more, many times} NFFT x band x both flags.')
ASSUMPTIONS = ['real-valued input, 0 <= n_overlap < NFFT, Fs > 0, real window with non-zero energy, 0 <= lb <= ub <= Fs/2',
               'ROUND 4 (L10): scale scenarios -- per-channel gains 2^e (e = +-100, +-250, +-255, [250,-250,0], [0,-30,0], and per scenario the largest / smallest exponents, uniform and lopsided by 200 and 30 binades, for which the DENSE products Pxx*Pyy of the scaled data stay below 2^(1024-8) / above 2^(-1022+6); '
               'scale_by_freq=False: a further 2|log2 Fs| bits, its normalisation differs from the dense one by Fs^2); gains that leave this range are shifted into it; a scenario whose dense reference on the scaled data is not finite or not equal (1e-9) to the dense reference on the unscaled data is dropped and counted. '
               'Judged: cache / Sparse / Seed coherency, coherence, PSD (x gain^2), relative phases, Sparse spectrum / phases against the dense path on the same scaled data AND on the unscaled data',
               'band edges are generated off the frequency grid (or 0 / None), so that an ulp of difference between two evaluations of the same grid cannot move a bin',
               'scale_by_freq=False has no dense counterpart in get_spectra: the cached PSD is then compared with Fs x the dense density',
               'cache_to_relative_phase averages per-window angles; it is compared with the dense angle only for a single window (the property clause), '
               'with the model otherwise; DC / Nyquist bins (real spectra, angle 0 or pi by rounding) are left out of multi-window phase comparisons']
TRUSTED_EXTRA = c08.TRUSTED_EXTRA[:3] + ['harness/translate_c09.py gen_keys: per cache function the ordering its dict KEYS come from and the ordering its VALUES are computed along -> Generated/CacheKeys.lean; the iteration order of the channel set is DATA handed to the model by the harness (list(set) built the way the code builds it)', 'harness/translate_c09.py gen_out: how each cache_to_* function binds the object it returns (np.zeros / {} in the function itself, or an expression that involves `cache`), whether it writes into '
                                         '`cache` or hands it to a helper, whether the entries it stores are new arrays -> Generated/CacheOut.lean; the heap model of Nitime/Model/C09Out.lean (an allocated array is nobody else\'s) is monitored by the `outhist` correspondence',
                                         'Generated/SetInput.lean (translate_c05.py gen_setinput) + Nitime/Model/CohSession.lean for SparseCoherenceAnalyzer.set_input: monitored by the `sess` correspondence (rate used, series held)',
                                         'harness/translate_c09.py: which expression cache_fft assigns to window_vals in the sequence / function branch -> Generated/CacheWin.lean (echoed in the evidence)',
                                         'Lemmas/C09FloatBand.lean models binary64 arithmetic by an abstract monotone rounding with r(0)=0 and relative error u (true of IEEE round-to-nearest); '
                                         'that numpy evaluates get_freqs as fl(fl(k*fl(1/N))*Fs) is checked bit-for-bit by the correspondence (CohBase.getFreqs)',
                                         'a window handed over as a float32 array makes numpy compute in single precision in the cache path AND in the dense path: those scenarios are compared at 3e-5, all others at 1e-9','np.linspace, np.searchsorted by their numpy semantics (model: linspace0, searchLeft/Right, bit-exact)',
                                         'reading of the CScalar-polymorphic definitions at K = Complex (theorems) vs K = binary64 pairs (run): parametricity, unproved']


def tsa():
    import nitime.algorithms as a
    return a


# ------------------------------------------------------------------ comparison (last token = data)
def cmp_last(impl, model, rtol=None):
    if not (impl.startswith('ok ') and model.startswith('ok ')):
        return impl == model
    a, b = parse_flist(impl.split(' ')[-1]), parse_flist(model.split(' ')[-1])
    return close_gen(a, b) if rtol is None else close_gen(a, b, rtol)


# a window handed over as a float32 array makes numpy do the window energy (and, with int16 / uint8 / float32 data, the
# windowing and the FFT) in single precision -- in the cache path and in the dense path alike: "equal" then means equal to
# single precision.  Every other combination is computed in binary64 and compared at 1e-9.
SINGLE = 3e-5


def cmp_last_single(impl, model):
    return cmp_last(impl, model, SINGLE)


def either(base):
    """kept as a hook: the model gives one answer (the repaired behaviour = the dense path)"""
    return base


def mk_cmp_rows(nrow, rtol=None):
    """last token = nrow rows of equal length, each compared at its own scale"""
    cg = close_gen if rtol is None else (lambda a_, b_: close_gen(a_, b_, rtol))

    def cmp(impl, model):
        if not (impl.startswith('ok ') and model.startswith('ok ')):
            return impl == model
        a, b = parse_flist(impl.split(' ')[-1]), parse_flist(model.split(' ')[-1])
        if len(a) != len(b) or nrow <= 0 or len(a) % nrow:
            return False
        m = len(a) // nrow
        return all(cg(a[r * m:(r + 1) * m], b[r * m:(r + 1) * m]) for r in range(nrow))
    return cmp


def cmp_grid(impl, model):
    """first list: the dense grid k*Fs/N; second: utils.get_freqs = (k*(1/N))*Fs"""
    a, b = impl.split(' '), model.split(' ')
    if len(a) != 3 or len(b) != 3:
        return False
    return close_gen(parse_flist(a[1]), parse_flist(b[1])) and close_gen(parse_flist(a[2]), parse_flist(b[2]))


def mk_cmp_angles(mask, circle, tol=1e-6):
    def cmp(impl, model):
        if not (impl.startswith('ok ') and model.startswith('ok ')):
            return impl == model
        a, b = parse_flist(impl.split(' ')[-1]), parse_flist(model.split(' ')[-1])
        if len(a) != len(b) or len(a) != len(mask):
            return False
        for x, y, m in zip(a, b, mask):
            if not m:
                continue
            d = circ(x - y) if circle else abs(x - y)
            if not d <= tol:
                return False
        return True
    return cmp


# ------------------------------------------------------------------ scenarios
def make_scenarios(rng, tier, seed):
    nr = np_rng(PID, seed, 'data')
    big = tier == 'thorough'
    out = []
    n_long = 0
    for s in range(160 if big else 36):
        nch = rng.choice([2, 3, 4, 4, 5, 5])
        NFFT = rng.choice([8, 16, 16, 32, 64, 7, 15, 33] if not big else [8, 16, 32, 64, 64, 128, 7, 15, 33, 63])
        c = rng.random()
        if c < 0.12:
            n = rng.randrange(max(2, NFFT // 2), NFFT)            # shorter than NFFT: one zero-padded window
        elif c < 0.2:
            n = NFFT
        elif c < 0.28:
            n = NFFT + rng.randrange(1, 3)
        else:
            n = rng.choice([64, 96, 128, 200, 256] if not big else [64, 128, 256, 500, 1024, 2048])
        if big and n >= 1024 and NFFT < 32:
            NFFT = 64
        r_ = rng.random()
        nov = None if r_ < 0.3 else (0 if r_ < 0.42 else rng.randrange(0, NFFT))     # explicit 0 is a value, not "unset"
        if n > 256:
            # long records: the model's segment FFT is the naive O(NFFT^2) sum (array-backed reads), so keep the
            # number of segments of a long record near 60 and the number of long records per run bounded (the twiddle factors are recomputed per term)
            n_long += 1
            if n_long > 10:
                n = rng.choice([128, 200, 256])
            else:
                nch = min(nch, 4)
                min_step = min(NFFT, (n - NFFT) // 60 + 1)
                if nov is None and NFFT - NFFT // 2 < min_step:
                    nov = NFFT // 2
                if nov is not None and NFFT - nov < min_step:
                    nov = NFFT - min_step
        wk = rng.choice(['hann', 'hann', 'hamming', 'rand'])
        Fs = rng.choice([1.0, 2.0, 2 * math.pi, 10.0, 250.0, rng.uniform(0.1, 100)])
        # band: full, or off-grid edges
        df = Fs / NFFT
        nf = NFFT // 2 + 1
        if s % 6 == 5 and NFFT in (8, 16, 32, 64):
            # both frequency vectors are exact in binary64 (Fs a power of two, NFFT a power of two): edges exactly on a bin,
            # one ulp below / above it, ub on / above the Nyquist bin
            Fs = rng.choice([0.5, 1.0, 2.0, 8.0, 1024.0])
            df = Fs / NFFT
            i = rng.randrange(0, nf - 1)
            j = rng.randrange(i, nf)
            e = lambda k, d: k * df if d == 0 else float(np.nextafter(k * df, d * np.inf))
            lb = max(0.0, e(i, rng.choice([-1, 0, 1])))
            ub = rng.choice([e(j, rng.choice([-1, 0, 1])), e(nf - 1, 0), 1.5 * Fs / 2, None])
        elif rng.random() < 0.4:
            lb, ub = 0.0, None
        else:
            i = rng.randrange(0, nf - 1)
            j = rng.randrange(i + 1, nf + 1)
            lb = 0.0 if (i == 0 and rng.random() < 0.5) else (i - 0.5) * df if i > 0 else 0.0
            ub = None if (j == nf and rng.random() < 0.5) else (j - 0.5) * df
            lb = max(lb, 0.0)
        # pairs: random incl. self, reversed, repeated
        k = rng.randrange(1, 6)
        ij = [(rng.randrange(nch), rng.randrange(nch)) for _ in range(k)]
        if rng.random() < 0.4:
            a, b = ij[0]
            ij.append((b, a))
        if rng.random() < 0.3:
            ij.append(ij[0])
        if rng.random() < 0.3:
            a = rng.randrange(nch)
            ij.append((a, a))
        nseed = rng.choice([0, 1, 2, 2, 3])
        if nseed >= nch:
            nseed = 0
        data = gen_data(nr, nch, n)
        if rng.random() < 0.3:        # tiny / very different channel amplitudes: nothing may be floored at an epsilon
            data = data * np.array([10.0 ** rng.choice([-9, -7, -5, -3, 0, 3]) for _ in range(nch)])[:, None]
        sc = {'data': data.tolist(), 'NFFT': NFFT, 'nov': nov, 'win': wk,
              'winvals': None if wk == 'hann' else win_vals(wk, NFFT, nr), 'Fs': Fs,
              'lb': lb, 'ub': ub, 'ij': ij, 'sbf': rng.random() < 0.6, 'psm': rng.random() < 0.5, 'nseed': nseed}
        if wk != 'hann':
            set_wform(sc, WFORMS[s % len(WFORMS)], rng)
        if Fs in FS_UNITS and s % 3 != 0:
            sc['fsmode'] = ['series-ms', 'series-us', 'dict-wins'][(s // 3) % 3]
        out.append(sc)
    # the input-family block: every representation of the DATA x every way of giving the window (small, cheap scenarios)
    fam = 0
    for dv in DVARS:
        for wf in WFORMS + ['default']:
            fam += 1
            if not big and dv in ('F', 'strided', 'readonly', 'bigendian') and wf not in ('array', 'default', 'func'):
                continue
            nch = 2 + fam % 2
            NFFT = [8, 16, 7, 15][fam % 4]
            n = [4 * NFFT + 3, NFFT, NFFT - 2, 6 * NFFT][(fam // 4) % 4]
            X0 = gen_data(nr, nch, n)
            import histories
            v = histories.dtype_family(X0, kinds=(dv,))
            if not v:
                continue
            Xf = np.asarray(v[0][1]).astype(float)            # the values the variant holds, exactly
            Fs = [1.0, 250.0, 2 * math.pi, 10.0][fam % 4]
            nf = NFFT // 2 + 1
            if fam % 3 == 0:
                lb, ub = 0.0, None
            elif fam % 9 == 4:
                lb, ub = 0.0, 0.0                              # the DC bin alone: an explicit 0.0 is a value, not "unset"
            else:
                i = rng.randrange(0, nf - 1)
                lb, ub = max(0.0, (i - 0.5) * Fs / NFFT), (rng.randrange(i + 1, nf + 1) - 0.5) * Fs / NFFT
            sc = {'data': Xf.tolist(), 'dvar': dv, 'NFFT': NFFT, 'nov': [None, 0, NFFT // 2][fam % 3], 'win': 'hann' if wf == 'default' else 'hamming',
                  'winvals': None if wf == 'default' else win_vals('hamming', NFFT, nr), 'Fs': Fs, 'lb': lb, 'ub': ub,
                  'ij': [(0, 1), (1, 0), (nch - 1, nch - 1), (0, 1)], 'sbf': bool(fam % 2), 'psm': bool((fam // 2) % 2),
                  'nseed': [0, 1][fam % 2], 'light': True}
            if wf != 'default':
                set_wform(sc, wf, rng)
            sc['ijform'] = [None, 'tuple', 'lists', 'ndarray'][fam % 4]
            out.append(sc)
    out += label_scenarios(nr, big)
    out += scale_scenarios(nr, seed, big)
    return out


# ------------------------------------------------------------------ L10: extreme and lopsided magnitudes (power-of-two gains per channel)
# Coherency / coherence / phases are scale-free and the PSD scales by the squared gain, EXACTLY for power-of-two gains as long as nothing
# overflows or goes subnormal.  The quantifier is "where the dense path stays finite (and normal)": per scenario the dense spectra of the
# unscaled data give the largest exponent whose products Pxx*Pyy stay below 2^(1024 - margin) ('top') and the smallest one whose products
# stay 2^6 above the subnormal range ('bottom'); margin = 8 bits (+ 2 log2 Fs for scale_by_freq=False, whose normalisation has no dense
# counterpart and legitimately differs from the dense one by Fs^2).  A scenario whose dense reference on the scaled data is not finite or
# not equal (1e-9) to the dense reference on the unscaled data is dropped (SCALE_DROPPED).
SCALE_KINDS = ['top', 'p100', 'm250', 'top-lopsided', 'bottom', 'lop-250', 'p250', 'top', 'lop-30', 'm100', 'bottom-lopsided', 'top-lopsided', 'p255', 'm255']
SCALE_DROPPED = {}


def scale_scenarios(nr, seed, big):
    A = tsa()
    out = []
    SCALE_DROPPED.clear()
    kinds = SCALE_KINDS * (3 if big else 1)
    for k, kind in enumerate(kinds):
        k2 = k + seed
        nch = 3
        NFFT = [8, 16, 15, 7][k2 % 4]
        n = [4 * NFFT + 3, NFFT, 6 * NFFT][k2 % 3]
        Fs = [1000.0, 250.0, 1024.0, 1.0, 0.5][k2 % 5]
        sbf = True if (kind.startswith('top') and k % 2 == 0) or kind == 'lop-250' else bool(k2 % 2)      # lop-250 needs nearly the whole range: no room for the Fs^2 margin
        nf = NFFT // 2 + 1
        if k2 % 2:
            lb, ub = 0.0, None
        else:
            i = 1 + k2 % (nf - 2)
            lb, ub = (i - 0.5) * Fs / NFFT, (min(nf, i + 2 + k2 % 2) - 0.5) * Fs / NFFT
        X0 = gen_data(nr, nch, n)
        sc = {'data': X0.tolist(), 'NFFT': NFFT, 'nov': [None, 0, NFFT // 2][k2 % 3], 'win': 'hann' if k2 % 2 else 'hamming',
              'winvals': None if k2 % 2 else win_vals('hamming', NFFT, nr), 'Fs': Fs, 'lb': lb, 'ub': ub,
              'ij': [(0, 1), (1, 0), (2, 2), (1, 2), (0, 0)], 'sbf': sbf, 'psm': bool((k2 // 2) % 2), 'nseed': [1, 0, 2][k2 % 3], 'light': True}
        with np.errstate(all='ignore'):
            f, fxy = A.get_spectra(X0, method_of(sc, dense=True))
            f, c0 = A.coherency(X0, method_of(sc, dense=True))
        li = int(np.searchsorted(f, lb, 'left'))
        ui = len(f) if ub is None else int(np.searchsorted(f, ub, 'right'))
        P = np.array([np.real(fxy[a, a, li:ui]) for a in range(nch)])
        if not np.all(P > 0):
            SCALE_DROPPED[kind] = SCALE_DROPPED.get(kind, 0) + 1
            continue
        hi, lo = np.log2(P.max(axis=1)), np.log2(P.min(axis=1))
        extra = 0.0 if sbf else 2 * abs(math.log2(Fs))
        top = int(math.floor((1024 - 8 - extra - 2 * hi.max()) / 4))
        bot = int(math.ceil((-1022 + 6 + extra - 2 * lo.min()) / 4))
        ex = {'top': [top] * 3, 'top-lopsided': [top, top - 200 - k2 % 40, top - 30], 'bottom': [bot] * 3, 'bottom-lopsided': [bot, bot + 200 + k2 % 40, bot + 30],
              'p100': [100] * 3, 'm100': [-100] * 3, 'p250': [250] * 3, 'm250': [-250] * 3, 'p255': [255] * 3, 'm255': [-255] * 3,
              'lop-250': [250, -250, 0], 'lop-30': [0, -30, 0]}[kind]
        # fit into the quantifier: shift all gains down (up) until the largest (smallest) product is inside the margins
        pmax = max(hi[a] + hi[b] + 2 * (ex[a] + ex[b]) for a in range(3) for b in range(3))
        if pmax > 1024 - 8 - extra:
            d = int(math.ceil((pmax - (1024 - 8 - extra)) / 4))
            ex = [e - d for e in ex]
        pmin = min(lo[a] + lo[b] + 2 * (ex[a] + ex[b]) for a in range(3) for b in range(3))
        if pmin < -1022 + 6 + extra:
            d = int(math.ceil(((-1022 + 6 + extra) - pmin) / 4))
            ex = [e + d for e in ex]
            pmax = max(hi[a] + hi[b] + 2 * (ex[a] + ex[b]) for a in range(3) for b in range(3))
            if pmax > 1024 - 8 - extra:
                SCALE_DROPPED[kind] = SCALE_DROPPED.get(kind, 0) + 1
                continue
        X = X0 * np.array([2.0 ** e for e in ex])[:, None]
        with np.errstate(all='ignore'):
            f1, c1 = A.coherency(X, method_of(sc, dense=True))
        a_, b_ = c0[:, :, li:ui], c1[:, :, li:ui]
        if not (np.all(np.isfinite(np.abs(X))) and np.all(np.isfinite(np.abs(b_))) and np.abs(a_ - b_).max() <= 1e-9):
            SCALE_DROPPED[kind] = SCALE_DROPPED.get(kind, 0) + 1
            continue
        sc['data'] = X.tolist()
        sc['scale'] = kind
        sc['gains'] = ex
        sc['unscaled'] = X0.tolist()
        out.append(sc)
    return out



# ------------------------------------------------------------------ channel labels (wave 6: "labels attached to the wrong values") + quantifier corners
# DETERMINISTIC in every run (only the noise comes from the PRNG): channel counts 1..16 (+ 34, 40), pair lists that are sparse, unsorted,
# reversed, repeated, with gaps, with the largest index first, and -- from 9 channels on -- sets of channel indices that CPython does NOT
# iterate in increasing order ({1, 8} iterates as 8, 1; {33, 1, 2, 3, 4} as 33, 1, 2, 3, 4); every channel carries its OWN spectrum (its own
# dominant frequency, scale and delay of the common source), so a value under the wrong key / in the wrong (i, j) role is far from the dense value.
# The configuration corners of the quantifier are enumerated along the block: NFFT parity x {default, 0, NFFT-1, NFFT//2} overlap x
# {shorter than, equal to, one more than, many times} NFFT x {full band, band-limited} x both flags.
LABEL_PATTERNS = ['largest-first', 'gap-low-high', 'gap-high-low', 'high-self-then-low', 'reversed-repeated', 'descending', 'hash-wrap']


def label_pairs(nch, pat):
    h = nch - 1
    if nch == 1:
        return [(0, 0)]
    if pat == 'largest-first':
        return [(h, 0)]
    if pat == 'gap-low-high':
        return [(1 % nch, h)]
    if pat == 'gap-high-low':
        return [(h, 1 % nch)]
    if pat == 'high-self-then-low':
        return [(h, h // 3), (h, h)]
    if pat == 'reversed-repeated':
        return [(h // 2, h), (h, h // 2), (h // 2, h)]
    if pat == 'descending':
        return [(h, h - 1), (max(h - 2, 0), max(h - 3, 0)), (max(h - 3, 0), h)]
    if pat == 'hash-wrap':
        # a small set whose largest member wraps around CPython's 8-slot table in front of a smaller one
        for a in (h, h - 1):
            if a >= 8 and a % 8 < 7:
                return [(a % 8 + 1, a), (a, a)]
        if h >= 32:
            return [(h, 1), (2, 3), (4, h)]
        return [(h, 0), (0, h)]
    raise KeyError(pat)


def set_iteration(ij):
    """the order in which CPython iterates the set the cache functions build from ij (data for the model's bookkeeping)"""
    s_ = set()
    for i, j in ij:
        s_.add(int(i))
        s_.add(int(j))
    return [int(c) for c in s_]


def label_data(nr, nch, n):
    t = np.arange(n)
    src = nr.randn(n + 64)
    X = []
    for c in range(nch):
        f_c = (c + 1.0) / (2.0 * (nch + 1.0))                      # cycles / sample, strictly inside (0, 1/2): one per channel
        x = np.sin(2 * np.pi * f_c * t + 0.7 * c) + 0.6 * src[(3 * c) % 61:(3 * c) % 61 + n] + 0.3 * nr.randn(n)
        X.append((1.0 + 0.5 * c) * x)
    return np.array(X)


def label_scenarios(nr, big):
    out = []
    k = 0
    counts = list(range(1, 17)) + [34, 40]
    for nch in counts:
        npat = 1 if nch == 1 else 2 if nch < 9 else 3
        pats = [LABEL_PATTERNS[(nch + 3 * q) % 7] for q in range(npat)]
        if nch >= 9 and 'hash-wrap' not in pats:
            pats[-1] = 'hash-wrap'
        if nch > 16:
            pats = ['hash-wrap']
        for pat in pats:
            k += 1
            NFFT = [8, 15, 16, 7][k % 4]
            n = [4 * NFFT + 3, NFFT, NFFT - 2, 6 * NFFT, NFFT + 1][k % 5]
            if nch > 16:
                NFFT, n = 8, 32
            nov = [None, 0, NFFT - 1, NFFT // 2][(k // 2) % 4]
            Fs = [1.0, 250.0, 2 * math.pi, 10.0][(k // 3) % 4]
            nf = NFFT // 2 + 1
            if k % 3 == 0:
                lb, ub = 0.0, None
            else:
                i = (k // 3) % (nf - 1)
                j = i + 1 + (k // 5) % (nf - i)
                lb, ub = max(0.0, (i - 0.5) * Fs / NFFT), (j - 0.5) * Fs / NFFT
            ij = label_pairs(nch, pat)
            sc = {'data': label_data(nr, nch, n).tolist(), 'NFFT': NFFT, 'nov': nov, 'win': 'hann' if k % 2 else 'hamming',
                  'winvals': None if k % 2 else win_vals('hamming', NFFT, nr), 'Fs': Fs, 'lb': lb, 'ub': ub, 'ij': ij,
                  'sbf': bool((k // 2) % 2), 'psm': bool(k % 2), 'nseed': 0 if nch < 2 else [0, 1, 2, 3][k % 4] if nch > 3 else [0, 1][k % 2],
                  'light': True, 'labels': pat, 'setiter': set_iteration(ij)}
            if nch == 1:
                sc['noseed'] = True
            sc['ijform'] = [None, 'tuple', 'lists', 'ndarray'][(k // 4) % 4]
            out.append(sc)
    return out


DVARS = ['int16', 'int32', 'int64', 'uint8', 'float32', 'F', 'strided', 'readonly', 'bigendian']
WFORMS = ['array', 'list', 'float32', 'intarr', 'func', 'tuple']
FS_UNITS = {1.0: (1000.0, 1e6), 2.0: (500.0, 5e5), 10.0: (100.0, 1e5), 250.0: (4.0, 4000.0)}     # rate -> interval in ms, in us


def set_wform(sc, wf, rng):
    """how the window reaches cache_fft: sc['winvals'] always holds the VALUES (float64, exact) the given object denotes"""
    sc['wform'] = wf
    if wf == 'float32':
        sc['winvals'] = np.array(sc['winvals'], dtype=np.float32).astype(float).tolist()
    elif wf == 'intarr':
        sc['winvals'] = [float(rng.randrange(1, 7)) for _ in sc['winvals']]


def window_arg(sc):
    """the object put into method['window'] for the cache paths"""
    v = sc['winvals']
    wf = sc.get('wform', 'array')
    if wf == 'list':
        return [float(x) for x in v]
    if wf == 'tuple':
        return tuple(float(x) for x in v)
    if wf == 'float32':
        return np.array(v, dtype=np.float32)
    if wf == 'intarr':
        return np.array(v).astype(np.int64)
    if wf == 'func':
        return lambda x, h=np.array(v): h * x
    return np.array(v)


def ij_arg(sc):
    """the pair list in the form sc['ijform']: list of tuples (default), tuple of tuples, list of lists, integer ndarray"""
    ij = [tuple(p) for p in sc['ij']]
    f = sc.get('ijform')
    if f == 'tuple':
        return tuple(ij)
    if f == 'lists':
        return [list(p) for p in ij]
    if f == 'ndarray':
        return np.array(ij)
    return ij


def data_arg(sc):
    """the data in the representation sc['dvar'] (exactly the values of sc['data'])"""
    X = np.array(sc['data'], dtype=float)
    dv = sc.get('dvar')
    if dv is None:
        return X
    if dv in ('int16', 'int32', 'int64', 'uint8', 'float32'):
        return X.astype(dv)
    if dv == 'F':
        return np.asfortranarray(X)
    if dv == 'strided':
        big = np.zeros((X.shape[0], 2 * X.shape[1]))
        big[:, ::2] = X
        return big[:, ::2]
    if dv == 'readonly':
        X.flags.writeable = False
        return X
    if dv == 'bigendian':
        return X.astype('>f8')
    raise KeyError(dv)


def dt_class(sc):
    dv = sc.get('dvar')
    return 'int' if dv in ('int16', 'int32', 'int64', 'uint8') else 'f32' if dv == 'float32' else 'f64'


def method_of(sc, dense=False):
    """dense=True: the reference computation gets the window VALUES as a float64 array (mlab takes arrays and functions only)"""
    m = {'this_method': 'welch', 'NFFT': sc['NFFT'], 'Fs': sc['Fs']}
    if sc['nov'] is not None:
        m['n_overlap'] = sc['nov']
    if sc['winvals'] is not None:
        m['window'] = np.array(sc['winvals']) if dense else window_arg(sc)
    return m


def series_of(sc, X, fs=None):
    """the TimeSeries handed to an analyzer: rate given directly, or through a sampling interval in ms / us"""
    import nitime.timeseries as ts
    fs = sc['Fs'] if fs is None else fs
    fm = sc.get('fsmode')
    if fm == 'series-ms':
        return ts.TimeSeries(X, sampling_interval=FS_UNITS[fs][0], time_unit='ms')
    if fm == 'series-us':
        return ts.TimeSeries(X, sampling_interval=FS_UNITS[fs][1], time_unit='us')
    if fm == 'dict-wins':
        return ts.TimeSeries(X, sampling_rate=3.0 * fs, time_unit='ms')       # the explicit 'Fs' of the method dict overrides it
    return ts.TimeSeries(X, sampling_rate=fs)


def analyzer_method(sc):
    m = method_of(sc)
    if sc.get('fsmode') in ('series-ms', 'series-us'):
        del m['Fs']                                                           # the rate comes from the series alone
    return m


def nseg_of(sc, nov):
    n = len(sc['data'][0])
    L = max(n, sc['NFFT'])
    return (L - sc['NFFT']) // (sc['NFFT'] - nov) + 1


def impl_results(sc):
    A = tsa()
    import nitime.timeseries as ts
    from nitime.analysis import SparseCoherenceAnalyzer, SeedCoherenceAnalyzer
    X = np.array(sc['data'], dtype=float)
    Xv = data_arg(sc)
    ij = [tuple(p) for p in sc['ij']]
    R = {}
    kw = dict(lb=sc['lb'], ub=sc['ub'], prefer_speed_over_memory=sc['psm'], scale_by_freq=sc['sbf'])

    def cache_all(psm):
        k2 = dict(kw, prefer_speed_over_memory=psm)
        ija = ij_arg(sc)
        freqs, cache = A.cache_fft(Xv, ija, method=method_of(sc), **k2)
        chans = sorted({c for p in ij for c in p})
        coh = A.cache_to_coherency(cache, ija)
        psd = A.cache_to_psd(cache, ija)
        rel = A.cache_to_relative_phase(cache, ija)
        ph = A.cache_to_phase(cache, ija)
        nb_ = int(cache['FFT_slices'][chans[0]].shape[1])
        freqs = np.array(freqs)
        if len(freqs) != nb_:      # older trees return the full grid: cut the band the way cache_fft does
            import nitime.utils as U
            l_, u_ = U.get_bounds(freqs, sc['lb'], sc['ub'])
            freqs = freqs[l_:u_]
        lab = {}
        if sc.get('labels'):
            # which ROW of the recording lies under each key of the cache / of the returned dicts: the cached windows of channel d alone
            # (a one-element channel set has one iteration order) are the reference for FFT_slices[c] and Phase[c]
            lab['keys'] = {'fft': sorted(int(c) for c in cache['FFT_slices']), 'psd': sorted(int(c) for c in psd), 'phase': sorted(int(c) for c in ph)}
            ref_s, ref_p = [], []
            for d in range(Xv.shape[0]):
                _, c1 = A.cache_fft(Xv, [(d, d)], method=method_of(sc), **k2)
                ref_s.append(np.array(c1['FFT_slices'][d]))
                ref_p.append(np.asarray(A.cache_to_phase(c1, [(d, d)])[d]).reshape(-1))
            lab['fft'] = [attribute(c, [np.abs(np.asarray(cache['FFT_slices'][c]) - r_).max() for r_ in ref_s]) for c in chans]
            lab['phase'] = [attribute(c, [max(circ(v) for v in (np.asarray(ph[c]).reshape(-1) - r_)) for r_ in ref_p], 1e-9) for c in chans]
            lab['psd_rows'] = [np.real(np.asarray(psd[c])).reshape(-1) for c in chans]
        return {'freqs': np.array(freqs), 'lab': lab,
                'coherency': np.array([coh[i, j] for i, j in ij]).reshape(len(ij), -1),
                'psd': np.array([np.real(np.asarray(psd[c])).reshape(-1) for c in chans]),
                'relphase': np.real(np.array([rel[i, j] for i, j in ij])).reshape(len(ij), -1),
                'phase': np.array([np.asarray(ph[c]).reshape(-1) for c in chans]),
                'nslices': int(cache['FFT_slices'][chans[0]].shape[0])}
    R['cache'] = run(lambda: cache_all(sc['psm']))
    R['cache_other'] = run(lambda: cache_all(not sc['psm']))

    def sparse():
        T = series_of(sc, Xv)
        S = SparseCoherenceAnalyzer(T, ij_arg(sc), method=analyzer_method(sc), **kw)
        coh = np.asarray(S.coherency)
        out = {'coherency': np.array([coh[i, j] for i, j in ij]).reshape(len(ij), -1),
               'coherence': np.array([np.asarray(S.coherence)[i, j] for i, j in ij]).reshape(len(ij), -1),
               'relphase': np.array([np.asarray(S.relative_phases)[i, j] for i, j in ij]).reshape(len(ij), -1),
               'frequencies': np.asarray(S.frequencies)}
        if sc.get('labels') or sc.get('scale'):
            chans = sorted({c for p in ij for c in p})
            sp, ph = S.spectrum, S.phases
            out['spectrum'] = np.array([np.real(np.asarray(sp[c])).reshape(-1) for c in chans])
            out['phases'] = np.array([np.asarray(ph[c]).reshape(-1) for c in chans])
            dl = np.asarray(S.delay)
            out['delay'] = np.array([dl[i, j] for i, j in ij]).reshape(len(ij), -1)
        return out
    R['sparse'] = run(sparse)

    def seed():
        ns = sc['nseed']
        sd = Xv[0] if ns == 0 else Xv[:ns]
        tg = Xv[max(ns, 1):]
        S = SeedCoherenceAnalyzer(series_of(sc, sd), series_of(sc, tg), method=analyzer_method(sc), **kw)
        return {'coherency': np.asarray(S.coherency), 'frequencies': np.asarray(S.frequencies)}
    R['seed'] = 'skipped' if sc.get('noseed') else run(seed)
    # dense reference (the oracle's side)
    R['dense'] = run(lambda: A.get_spectra(X, method_of(sc, dense=True)))
    R['dense_coh'] = run(lambda: A.coherency(X, method_of(sc, dense=True)))
    if X.shape[0] == 1:
        # one channel: the dense functions squeeze the (1, 1, f) result
        for k_ in ('dense', 'dense_coh'):
            if not isinstance(R[k_], str) and np.asarray(R[k_][1]).ndim == 1:
                R[k_] = (R[k_][0], np.asarray(R[k_][1]).reshape(1, 1, -1))
    return R


# ------------------------------------------------------------------ cases
def win_tok(sc, dense=False):
    """cache side: how the window was given + the dtype class of the data (the model resolves it as the source does);
    dense side: the values"""
    if dense:
        return 'hann' if sc['winvals'] is None else flist(sc['winvals'])
    dt = dt_class(sc)
    if sc['winvals'] is None:
        return 'hann/' + dt
    return '%s/%s/%s' % ('f' if sc.get('wform') == 'func' else 'a', dt, flist(sc['winvals']))


def head(sc, dflt):
    nov = dflt if sc['nov'] is None else str(sc['nov'])
    return '%d %s %s %s' % (sc['NFFT'], nov, f2x(sc['Fs']), win_tok(sc, dense=(dflt == 'dfunc')))


def attribute(own, dist, tol=0.0):
    """the channel whose reference is nearest; the key's own channel when it is (as good as) nearest -- a band of one real bin cannot tell channels apart"""
    dist = [float(d) if np.isfinite(d) else np.inf for d in dist]
    return int(own) if own < len(dist) and dist[own] <= min(dist) + tol * max(1.0, min(dist)) else int(np.argmin(dist))


def label_attribution(sc, R):
    """for every requested channel c (sorted): the row of the recording whose cached windows / dense PSD / phase the value under key c is"""
    c = R['cache']
    lab = c.get('lab') or {}
    out = {'fft': lab.get('fft'), 'phase': lab.get('phase'), 'psd': None}
    d = R['dense']
    if not isinstance(d, str) and lab.get('psd_rows') is not None:
        f, fxy = d
        li = int(np.searchsorted(f, sc['lb'], 'left'))
        ui = len(f) if sc['ub'] is None else int(np.searchsorted(f, sc['ub'], 'right'))
        nch = len(sc['data'])
        ref = [np.real(fxy[a, a, li:ui]) * (1.0 if sc['sbf'] else sc['Fs']) for a in range(nch)]
        att = []
        chans_ = sorted({x for p in sc['ij'] for x in p})
        for row in lab['psd_rows']:
            dist = [np.abs(row - r_).max() / max(np.abs(r_).max(), 1e-300) if row.shape == r_.shape else np.inf for r_ in ref]
            att.append(attribute(chans_[len(att)], dist, 1e-9))
        out['psd'] = att
    return out


def cases_of(sc, R, si):
    out = []
    X = np.array(sc['data'], dtype=float)
    ijt = ';'.join('%d:%d' % tuple(p) for p in sc['ij'])
    ubt = 'none' if sc['ub'] is None else f2x(sc['ub'])
    pre = 'C09 cache %%s %s %d %d %s %s %s %s' % (head(sc, 'dcache'), sc['sbf'], sc['psm'], f2x(sc['lb']), ubt, ijt, ' '.join(flist(x) for x in X))
    meta = lambda obs: {'sc': si, 'obs': obs}
    f32w = sc.get('wform') == 'float32'
    cmp_last_ = cmp_last_single if f32w else cmp_last
    atol = 1e-3 if f32w else 1e-6
    c = R['cache']
    nf = sc['NFFT'] // 2 + 1
    if isinstance(c, str):
        out.append(Case(pre % 'coherency', c, 'cache/error', meta=meta('error')))
    else:
        fr = c['freqs']          # the frequencies of the cached band
        fdense = np.arange(nf) * sc['Fs'] / sc['NFFT']
        li = int(np.searchsorted(fdense, sc['lb'], 'left'))
        out.append(Case(pre % 'freqs', 'ok ' + flist(fr), 'cache/freqs', cmp=either(cmp_last_), meta=meta('freqs')))
        out.append(Case(pre % 'coherency', 'ok ' + clist(c['coherency'].reshape(-1)), 'cache/coherency', cmp=either(cmp_last_), meta=meta('coherency')))
        out.append(Case(pre % 'psd', 'ok ' + flist(c['psd'].reshape(-1)), 'cache/psd', cmp=mk_cmp_rows(c['psd'].shape[0], SINGLE if f32w else None), meta=meta('psd')))
        nb = c['coherency'].shape[1]
        # phase comparisons: all bins for one window (on the circle); interior bins for several windows
        edge = [(li + t == 0) or (sc['NFFT'] % 2 == 0 and li + t == sc['NFFT'] // 2) for t in range(nb)]
        single = c['nslices'] == 1
        mag = np.abs(c['coherency'])
        m_rel = [(single or not edge[t]) and np.isfinite(mag[p, t]) for p in range(len(sc['ij'])) for t in range(nb)]
        out.append(Case(pre % 'relphase', 'ok ' + flist(c['relphase'].reshape(-1)), 'cache/relphase',
                        cmp=either(mk_cmp_angles(m_rel, circle=single, tol=atol)), meta=meta('relphase')))
        nchu = c['phase'].shape[0]
        m_ph = [(single or not edge[t]) for _ in range(nchu) for t in range(nb)]
        out.append(Case(pre % 'phase', 'ok ' + flist(c['phase'].reshape(-1)), 'cache/phase',
                        cmp=either(mk_cmp_angles(m_ph, circle=single, tol=atol)), meta=meta('phase')))
    s = R['sparse']
    if isinstance(s, str):
        out.append(Case(pre % 'coherency', s, 'sparse/error', meta=meta('sparse-error')))
    else:
        out.append(Case(pre % 'coherency', 'ok ' + clist(s['coherency'].reshape(-1)), 'sparse/coherency', cmp=either(cmp_last_), meta=meta('sparse-coherency')))
    sd = R['seed']
    ns = sc['nseed']
    line = 'C09 seed %s %d %d %s %s %d %s' % (head(sc, 'dcache'), sc['sbf'], sc['psm'], f2x(sc['lb']), ubt, ns, ' '.join(flist(x) for x in X))
    if not sc.get('noseed'):
        out.append(Case(line, sd if isinstance(sd, str) else 'ok ' + clist(np.asarray(sd['coherency']).reshape(-1)), 'seed/coherency',
                        cmp=either(cmp_last_), meta=meta('seed')))
    # the channel bookkeeping (model: Model/C09Keys.lean with the generated key / fill orderings): which ROW of the recording lies under
    # each key of cache['FFT_slices'], of cache_to_psd's and of cache_to_phase's dict; the set's iteration order is data
    if sc.get('labels') and not isinstance(c, str):
        att = label_attribution(sc, R)
        chans = sorted({x for p in sc['ij'] for x in p})
        it = ','.join(str(v) for v in sc['setiter'])
        for fn, key in (('cache_fft', 'fft'), ('cache_to_psd', 'psd'), ('cache_to_phase', 'phase')):
            if att.get(key) is None:
                continue
            impl = 'ok ' + ' '.join('%d=%d' % (c_, d_) for c_, d_ in zip(chans, att[key]))
            if c['lab']['keys'][key] != chans:
                impl = 'keys ' + ','.join(str(v) for v in c['lab']['keys'][key])
            out.append(Case('C09 keyed %s %s %s' % (fn, it, ijt), impl, 'keyed/' + fn, meta=meta('keyed-' + key)))
    # the two frequency formulas of the generic model: k*Fs/N against the dense grid, the linspace text against utils.get_freqs
    if not isinstance(R['dense'], str):
        import nitime.utils as U
        fd = np.asarray(R['dense'][0])
        out.append(Case('C09 grid %s %d' % (f2x(sc['Fs']), sc['NFFT']), 'ok %s %s' % (flist(fd), flist(U.get_freqs(sc['Fs'], sc['NFFT']))),
                        'grid/formulas', cmp=cmp_grid, meta=meta('grid')))
    # the dense side of the refinement, on the band the dense grid selects
    d = R['dense_coh']
    if not isinstance(d, str):
        f, cden = d
        li = int(np.searchsorted(f, sc['lb'], 'left'))
        ui = len(f) if sc['ub'] is None else int(np.searchsorted(f, sc['ub'], 'right'))
        vals = np.array([cden[i, j, li:ui] for i, j in sc['ij']])
        if np.all(np.isfinite(np.abs(vals))):
            line = 'C09 dense %s %s %s %s %s' % (head(sc, 'dfunc'), f2x(sc['lb']), ubt, ijt, ' '.join(flist(x) for x in X))
            out.append(Case(line, 'ok ' + clist(vals.reshape(-1)), 'dense/coherency', cmp=cmp_last, meta=meta('dense')))
    return out


_SC = {}


def cases(rng, tier, seed):
    scs = make_scenarios(rng, tier, seed)
    out = []
    _SC.clear()
    _SC.update({'list': scs, 'res': []})
    for si, sc in enumerate(scs):
        R = impl_results(sc)
        _SC['res'].append(R)
        out += cases_of(sc, R, si)
    # round 2: failure paths and aliasing
    r2 = r2_scenarios(rng, tier, seed)
    _R2.clear()
    _R2.update({'list': r2, 'res': []})
    for si, sc in enumerate(r2):
        R = r2_run(sc)
        _R2['res'].append(R)
        out += r2_cases(sc, R, si)
    return out


# ------------------------------------------------------------------ oracle: the dense implementation
def cfg_class(sc, nslices):
    fam = ''
    if sc.get('dvar'):
        fam += '/%s-data' % sc['dvar']
    if sc.get('wform') not in (None, 'array'):
        fam += '/window-as-%s' % sc['wform']
    if sc.get('labels'):
        fam += '/pairs-%s' % sc['labels']
    if sc.get('scale'):
        fam += '/scale-%s' % sc['scale']
    return '%s-nfft/%s-overlap/%s/%s%s' % ('even' if sc['NFFT'] % 2 == 0 else 'odd',
                                         'default' if sc['nov'] is None else 'explicit',
                                         'full-band' if (sc['lb'] == 0 and sc['ub'] is None) else 'band-limited',
                                         'single-window' if nslices == 1 else 'multi-window', fam)


def sd_ok(R):
    return not isinstance(R.get('seed'), str) and R.get('seed') is not None


def judge(sc, R):
    fails = []
    X = np.array(sc['data'], dtype=float)
    ij = [tuple(p) for p in sc['ij']]
    d, dc = R['dense'], R['dense_coh']
    c = R['cache']
    if isinstance(d, str) or isinstance(dc, str):
        return fails
    if isinstance(c, str):
        fails.append(('cache/raises', 'cache_fft / cache_to_* raised %s where the dense path works' % c, 'error'))
        return fails
    f, fxy = d
    cden = dc[1]
    li = int(np.searchsorted(f, sc['lb'], 'left'))
    ui = len(f) if sc['ub'] is None else int(np.searchsorted(f, sc['ub'], 'right'))
    cls = cfg_class(sc, c['nslices'])
    tol = SINGLE if sc.get('wform') == 'float32' else 1e-9

    def differs(a, b):
        a, b = np.asarray(a), np.asarray(b)
        if a.shape != b.shape:
            return 'shape %s vs dense %s' % (a.shape, b.shape)
        if a.ndim == 2 and a.shape[0] > 1:      # row by row: channels / pairs may differ in scale by any factor
            for r_ in range(a.shape[0]):
                w_ = differs(a[r_], b[r_])
                if w_:
                    return 'row %d: %s' % (r_, w_)
            return None
        fin = np.isfinite(np.abs(a)) & np.isfinite(np.abs(b))
        if not np.array_equal(np.isfinite(np.abs(a)), np.isfinite(np.abs(b))):
            return 'non-finite pattern differs'
        if not fin.any():
            return None
        sc_ = max(np.abs(a[fin]).max(), np.abs(b[fin]).max(), 1e-300)
        e = np.abs(a[fin] - b[fin]).max()
        return None if e <= tol * sc_ else 'max difference %.3g (scale %.3g)' % (e, sc_)

    # frequencies
    w = differs(c['freqs'], f[li:ui])
    if w:
        fails.append(('freqs/%s/ne-dense' % cls, 'cached frequencies differ from the dense grid: ' + w, 'freqs'))
    s = R['sparse']
    if not isinstance(s, str):
        w = differs(s['frequencies'], f[li:ui])
        if w:
            fails.append(('sparse-freqs/%s/ne-dense' % cls, 'SparseCoherenceAnalyzer.frequencies differ from the dense grid: ' + w, 'freqs'))
    # coherency for every requested pair
    want = np.array([cden[i, j, li:ui] for i, j in ij]).reshape(len(ij), -1)
    w = differs(c['coherency'], want)
    if w:
        fails.append(('coherency/%s/ne-dense' % cls, 'cache_to_coherency differs from coherency(): ' + w, 'coherency'))
    if not isinstance(s, str):
        w = differs(s['coherency'], want)
        if w:
            fails.append(('sparse-coherency/%s/ne-dense' % cls, 'SparseCoherenceAnalyzer.coherency differs from coherency(): ' + w, 'sparse-coherency'))
        w = differs(s['coherence'], np.abs(want) ** 2)
        if w:
            fails.append(('sparse-coherence/%s/ne-dense' % cls, 'SparseCoherenceAnalyzer.coherence differs from |coherency()|^2: ' + w, 'sparse-coherency'))
    elif True:
        fails.append(('sparse/raises', 'SparseCoherenceAnalyzer raised ' + s, 'sparse-error'))
    # power spectra
    chans = sorted({x for p in ij for x in p})
    wantp = np.array([np.real(fxy[a, a, li:ui]) for a in chans]).reshape(len(chans), -1) * (1.0 if sc['sbf'] else sc['Fs'])
    w = differs(c['psd'], wantp)
    if w:
        fails.append(('psd/%s/ne-dense' % cls, 'cache_to_psd differs from the dense PSD: ' + w, 'psd'))
    if sc.get('labels'):
        # labels: every value sits under the key of ITS channel / pair (each channel has its own spectrum)
        att = label_attribution(sc, R)
        for key, fn in (('fft', 'cache_fft'), ('psd', 'cache_to_psd'), ('phase', 'cache_to_phase')):
            if c['lab']['keys'][key] != chans:
                fails.append(('labels/%s/%s/wrong-key-set' % (fn, cls), '%s: keys %s, requested channels %s' % (fn, c['lab']['keys'][key], chans), 'keyed-' + key))
            elif att.get(key) is not None and att[key] != chans:
                bad_ = [(k_, a_) for k_, a_ in zip(chans, att[key]) if k_ != a_]
                fails.append(('labels/%s/%s/value-of-another-channel' % (fn, cls),
                              '%s with ij=%s: the value under key %d is the one of channel %d' % (fn, ij, bad_[0][0], bad_[0][1]), 'keyed-' + key))
        if not isinstance(s, str) and 'spectrum' in s:
            w = differs(s['spectrum'], wantp)
            if w:
                fails.append(('sparse-spectrum/%s/ne-dense' % cls, 'SparseCoherenceAnalyzer.spectrum differs from the dense PSD of the channel it is keyed by: ' + w, 'psd'))
            if s['phases'].shape != c['phase'].shape or not np.array_equal(np.nan_to_num(s['phases']), np.nan_to_num(c['phase'])):
                fails.append(('sparse-phases/%s/ne-cache' % cls, 'SparseCoherenceAnalyzer.phases differ from cache_to_phase on the same input', 'phase'))
            fr_ = f[li:ui]
            with np.errstate(all='ignore'):
                wd = np.angle(want) / (2 * np.pi * fr_)
            okm = np.isfinite(wd) & (np.abs(want) > 1e-6) & (np.abs(np.abs(np.angle(want)) - np.pi) > 1e-6)
            if s['delay'].shape == wd.shape and okm.any() and np.abs(s['delay'][okm] - wd[okm]).max() > 1e-6 * max(1.0, np.abs(wd[okm]).max()):
                fails.append(('sparse-delay/%s/ne-dense' % cls, 'SparseCoherenceAnalyzer.delay differs from angle(dense coherency)/(2 pi f) for the pair it is indexed by', 'sparse-coherency'))
    if sc.get('scale'):
        # power-of-two gains per channel: coherency / coherence / relative phases are those of the UNSCALED recording (exactly, up to the rounding
        # of the path), the PSD is the unscaled PSD times the squared gain; Sparse .spectrum / .phases follow the cache functions
        X0 = np.array(sc['unscaled'], dtype=float)
        with np.errstate(all='ignore'):
            _f0, c0 = tsa().coherency(X0, method_of(sc, dense=True))
            _f0, p0 = tsa().get_spectra(X0, method_of(sc, dense=True))
        want0 = np.array([c0[i, j, li:ui] for i, j in ij]).reshape(len(ij), -1)
        gdesc = 'gains 2^%s per channel' % sc['gains']
        for nm, got in (('coherency', c['coherency']), ('sparse-coherency', None if isinstance(s, str) else s['coherency'])):
            w = None if got is None else differs(got, want0)
            if w:
                fails.append(('%s/%s/ne-unscaled-dense' % (nm, cls), '%s on data with %s differs from coherency() of the unscaled data: %s' % (nm, gdesc, w), nm))
        if not isinstance(s, str):
            w = differs(s['coherence'], np.abs(want0) ** 2)
            if w:
                fails.append(('sparse-coherence/%s/ne-unscaled-dense' % cls, 'SparseCoherenceAnalyzer.coherence on data with %s differs from |coherency()|^2 of the unscaled data: %s' % (gdesc, w), 'sparse-coherency'))
        wantp0 = np.array([np.real(p0[a, a, li:ui]) * 4.0 ** sc['gains'][a] for a in chans]).reshape(len(chans), -1) * (1.0 if sc['sbf'] else sc['Fs'])
        w = differs(c['psd'], wantp0)
        if w:
            fails.append(('psd/%s/ne-scaled-unscaled-dense' % cls, 'cache_to_psd on data with %s differs from gain^2 x the dense PSD of the unscaled data: %s' % (gdesc, w), 'psd'))
        if not isinstance(s, str) and 'spectrum' in s:
            w = differs(s['spectrum'], wantp)
            if w:
                fails.append(('sparse-spectrum/%s/ne-dense' % cls, 'SparseCoherenceAnalyzer.spectrum differs from the dense PSD: ' + w, 'psd'))
            if s['phases'].shape != c['phase'].shape or not np.array_equal(np.nan_to_num(s['phases']), np.nan_to_num(c['phase'])):
                fails.append(('sparse-phases/%s/ne-cache' % cls, 'SparseCoherenceAnalyzer.phases differ from cache_to_phase on the same input', 'phase'))
        if sd_ok(R):
            nsd_ = max(sc['nseed'], 1)
            ws0 = np.array([[c0[a, b, li:ui] for b in range(nsd_, X.shape[0])] for a in range(nsd_)])
            got = np.asarray(R['seed']['coherency'])
            w = differs(got.reshape(-1), ws0.reshape(-1)) if got.size == ws0.size else 'size'
            if w:
                fails.append(('seed/%s/ne-unscaled-dense' % cls, 'SeedCoherenceAnalyzer.coherency on data with %s differs from the dense rows of the unscaled data: %s' % (gdesc, w), 'seed'))
        # the phases of the cache are scale-free too
        with np.errstate(all='ignore'):
            _fq, cq = tsa().cache_fft(X0, ij_arg(sc), method=method_of(sc), lb=sc['lb'], ub=sc['ub'], prefer_speed_over_memory=sc['psm'], scale_by_freq=sc['sbf'])
            rel0 = tsa().cache_to_relative_phase(cq, ij_arg(sc))
        rel0 = np.real(np.array([rel0[i, j] for i, j in ij])).reshape(len(ij), -1)
        if rel0.shape != c['relphase'].shape or max([circ(v) for v in (rel0 - c['relphase']).reshape(-1)] + [0.0]) > 1e-6:
            fails.append(('relphase/%s/ne-unscaled' % cls, 'cache_to_relative_phase on data with %s differs from the one of the unscaled data' % gdesc, 'relphase'))
    # relative phase: single window against the dense angle
    if c['nslices'] == 1 and c['relphase'].shape == want.shape:
        dang = np.angle(np.array([fxy[min(i, j), max(i, j), li:ui] if i <= j else np.conj(fxy[j, i, li:ui]) for i, j in ij]).reshape(len(ij), -1))
        big = np.abs(want) > 1e-6
        e = np.array([circ(x) for x in (c['relphase'] - dang)[big & np.isfinite(np.abs(want))]])
        if e.size and e.max() > (1e-3 if sc.get('wform') == 'float32' else 1e-6):
            fails.append(('relphase/%s/ne-dense-angle' % cls, 'cache_to_relative_phase differs from the angle of the dense cross-spectrum by %.3g' % e.max(), 'relphase'))
    # both memory settings
    o = R['cache_other']
    if isinstance(o, str):
        fails.append(('memory-setting/raises', 'the other prefer_speed_over_memory setting raised ' + o, 'coherency'))
    else:
        for k in ('coherency', 'psd', 'relphase', 'phase'):
            if not np.array_equal(np.nan_to_num(c[k]), np.nan_to_num(o[k])):
                fails.append(('memory-setting/%s/differs' % k, 'prefer_speed_over_memory changes %s' % k, k))
    if not sc.get('light'):
        sparse_reuse_checks(sc, fails.append)
        cache_identity_checks(sc, fails.append)
        cache_history_checks(sc, fails.append)
    # seed rows against the dense result on the stacked channels
    sd = R['seed']
    ns = sc['nseed']
    if sc.get('noseed'):
        pass
    elif isinstance(sd, str):
        fails.append(('seed/raises', 'SeedCoherenceAnalyzer raised ' + sd, 'seed'))
    else:
        nsd = max(ns, 1)
        ws = np.array([[cden[a, b, li:ui] for b in range(nsd, X.shape[0])] for a in range(nsd)])
        w = differs(np.asarray(sd['coherency']).reshape(-1), ws.reshape(-1)) if np.asarray(sd['coherency']).size == ws.size else \
            'size %d vs dense %d' % (np.asarray(sd['coherency']).size, ws.size)
        if w:
            fails.append(('seed/%s/ne-dense' % cls, 'SeedCoherenceAnalyzer.coherency differs from the dense rows: ' + w, 'seed'))
        w = differs(sd['frequencies'], f[li:ui])
        if w:
            fails.append(('seed-freqs/%s/ne-dense' % cls, 'SeedCoherenceAnalyzer.frequencies differ from the dense grid: ' + w, 'seed'))
    return fails


def sparse_reuse_checks(sc, bad):
    """ONE SparseCoherenceAnalyzer re-targeted with set_input = the dense path on the new data (default method with
    the sampling rate following the input, and a user method dict with explicit Fs / NFFT), both read orders"""
    A = tsa()
    import nitime.timeseries as ts
    from nitime.analysis import SparseCoherenceAnalyzer
    X = np.array(sc['data'], dtype=float)
    X2 = c08.partner(X)
    ij = [tuple(p) for p in sc['ij']]
    Fs = sc['Fs']
    variants = [('explicit-method', lambda: method_of(sc), Fs, sc['lb'], sc['ub']),
                ('default-method', lambda: None, 2.0 * Fs, 0.0, None)]
    for vname, mk, Fs2, lb, ub in variants:
        m_exp = (method_of(sc, dense=True) if mk() else None) or {'this_method': 'welch', 'Fs': Fs2}
        want = run(lambda: A.coherency(X2, dict(m_exp)))
        if isinstance(want, str):
            continue
        f, cden = want
        li = int(np.searchsorted(f, lb, 'left'))
        ui = len(f) if ub is None else int(np.searchsorted(f, ub, 'right'))
        wc = np.array([cden[i, j, li:ui] for i, j in ij]).reshape(len(ij), -1)
        for order in ('values-first', 'frequencies-first'):
            names = ('coherency', 'spectrum', 'frequencies') if order == 'values-first' else ('frequencies', 'spectrum', 'coherency')

            def go():
                S = SparseCoherenceAnalyzer(ts.TimeSeries(X, sampling_rate=Fs), ij, method=mk(), lb=lb, ub=ub,
                                            prefer_speed_over_memory=sc['psm'], scale_by_freq=sc['sbf'])
                for a in names:
                    getattr(S, a)
                S.set_input(ts.TimeSeries(X2, sampling_rate=Fs2))
                coh = np.asarray(S.coherency) if order == 'values-first' else None
                fr = np.asarray(S.frequencies)
                coh = np.asarray(S.coherency) if coh is None else coh
                return np.array([coh[i, j] for i, j in ij]).reshape(len(ij), -1), fr
            got = run(go)
            if isinstance(got, str):
                bad(('sparse-reuse/%s/%s/raises' % (vname, order), 'a re-targeted SparseCoherenceAnalyzer raised ' + got, 'sparse-coherency'))
                continue
            if not c08.same(got[0], wc):
                bad(('sparse-reuse/%s/%s/stale-coherency' % (vname, order),
                     'SparseCoherenceAnalyzer re-targeted with set_input: .coherency differs from coherency() on the new data', 'sparse-coherency'))
            if not c08.same(got[1], f[li:ui]):
                bad(('sparse-reuse/%s/%s/stale-frequencies' % (vname, order),
                     'SparseCoherenceAnalyzer re-targeted with set_input: .frequencies differ from the dense grid of the new input', 'sparse-coherency'))


def cache_history_checks(sc, bad):
    """process histories (L2) and handed-out results (L6): ONE cache queried again and again -- other pair lists, after
    cache_to_psd / the phases -- with everything handed out so far (frequency vector included) overwritten in place, and
    another cache_fft call with other pairs / band / flags in between; then the first query again, on the same cache and
    on a fresh one.  Analyzers: all results of one analyzer overwritten, then a NEW analyzer on the same series."""
    import histories
    A = tsa()
    from nitime.analysis import SparseCoherenceAnalyzer, SeedCoherenceAnalyzer
    X = np.array(sc['data'], dtype=float)
    ij = [tuple(p) for p in sc['ij']]
    chans = sorted({c for p in ij for c in p})
    kw = dict(lb=sc['lb'], ub=sc['ub'], prefer_speed_over_memory=sc['psm'], scale_by_freq=sc['sbf'])
    pick = lambda c_: np.array([c_[i, j] for i, j in ij])
    pickp = lambda p_: np.array([np.real(np.asarray(p_[c])).reshape(-1) for c in chans])

    def go():
        f, cache = A.cache_fft(X, ij, method=method_of(sc), **kw)
        c1 = A.cache_to_coherency(cache, ij)
        p1 = A.cache_to_psd(cache, ij)
        r1 = A.cache_to_relative_phase(cache, ij)
        h1 = A.cache_to_phase(cache, ij)
        first = (pick(c1).copy(), pickp(p1).copy(), np.array(f, copy=True), pick(r1).copy())
        rev = [(b, a) for a, b in ij]
        others = [A.cache_to_coherency(cache, ij[:1]), A.cache_to_coherency(cache, rev), A.cache_to_psd(cache, rev),
                  A.cache_to_relative_phase(cache, rev)]
        f2, cache2 = A.cache_fft(X, rev + [(chans[0], chans[0])], lb=0, ub=None, method=method_of(sc),
                                 prefer_speed_over_memory=not sc['psm'], scale_by_freq=not sc['sbf'])
        others.append(A.cache_to_psd(cache2, rev))
        for h in [c1, p1, r1, h1, f, f2] + others:
            histories.scribble(h)
        again = (pick(A.cache_to_coherency(cache, ij)), pickp(A.cache_to_psd(cache, ij)), None, pick(A.cache_to_relative_phase(cache, ij)))
        f3, cache3 = A.cache_fft(X, ij, method=method_of(sc), **kw)
        fresh = (pick(A.cache_to_coherency(cache3, ij)), pickp(A.cache_to_psd(cache3, ij)), np.array(f3), pick(A.cache_to_relative_phase(cache3, ij)))
        return first, again, fresh
    r = run(go)
    if isinstance(r, str):
        bad(('cache-history/raises', 'a cache queried repeatedly raised ' + r, 'coherency'))
    else:
        first, again, fresh = r
        names = ('coherency', 'psd', 'freqs', 'relphase')
        for k, nm in enumerate(names):
            if again[k] is not None and not c08.same(np.nan_to_num(again[k]), np.nan_to_num(first[k]), 1e-12):
                bad(('cache-history/%s/requery-differs' % nm, 'cache_to_%s on the SAME cache, after other pair lists / cache_to_psd / phases were read and every '
                     'result handed out was overwritten in place, differs from its first answer' % nm, nm if nm != 'freqs' else 'freqs'))
            if not c08.same(np.nan_to_num(fresh[k]), np.nan_to_num(first[k]), 1e-12):
                bad(('cache-history/%s/fresh-cache-differs' % nm, '%s from a fresh cache_fft call after that history differs from the first answer' % nm,
                     nm if nm != 'freqs' else 'freqs'))
    # analyzers: scribble on everything one analyzer handed out, then a NEW analyzer with an equal method dict
    ns = sc['nseed']
    sd, tg = (X[0] if ns == 0 else X[:ns]), X[max(ns, 1):]

    def sparse_twice():
        outs = []
        for rnd in range(2):
            S = SparseCoherenceAnalyzer(series_of(sc, X), ij, method=analyzer_method(sc), **kw)
            got = [S.coherency, S.spectrum, S.frequencies, S.relative_phases, S.coherence]
            outs.append((pick(np.asarray(got[0])).copy(), np.array(got[2], copy=True)))
            for g in got:
                histories.scribble(g)
        return outs

    def seed_twice():
        outs = []
        for rnd in range(2):
            S = SeedCoherenceAnalyzer(series_of(sc, sd), series_of(sc, tg), method=analyzer_method(sc), **kw)
            got = [S.coherency, S.frequencies, S.coherence, S.relative_phases]
            outs.append((np.array(got[0], copy=True), np.array(got[1], copy=True)))
            for g in got:
                histories.scribble(g)
        return outs
    for nm, fn in (('sparse', sparse_twice), ('seed', seed_twice)):
        r = run(fn)
        if isinstance(r, str):
            continue
        if not c08.same(np.nan_to_num(r[0][0]), np.nan_to_num(r[1][0]), 1e-12) or not c08.same(r[0][1], r[1][1], 0.0):
            bad(('%s-history/new-analyzer-after-scribble-differs' % nm, 'a NEW %sCoherenceAnalyzer, built after every result of an earlier one was overwritten '
                 'in place, reports other coherency / frequencies than the earlier one did' % nm.capitalize(), 'sparse-coherency' if nm == 'sparse' else 'seed'))


def cache_identity_checks(sc, bad):
    A = tsa()
    ij = [tuple(p) for p in sc['ij']]
    chans = sorted({c for p in ij for c in p})
    kw = dict(lb=sc['lb'], ub=sc['ub'], prefer_speed_over_memory=sc['psm'], scale_by_freq=sc['sbf'])

    def coh(X_, m_):
        f_, cache = A.cache_fft(X_, ij, method=m_, **kw)
        c_ = A.cache_to_coherency(cache, ij)
        return np.array(f_), np.array([c_[i, j] for i, j in ij])

    def psd(X_, m_):
        f_, cache = A.cache_fft(X_, ij, method=m_, **kw)
        p1 = A.cache_to_psd(cache, ij)
        p2 = A.cache_to_psd(cache, ij)      # a second read of the same cache must give the same spectra
        c_ = A.cache_to_coherency(cache, ij)   # ... and must not have disturbed the cache
        return (np.array([np.real(np.asarray(p1[c])).reshape(-1) for c in chans]),
                np.array([np.real(np.asarray(p2[c])).reshape(-1) for c in chans]),
                np.array([c_[i, j] for i, j in ij]))
    out = []
    c08.identity_checks('cache', sc['data'], [('cache_to_coherency', coh), ('cache_to_psd', psd)], lambda: method_of(sc),
                        lambda k, w, o: out.append((k, w, 'coherency')))
    for t in out:
        bad(t)
    r = run(lambda: psd(np.array(sc['data'], dtype=float), method_of(sc)))
    if not isinstance(r, str):
        if not c08.same(r[0], r[1], 0.0):
            bad(('cache/func/cache_to_psd/second-read-differs', 'cache_to_psd called twice on one cache gives different spectra', 'psd'))
        r0 = run(lambda: coh(np.array(sc['data'], dtype=float), method_of(sc)))
        if not isinstance(r0, str) and not c08.same(r[2], r0[1], 1e-12):
            bad(('cache/func/cache_to_psd/disturbs-cache', 'cache_to_coherency after cache_to_psd differs from cache_to_coherency on a fresh cache', 'coherency'))


# ------------------------------------------------------------------ round 2: failure paths (L7) and aliasing (L8 / L6)
# Scenario kinds (own small data sets; every exception of a refused call is caught by the harness):
#  'outhist'   ONE cache queried again and again through cache_to_coherency / relative_phase / psd / phase with other and EQUAL
#              pair lists (several of equal output shape); every result is HELD and re-inspected at the end: unchanged since
#              hand-out, shares no memory with the cache or another result, still equal to the dense values (model: `outhist`);
#              the same through an analyzer (`S.coherency` held while `S.cache` is queried again).
#  'sess'      ONE SparseCoherenceAnalyzer through set_input calls with series it may refuse (a channel of ij missing, 1-d), a
#              good series of another rate, the SAME object after its data changed in place, a row-strided view; reset(); after
#              each step frequencies / spectrum / delay / coherency are judged against the dense computation on the input
#              ACTUALLY HELD (model: `sess`: the rate used and the series held).
#  'refused'   cache_fft refused (lb > ub, window of the wrong length, unknown this_method, NFFT no integer) with the CALLER's
#              method dict, cache_to_* with a pair the cache does not hold; then the proper call with the same dict / cache.
#  'seedview'  SeedCoherenceAnalyzer whose seed samples are a row-strided / reversed VIEW of the target's samples.
_R2 = {}
R2_FNS = {'coherency': 'cache_to_coherency', 'relphase': 'cache_to_relative_phase', 'psd': 'cache_to_psd', 'phase': 'cache_to_phase'}


def r2_scenarios(rng, tier, seed):
    nr = np_rng(PID, seed, 'round2')
    out = []
    reps = 2 if tier == 'quick' else 8
    for r in range(reps):
        for k, kind in enumerate(['outhist', 'outhist'] + ['sess'] * 9 + ['refused', 'seedview', 'seedview']):
            i = r * 14 + k
            nch = [3, 4, 3, 5][i % 4]
            NFFT = [8, 16, 7, 15][(i // 2) % 4]
            n = [4 * NFFT + 3, 6 * NFFT, NFFT + 2, 5 * NFFT + 1][(i // 3) % 4]
            Fs = [1.0, 250.0, 10.0, 2.0][i % 4]
            nf = NFFT // 2 + 1
            if i % 3 == 0:
                lb, ub = 0.0, None
            else:
                a = rng.randrange(0, nf - 1)
                lb, ub = max(0.0, (a - 0.5) * Fs / NFFT), (rng.randrange(a + 1, nf + 1) - 0.5) * Fs / NFFT
            sc = {'r2': kind, 'data': gen_data(nr, nch, n).tolist(), 'NFFT': NFFT, 'nov': [None, 0, NFFT // 2][i % 3], 'win': 'hann', 'winvals': None,
                  'Fs': Fs, 'lb': lb, 'ub': ub, 'sbf': bool(i % 2), 'psm': bool((i // 2) % 2), 'ij': [(0, nch - 1), (nch - 1, 0), (1, 1)], 'nseed': 1}
            if kind == 'outhist':
                top = (nch - 1, nch - 1)
                lists = [[(0, 1), top], [(1, 0), top], [(0, 1), top], [top], [(0, 0), (1, 1), top], [(0, 1)], [(1, 0), (0, 1)], [(0, 1), top]]
                rng.shuffle(lists)
                sc['queries'] = [[fn, q] for fn in ('coherency', 'relphase', 'psd', 'phase') for q in lists[:6 if fn in ('coherency', 'relphase') else 3]]
                rng.shuffle(sc['queries'])
            elif kind == 'sess':
                pats = [['f', 's:few', 'f'], ['s:few', 'f', 'r', 'f'], ['f', 's:1d', 'f'], ['s:ok', 'f', 's:few', 'f', 'r', 'f'], ['f', 's:same-changed', 'f'],
                        ['s:few', 's:ok', 'f'], ['s:row-view', 'f', 's:few', 'f'], ['f', 's:ok', 's:1d', 'r', 'f']]
                sc['events'] = []
                for t in pats[(r + k) % len(pats)]:
                    if t.startswith('s:'):
                        rate = rng.choice([v for v in (1.0, 2.0, 10.0, 250.0, 0.5, 1000.0) if v != Fs])
                        sc['events'].append(['s', t[2:], rate, rng.randrange(10**6)])
                    else:
                        sc['events'].append([t])
                sc['userfs'] = (k == 10)                       # the ninth session: the caller fixes 'Fs' in the method dict
                sc['shallow'] = (k % 4 == 3) and not any(e[0] == 's' and e[1] == 'same-changed' for e in sc['events'])
            elif kind == 'refused':
                sc['refusals'] = ['inverted-band', 'window-length', 'unknown-method', 'nfft-float', 'pair-not-cached']
            else:
                sc['view'] = ['row-strided', 'reversed'][i % 2]
            out.append(sc)
    return out


def _dense(X, sc, Fs=None):
    m = method_of(sc, dense=True)
    if Fs is not None:
        m['Fs'] = Fs
    A = tsa()
    f, cden = A.coherency(X, dict(m))
    f2, fxy = A.get_spectra(X, dict(m))
    li = int(np.searchsorted(f, sc['lb'], 'left'))
    ui = len(f) if sc['ub'] is None else int(np.searchsorted(f, sc['ub'], 'right'))
    return f[li:ui], cden[:, :, li:ui], fxy[:, :, li:ui]


def _snap(r):
    if isinstance(r, dict):
        return {k: np.array(v, copy=True) for k, v in r.items()}
    return np.array(r, copy=True)


def _eq(a, b):
    if isinstance(a, dict) or isinstance(b, dict):
        return isinstance(a, dict) and isinstance(b, dict) and sorted(a) == sorted(b) and all(_eq(a[k], b[k]) for k in a)
    a, b = np.asarray(a), np.asarray(b)
    return a.shape == b.shape and bool(np.array_equal(a, b, equal_nan=True))


def _arrs(r):
    return list(r.values()) if isinstance(r, dict) else [r]


def _shares(a, b):
    return any(np.shares_memory(x, y) for x in _arrs(a) for y in _arrs(b) if isinstance(x, np.ndarray) and isinstance(y, np.ndarray))


def _cache_arrays(cache):
    out = []
    for v in cache.values():
        if isinstance(v, np.ndarray):
            out.append(v)
        elif isinstance(v, dict):
            out += [x for x in v.values() if isinstance(x, np.ndarray)]
    return out


def r2_outhist(sc):
    A = tsa()
    X = np.array(sc['data'], dtype=float)
    nch = X.shape[0]
    allp = [(i, j) for i in range(nch) for j in range(nch)]
    kw = dict(lb=sc['lb'], ub=sc['ub'], prefer_speed_over_memory=sc['psm'], scale_by_freq=sc['sbf'])
    f, cache = A.cache_fft(X, allp, method=method_of(sc), **kw)
    held = []
    for fn, q in sc['queries']:
        q = [tuple(p) for p in q]
        r = getattr(A, R2_FNS[fn])(cache, q)
        held.append((fn, q, r, _snap(r)))
    fd, cden, fxy = _dense(X, sc)
    res = {'per_fn': {}, 'bad': []}
    carr = _cache_arrays(cache)
    for fn in R2_FNS:
        hs = [h for h in held if h[0] == fn]
        toks, ids, fins = [], [], []
        for k, (_, q, r, snap) in enumerate(hs):
            vid = min(j for j in range(k + 1) if _eq(hs[j][3], snap))
            shape = (max(p[0] for p in q) + 1) * 100 + max(p[1] for p in q) + 1 if fn in ('coherency', 'relphase') else 0
            toks.append('%d:%d' % (shape, vid))
            ids.append(min(j for j in range(k + 1) if j == k or _shares(hs[j][2], r)))
            fin = [j for j in range(len(hs)) if _eq(hs[j][3], r)]
            fins.append(fin[0] if fin else -1)
            if not _eq(snap, r):
                res['bad'].append(('held-results/%s/changed-after-later-query' % fn, '%s(cache, %s): the result handed out, kept while the same cache was queried again '
                                   '(%s), no longer holds the values it was handed out with' % (R2_FNS[fn], q, [h[1] for h in hs[k + 1:]][:3]), fn))
            if any(_shares(r, c) for c in carr) or any(isinstance(v, np.ndarray) and _shares(r, v) for v in _arrs(cache)):
                res['bad'].append(('held-results/%s/shares-memory-with-cache' % fn, '%s returns an array that lives in the cache dict' % R2_FNS[fn], fn))
            if ids[-1] != k:
                res['bad'].append(('held-results/%s/shares-memory-with-other-result' % fn, 'two results of %s from one cache (pair lists %s and %s) are the same memory' % (
                    R2_FNS[fn], hs[ids[-1]][1], q), fn))
            if fn == 'coherency':
                w = np.array([cden[i, j] for i, j in q])
                g = np.array([np.asarray(r)[i, j] for i, j in q])
                if not c08.same(np.nan_to_num(g), np.nan_to_num(w), 1e-9):
                    res['bad'].append(('held-results/coherency/ne-dense-at-end', 'cache_to_coherency(cache, %s), inspected after the later queries of the same cache, '
                                       'differs from coherency() for these pairs' % q, fn))
            if fn == 'psd':
                chans = sorted({c for p in q for c in p})
                w = np.array([np.real(fxy[c, c]) for c in chans]) * (1.0 if sc['sbf'] else sc['Fs'])
                g = np.array([np.real(np.asarray(r[c])).reshape(-1) for c in chans])
                if not c08.same(g, w, 1e-9):
                    res['bad'].append(('held-results/psd/ne-dense-at-end', 'cache_to_psd(cache, %s), inspected after the later queries, differs from the dense PSD' % q, fn))
        res['per_fn'][fn] = {'line': ' '.join(toks), 'impl': ' '.join('%d=%d' % (a, b) for a, b in zip(ids, fins))}
    # the same through an analyzer: S.coherency is held while S.cache is queried again with pair lists of equal output shape
    from nitime.analysis import SparseCoherenceAnalyzer
    ij = [tuple(p) for p in sc['ij']]
    S = SparseCoherenceAnalyzer(series_of(sc, X), ij, method=analyzer_method(sc), **kw)
    c1 = S.coherency
    s1 = _snap(c1)
    A.cache_to_coherency(S.cache, [(nch - 1, nch - 1)])
    A.cache_to_coherency(S.cache, [(1, 0), (nch - 1, nch - 1)])
    if not _eq(s1, c1):
        res['bad'].append(('held-results/sparse-coherency/changed-after-later-query', 'SparseCoherenceAnalyzer.coherency, held while analyzer.cache was queried again, changed', 'sparse-coherency'))
    w = np.array([cden[i, j] for i, j in ij])
    if not c08.same(np.nan_to_num(np.array([np.asarray(c1)[i, j] for i, j in ij])), np.nan_to_num(w), 1e-9):
        res['bad'].append(('held-results/sparse-coherency/ne-dense-at-end', 'SparseCoherenceAnalyzer.coherency, inspected after analyzer.cache was queried again, differs from coherency()', 'sparse-coherency'))
    return res


def _vars_state(S):
    import hashlib
    out = {}
    for k, v in vars(S).items():
        if k == 'input':
            out[k] = id(v)
        elif isinstance(v, dict):
            out[k] = tuple(sorted((str(a), repr(float(b)) if hasattr(b, '__float__') and not isinstance(b, (np.ndarray, str)) else
                                   (hashlib.md5(np.ascontiguousarray(b).tobytes()).hexdigest() if isinstance(b, np.ndarray) else id(b) if callable(b) else repr(b)))
                                  for a, b in v.items())) if k != 'cache' else 'cache'
        elif isinstance(v, np.ndarray):
            out[k] = hashlib.md5(np.ascontiguousarray(v).tobytes()).hexdigest()
        else:
            out[k] = repr(v)
    return out


def r2_sess(sc):
    import nitime.timeseries as ts
    from fractions import Fraction as Fr
    from nitime.analysis import SparseCoherenceAnalyzer
    X = np.array(sc['data'], dtype=float)
    X0 = X.copy()
    nch, n = X.shape
    ij = [tuple(p) for p in sc['ij']]
    kw = dict(lb=sc['lb'], ub=sc['ub'], prefer_speed_over_memory=sc['psm'], scale_by_freq=sc['sbf'])
    m = method_of(sc)
    ufs = None
    if sc.get('userfs'):
        ufs = 4.0 * sc['Fs']
        m['Fs'] = ufs
    else:
        del m['Fs']
    T0 = ts.TimeSeries(X, sampling_rate=sc['Fs'])
    S = SparseCoherenceAnalyzer(T0, ij, method=m, **kw)
    S0 = None
    if sc.get('shallow'):
        import copy                      # L8: the session runs on a shallow copy; the original stays on T0
        S0, S = S, copy.copy(S)
    inputs = [T0]
    degenerate = {}
    res = {'seen': [], 'reads': [], 'bad': [], 'nraise': 0}
    for ev in sc['events']:
        if ev[0] == 's':
            _, kind, rate, ds = ev
            r_ = np.random.RandomState(ds)
            held = S.input
            if kind == 'same-changed':
                np.asarray(held.data)[...] = r_.randn(*np.asarray(held.data).shape)
                T = held
            else:
                Y = r_.randn(nch, n + ds % 5)
                if kind == 'few':
                    Y = Y[:nch - 1]
                elif kind == '1d':
                    Y = Y[0]
                elif kind == 'row-view':
                    Y = np.vstack([Y, -Y[::-1]])[::2][:nch] if nch % 2 == 0 else np.vstack([Y, Y[::-1], Y])[::3][:nch]
                    if Y.shape[0] < nch:
                        Y = r_.randn(2 * nch, n)[::2]
                T = ts.TimeSeries(Y, sampling_rate=rate)
            before = _vars_state(S)
            try:
                S.set_input(T)
                raised = None
            except Exception as e:  # noqa -- the caller catches the refusal and goes on with the analyzer
                import common
                raised = common.err_kind(e)
            if raised:
                res['nraise'] += 1
                after = _vars_state(S)
                d = sorted(k for k in set(before) | set(after) if before.get(k) != after.get(k))
                if d:
                    res['bad'].append(('sparse-session/refused-set_input/state-changed', 'SparseCoherenceAnalyzer.set_input(%s series at %s Hz) raised %s, yet the analyzer '
                                       'is not as it was: %s' % (kind, rate, raised, d), 'sess'))
            if T is not held:
                inputs.append(T)
                if kind in ('few', '1d'):
                    degenerate[len(inputs) - 1] = kind
            res['seen'].append('s%s:%d:%d' % (Fr(float(T.sampling_rate)), 1 if raised else 0, [i for i, t in enumerate(inputs) if t is T][0]))
        elif ev[0] == 'r':
            S.reset()
            res['seen'].append('r')
        else:
            hid = ([i for i, t in enumerate(inputs) if t is S.input] or [-1])[0]
            if hid < 0:
                res['bad'].append(('sparse-session/input-lost', 'the analyzer holds a series it was never given', 'sess'))
                continue
            try:
                got = {'f': np.array(S.frequencies, copy=True), 'c': np.array(S.coherency, copy=True), 'p': {k: np.array(v, copy=True) for k, v in S.spectrum.items()},
                       'd': np.array(S.delay, copy=True), 'fs': float(S.method['Fs'])}
            except Exception:  # noqa -- an ACCEPTED series that lacks a channel of ij / is 1-d: nothing to compare
                continue
            if hid in degenerate:
                continue
            res['seen'].append('f')
            res['reads'].append((hid, got['fs']))
            Xh = np.array(np.asarray(S.input.data), dtype=float)
            Fh = ufs if ufs is not None else float(S.input.sampling_rate)
            fd, cden, fxy = _dense(Xh, sc, Fs=Fh)
            pre = 'sparse-session/after-%s' % ('refused-set_input' if res['nraise'] else 'set_input')
            evs = ' '.join(e[0] if e[0] != 's' else 's(%s@%s)' % (e[1], e[2]) for e in sc['events'])
            if not c08.same(got['f'], fd, 1e-12):
                res['bad'].append((pre + '/frequencies-ne-dense', 'events %s: .frequencies %s… are not the dense grid %s… of the series held (#%d, %s Hz)' % (
                    evs, got['f'][:3].tolist(), fd[:3].tolist(), hid, Fh), 'sess'))
            chans = sorted({c for p in ij for c in p})
            wp = np.array([np.real(fxy[c, c]) for c in chans]) * (1.0 if sc['sbf'] else Fh)
            gp = np.array([np.real(got['p'][c]).reshape(-1) for c in chans])
            if not c08.same(gp, wp, 1e-9):
                res['bad'].append((pre + '/spectrum-ne-dense', 'events %s: .spectrum differs from the dense PSD of the series held (#%d, %s Hz; method[\'Fs\'] = %s)' % (
                    evs, hid, Fh, got['fs']), 'sess'))
            wc = np.array([cden[i, j] for i, j in ij])
            gc = np.array([got['c'][i, j] for i, j in ij])
            if not c08.same(np.nan_to_num(gc), np.nan_to_num(wc), 1e-9):
                res['bad'].append((pre + '/coherency-ne-dense', 'events %s: .coherency differs from coherency() on the series held (#%d)' % (evs, hid), 'sess'))
            with np.errstate(all='ignore'):
                wd = np.array([np.angle(cden[i, j]) / (2 * np.pi * fd) for i, j in ij])
            gd = np.array([got['d'][i, j] for i, j in ij])
            ok_ = np.isfinite(wd) & (np.abs(wc) > 1e-6) & (np.abs(np.abs(np.angle(wc)) - np.pi) > 1e-6)
            if gd.shape != wd.shape or (ok_.any() and not np.allclose(gd[ok_], wd[ok_], rtol=1e-7, atol=1e-12)):
                res['bad'].append((pre + '/delay-ne-dense', 'events %s: .delay differs from angle(coherency())/(2 pi f) with the dense grid of the series held (#%d, %s Hz)' % (evs, hid, Fh), 'sess'))
    if S0 is not None:
        F0 = ufs if ufs is not None else sc['Fs']
        fd, cden, fxy = _dense(X0, sc, Fs=F0)
        try:
            f0 = np.array(S0.frequencies)
            chans = sorted({c for p in ij for c in p})
            p0 = np.array([np.real(S0.spectrum[c]).reshape(-1) for c in chans])
            wp = np.array([np.real(fxy[c, c]) for c in chans]) * (1.0 if sc['sbf'] else F0)
            if not c08.same(f0, fd, 1e-12) or not c08.same(p0, wp, 1e-9):
                res['bad'].append(('sparse-session/shallow-copy/original-ne-dense', 'a shallow copy of the analyzer went through set_input calls; the ORIGINAL, still on its '
                                   'first input (%s Hz), reports frequencies %s… / a spectrum that differ from the dense path' % (F0, f0[:3].tolist()), 'sess'))
        except Exception as e:  # noqa
            res['bad'].append(('sparse-session/shallow-copy/original-raises', 'after a shallow copy went through set_input calls the original raises %r' % (e,), 'sess'))
    res['line'] = 'C09 sess %s %s %s' % ('none' if ufs is None else Fr(ufs), Fr(sc['Fs']), ' '.join(res['seen']))
    res['impl'] = ' '.join('%d@%s' % (h, Fr(fs)) for h, fs in res['reads']) or 'none'
    return res


def r2_refused(sc):
    A = tsa()
    X = np.array(sc['data'], dtype=float)
    nch = X.shape[0]
    ij = [tuple(p) for p in sc['ij']]
    Fs, NFFT = sc['Fs'], sc['NFFT']
    kw = dict(lb=sc['lb'], ub=sc['ub'], prefer_speed_over_memory=sc['psm'], scale_by_freq=sc['sbf'])
    fd, cden, fxy = _dense(X, sc)
    wc = np.array([cden[i, j] for i, j in ij])
    res = {'bad': [], 'raised': {}}
    for kind in sc['refusals']:
        d = method_of(sc)
        good = dict(d)
        x0 = X.copy()
        if kind == 'pair-not-cached':
            f, cache = A.cache_fft(X, [(0, 1)], method=d, **kw)
            keys0 = {k: (sorted(v) if isinstance(v, dict) else None) for k, v in cache.items()}
            r = run(lambda: A.cache_to_coherency(cache, [(0, 1), (0, nch - 1)]))
            res['raised'][kind] = r if isinstance(r, str) else None
            r2_ = run(lambda: A.cache_to_psd(cache, [(0, nch - 1)]))
            keys1 = {k: (sorted(v) if isinstance(v, dict) else None) for k, v in cache.items()}
            if keys0 != keys1:
                res['bad'].append(('refused-call/pair-not-cached/cache-changed', 'a cache_to_* call for a pair the cache does not hold changed the cache dict', 'refused'))
            g = A.cache_to_coherency(cache, [(0, 1), (1, 0)])
            if not c08.same(np.nan_to_num(np.array([g[0, 1], g[1, 0]])), np.nan_to_num(np.array([cden[0, 1], cden[1, 0]])), 1e-9):
                res['bad'].append(('refused-call/pair-not-cached/ne-dense', 'after a refused query the same cache answers (0,1),(1,0) differently from coherency()', 'refused'))
            continue
        k2 = dict(kw)
        if kind == 'inverted-band':
            k2.update(lb=0.4 * Fs, ub=0.1 * Fs)
        elif kind == 'window-length':
            d['window'] = np.hanning(NFFT + 3)
        elif kind == 'unknown-method':
            d['this_method'] = 'no_such_method'
        elif kind == 'nfft-float':
            d['NFFT'] = NFFT + 0.5
        r = run(lambda: A.cache_fft(X, ij, method=d, **k2))
        res['raised'][kind] = r if isinstance(r, str) else None
        extra = sorted(k for k in d if k not in good and k != 'window')
        if isinstance(r, str) and extra:
            res['bad'].append(('refused-call/%s/method-dict-changed' % kind, 'the refused cache_fft call (%s) left %s behind in the caller\'s method dict' % (r, extra), 'refused'))
        if not np.array_equal(X, x0):
            res['bad'].append(('refused-call/%s/data-changed' % kind, 'the refused cache_fft call changed the data array', 'refused'))
        for k in ('this_method', 'NFFT'):
            d[k] = good[k]
        d.pop('window', None)
        f, cache = A.cache_fft(X, ij, method=d, **kw)
        g = A.cache_to_coherency(cache, ij)
        if not c08.same(np.asarray(f), fd, 1e-12) or not c08.same(np.nan_to_num(np.array([g[i, j] for i, j in ij])), np.nan_to_num(wc), 1e-9):
            res['bad'].append(('refused-call/%s/ne-dense' % kind, 'cache_fft refused once (%s), then called properly with the same method dict and data: frequencies / coherency differ from the dense path' % r, 'refused'))
    return res


def r2_seedview(sc):
    import nitime.timeseries as ts
    from nitime.analysis import SeedCoherenceAnalyzer
    X = np.array(sc['data'], dtype=float)
    nch = X.shape[0]
    kw = dict(lb=sc['lb'], ub=sc['ub'], prefer_speed_over_memory=sc['psm'], scale_by_freq=sc['sbf'])
    idx = list(range(nch))[1::2] if sc['view'] == 'row-strided' else list(range(nch))[::-1][:2]
    sview = X[1::2] if sc['view'] == 'row-strided' else X[::-1][:2]
    assert np.shares_memory(sview, X)
    tgt = ts.TimeSeries(X, sampling_rate=sc['Fs'])
    sd = ts.TimeSeries(sview, sampling_rate=sc['Fs'])
    shared = np.shares_memory(np.asarray(sd.data), np.asarray(tgt.data))
    S = SeedCoherenceAnalyzer(sd, tgt, method=analyzer_method(sc), **kw)
    c1 = S.coherency
    snap = np.array(c1, copy=True)
    fr = np.array(S.frequencies, copy=True)
    fd, cden, fxy = _dense(X.copy(), sc)
    res = {'bad': [], 'shared': bool(shared), 'coh': snap, 'idx': idx}
    want = np.array([[cden[a, t] for t in range(nch)] for a in idx])
    if snap.size != want.size or not c08.same(np.nan_to_num(snap).reshape(-1), np.nan_to_num(want).reshape(-1), 1e-9):
        res['bad'].append(('seed-view/%s/ne-dense' % sc['view'], 'SeedCoherenceAnalyzer with a seed that is a %s view of the target\'s samples: .coherency differs from the dense rows %s' % (sc['view'], idx), 'seedview'))
    if not c08.same(fr, fd, 1e-12):
        res['bad'].append(('seed-view/%s/frequencies-ne-dense' % sc['view'], 'SeedCoherenceAnalyzer.frequencies differ from the dense grid', 'seedview'))
    np.asarray(sd.data)[...] *= -3.0          # the caller goes on working on the seed's samples (and so on the target's)
    np.asarray(sd.data)[..., ::2] += 1.0
    if not _eq(snap, c1):
        res['bad'].append(('seed-view/%s/result-changed-after-inplace-write' % sc['view'], 'the coherency handed out changed when the seed samples were changed in place afterwards', 'seedview'))
    X2 = np.array(np.asarray(tgt.data), dtype=float, copy=True)
    S2 = SeedCoherenceAnalyzer(ts.TimeSeries(np.array(np.asarray(sd.data), copy=True), sampling_rate=sc['Fs']), ts.TimeSeries(X2, sampling_rate=sc['Fs']),
                               method=analyzer_method(sc), **kw)
    fd2, cden2, _ = _dense(X2, sc)
    want2 = np.array([[cden2[a, t] for t in range(nch)] for a in idx])
    if not c08.same(np.nan_to_num(np.asarray(S2.coherency)).reshape(-1), np.nan_to_num(want2).reshape(-1), 1e-9):
        res['bad'].append(('seed-view/%s/new-analyzer-ne-dense' % sc['view'], 'a new SeedCoherenceAnalyzer on the changed samples differs from the dense rows', 'seedview'))
    return res


def r2_run(sc):
    return run(lambda: {'outhist': r2_outhist, 'sess': r2_sess, 'refused': r2_refused, 'seedview': r2_seedview}[sc['r2']](sc))


def cmp_outhist(impl, model):
    """ids are compared up to renaming (first occurrence), final value ids exactly"""
    def canon(s):
        ps = [t.split('=') for t in s.split()]
        first = {}
        out = []
        for k, (i, v) in enumerate(ps):
            first.setdefault(i, k)
            out.append((first[i], v))
        return out
    try:
        return canon(impl) == canon(model)
    except Exception:
        return impl == model


def cmp_sess(impl, model):
    from fractions import Fraction as Fr
    if impl == 'none' or model == 'none' or '@' not in model:
        return impl == model
    try:
        a = [(t.split('@')[0], Fr(t.split('@')[1])) for t in impl.split()]
        b = [(t.split('@')[0], Fr(t.split('@')[1])) for t in model.split()]
        return a == b
    except Exception:
        return False


def r2_cases(sc, R, si):
    out = []
    meta = lambda obs: {'sc': 'r2-%d' % si, 'obs': obs}
    if isinstance(R, str):
        out.append(Case('C09 grid %s %d' % (f2x(sc['Fs']), sc['NFFT']), R, 'round2/%s/error' % sc['r2'], meta=meta('error')))
        return out
    if sc['r2'] == 'outhist':
        for fn, d in R['per_fn'].items():
            out.append(Case('C09 outhist %s %s' % (R2_FNS[fn], d['line']), d['impl'], 'held-results/' + fn, cmp=cmp_outhist, meta=meta(fn)))
    elif sc['r2'] == 'sess':
        out.append(Case(R['line'], R['impl'], 'sparse-session/rate-and-input', cmp=cmp_sess, meta=meta('sess')))
    elif sc['r2'] == 'seedview':
        X = np.array(sc['data'], dtype=float)
        ubt = 'none' if sc['ub'] is None else f2x(sc['ub'])
        stack = np.vstack([X[R['idx']], X])
        line = 'C09 seed %s %d %d %s %s %d %s' % (head(sc, 'dcache'), sc['sbf'], sc['psm'], f2x(sc['lb']), ubt, len(R['idx']), ' '.join(flist(x) for x in stack))
        out.append(Case(line, 'ok ' + clist(np.asarray(R['coh']).reshape(-1)), 'seed-view/coherency', cmp=either(cmp_last), meta=meta('seedview')))
    return out


def oracle(rng, tier, seed, focus, cases=None):
    fails, nj = [], 0
    by = {}
    for c in (cases or []):
        if c.meta:
            by.setdefault((c.meta['sc'], c.meta['obs']), []).append(c)
    for si, (sc, R) in enumerate(zip(_SC.get('list', []), _SC.get('res', []))):
        nj += 1
        for key, what, obs in judge(sc, R):
            # a wrong frequency grid (odd NFFT) moves the band: every observable of the scenario is affected
            cs = [c for (s_, o_), l_ in by.items() if s_ == si for c in l_] if 'odd-nfft' in key else by.get((si, obs), [None])
            for c in (cs or [None]):
                fails.append(Failure(key, what, {'scenario': sc, 'key': key}, case=c))
    n2, nraise = 0, 0
    for si, (sc, R) in enumerate(zip(_R2.get('list', []), _R2.get('res', []))):
        n2 += 1
        if isinstance(R, str):
            fails.append(Failure('round2/%s/raises' % sc['r2'], 'the scenario could not be run: ' + R, {'scenario': sc, 'key': 'round2/%s/raises' % sc['r2']},
                                 case=(by.get(('r2-%d' % si, 'error')) or [None])[0]))
            continue
        nraise += R.get('nraise', 0) + sum(1 for v in R.get('raised', {}).values() if v)
        for key, what, obs in R['bad']:
            fails.append(Failure(key, what, {'scenario': sc, 'key': key}, case=(by.get(('r2-%d' % si, obs)) or [None])[0]))
    labs = [sc for sc in _SC.get('list', []) if sc.get('labels')]
    lab_stats = {'label_scenarios': len(labs), 'label_scenarios_whose_channel_set_iterates_unsorted': sum(1 for sc in labs if sc['setiter'] != sorted(sc['setiter'])),
                 'label_channel_counts': sorted({len(sc['data']) for sc in labs})}
    scl = [sc for sc in _SC.get('list', []) if sc.get('scale')]
    return fails, {'labels': lab_stats, 'scale_scenarios': {'kept': len(scl), 'dropped_outside_quantifier': dict(SCALE_DROPPED), 'gains': {sc['scale']: sc['gains'] for sc in scl}}, 'scenarios_judged': nj, 'round2_scenarios': n2, 'round2_refused_calls_seen': nraise, 'failed_checks': len({(id(f.replay['scenario']), f.key) for f in fails}),
                   'distinct_failure_keys': len({f.key for f in fails}), 'focus': len(focus)}


def replay(d):
    sc = d['scenario']
    if sc.get('r2'):
        R = r2_run(sc)
        if isinstance(R, str):
            return Failure('round2/%s/raises' % sc['r2'], R, d) if d['key'].endswith('/raises') else None
        for key, what, obs in R['bad']:
            if key == d['key']:
                return Failure(key, what, d)
        return None
    R = impl_results(sc)
    for key, what, obs in judge(sc, R):
        if key == d['key']:
            return Failure(key, what, d)
    return None
