"""C09 — the cached, sparse and seed coherence paths equal the dense computation.

Correspondence: the cache model of `CohBase.lean` (driver `drvC09`, K = binary64 pairs; its contract:
equality with the dense Welch path) against cache_fft + cache_to_*, SparseCoherenceAnalyzer
and SeedCoherenceAnalyzer; plus the dense side (`welchBin` + `coherencySpec`) against tsa.coherency.
Oracle (never the Lean model): the dense implementation itself (get_spectra / coherency on the same
data, the same pairs and the bins whose dense frequency lies in [lb, ub]); equality of the two memory
settings.
"""
import math
import warnings
import numpy as np
from common import Case, Failure, f2x, flist, clist, parse_flist, np_rng
import c08
from c08 import close_gen, circ, gen_data, run, win_vals

PID = 'C09'
LEAN_TARGETS = ['Nitime.Props.C09']
RULE = ('scenarios from one PRNG state over the configuration lattice: 2..5 channels; NFFT of both parities; explicit / default overlap; '
        'window as function (default hanning) or array; data shorter than, equal to and longer than NFFT (single zero-padded window .. many); '
        'lb/ub full band or off-grid band; prefer_speed_over_memory and scale_by_freq both ways; pair lists with repeated, self and reversed '
        'pairs; 1-d and 2-d seeds. One case per observable (freqs, coherency, psd, relative phase, phase, seed rows, dense side); '
        'distinct = distinct protocol line')
ASSUMPTIONS = ['real-valued input, 0 <= n_overlap < NFFT, Fs > 0, real window with non-zero energy, 0 <= lb <= ub <= Fs/2',
               'band edges are generated off the frequency grid (or 0 / None), so that an ulp of difference between two evaluations of the same grid cannot move a bin',
               'scale_by_freq=False has no dense counterpart in get_spectra: the cached PSD is then compared with Fs x the dense density',
               'cache_to_relative_phase averages per-window angles; it is compared with the dense angle only for a single window (the property clause), '
               'with the model otherwise; DC / Nyquist bins (real spectra, angle 0 or pi by rounding) are left out of multi-window phase comparisons']
TRUSTED_EXTRA = c08.TRUSTED_EXTRA[:3] + ['np.linspace, np.searchsorted by their numpy semantics (model: linspace0, searchLeft/Right, bit-exact)',
                                         'reading of the CScalar-polymorphic definitions at K = Complex (theorems) vs K = binary64 pairs (run): parametricity, unproved']


def tsa():
    import nitime.algorithms as a
    return a


# ------------------------------------------------------------------ comparison (last token = data)
def cmp_last(impl, model):
    if not (impl.startswith('ok ') and model.startswith('ok ')):
        return impl == model
    return close_gen(parse_flist(impl.split(' ')[-1]), parse_flist(model.split(' ')[-1]))


def either(base):
    """kept as a hook: the model gives one answer (the repaired behaviour = the dense path)"""
    return base


def mk_cmp_rows(nrow):
    """last token = nrow rows of equal length, each compared at its own scale"""
    def cmp(impl, model):
        if not (impl.startswith('ok ') and model.startswith('ok ')):
            return impl == model
        a, b = parse_flist(impl.split(' ')[-1]), parse_flist(model.split(' ')[-1])
        if len(a) != len(b) or nrow <= 0 or len(a) % nrow:
            return False
        m = len(a) // nrow
        return all(close_gen(a[r * m:(r + 1) * m], b[r * m:(r + 1) * m]) for r in range(nrow))
    return cmp


def cmp_grid(impl, model):
    """first list: the dense grid k*Fs/N; second: utils.get_freqs = (k*(1/N))*Fs"""
    a, b = impl.split(' '), model.split(' ')
    if len(a) != 3 or len(b) != 3:
        return False
    return close_gen(parse_flist(a[1]), parse_flist(b[1])) and close_gen(parse_flist(a[2]), parse_flist(b[2]))


def mk_cmp_angles(mask, circle, tol=1e-6):
    def cmp(impl, model):
        if not (impl.startswith('ok ') and model.startswith('ok ')):
            return impl == model
        a, b = parse_flist(impl.split(' ')[-1]), parse_flist(model.split(' ')[-1])
        if len(a) != len(b) or len(a) != len(mask):
            return False
        for x, y, m in zip(a, b, mask):
            if not m:
                continue
            d = circ(x - y) if circle else abs(x - y)
            if not d <= tol:
                return False
        return True
    return cmp


# ------------------------------------------------------------------ scenarios
def make_scenarios(rng, tier, seed):
    nr = np_rng(PID, seed, 'data')
    big = tier == 'thorough'
    out = []
    n_long = 0
    for s in range(160 if big else 36):
        nch = rng.choice([2, 3, 4, 4, 5, 5])
        NFFT = rng.choice([8, 16, 16, 32, 64, 7, 15, 33] if not big else [8, 16, 32, 64, 64, 128, 7, 15, 33, 63])
        c = rng.random()
        if c < 0.12:
            n = rng.randrange(max(2, NFFT // 2), NFFT)            # shorter than NFFT: one zero-padded window
        elif c < 0.2:
            n = NFFT
        elif c < 0.28:
            n = NFFT + rng.randrange(1, 3)
        else:
            n = rng.choice([64, 96, 128, 200, 256] if not big else [64, 128, 256, 500, 1024, 2048])
        if big and n >= 1024 and NFFT < 32:
            NFFT = 64
        r_ = rng.random()
        nov = None if r_ < 0.3 else (0 if r_ < 0.42 else rng.randrange(0, NFFT))     # explicit 0 is a value, not "unset"
        if n > 256:
            # long records: the model's segment FFT is the naive O(NFFT^2) sum (array-backed reads), so keep the
            # number of segments of a long record near 60 and the number of long records per run bounded (the twiddle factors are recomputed per term)
            n_long += 1
            if n_long > 10:
                n = rng.choice([128, 200, 256])
            else:
                nch = min(nch, 4)
                min_step = min(NFFT, (n - NFFT) // 60 + 1)
                if nov is None and NFFT - NFFT // 2 < min_step:
                    nov = NFFT // 2
                if nov is not None and NFFT - nov < min_step:
                    nov = NFFT - min_step
        wk = rng.choice(['hann', 'hann', 'hamming', 'rand'])
        Fs = rng.choice([1.0, 2.0, 2 * math.pi, 10.0, 250.0, rng.uniform(0.1, 100)])
        # band: full, or off-grid edges
        df = Fs / NFFT
        nf = NFFT // 2 + 1
        if rng.random() < 0.4:
            lb, ub = 0.0, None
        else:
            i = rng.randrange(0, nf - 1)
            j = rng.randrange(i + 1, nf + 1)
            lb = 0.0 if (i == 0 and rng.random() < 0.5) else (i - 0.5) * df if i > 0 else 0.0
            ub = None if (j == nf and rng.random() < 0.5) else (j - 0.5) * df
            lb = max(lb, 0.0)
        # pairs: random incl. self, reversed, repeated
        k = rng.randrange(1, 6)
        ij = [(rng.randrange(nch), rng.randrange(nch)) for _ in range(k)]
        if rng.random() < 0.4:
            a, b = ij[0]
            ij.append((b, a))
        if rng.random() < 0.3:
            ij.append(ij[0])
        if rng.random() < 0.3:
            a = rng.randrange(nch)
            ij.append((a, a))
        nseed = rng.choice([0, 1, 2, 2, 3])
        if nseed >= nch:
            nseed = 0
        data = gen_data(nr, nch, n)
        if rng.random() < 0.3:        # tiny / very different channel amplitudes: nothing may be floored at an epsilon
            data = data * np.array([10.0 ** rng.choice([-9, -7, -5, -3, 0, 3]) for _ in range(nch)])[:, None]
        out.append({'data': data.tolist(), 'NFFT': NFFT, 'nov': nov, 'win': wk,
                    'winvals': None if wk == 'hann' else win_vals(wk, NFFT, nr), 'Fs': Fs,
                    'lb': lb, 'ub': ub, 'ij': ij, 'sbf': rng.random() < 0.6, 'psm': rng.random() < 0.5, 'nseed': nseed})
    return out


def method_of(sc):
    m = {'this_method': 'welch', 'NFFT': sc['NFFT'], 'Fs': sc['Fs']}
    if sc['nov'] is not None:
        m['n_overlap'] = sc['nov']
    if sc['winvals'] is not None:
        m['window'] = np.array(sc['winvals'])
    return m


def nseg_of(sc, nov):
    n = len(sc['data'][0])
    L = max(n, sc['NFFT'])
    return (L - sc['NFFT']) // (sc['NFFT'] - nov) + 1


def impl_results(sc):
    A = tsa()
    import nitime.timeseries as ts
    from nitime.analysis import SparseCoherenceAnalyzer, SeedCoherenceAnalyzer
    X = np.array(sc['data'], dtype=float)
    ij = [tuple(p) for p in sc['ij']]
    R = {}
    kw = dict(lb=sc['lb'], ub=sc['ub'], prefer_speed_over_memory=sc['psm'], scale_by_freq=sc['sbf'])

    def cache_all(psm):
        k2 = dict(kw, prefer_speed_over_memory=psm)
        freqs, cache = A.cache_fft(X, ij, method=method_of(sc), **k2)
        chans = sorted({c for p in ij for c in p})
        coh = A.cache_to_coherency(cache, ij)
        psd = A.cache_to_psd(cache, ij)
        rel = A.cache_to_relative_phase(cache, ij)
        ph = A.cache_to_phase(cache, ij)
        nb_ = int(cache['FFT_slices'][chans[0]].shape[1])
        freqs = np.array(freqs)
        if len(freqs) != nb_:      # older trees return the full grid: cut the band the way cache_fft does
            import nitime.utils as U
            l_, u_ = U.get_bounds(freqs, sc['lb'], sc['ub'])
            freqs = freqs[l_:u_]
        return {'freqs': np.array(freqs),
                'coherency': np.array([coh[i, j] for i, j in ij]).reshape(len(ij), -1),
                'psd': np.array([np.real(np.asarray(psd[c])).reshape(-1) for c in chans]),
                'relphase': np.real(np.array([rel[i, j] for i, j in ij])).reshape(len(ij), -1),
                'phase': np.array([np.asarray(ph[c]).reshape(-1) for c in chans]),
                'nslices': int(cache['FFT_slices'][chans[0]].shape[0])}
    R['cache'] = run(lambda: cache_all(sc['psm']))
    R['cache_other'] = run(lambda: cache_all(not sc['psm']))

    def sparse():
        T = ts.TimeSeries(X, sampling_rate=sc['Fs'])
        S = SparseCoherenceAnalyzer(T, ij, method=method_of(sc), **kw)
        coh = np.asarray(S.coherency)
        return {'coherency': np.array([coh[i, j] for i, j in ij]).reshape(len(ij), -1),
                'coherence': np.array([np.asarray(S.coherence)[i, j] for i, j in ij]).reshape(len(ij), -1),
                'relphase': np.array([np.asarray(S.relative_phases)[i, j] for i, j in ij]).reshape(len(ij), -1),
                'frequencies': np.asarray(S.frequencies)}
    R['sparse'] = run(sparse)

    def seed():
        ns = sc['nseed']
        sd = X[0] if ns == 0 else X[:ns]
        tg = X[max(ns, 1):]
        S = SeedCoherenceAnalyzer(ts.TimeSeries(sd, sampling_rate=sc['Fs']), ts.TimeSeries(tg, sampling_rate=sc['Fs']),
                                  method=method_of(sc), **kw)
        return {'coherency': np.asarray(S.coherency), 'frequencies': np.asarray(S.frequencies)}
    R['seed'] = run(seed)
    # dense reference (the oracle's side)
    R['dense'] = run(lambda: A.get_spectra(X, method_of(sc)))
    R['dense_coh'] = run(lambda: A.coherency(X, method_of(sc)))
    return R


# ------------------------------------------------------------------ cases
def win_tok(sc):
    return 'hann' if sc['winvals'] is None else flist(sc['winvals'])


def head(sc, dflt):
    nov = dflt if sc['nov'] is None else str(sc['nov'])
    return '%d %s %s %s' % (sc['NFFT'], nov, f2x(sc['Fs']), win_tok(sc))


def cases_of(sc, R, si):
    out = []
    X = np.array(sc['data'], dtype=float)
    ijt = ';'.join('%d:%d' % tuple(p) for p in sc['ij'])
    ubt = 'none' if sc['ub'] is None else f2x(sc['ub'])
    pre = 'C09 cache %%s %s %d %d %s %s %s %s' % (head(sc, 'dcache'), sc['sbf'], sc['psm'], f2x(sc['lb']), ubt, ijt, ' '.join(flist(x) for x in X))
    meta = lambda obs: {'sc': si, 'obs': obs}
    c = R['cache']
    nf = sc['NFFT'] // 2 + 1
    if isinstance(c, str):
        out.append(Case(pre % 'coherency', c, 'cache/error', meta=meta('error')))
    else:
        fr = c['freqs']          # the frequencies of the cached band
        fdense = np.arange(nf) * sc['Fs'] / sc['NFFT']
        li = int(np.searchsorted(fdense, sc['lb'], 'left'))
        out.append(Case(pre % 'freqs', 'ok ' + flist(fr), 'cache/freqs', cmp=either(cmp_last), meta=meta('freqs')))
        out.append(Case(pre % 'coherency', 'ok ' + clist(c['coherency'].reshape(-1)), 'cache/coherency', cmp=either(cmp_last), meta=meta('coherency')))
        out.append(Case(pre % 'psd', 'ok ' + flist(c['psd'].reshape(-1)), 'cache/psd', cmp=mk_cmp_rows(c['psd'].shape[0]), meta=meta('psd')))
        nb = c['coherency'].shape[1]
        # phase comparisons: all bins for one window (on the circle); interior bins for several windows
        edge = [(li + t == 0) or (sc['NFFT'] % 2 == 0 and li + t == sc['NFFT'] // 2) for t in range(nb)]
        single = c['nslices'] == 1
        mag = np.abs(c['coherency'])
        m_rel = [(single or not edge[t]) and np.isfinite(mag[p, t]) for p in range(len(sc['ij'])) for t in range(nb)]
        out.append(Case(pre % 'relphase', 'ok ' + flist(c['relphase'].reshape(-1)), 'cache/relphase',
                        cmp=either(mk_cmp_angles(m_rel, circle=single)), meta=meta('relphase')))
        nchu = c['phase'].shape[0]
        m_ph = [(single or not edge[t]) for _ in range(nchu) for t in range(nb)]
        out.append(Case(pre % 'phase', 'ok ' + flist(c['phase'].reshape(-1)), 'cache/phase',
                        cmp=either(mk_cmp_angles(m_ph, circle=single)), meta=meta('phase')))
    s = R['sparse']
    if isinstance(s, str):
        out.append(Case(pre % 'coherency', s, 'sparse/error', meta=meta('sparse-error')))
    else:
        out.append(Case(pre % 'coherency', 'ok ' + clist(s['coherency'].reshape(-1)), 'sparse/coherency', cmp=either(cmp_last), meta=meta('sparse-coherency')))
    sd = R['seed']
    ns = sc['nseed']
    line = 'C09 seed %s %d %d %s %s %d %s' % (head(sc, 'dcache'), sc['sbf'], sc['psm'], f2x(sc['lb']), ubt, ns, ' '.join(flist(x) for x in X))
    out.append(Case(line, sd if isinstance(sd, str) else 'ok ' + clist(np.asarray(sd['coherency']).reshape(-1)), 'seed/coherency',
                    cmp=either(cmp_last), meta=meta('seed')))
    # the two frequency formulas of the generic model: k*Fs/N against the dense grid, the linspace text against utils.get_freqs
    if not isinstance(R['dense'], str):
        import nitime.utils as U
        fd = np.asarray(R['dense'][0])
        out.append(Case('C09 grid %s %d' % (f2x(sc['Fs']), sc['NFFT']), 'ok %s %s' % (flist(fd), flist(U.get_freqs(sc['Fs'], sc['NFFT']))),
                        'grid/formulas', cmp=cmp_grid, meta=meta('grid')))
    # the dense side of the refinement, on the band the dense grid selects
    d = R['dense_coh']
    if not isinstance(d, str):
        f, cden = d
        li = int(np.searchsorted(f, sc['lb'], 'left'))
        ui = len(f) if sc['ub'] is None else int(np.searchsorted(f, sc['ub'], 'right'))
        vals = np.array([cden[i, j, li:ui] for i, j in sc['ij']])
        if np.all(np.isfinite(np.abs(vals))):
            line = 'C09 dense %s %s %s %s %s' % (head(sc, 'dfunc'), f2x(sc['lb']), ubt, ijt, ' '.join(flist(x) for x in X))
            out.append(Case(line, 'ok ' + clist(vals.reshape(-1)), 'dense/coherency', cmp=cmp_last, meta=meta('dense')))
    return out


_SC = {}


def cases(rng, tier, seed):
    scs = make_scenarios(rng, tier, seed)
    out = []
    _SC.clear()
    _SC.update({'list': scs, 'res': []})
    for si, sc in enumerate(scs):
        R = impl_results(sc)
        _SC['res'].append(R)
        out += cases_of(sc, R, si)
    return out


# ------------------------------------------------------------------ oracle: the dense implementation
def cfg_class(sc, nslices):
    return '%s-nfft/%s-overlap/%s/%s' % ('even' if sc['NFFT'] % 2 == 0 else 'odd',
                                       'default' if sc['nov'] is None else 'explicit',
                                       'full-band' if (sc['lb'] == 0 and sc['ub'] is None) else 'band-limited',
                                       'single-window' if nslices == 1 else 'multi-window')


def judge(sc, R):
    fails = []
    X = np.array(sc['data'], dtype=float)
    ij = [tuple(p) for p in sc['ij']]
    d, dc = R['dense'], R['dense_coh']
    c = R['cache']
    if isinstance(d, str) or isinstance(dc, str):
        return fails
    if isinstance(c, str):
        fails.append(('cache/raises', 'cache_fft / cache_to_* raised %s where the dense path works' % c, 'error'))
        return fails
    f, fxy = d
    cden = dc[1]
    li = int(np.searchsorted(f, sc['lb'], 'left'))
    ui = len(f) if sc['ub'] is None else int(np.searchsorted(f, sc['ub'], 'right'))
    cls = cfg_class(sc, c['nslices'])
    tol = 1e-9

    def differs(a, b):
        a, b = np.asarray(a), np.asarray(b)
        if a.shape != b.shape:
            return 'shape %s vs dense %s' % (a.shape, b.shape)
        if a.ndim == 2 and a.shape[0] > 1:      # row by row: channels / pairs may differ in scale by any factor
            for r_ in range(a.shape[0]):
                w_ = differs(a[r_], b[r_])
                if w_:
                    return 'row %d: %s' % (r_, w_)
            return None
        fin = np.isfinite(np.abs(a)) & np.isfinite(np.abs(b))
        if not np.array_equal(np.isfinite(np.abs(a)), np.isfinite(np.abs(b))):
            return 'non-finite pattern differs'
        if not fin.any():
            return None
        sc_ = max(np.abs(a[fin]).max(), np.abs(b[fin]).max(), 1e-300)
        e = np.abs(a[fin] - b[fin]).max()
        return None if e <= tol * sc_ else 'max difference %.3g (scale %.3g)' % (e, sc_)

    # frequencies
    w = differs(c['freqs'], f[li:ui])
    if w:
        fails.append(('freqs/%s/ne-dense' % cls, 'cached frequencies differ from the dense grid: ' + w, 'freqs'))
    s = R['sparse']
    if not isinstance(s, str):
        w = differs(s['frequencies'], f[li:ui])
        if w:
            fails.append(('sparse-freqs/%s/ne-dense' % cls, 'SparseCoherenceAnalyzer.frequencies differ from the dense grid: ' + w, 'freqs'))
    # coherency for every requested pair
    want = np.array([cden[i, j, li:ui] for i, j in ij]).reshape(len(ij), -1)
    w = differs(c['coherency'], want)
    if w:
        fails.append(('coherency/%s/ne-dense' % cls, 'cache_to_coherency differs from coherency(): ' + w, 'coherency'))
    if not isinstance(s, str):
        w = differs(s['coherency'], want)
        if w:
            fails.append(('sparse-coherency/%s/ne-dense' % cls, 'SparseCoherenceAnalyzer.coherency differs from coherency(): ' + w, 'sparse-coherency'))
        w = differs(s['coherence'], np.abs(want) ** 2)
        if w:
            fails.append(('sparse-coherence/%s/ne-dense' % cls, 'SparseCoherenceAnalyzer.coherence differs from |coherency()|^2: ' + w, 'sparse-coherency'))
    elif True:
        fails.append(('sparse/raises', 'SparseCoherenceAnalyzer raised ' + s, 'sparse-error'))
    # power spectra
    chans = sorted({x for p in ij for x in p})
    wantp = np.array([np.real(fxy[a, a, li:ui]) for a in chans]).reshape(len(chans), -1) * (1.0 if sc['sbf'] else sc['Fs'])
    w = differs(c['psd'], wantp)
    if w:
        fails.append(('psd/%s/ne-dense' % cls, 'cache_to_psd differs from the dense PSD: ' + w, 'psd'))
    # relative phase: single window against the dense angle
    if c['nslices'] == 1 and c['relphase'].shape == want.shape:
        dang = np.angle(np.array([fxy[min(i, j), max(i, j), li:ui] if i <= j else np.conj(fxy[j, i, li:ui]) for i, j in ij]).reshape(len(ij), -1))
        big = np.abs(want) > 1e-6
        e = np.array([circ(x) for x in (c['relphase'] - dang)[big & np.isfinite(np.abs(want))]])
        if e.size and e.max() > 1e-6:
            fails.append(('relphase/%s/ne-dense-angle' % cls, 'cache_to_relative_phase differs from the angle of the dense cross-spectrum by %.3g' % e.max(), 'relphase'))
    # both memory settings
    o = R['cache_other']
    if isinstance(o, str):
        fails.append(('memory-setting/raises', 'the other prefer_speed_over_memory setting raised ' + o, 'coherency'))
    else:
        for k in ('coherency', 'psd', 'relphase', 'phase'):
            if not np.array_equal(np.nan_to_num(c[k]), np.nan_to_num(o[k])):
                fails.append(('memory-setting/%s/differs' % k, 'prefer_speed_over_memory changes %s' % k, k))
    sparse_reuse_checks(sc, fails.append)
    cache_identity_checks(sc, fails.append)
    # seed rows against the dense result on the stacked channels
    sd = R['seed']
    ns = sc['nseed']
    if isinstance(sd, str):
        fails.append(('seed/raises', 'SeedCoherenceAnalyzer raised ' + sd, 'seed'))
    else:
        nsd = max(ns, 1)
        ws = np.array([[cden[a, b, li:ui] for b in range(nsd, X.shape[0])] for a in range(nsd)])
        w = differs(np.asarray(sd['coherency']).reshape(-1), ws.reshape(-1)) if np.asarray(sd['coherency']).size == ws.size else \
            'size %d vs dense %d' % (np.asarray(sd['coherency']).size, ws.size)
        if w:
            fails.append(('seed/%s/ne-dense' % cls, 'SeedCoherenceAnalyzer.coherency differs from the dense rows: ' + w, 'seed'))
        w = differs(sd['frequencies'], f[li:ui])
        if w:
            fails.append(('seed-freqs/%s/ne-dense' % cls, 'SeedCoherenceAnalyzer.frequencies differ from the dense grid: ' + w, 'seed'))
    return fails


def sparse_reuse_checks(sc, bad):
    """ONE SparseCoherenceAnalyzer re-targeted with set_input = the dense path on the new data (default method with
    the sampling rate following the input, and a user method dict with explicit Fs / NFFT), both read orders"""
    A = tsa()
    import nitime.timeseries as ts
    from nitime.analysis import SparseCoherenceAnalyzer
    X = np.array(sc['data'], dtype=float)
    X2 = c08.partner(X)
    ij = [tuple(p) for p in sc['ij']]
    Fs = sc['Fs']
    variants = [('explicit-method', lambda: method_of(sc), Fs, sc['lb'], sc['ub']),
                ('default-method', lambda: None, 2.0 * Fs, 0.0, None)]
    for vname, mk, Fs2, lb, ub in variants:
        m_exp = mk() or {'this_method': 'welch', 'Fs': Fs2}
        want = run(lambda: A.coherency(X2, dict(m_exp)))
        if isinstance(want, str):
            continue
        f, cden = want
        li = int(np.searchsorted(f, lb, 'left'))
        ui = len(f) if ub is None else int(np.searchsorted(f, ub, 'right'))
        wc = np.array([cden[i, j, li:ui] for i, j in ij]).reshape(len(ij), -1)
        for order in ('values-first', 'frequencies-first'):
            names = ('coherency', 'spectrum', 'frequencies') if order == 'values-first' else ('frequencies', 'spectrum', 'coherency')

            def go():
                S = SparseCoherenceAnalyzer(ts.TimeSeries(X, sampling_rate=Fs), ij, method=mk(), lb=lb, ub=ub,
                                            prefer_speed_over_memory=sc['psm'], scale_by_freq=sc['sbf'])
                for a in names:
                    getattr(S, a)
                S.set_input(ts.TimeSeries(X2, sampling_rate=Fs2))
                coh = np.asarray(S.coherency) if order == 'values-first' else None
                fr = np.asarray(S.frequencies)
                coh = np.asarray(S.coherency) if coh is None else coh
                return np.array([coh[i, j] for i, j in ij]).reshape(len(ij), -1), fr
            got = run(go)
            if isinstance(got, str):
                bad(('sparse-reuse/%s/%s/raises' % (vname, order), 'a re-targeted SparseCoherenceAnalyzer raised ' + got, 'sparse-coherency'))
                continue
            if not c08.same(got[0], wc):
                bad(('sparse-reuse/%s/%s/stale-coherency' % (vname, order),
                     'SparseCoherenceAnalyzer re-targeted with set_input: .coherency differs from coherency() on the new data', 'sparse-coherency'))
            if not c08.same(got[1], f[li:ui]):
                bad(('sparse-reuse/%s/%s/stale-frequencies' % (vname, order),
                     'SparseCoherenceAnalyzer re-targeted with set_input: .frequencies differ from the dense grid of the new input', 'sparse-coherency'))


def cache_identity_checks(sc, bad):
    A = tsa()
    ij = [tuple(p) for p in sc['ij']]
    chans = sorted({c for p in ij for c in p})
    kw = dict(lb=sc['lb'], ub=sc['ub'], prefer_speed_over_memory=sc['psm'], scale_by_freq=sc['sbf'])

    def coh(X_, m_):
        f_, cache = A.cache_fft(X_, ij, method=m_, **kw)
        c_ = A.cache_to_coherency(cache, ij)
        return np.array(f_), np.array([c_[i, j] for i, j in ij])

    def psd(X_, m_):
        f_, cache = A.cache_fft(X_, ij, method=m_, **kw)
        p1 = A.cache_to_psd(cache, ij)
        p2 = A.cache_to_psd(cache, ij)      # a second read of the same cache must give the same spectra
        c_ = A.cache_to_coherency(cache, ij)   # ... and must not have disturbed the cache
        return (np.array([np.real(np.asarray(p1[c])).reshape(-1) for c in chans]),
                np.array([np.real(np.asarray(p2[c])).reshape(-1) for c in chans]),
                np.array([c_[i, j] for i, j in ij]))
    out = []
    c08.identity_checks('cache', sc['data'], [('cache_to_coherency', coh), ('cache_to_psd', psd)], lambda: method_of(sc),
                        lambda k, w, o: out.append((k, w, 'coherency')))
    for t in out:
        bad(t)
    r = run(lambda: psd(np.array(sc['data'], dtype=float), method_of(sc)))
    if not isinstance(r, str):
        if not c08.same(r[0], r[1], 0.0):
            bad(('cache/func/cache_to_psd/second-read-differs', 'cache_to_psd called twice on one cache gives different spectra', 'psd'))
        r0 = run(lambda: coh(np.array(sc['data'], dtype=float), method_of(sc)))
        if not isinstance(r0, str) and not c08.same(r[2], r0[1], 1e-12):
            bad(('cache/func/cache_to_psd/disturbs-cache', 'cache_to_coherency after cache_to_psd differs from cache_to_coherency on a fresh cache', 'coherency'))


def oracle(rng, tier, seed, focus, cases=None):
    fails, nj = [], 0
    by = {}
    for c in (cases or []):
        if c.meta:
            by.setdefault((c.meta['sc'], c.meta['obs']), []).append(c)
    for si, (sc, R) in enumerate(zip(_SC.get('list', []), _SC.get('res', []))):
        nj += 1
        for key, what, obs in judge(sc, R):
            # a wrong frequency grid (odd NFFT) moves the band: every observable of the scenario is affected
            cs = [c for (s_, o_), l_ in by.items() if s_ == si for c in l_] if 'odd-nfft' in key else by.get((si, obs), [None])
            for c in (cs or [None]):
                fails.append(Failure(key, what, {'scenario': sc, 'key': key}, case=c))
    return fails, {'scenarios_judged': nj, 'failed_checks': len({(id(f.replay['scenario']), f.key) for f in fails}),
                   'distinct_failure_keys': len({f.key for f in fails}), 'focus': len(focus)}


def replay(d):
    sc = d['scenario']
    R = impl_results(sc)
    for key, what, obs in judge(sc, R):
        if key == d['key']:
            return Failure(key, what, d)
    return None
