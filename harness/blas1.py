"""blas1.py — pin the BLAS / LAPACK thread pools of numpy and scipy to ONE thread for this process.

On a machine whose cores are oversubscribed the multi-threaded OpenBLAS bundled with numpy / scipy spins on its barriers:
`np.linalg.solve` of a 300 x 300 system was measured at 9 s per call with the default thread count against 1 ms with one
thread (load average 60 on 16 cores).  The checks make thousands of small dense calls (reference solves, Gram matrices,
eigenvalue certificates), none of which gains from threads.  Import this module before the heavy work: it looks up the
OpenBLAS libraries that are already loaded and calls their `…set_num_threads(1)`; failures are ignored (the check is
then merely slower).  Results stay within the tolerances of the oracles (single-threaded sums are also reproducible)."""
import ctypes
import glob
import os


def pin():
    n = 0
    try:
        import numpy
        import scipy
        roots = [os.path.join(os.path.dirname(os.path.dirname(m.__file__)), d) for m in (numpy, scipy) for d in ('numpy.libs', 'scipy.libs')]
        roots += [os.path.join(os.path.dirname(m.__file__), '.libs') for m in (numpy, scipy)]
        for root in roots:
            for path in glob.glob(os.path.join(root, '*openblas*')):
                try:
                    lib = ctypes.CDLL(path)
                except OSError:
                    continue
                for name in ('openblas_set_num_threads', 'openblas_set_num_threads64_', 'scipy_openblas_set_num_threads64_',
                             'scipy_openblas_set_num_threads'):
                    fn = getattr(lib, name, None)
                    if fn is not None:
                        try:
                            fn(1)
                            n += 1
                        except Exception:
                            pass
    except Exception:
        pass
    return n


PINNED = pin()
