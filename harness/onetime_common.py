"""Shared by harness/c13.py and harness/c14.py: building tiny analyzers of every class, canonical
hashing of results, observation of single reads from the outside (getter invocation log by wrapping
the descriptors' getters, `__dict__` / slot / cached-result / input hashes before and after)."""
import hashlib, warnings, importlib, functools, io, contextlib
import numpy as np
import translate_c13 as T13
import common

warnings.simplefilter('ignore')
np.seterr(all='ignore')

MISSING = '<missing>'
LIGHT = set()      # (class, label) of the option / dtype settings: fewer switch experiments per setting in the quick tier
_TABLES = None


def tables():
    global _TABLES
    if _TABLES is None:
        t = T13.tables(common.REPO)
        _TABLES = {c['cls']: c for c in t['classes']}
        _TABLES['__reset__'] = t['reset']
    return _TABLES


def nt():
    import nitime.timeseries as ts
    import nitime.analysis as na
    return ts, na


# ------------------------------------------------------------------ canonical bytes / hashes
COARSE = [False]      # hv_coarse: floats quantised to ~1e-9 of the array's magnitude (cross-PROCESS comparisons)


def _quant(a):
    a = np.asarray(a)
    m = float(np.max(np.abs(a[np.isfinite(a)]))) if a.size and np.any(np.isfinite(a)) else 0.0
    if m == 0.0:
        return np.zeros(a.shape, dtype=np.int64).tobytes() + np.isnan(a).tobytes()
    scale = 2.0 ** np.ceil(np.log2(m))
    with np.errstate(all='ignore'):
        q = np.round(np.nan_to_num(a / scale, nan=0.0, posinf=2.0, neginf=-2.0) * 1e9)
    if np.iscomplexobj(q):
        q = np.stack([q.real, q.imag])
    return q.astype(np.int64).tobytes() + np.isnan(a).tobytes() + ('%d' % int(np.ceil(np.log2(m)))).encode()


def canon(v, h, depth=0):
    ts, _ = nt()
    if depth > 6:
        h.update(b'<deep>')
        return
    if isinstance(v, ts.TimeSeriesBase):
        h.update(b'TS(')
        canon(np.asarray(v.data), h, depth + 1)
        for a in ('sampling_interval', 't0', 'time_unit'):
            x = getattr(v, a, None)
            h.update(('%s=%s;' % (a, (int(np.asarray(x)), getattr(x, 'time_unit', None)) if x is not None and a != 'time_unit' else x)).encode())
        h.update(b')')
    elif isinstance(v, ts.Epochs):
        h.update(b'Ep(')
        canon(np.asarray(v.data), h, depth + 1)
        h.update(str(v.time_unit).encode() + b')')
    elif isinstance(v, ts.Events):
        h.update(b'Ev(')
        canon(np.asarray(v.time), h, depth + 1)
        h.update(b')')
    elif isinstance(v, np.ndarray):
        a = np.asarray(v)
        h.update(('A%s%s' % (a.dtype.str, a.shape)).encode())
        if a.dtype == object:
            for x in a.reshape(-1):
                canon(x, h, depth + 1)
        else:
            if a.dtype.kind in 'fc':
                a = a + 0          # -0.0 and +0.0 are the same value (which one a sum of exact zeros yields depends on
                #                    the SIMD path numpy takes for the buffer's alignment, i.e. on the process)
                if COARSE[0]:
                    h.update(_quant(a))
                    return
            h.update(np.ascontiguousarray(a).tobytes())
    elif isinstance(v, (tuple, list)):
        h.update(('L%d(' % len(v)).encode())
        for x in v:
            canon(x, h, depth + 1)
        h.update(b')')
    elif isinstance(v, dict):
        h.update(b'D(')
        for k in sorted(v, key=repr):
            h.update(repr(k).encode() + b':')
            canon(v[k], h, depth + 1)
        h.update(b')')
    elif isinstance(v, (np.generic,)):
        if COARSE[0] and v.dtype.kind in 'fc':
            h.update(('S%s' % v.dtype.str).encode() + _quant(np.asarray(v)))
        else:
            h.update(('S%s' % v.dtype.str).encode() + (np.asarray(v) + 0 if v.dtype.kind in 'fc' else np.asarray(v)).tobytes())
    elif isinstance(v, (int, str, bool, type(None), float, complex)):
        h.update(('P%s:%r' % (type(v).__name__ if not isinstance(v, float) else 'float', (float('%.9e' % v) if COARSE[0] else float(v) + 0.0) if isinstance(v, float) and not isinstance(v, bool) else v)).encode())
    elif callable(v):
        h.update(('F:%s' % getattr(v, '__name__', type(v).__name__)).encode())
    else:
        h.update(('O:%s' % type(v).__name__).encode())
        d = getattr(v, '__dict__', None)
        if isinstance(d, dict) and depth < 3:
            canon({k: x for k, x in d.items() if not k.startswith('__')}, h, depth + 1)


def hv(v):
    h = hashlib.sha1()
    try:
        canon(v, h)
    except Exception as e:  # un-hashable exotic object: identity is all we can say
        h.update(('<canon-failed %s>' % type(e).__name__).encode())
    return h.hexdigest()[:16]


def hv_coarse(v):
    """hash that ignores differences below ~1e-9 of an array's magnitude: FFT / BLAS kernels choose their SIMD path by the
    buffer's alignment, so two PROCESSES may differ in the last bits of the same computation"""
    COARSE[0] = True
    try:
        return hv(v)
    finally:
        COARSE[0] = False


# ------------------------------------------------------------------ invocation log
LOG = []
_WRAPPED = set()


def _find_descriptor(cls, name):
    for k in cls.__mro__:
        if name in k.__dict__:
            return k.__dict__[name]
    return None


def wrap_getters(cls, names):
    """wrap the getter functions held by the OneTimeProperty descriptors so that every invocation is
    logged (from outside: nothing in the repo is edited)"""
    for n in names:
        d = _find_descriptor(cls, n)
        if d is None or not hasattr(d, 'getter') or id(d) in _WRAPPED:
            continue
        orig = d.getter

        def mk(orig, n):
            @functools.wraps(orig)
            def w(obj):
                LOG.append((id(obj), n))
                return orig(obj)
            return w
        d.getter = mk(orig, n)
        _WRAPPED.add(id(d))


# ------------------------------------------------------------------ settings (class x parameters)
def _rs(seed, label):
    return common.np_rng('C13', seed, 'data/' + label)


def _series(rs, nch, n, rate=1.0, one_d=False, cplx=False):
    ts, _ = nt()
    if cplx:
        re = _series(rs, nch, n, rate, one_d).data
        im = _series(rs, nch, n, rate, one_d).data
        return ts.TimeSeries(re + 1j * im, sampling_rate=rate)
    t = np.arange(n)
    base = np.sin(2 * np.pi * 0.11 * t + rs.uniform(0, 6)) + 0.5 * np.sin(2 * np.pi * 0.23 * t)
    if one_d:
        d = base + 0.7 * rs.randn(n)
    else:
        d = np.array([np.roll(base, int(rs.randint(0, 7))) + 0.7 * rs.randn(n) for _ in range(nch)])
    return ts.TimeSeries(d, sampling_rate=rate)


class Setting:
    def __init__(self, cls, label, build, variant=0):
        self.cls, self.label, self.build = cls, label, build


def settings(seed, tier):
    """[(class name, label, builder(variant) -> (object, [watched inputs]))]; `variant` selects the input
    (0 = the reference input; others differ in length / rate / channel count, used by C14)"""
    ts, na = nt()
    S = []
    N = 128

    def inp(label, variant, nch=3, one_d=False, n=None, cplx=False):
        rs = _rs(seed, label + '/v%d' % variant)
        n = n or N
        if variant == 0:
            return _series(rs, nch, n, 1.0, one_d, cplx)
        if variant == 1:      # same shape, other data
            return _series(rs, nch, n, 1.0, one_d, cplx)
        if variant == 2:      # other length
            return _series(rs, nch, n + 64, 1.0, one_d, cplx)
        if variant == 3:      # other sampling rate
            return _series(rs, nch, n, 2.5, one_d, cplx)
        return _series(rs, nch + 1, n, 1.0, one_d, cplx)      # other channel count

    def add(cls, label, f):
        S.append((cls, label, f))

    def simple(cls, label, ctor, conv=None, **kw):
        def b(variant=0, input=None):
            if input is None:
                x = inp(cls + label, variant, **kw)
                if conv is not None:
                    x = conv(x)
            else:
                x = input
            return ctor(x), [x]
        add(cls, label, b)

    def as_kind(kind):
        """the same recording stored as another dtype / layout (L1)"""
        def f(x):
            d = np.asarray(x.data)
            if kind == 'int16':
                d = np.round(d * 1000).astype(np.int16)
            elif kind == 'int64':
                d = np.round(d * 1000).astype(np.int64)
            elif kind == 'uint8':
                d = np.round((d - d.min()) / (d.max() - d.min()) * 200 + 20).astype(np.uint8)
            elif kind == 'float32':
                d = d.astype(np.float32)
            elif kind == 'readonly':
                d = d.copy()
                d.flags.writeable = False
            elif kind == '3d':
                d = np.stack([d, d[::-1] * 0.5])
            elif kind == 'fortran':
                d = np.asfortranarray(d)
            return ts.TimeSeries(d, sampling_rate=x.sampling_rate)
        return f

    simple('CoherenceAnalyzer', 'welch32', lambda x: na.CoherenceAnalyzer(x, method=dict(this_method='welch', NFFT=32, n_overlap=16)))
    simple('CoherenceAnalyzer', 'welch32-unwrap', lambda x: na.CoherenceAnalyzer(x, method=dict(this_method='welch', NFFT=32, n_overlap=16), unwrap_phases=True))
    simple('CoherenceAnalyzer', 'default', lambda x: na.CoherenceAnalyzer(x))
    simple('CoherenceAnalyzer', 'mt-unwrap', lambda x: na.CoherenceAnalyzer(x, method=dict(this_method='multi_taper_csd'), unwrap_phases=True), n=64)
    # user-supplied method dictionaries with non-default entries ('Fs' different from the input's rate)
    simple('CoherenceAnalyzer', 'user-fs', lambda x: na.CoherenceAnalyzer(x, method=dict(this_method='welch', NFFT=32, n_overlap=8, Fs=3.0, detrend=na.coherence.tsa.mlab.detrend_mean)))
    simple('SparseCoherenceAnalyzer', 'user-fs', lambda x: na.SparseCoherenceAnalyzer(x, ij=[(0, 2), (1, 2)], method=dict(this_method='welch', NFFT=16, Fs=3.0, n_overlap=4), lb=0.1, ub=1.2))
    simple('SpectralAnalyzer', 'user-fs', lambda x: na.SpectralAnalyzer(x, method=dict(this_method='welch', NFFT=32, Fs=3.0, n_overlap=8), BW=0.2), n=64)
    # complex-valued inputs (in-place transforms bite only there)
    simple('SpectralAnalyzer', 'complex', lambda x: na.SpectralAnalyzer(x, method=dict(this_method='welch', NFFT=32)), n=64, cplx=True)
    simple('SpectralAnalyzer', 'complex-1d', lambda x: na.SpectralAnalyzer(x), n=64, cplx=True, one_d=True)
    simple('HilbertAnalyzer', '1d', lambda x: na.HilbertAnalyzer(x), one_d=True)
    # complex-valued recordings for the coherence family: the spectra are two-sided there, so anything derived from the
    # method dictionary alone (a one-sided grid, a bin count) differs from what the estimator returns (wave 9, C13-18)
    simple('CoherenceAnalyzer', 'complex-welch32', lambda x: na.CoherenceAnalyzer(x, method=dict(this_method='welch', NFFT=32, n_overlap=16)), cplx=True)
    simple('CoherenceAnalyzer', 'complex-default', lambda x: na.CoherenceAnalyzer(x), n=160, cplx=True)
    simple('SparseCoherenceAnalyzer', 'complex-ij', lambda x: na.SparseCoherenceAnalyzer(x, ij=[(0, 1), (1, 2)], method=dict(this_method='welch', NFFT=32, n_overlap=16)), cplx=True)
    simple('MTCoherenceAnalyzer', 'complex-adaptive', lambda x: na.MTCoherenceAnalyzer(x), n=64, cplx=True)
    simple('CorrelationAnalyzer', 'complex', lambda x: na.CorrelationAnalyzer(x), n=32, cplx=True)
    simple('NormalizationAnalyzer', 'complex', lambda x: na.NormalizationAnalyzer(x), n=32, cplx=True)
    simple('MTCoherenceAnalyzer', 'adaptive', lambda x: na.MTCoherenceAnalyzer(x), n=64)
    simple('MTCoherenceAnalyzer', 'fixed-bw', lambda x: na.MTCoherenceAnalyzer(x, bandwidth=0.125, adaptive=False), n=64)
    simple('SparseCoherenceAnalyzer', 'ij', lambda x: na.SparseCoherenceAnalyzer(x, ij=[(0, 1), (1, 2)], method=dict(this_method='welch', NFFT=32, n_overlap=16)))
    simple('SparseCoherenceAnalyzer', 'band', lambda x: na.SparseCoherenceAnalyzer(x, ij=[(0, 1), (0, 2)], method=dict(this_method='welch', NFFT=32, n_overlap=16), lb=0.05, ub=0.3,
                                                                                      prefer_speed_over_memory=False))
    simple('SpectralAnalyzer', 'default', lambda x: na.SpectralAnalyzer(x))
    simple('SpectralAnalyzer', 'nfft32', lambda x: na.SpectralAnalyzer(x, method=dict(this_method='welch', NFFT=32, n_overlap=16)), n=64)
    simple('SpectralAnalyzer', 'mt-method', lambda x: na.SpectralAnalyzer(x, method=dict(this_method='multi_taper_csd', NFFT=32), adaptive=True), n=64)
    simple('HilbertAnalyzer', 'plain', lambda x: na.HilbertAnalyzer(x))
    simple('MorletWaveletAnalyzer', 'freqs', lambda x: na.MorletWaveletAnalyzer(x, freqs=[0.1, 0.2]), one_d=True)
    simple('MorletWaveletAnalyzer', 'log', lambda x: na.MorletWaveletAnalyzer(x, f_min=0.15, f_max=0.4, nfreqs=3, log_spacing=True, log_morlet=True), one_d=True)
    simple('CorrelationAnalyzer', 'plain', lambda x: na.CorrelationAnalyzer(x), n=48)
    # longer than the sizes at which correlation routines switch algorithm (2048): size-dependent paths run here too
    simple('CorrelationAnalyzer', 'long-2100', lambda x: na.CorrelationAnalyzer(x), n=2100, nch=2)
    simple('NormalizationAnalyzer', 'plain', lambda x: na.NormalizationAnalyzer(x))
    simple('SNRAnalyzer', 'plain', lambda x: na.SNRAnalyzer(x), nch=4, n=64)
    simple('SNRAnalyzer', 'adaptive', lambda x: na.SNRAnalyzer(x, adaptive=True, bandwidth=0.1), nch=4, n=64)
    simple('GrangerAnalyzer', 'order2', lambda x: na.GrangerAnalyzer(x, order=2, n_freqs=32))
    simple('GrangerAnalyzer', 'bic', lambda x: na.GrangerAnalyzer(x, ij=[(0, 1), (1, 2)], n_freqs=16))

    def filt(label, cplx=False, **kw):
        def b(variant=0, input=None):
            x = inp('Filter' + label, variant, cplx=cplx) if input is None else input
            return na.FilterAnalyzer(x, filt_order=16, **kw), [x]
        add('FilterAnalyzer', label, b)
    filt('highpass-ubNone', lb=0.05)
    filt('band', lb=0.05, ub=0.3)
    filt('allpass')
    filt('complex-band', cplx=True, lb=0.05, ub=0.3)

    def seedcoh(label, two_d, **kw):
        def b(variant=0, input=None):
            rs = _rs(seed, 'SeedCoh' + label + ('/v%d' % variant if variant else ''))
            rate = 1.25 if variant == 3 else 0.5
            tgt = _series(rs, 3, N, rate)
            sd = _series(rs, 2, N, rate) if two_d else _series(rs, 1, N, rate, one_d=True)
            kw2 = dict(kw)
            dead = kw2.pop('dead', None)
            if dead is not None:
                tgt.data[dead] = 0.0
            if 'method' in kw2:
                kw2['method'] = dict(kw2['method'])
            return na.SeedCoherenceAnalyzer(sd, tgt, **kw2), [sd, tgt]
        add('SeedCoherenceAnalyzer', label, b)
    seedcoh('fs-given', True, method=dict(this_method='welch', NFFT=32, Fs=0.8, n_overlap=8), lb=0.02, ub=0.3)
    seedcoh('fs-missing-band', True, method=dict(this_method='welch', NFFT=32), lb=0.02, ub=0.2)
    seedcoh('default-1d', False)
    # a dead (all-zero) target channel: its coherency is nan - a getter that "cleans" the stored coherency in place shows only there
    seedcoh('dead-target', True, dead=1)

    def seedcorr(label, two_d):
        def b(variant=0, input=None):
            rs = _rs(seed, 'SeedCorr' + label + ('/v%d' % variant if variant else ''))
            tgt = _series(rs, 3, 64)
            sd = _series(rs, 2, 64) if two_d else _series(rs, 1, 64, one_d=True)
            return na.SeedCorrelationAnalyzer(sd, tgt), [sd, tgt]
        add('SeedCorrelationAnalyzer', label, b)
    seedcorr('2d', True)
    seedcorr('1d', False)

    def era(label, as_events, **kw):
        def b(variant=0, input=None):
            rs = _rs(seed, 'ERA' + label + ('/v%d' % variant if variant else ''))
            n = 120
            x = ts.TimeSeries(rs.randn(2, n) if not kw.pop('_one_d', False) else rs.randn(n), sampling_rate=1.0)
            idx = np.array([10, 31, 52, 75, 93])
            if as_events:
                ev = ts.Events(idx.astype(float), time_unit='s')
            else:
                e = np.zeros(n)
                e[idx] = 1
                e[idx[::2] + 6] = 2
                ev = ts.TimeSeries(e, sampling_rate=1.0)
            return na.EventRelatedAnalyzer(x, ev, 8, **kw), [x, ev]
        add('EventRelatedAnalyzer', label, b)
    era('ts-events', False)
    era('ts-events-baseline', False, correct_baseline=True, zscore=True, offset=2)
    era('events', True)

    def epochs(label, sub=False):
        def b(variant=0, input=None):
            rs = _rs(seed, 'Epochs' + label + ('/v%d' % variant if variant else ''))
            st = np.sort(rs.randint(0, 1000, 6)).astype(float)
            du = rs.randint(1, 50, 6).astype(float)
            return ts.Epochs(st, duration=du, time_unit='s'), []
        add('Epochs', label, b)
    epochs('six')

    def series(label, **kw):
        def b(variant=0, input=None):
            rs = _rs(seed, 'TS' + label + ('/v%d' % variant if variant else ''))
            x = _series(rs, 2, 24, **kw)
            return x, []
        add('TimeSeries', label, b)
    series('plain')
    series('rate2.5-1d', rate=2.5, one_d=True)
    # ---- L3: every constructor option with a non-default and with a falsy value
    n_core = len(S)
    import nitime.utils as tsu
    simple('MTCoherenceAnalyzer', 'alpha', lambda x: na.MTCoherenceAnalyzer(x, alpha=0.1, bandwidth=None, adaptive=True), n=64)
    simple('SparseCoherenceAnalyzer', 'default-noscale', lambda x: na.SparseCoherenceAnalyzer(x, ij=[(0, 1), (0, 2)], scale_by_freq=False, lb=0.0, ub=None))
    simple('SparseCoherenceAnalyzer', 'default', lambda x: na.SparseCoherenceAnalyzer(x, ij=[(0, 1), (1, 2)]))
    seedcoh('noscale-slow', True, method=dict(this_method='welch', NFFT=32, n_overlap=8), lb=0.0, ub=0.2, prefer_speed_over_memory=False, scale_by_freq=False)
    simple('GrangerAnalyzer', 'aic-maxorder', lambda x: na.GrangerAnalyzer(x, order=None, ij=[(0, 2)], n_freqs=16, max_order=8,
                                                                          criterion=tsu.akaike_information_criterion))
    simple('SNRAnalyzer', 'highbias', lambda x: na.SNRAnalyzer(x, low_bias=False, adaptive=False, bandwidth=None), nch=4, n=64)
    simple('SpectralAnalyzer', 'highbias', lambda x: na.SpectralAnalyzer(x, method=None, BW=None, adaptive=False, low_bias=False), n=64)
    simple('MorletWaveletAnalyzer', 'sd', lambda x: na.MorletWaveletAnalyzer(x, freqs=np.array([0.1, 0.25]), sd_rel=0.3, log_spacing=False, log_morlet=False), one_d=True)
    simple('MorletWaveletAnalyzer', 'sd-abs', lambda x: na.MorletWaveletAnalyzer(x, freqs=0.2, sd=0.05), one_d=True)
    simple('CoherenceAnalyzer', 'falsy', lambda x: na.CoherenceAnalyzer(x, method=None, unwrap_phases=False))
    filt('cheby-hann', lb=0.0, ub=0.3, boxcar_iterations=3, gpass=2, gstop=40, iir_ftype='cheby1', fir_win='hann')
    era('ts-events-offset0', False, correct_baseline=False, zscore=False, offset=0)
    # ---- L1: recordings that are not float64 C-contiguous 2-d arrays
    simple('CorrelationAnalyzer', 'int16', lambda x: na.CorrelationAnalyzer(x), conv=as_kind('int16'), n=48)
    simple('NormalizationAnalyzer', 'uint8', lambda x: na.NormalizationAnalyzer(x), conv=as_kind('uint8'), n=32)
    simple('NormalizationAnalyzer', '3d', lambda x: na.NormalizationAnalyzer(x), conv=as_kind('3d'), n=32)
    simple('SpectralAnalyzer', 'float32', lambda x: na.SpectralAnalyzer(x, method=dict(this_method='welch', NFFT=32)), conv=as_kind('float32'), n=64)
    simple('SpectralAnalyzer', 'int64-3d', lambda x: na.SpectralAnalyzer(x, method=dict(this_method='welch', NFFT=32)), conv=lambda x: as_kind('3d')(as_kind('int64')(x)), n=64)
    simple('HilbertAnalyzer', 'readonly', lambda x: na.HilbertAnalyzer(x), conv=as_kind('readonly'))
    simple('CoherenceAnalyzer', 'readonly-fortran', lambda x: na.CoherenceAnalyzer(x, method=dict(this_method='welch', NFFT=32, n_overlap=8)), conv=lambda x: as_kind('readonly')(as_kind('fortran')(x)))
    simple('GrangerAnalyzer', 'float32', lambda x: na.GrangerAnalyzer(x, order=2, n_freqs=16), conv=as_kind('float32'))
    simple('SNRAnalyzer', 'int16', lambda x: na.SNRAnalyzer(x), conv=as_kind('int16'), nch=4, n=64)
    # ---- L4: odd sizes and method dicts that leave keys out (defaults derived in two places must agree: ceil vs floor)
    simple('SpectralAnalyzer', 'nfft31', lambda x: na.SpectralAnalyzer(x, method=dict(this_method='welch', NFFT=31)), n=95)
    simple('SpectralAnalyzer', 'nfft33-only', lambda x: na.SpectralAnalyzer(x, method=dict(NFFT=33)), n=64, one_d=True)
    simple('CoherenceAnalyzer', 'nfft31', lambda x: na.CoherenceAnalyzer(x, method=dict(this_method='welch', NFFT=31, n_overlap=7)), n=95)
    simple('CoherenceAnalyzer', 'no-this-method', lambda x: na.CoherenceAnalyzer(x, method=dict(NFFT=32, n_overlap=15)), n=95)
    simple('SparseCoherenceAnalyzer', 'nfft31', lambda x: na.SparseCoherenceAnalyzer(x, ij=[(0, 1), (1, 2)], method=dict(this_method='welch', NFFT=31)), n=95)
    seedcoh('nfft31', True, method=dict(this_method='welch', NFFT=31))
    simple('MTCoherenceAnalyzer', 'odd-length', lambda x: na.MTCoherenceAnalyzer(x), n=63)
    simple('HilbertAnalyzer', 'odd-length', lambda x: na.HilbertAnalyzer(x), n=63)
    simple('CorrelationAnalyzer', 'odd-length-2ch', lambda x: na.CorrelationAnalyzer(x), n=31, nch=2)
    simple('GrangerAnalyzer', 'odd', lambda x: na.GrangerAnalyzer(x, order=3, n_freqs=15), n=127)
    # an explicit method['Fs'] that merely EQUALS the first input's sampling rate is still the user's choice
    simple('CoherenceAnalyzer', 'user-fs-equal', lambda x: na.CoherenceAnalyzer(x, method=dict(this_method='welch', NFFT=32, n_overlap=16, Fs=1.0)))
    simple('SparseCoherenceAnalyzer', 'user-fs-equal', lambda x: na.SparseCoherenceAnalyzer(x, ij=[(0, 1), (1, 2)], method=dict(this_method='welch', NFFT=32, n_overlap=16, Fs=1.0)))
    simple('SpectralAnalyzer', 'user-fs-equal', lambda x: na.SpectralAnalyzer(x, method=dict(this_method='welch', NFFT=32, Fs=1.0)), n=64)
    LIGHT.update((c, l) for (c, l, _) in S[n_core:])
    return S


# ------------------------------------------------------------------ observing an object
def slot_value(obj, name):
    parts = name.split('.')
    v = obj.__dict__.get(parts[0], MISSING)
    for k in parts[1:]:
        if isinstance(v, str) and v == MISSING:
            return MISSING
        try:
            v = v[k]
        except Exception:
            return MISSING
    return v


def flag_value(obj, flag):
    kind, name = flag.split(':', 1)
    v = slot_value(obj, name)
    if kind == 'truthy':
        try:
            return bool(v) if not (isinstance(v, str) and v == MISSING) else False
        except Exception:
            return True
    return v is None or (isinstance(v, str) and v == MISSING)


def cfg_of(obj, table):
    return [i for i, f in enumerate(table['flags']) if flag_value(obj, f)]


class Snap:
    """hashes of everything a read could touch"""

    def __init__(self, obj, table, watched):
        d = obj.__dict__
        self.cache = {g: hv(d[g]) for g in table['getters'] if g in d}
        self.ids = {g: id(d[g]) for g in table['getters'] if g in d}
        self.slots = {}
        for s in table['slots']:
            v = slot_value(obj, s)
            kids = [t[len(s) + 1:] for t in table['slots'] if t.startswith(s + '.')]
            if kids and isinstance(v, dict):      # entries that are slots of their own are hashed there
                v = {k: x for k, x in v.items() if k not in kids}
            self.slots[s] = hv(v)
        self.other = {k: hv(v) for k, v in d.items()
                      if k not in table['getters'] and k not in table['slots'] and k != 'input'}
        self.inputs = [hv(w) for w in watched] + ([hv(d['input'])] if 'input' in d and d['input'] is not None else [])


def quiet():
    """nitime prints warnings with print(); keep the check's output readable"""
    return contextlib.redirect_stdout(io.StringIO())


def read_result(obj, name):
    try:
        with quiet():
            return getattr(obj, name), None
    except RecursionError:
        return None, 'RecursionError'
    except Exception as e:  # noqa
        return None, common.err_kind(e)


class Step:
    """what one read did, seen from outside"""
    __slots__ = ('g', 'value_hash', 'err', 'fired', 'pw', 'cl', 'inp', 'unknown', 'same_obj_as_cached', 'was_cached', 'returned_is_stored')


def observed_read(obj, table, watched, name):
    before = Snap(obj, table, watched)
    del LOG[:]
    v, err = read_result(obj, name)
    fired = [n for (i, n) in LOG if i == id(obj)]
    del LOG[:]
    after = Snap(obj, table, watched)
    st = Step()
    st.g = name
    st.err = err
    st.value_hash = ('err ' + err) if err else hv(v)
    st.fired = fired
    st.pw = sorted(s for s in table['slots'] if before.slots[s] != after.slots[s])
    st.cl = sorted(g for g in before.cache if after.cache.get(g) != before.cache[g])
    st.inp = before.inputs != after.inputs
    st.unknown = sorted(k for k in after.other if before.other.get(k) != after.other[k])
    st.was_cached = name in before.cache
    st.returned_is_stored = err is not None or name not in obj.__dict__ or id(obj.__dict__[name]) == id(v)
    st.same_obj_as_cached = (not st.was_cached) or err is not None or (id(v) == before.ids.get(name))
    return st


def prepare(seed, tier):
    """settings + wrapped getters; returns [(cls, label, build, table)]"""
    ts, na = nt()
    tb = tables()
    out = []
    for (cls, label, build) in settings(seed, tier):
        if cls not in tb:
            continue
        klass = getattr(na, cls, None) or getattr(ts, cls)
        wrap_getters(klass, tb[cls]['getters'])
        out.append((cls, label, build, tb[cls]))
    return out
