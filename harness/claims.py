"""What MANIFEST.json claims per property: (technique, level text, level note, DESIGN ref).
Edited by hand; harness/mk_manifest.py turns it into MANIFEST.json."""
TB = ('Trusted: Lean 4.33 kernel + Mathlib as compiled here; axioms propext/Classical.choice/Quot.sound only (audited per theorem each run); '
      'harness/translate*.py; the correspondence harness and its oracles; numpy/scipy semantics as modelled. ')
NOT_APPLICABLE = {}
CLAIMED = {
 'C01': ('Lean 4 theorems (exact Int picoseconds, exact binary64 on Rat) + generated unit table + differential correspondence',
         'Proof: 20 theorems about the TimeArray model (SI table regenerated from the source, exact integer storage, nearest-picosecond rounding of the binary64 product with the proved bound |rne q - q| <= |q| 2^-53, instant-preserving re-wrap/convert, exact operator arithmetic with unit of the left operand, reductions, no wrap below 2^62). Tie: regenerated factor table + ~4k differential cases per quick run (every operator x operand kind, all 81 unit pairs, near-equal operands, magnitudes beyond 2^53), including a bit-for-bit validation of the binary64 model against the hardware.',
         TB + 'The float model is validated against hardware per run.', '7/C01, 11'),
 'C02': ('Lean 4 theorems on an exact Int/binary64-on-Rat model of UniformTime/TimeSeries construction + generated validity tables + differential correspondence',
         'Proof: 30 theorems (accepted argument patterns = documented ones, by decide over the tables regenerated from the source; sample i = t0 + i*dt; n = requested length / data length / multiples before the duration; duration = n*dt; |dt - 1e12/rate| bounds for every positive double and unit; identical axes from an interval and from the rate it reports when x*factor is a whole number < 2^49). Counterexample theorems (decide +kernel on exact doubles) document the pre-repair code. Tie: ~3k constructions per quick run (all valid/invalid argument combinations, all units, lengths to 1e6, extents beyond 2^53 ps) compared field by field with the real constructors.',
         TB + 'Not proved (correspondence only): same-sampling for non-whole intervals and periods in [2^49,2^53); bare-number rate path; unit inference and t0 casting plumbing.', '7/C02, notes/C02.md'),
 'C03': ('Lean 4 theorems on an Int-picosecond model of index_at / slice_during / at / during / __getitem__ for axes, time arrays, series and events + differential correspondence',
         'Proof: 35 theorems (index_at of sample i is i; every instant of bin i maps to i; instants outside are refused; closest/before/after return exactly the positions satisfying the relation; slice_during selects exactly start <= t_i < stop for any epoch on uniform axes and on sorted arrays with duplicates; data selected = data stored at those positions; epoch offset/start/stop arithmetic). Tie: ~2.7k (container, query) cases per quick run with queries derived from the samples (on a sample, +-1 ps, bin edges, axis end), compared exactly.',
         TB + 'Correspondence only: array/broadcast forms of the Epochs constructor, element-wise before/after lookups, negative integer keys.', '7/C03, notes/C03.md'),
}
