#!/usr/bin/env python3
"""keep_seed.py <src dir> <dest id> <property> <detected-by text>: archive a confirmed seeded change"""
import sys, os, json, shutil
src, dest, pid, how = sys.argv[1:5]
d = os.path.join('/verif/seeded', dest)
os.makedirs(d, exist_ok=True)
for f in ('patch.diff', 'demo.py'):
    shutil.copy(os.path.join(src, f), os.path.join(d, f))
m = json.load(open(os.path.join(src, 'meta.json')))
m['property'] = pid
m['confirmed_by_lead'] = ('harness/seedcheck.sh <dir> %s --tests in an isolated scratch copy of /repo: demo.py exits 0 on the pristine copy and non-zero with '
                          'patch.diff applied; harness/baseline.py: all 139 stable tests still pass with the patch; ./check %s quick against the patched copy exits 1' % (pid, pid))
m['detected_by'] = how
json.dump(m, open(os.path.join(d, 'meta.json'), 'w'), indent=1)
print('kept', d)
