"""Process-level sessions for C13 / C14 (shared by harness/c13.py and harness/c14.py).

A SESSION is a sequence of operations on SEVERAL live objects of base / derived / sibling / user classes in ONE python
process: construct, read a result, reset(), set_input(new series).  Every session runs in a forked child of
harness/onetime_server.py, i.e. in a process whose class-level and module-level state is the state right after
`import nitime.analysis`; every read is compared with the same result read FIRST on a newly built object in ANOTHER
such process (the reference cannot be contaminated by what the session did to classes or modules).  Around every step
the child also re-hashes every result handed out earlier, every input series, and takes a snapshot of `vars(cls)` of
every class involved and of the globals of every loaded `nitime.*` module: a new or changed entry is an effect outside
the objects (the model has exactly one such effect: a class-level table of one-time names, when the translator finds
one in `ResetMixin.reset`).

Object kinds of a family session (family = one analyzer class X with one parameter setting):
  m  a bare `ResetMixin()`            b  a bare `BaseAnalyzer(input)`        p  X(...)
  u  a user subclass of X that adds its own one-time result `own_total`      f  a foreign (sibling) analyzer
Two-analyzer sessions: analyzers of the four classes that take `method`, built with method=None / their own dict /
ONE shared dict on inputs of different sampling rates.
"""
import os, sys, json, subprocess, threading, queue, inspect
import numpy as np
import common
import onetime_common as oc

HERE = os.path.dirname(os.path.abspath(__file__))
RATES = [1.0, 2.5, 0.4]
BASE_M = dict(this_method='welch', NFFT=32, n_overlap=16)
FAM = ['CoherenceAnalyzer', 'SparseCoherenceAnalyzer', 'SeedCoherenceAnalyzer', 'SpectralAnalyzer']


# ============================================================================ server pool (parent side)
class _Server:
    def __init__(self):
        env = dict(os.environ)
        env.update({'NITIME_REPO': common.REPO, 'OPENBLAS_NUM_THREADS': '1', 'OMP_NUM_THREADS': '1', 'MKL_NUM_THREADS': '1'})
        env.pop('VERIF_PARAM_TRACE', None)
        self.p = subprocess.Popen([sys.executable, os.path.join(HERE, 'onetime_server.py')], stdin=subprocess.PIPE,
                                  stdout=subprocess.PIPE, stderr=subprocess.DEVNULL, env=env, text=True, bufsize=1)
        if self.p.stdout.readline().strip() != 'ready':
            raise common.Infra('onetime_server did not start')

    def ask(self, req):
        self.p.stdin.write(json.dumps(req) + '\n')
        self.p.stdin.flush()
        line = self.p.stdout.readline()
        if not line:
            raise common.Infra('onetime_server died')
        return json.loads(line)

    def close(self):
        try:
            self.p.stdin.close()
            self.p.wait(timeout=5)
        except Exception:
            self.p.kill()


_POOL = []


def pool():
    if not _POOL:
        n = max(1, min(6, (os.cpu_count() or 2) // 2))
        for _ in range(n):
            _POOL.append(_Server())
        import atexit
        atexit.register(lambda: [s.close() for s in _POOL])
    return _POOL


def ask_many(reqs):
    """answers in request order; every request runs in its own forked process"""
    servers = pool()
    q = queue.Queue()
    for i, r in enumerate(reqs):
        q.put((i, r))
    out = [None] * len(reqs)
    errs = []

    def work(s):
        while True:
            try:
                i, r = q.get_nowait()
            except queue.Empty:
                return
            try:
                out[i] = s.ask(r)
            except Exception as e:  # noqa
                errs.append(e)
                return
    th = [threading.Thread(target=work, args=(s,)) for s in servers]
    [t.start() for t in th]
    [t.join() for t in th]
    if errs:
        raise common.Infra('onetime_server: %r' % errs[0])
    for r, a in zip(reqs, out):
        if a is None or 'error' in a:
            raise common.Infra('onetime_server request failed: %s -> %s' % (json.dumps(r)[:300], a))
    return out


# ============================================================================ discovery (from the classes, not by hand)
def one_time_names(klass):
    import nitime.descriptors as desc
    out = []
    for k in klass.__mro__:
        for n, v in vars(k).items():
            if isinstance(v, desc.OneTimeProperty) and n not in out:
                out.append(n)
    return out


def preload_lazy_imports():
    """nitime imports scipy / matplotlib lazily; loading them once in the server (not in every forked child) is only a
    matter of speed: they are third-party modules, not state of the library under test"""
    import types
    for mn, mod in list(sys.modules.items()):
        if mod is None or not (mn == 'nitime' or mn.startswith('nitime.')):
            continue
        for n, v in list(vars(mod).items()):
            if issubclass(type(v), types.ModuleType) and type(v).__name__ == 'LazyImport':
                try:
                    v.__doc__
                except Exception:
                    pass


def discovered_classes():
    """{name: class} of every class defined in a loaded nitime.analysis module (and Epochs) that has one-time results"""
    import nitime.analysis  # noqa
    import nitime.timeseries as ts
    seen = {}
    for mn, mod in list(sys.modules.items()):
        if mod is None or not mn.startswith('nitime.analysis') or '.tests' in mn:
            continue
        for n, v in vars(mod).items():
            if not issubclass(type(v), __import__('types').ModuleType) and inspect.isclass(v) and v.__module__.startswith('nitime.analysis') and one_time_names(v):
                seen[v.__name__] = v
    seen['Epochs'] = ts.Epochs
    return seen


_USER = {}
# WHERE a user subclass gets its own one-time result from (which class of its MRO holds the getter): the subclass body,
# an intermediate base derived from the nitime class, a mix-in derived from ResetMixin, a PLAIN mix-in (object only)
# listed after / before the nitime class, a plain mix-in of the parent, the parent of a plain mix-in
USER_SRC = ('body', 'rm-base', 'rm-mixin', 'mixin-after', 'mixin-before', 'grand-mixin', 'mixin-parent')


def own_class(base, getters, where, name):
    """the user subclass `name` of `base` whose one-time results `getters` ({name: function}) come from `where`
    (every helper class is named `name…`)"""
    import nitime.descriptors as desc
    body = {n: desc.auto_attr(f) for n, f in getters.items()}
    doc = {'__doc__': 'user subclass with its own one-time result (%s)' % where}
    if where == 'body':
        return type(name, (base,), dict(body, **doc))
    if where == 'rm-base':
        return type(name, (type(name + 'Mid', (base,), body),), doc)
    if where == 'rm-mixin':
        return type(name, (base, type(name + 'RMix', (desc.ResetMixin,), body)), doc)
    mix = type(name + 'Mix', (object,), body)
    if where == 'mixin-after':
        return type(name, (base, mix), doc)
    if where == 'mixin-before':
        return type(name, (mix, base), doc)
    if where == 'grand-mixin':
        return type(name, (type(name + 'Mid', (base, mix), {}),), doc)
    if where == 'mixin-parent':
        return type(name, (type(name + 'Mix2', (mix,), {}), base), doc)
    raise ValueError(where)


def user_src(*parts):
    """the source of the user subclass's result in a generated session: a fixed function of the session's identity, so
    that every run meets every source with several classes"""
    import zlib
    return USER_SRC[zlib.crc32('/'.join(str(p) for p in parts).encode()) % len(USER_SRC)]


def user_class(klass, src='body'):
    """a user subclass that adds its own one-time result (computed from the current input)"""
    if (klass, src) not in _USER:
        def own_total(self):
            x = self.__dict__.get('input')
            d = x.data if x is not None else self.data      # GrangerAnalyzer keeps no `input` before set_input
            return float(np.sum(np.real(np.asarray(d))))
        _USER[(klass, src)] = own_class(klass, {'own_total': own_total}, src, 'Own' + klass.__name__)
    return _USER[(klass, src)]


# ============================================================================ child side
def _build_map(seed, tier):
    return {(c, l): b for (c, l, b) in oc.settings(seed, tier)}


def _fam_input(seed, variant):
    rs = common.np_rng('C13', seed, 'fam/%d' % variant)
    return oc._series(rs, 3, 128, RATES[variant])


def _fam_build(seed, spec, shared):
    ts, na = oc.nt()
    x = _fam_input(seed, spec.get('variant', 0))
    mode = spec.get('method', 'none')
    if mode == 'none':
        m = None
    elif mode == 'own':
        m = dict(BASE_M)
    else:
        m = shared.setdefault('m', dict(BASE_M))
    c = spec['fam']
    kw = {} if m is None and spec.get('omit_none') else {'method': m}
    if c == 'CoherenceAnalyzer':
        return na.CoherenceAnalyzer(x, **kw), [x]
    if c == 'SparseCoherenceAnalyzer':
        return na.SparseCoherenceAnalyzer(x, ij=[(0, 1), (1, 2)], **kw), [x]
    if c == 'SpectralAnalyzer':
        return na.SpectralAnalyzer(x, **kw), [x]
    sd = ts.TimeSeries(x.data[0], sampling_rate=x.sampling_rate)
    tg = ts.TimeSeries(x.data[1:], sampling_rate=x.sampling_rate)
    return na.SeedCoherenceAnalyzer(sd, tg, **kw), [sd, tg]


def make_object(seed, bm, spec, shared):
    import nitime.descriptors as desc
    kind = spec['kind']
    if kind == 'm':
        return desc.ResetMixin(), []
    with oc.quiet():
        if 'fam' in spec:
            return _fam_build(seed, spec, shared)
        build = bm[(spec['cls'], spec['label'])]
        v = spec.get('variant', 0)
        if v == 0 and not spec.get('mut'):
            obj, watched = build(0)
        else:
            x = build(v)[1][0]
            for _ in range(spec.get('mut', 0)):
                mutate_data(x.data)
            obj, watched = build(0, input=x)
    if kind == 'b':
        from nitime.analysis.base import BaseAnalyzer
        return BaseAnalyzer(watched[0]), [watched[0]]
    if kind == 'u':
        obj.__class__ = user_class(type(obj), spec.get('usrc', 'body'))
    return obj, watched


def new_input(seed, bm, spec, v):
    if 'fam' in spec:
        return _fam_input(seed, v)
    with oc.quiet():
        return bm[(spec['cls'], spec['label'])](v)[1][0]


def mutate_data(d):
    """the in-place change op `m` applies to the data of the input an analyzer holds (same function for the reference)"""
    if not d.flags.writeable:
        return False
    if d.dtype.kind in 'fc':
        np.multiply(d, 1.5, out=d)
        np.add(d, 1, out=d)
    elif d.dtype.kind in 'iu':
        d[...] = d // 2 + 1
    else:
        return False
    return True


def bad_input(obj, kind):
    """an input the analyzer may refuse, made from the one it holds: a 1-d series, a single channel, three samples"""
    ts, _ = oc.nt()
    x = obj.__dict__.get('input')
    d = np.asarray(x.data) if x is not None else np.asarray(obj.data)
    rate = x.sampling_rate if x is not None else obj.sampling_rate
    if kind == '1d':
        d = d.reshape(-1)[:d.shape[-1]]
    elif kind == 'onech':
        d = d.reshape((-1, d.shape[-1]))[:1]
    else:
        d = d[..., :3]
    return ts.TimeSeries(d.copy(), sampling_rate=rate)


def _hash_read(obj, g):
    v, err = oc.read_result(obj, g)
    return v, (('err ' + err) if err else oc.hv(v))


def _coarse(v, h):
    return h if h.startswith('err') else oc.hv_coarse(v)


def serve_fresh(req):
    seed, tier = req['seed'], req['tier']
    bm = _build_map(seed, tier)
    spec = req['obj']
    obj, _ = make_object(seed, bm, spec, {})
    names = one_time_names(type(obj))
    res, resc = {}, {}
    for g in (req.get('getters') or names):
        a, _ = make_object(seed, bm, spec, {})
        va, ha = _hash_read(a, g)
        resc[g] = _coarse(va, ha)
        if req.get('twice'):
            b, _ = make_object(seed, bm, spec, {})
            hb = _hash_read(b, g)[1]
            ha = ha if ha == hb else 'nonrepro'
        res[g] = ha
    return {'getters': res, 'coarse': resc, 'names': names, 'ctor': [g for g in names if g in obj.__dict__], 'cls': type(obj).__name__}


def _token(v):
    import types
    if issubclass(type(v), types.ModuleType):      # (a lazily imported module loads itself when inspected)
        return 'module'
    if isinstance(v, (dict, list, set, frozenset, tuple, np.ndarray, np.generic, int, float, complex, str, bytes, bool, type(None))):
        return 'v' + oc.hv(sorted(v, key=repr) if isinstance(v, (set, frozenset)) else v)
    return 'i%d' % id(v)


def global_snapshot(extra_classes=()):
    import types
    snap = {}
    classes = {}
    for mn, mod in list(sys.modules.items()):
        if mod is None or not (mn == 'nitime' or mn.startswith('nitime.')) or '.tests' in mn:
            continue
        for n, v in list(vars(mod).items()):
            if n.startswith('__') and n.endswith('__'):
                continue
            snap['module %s.%s' % (mn, n)] = _token(v)
            if not issubclass(type(v), types.ModuleType) and inspect.isclass(v) and getattr(v, '__module__', '').startswith('nitime'):
                classes[id(v)] = v
    for k in extra_classes:
        for c in k.__mro__:
            if c is not object:
                classes[id(c)] = c
    for c in classes.values():
        for n, v in list(vars(c).items()):
            if n.startswith('__') and n.endswith('__'):      # python's own bookkeeping (copyreg caches `__slotnames__` on the class)
                continue
            snap['class %s.%s' % (c.__name__, n)] = _token(v)
    return snap


def serve_session(req):
    seed, tier = req['seed'], req['tier']
    bm = _build_map(seed, tier)
    objs, handed, inputs, recs, shared = {}, [], [], [], {}
    extra = set()
    snap = global_snapshot()
    for op in req['ops']:
        k = op[0]
        rec = {}
        try:
            if k == 'n':
                o, spec = op[1], op[2]
                if spec['kind'] == 'u':      # creating the user class is not an effect of the library
                    make_object(seed, bm, dict(spec, kind='p'), {})
                    user_class(type(make_object(seed, bm, dict(spec, kind='p'), {})[0]), spec.get('usrc', 'body'))
                    snap = global_snapshot(extra)
                obj, watched = make_object(seed, bm, spec, shared)
                objs[o] = {'obj': obj, 'spec': spec, 'x': watched[0] if watched else None}
                extra.add(type(obj))
                for x in watched:
                    inputs.append([o, x, oc.hv(x)])
                rec['ctor'] = [g for g in one_time_names(type(obj)) if g in obj.__dict__]
                rec['cls'] = type(obj).__name__
                if spec['kind'] == 'u':
                    snap = dict(snap, **{kk: vv for kk, vv in global_snapshot(extra).items() if kk.startswith('class Own')})
            elif k == 'r':
                o, g = op[1], op[2]
                obj = objs[o]['obj']
                was = g in obj.__dict__
                old = obj.__dict__.get(g)
                v, h = _hash_read(obj, g)
                rec['h'] = h
                rec['hc'] = _coarse(v, h)
                if not h.startswith('err'):
                    rec['stored'] = g in obj.__dict__ and obj.__dict__[g] is v
                    rec['memo'] = (not was) or (old is v)
                    handed.append([o, g, v, h, len(recs)])
            elif k == 'c':
                import copy as _copy
                o, src = op[1], op[2]
                objs[o] = {'obj': _copy.copy(objs[src]['obj']), 'spec': dict(objs[src]['spec']), 'x': objs[src].get('x')}
                rec['cls'] = type(objs[o]['obj']).__name__
            elif k == 'm':
                # the series the analyzer holds is changed IN PLACE by its owner, then handed to set_input again
                o = op[1]
                obj = objs[o]['obj']
                x = obj.__dict__.get('input')
                if x is None:
                    x = objs[o].get('x')        # (GrangerAnalyzer keeps no `input` before its first set_input)
                rec['mutated'] = bool(x is not None and mutate_data(x.data))
                for it in inputs:
                    if it[1] is x:
                        it[2] = oc.hv(x)
                with oc.quiet():
                    obj.set_input(x)
                rec['surv'] = [g for g in one_time_names(type(obj)) if g in obj.__dict__]
            elif k == 'x':
                o = op[1]
                obj = objs[o]['obj']
                bad = bad_input(obj, op[2])
                try:
                    with oc.quiet():
                        obj.set_input(bad)
                    rec['refused'] = False
                except Exception as e:  # noqa
                    rec['refused'] = True
                    rec['how'] = common.err_kind(e)
            elif k in ('z', 'i'):
                o = op[1]
                obj = objs[o]['obj']
                if k == 'z':
                    obj.reset()
                else:
                    x = new_input(seed, bm, objs[o]['spec'], op[2])
                    with oc.quiet():
                        obj.set_input(x)
                    objs[o]['x'] = x
                    inputs.append([o, x, oc.hv(x)])
                rec['surv'] = [g for g in one_time_names(type(obj)) if g in obj.__dict__]
        except Exception as e:  # noqa
            rec['err'] = common.err_kind(e)
        s2 = global_snapshot(extra)
        rec['glob'] = sorted(kk for kk in set(s2) | set(snap) if s2.get(kk) != snap.get(kk))
        snap = s2
        ch = []
        for it in handed:
            h2 = oc.hv(it[2])
            if h2 != it[3]:
                ch.append([it[0], it[1], it[4]])
                it[3] = h2
        rec['handed'] = ch
        ci = []
        for it in inputs:
            h2 = oc.hv(it[1])
            if h2 != it[2]:
                ci.append(it[0])
                it[2] = h2
        rec['inp'] = ci
        recs.append(rec)
    return {'recs': recs}


def serve_discover(req):
    d = discovered_classes()
    return {'classes': {n: one_time_names(k) for n, k in d.items()}}


def serve_call(req):
    import importlib
    mod = importlib.import_module(req['module'])
    return {'result': getattr(mod, req['func'])(*req.get('args', []))}


def serve(req):
    import time
    t0 = time.time()
    r = _serve(req)
    r['time'] = round(time.time() - t0, 3)
    return r


def _serve(req):
    return {'fresh': serve_fresh, 'session': serve_session, 'discover': serve_discover, 'call': serve_call}[req['kind']](req)


# ============================================================================ parent side: references, judging, lines
class Refs:
    """fresh-process reference values, asked lazily and in bulk"""

    def __init__(self, seed, tier):
        self.seed, self.tier, self.have = seed, tier, {}

    @staticmethod
    def key(spec):
        if 'fam' in spec:
            return ('fam', spec['fam'], spec.get('variant', 0), 'own' if spec.get('method') == 'shared' else spec.get('method', 'none'))
        return (spec['cls'], spec['label'], spec['kind'], spec.get('variant', 0)) + ((spec['mut'],) if spec.get('mut') else ())

    @staticmethod
    def spec_of(key):
        if key[0] == 'fam':
            return {'fam': key[1], 'variant': key[2], 'method': key[3], 'kind': 'p'}
        return dict({'cls': key[0], 'label': key[1], 'kind': key[2], 'variant': key[3]}, **({'mut': key[4]} if len(key) > 4 else {}))

    def need(self, keys, getters=None):
        """keys: reference states; getters: {key: set of getter names} (None = every getter of the class)"""
        todo = {}
        for k in dict.fromkeys(keys):
            have = self.have.get(k)
            want = None if getters is None else set(getters.get(k, ()))
            if have is None:
                todo[k] = want
            elif want is not None:
                miss = want - set(have['getters'])
                if miss:
                    todo[k] = miss
            elif not have.get('complete'):
                todo[k] = None
        ks = list(todo)
        ans = ask_many([{'kind': 'fresh', 'seed': self.seed, 'tier': self.tier, 'obj': self.spec_of(k),
                         'getters': sorted(todo[k]) if todo[k] is not None else None,
                         'twice': (k[0] != 'fam' and k[2] == 'p' and k[3] == 0 and len(k) == 4) or k[0] == 'fam'} for k in ks])
        for k, a in zip(ks, ans):
            if k in self.have:
                self.have[k]['getters'].update(a['getters'])
                self.have[k].setdefault('coarse', {}).update(a.get('coarse', {}))
            else:
                self.have[k] = a
            if todo[k] is None:
                self.have[k]['complete'] = True

    def get(self, key, g=None):
        if key not in self.have or (g is not None and g not in self.have[key]['getters']) or (g is None and not self.have[key].get('complete')):
            self.need([key], None if g is None else {key: {g}})
        return self.have[key]

    def value(self, key, g):
        return self.get(key, g)['getters'].get(g, 'missing')

    def coarse(self, key, g):
        return self.get(key, g).get('coarse', {}).get(g, 'missing')

    def same(self, key, g, h, hc):
        """is a read (fine hash h, coarse hash hc) the reference value?  Bitwise, or — both sides come from different
        processes — up to ~1e-9 of the magnitude"""
        ref = self.value(key, g)
        return ref == 'nonrepro' or h == ref or (hc is not None and hc == self.coarse(key, g))


def needed(sessions):
    """{reference state: getters read in that state}"""
    out = {}
    for s in sessions:
        ops = s['ops']
        for (i, o, k) in states_of(s):
            out.setdefault(k, set()).add(ops[i][2])
    return out


def states_of(session):
    """[(op index, object id, reference key)] for every read, following set_input"""
    cur, out = {}, []
    for i, op in enumerate(session['ops']):
        if op[0] == 'n':
            if op[2]['kind'] != 'm':
                cur[op[1]] = dict(op[2])
        elif op[0] == 'i':
            cur[op[1]] = dict(cur[op[1]], variant=op[2], mut=0)
        elif op[0] == 'm':
            cur[op[1]] = dict(cur[op[1]], mut=cur[op[1]].get('mut', 0) + 1)
        elif op[0] == 'c':
            cur[op[1]] = dict(cur[op[2]])
        elif op[0] == 'r':
            out.append((i, op[1], Refs.key(cur[op[1]])))
    return out


KIND_NAME = {'m': 'ResetMixin', 'b': 'BaseAnalyzer', 'p': 'self', 'u': 'user-subclass', 'f': 'sibling'}


def describe(session):
    """stable, value-free description of a session: op kinds with the kind of object they were applied to"""
    kinds = {}
    parts = []
    for op in session['ops']:
        if op[0] == 'n':
            kinds[op[1]] = op[2]
        elif op[0] == 'c':
            kinds[op[1]] = kinds[op[2]]
        else:
            sp = kinds[op[1]]
            nm = sp.get('fam') or (KIND_NAME[sp['kind']] if sp['kind'] in ('m', 'b') else ('Own' if sp['kind'] == 'u' else '') + sp['cls'])
            t = {'r': 'read', 'z': 'reset', 'i': 'set_input', 'x': 'refused-set_input', 'm': 'set_input-same-object'}[op[0]] + ':' + nm
            if not parts or parts[-1] != t:
                parts.append(t)
    return parts


def judge(session, recs, refs, pre):
    """property failures of one observed session: [(key, what, op index)]"""
    out = []
    st = {i: (o, k) for (i, o, k) in states_of(session)}
    kinds = {op[1]: op[2] for op in session['ops'] if op[0] == 'n'}
    for op in session['ops']:
        if op[0] == 'c':
            kinds[op[1]] = kinds[op[2]]

    def nm(o):
        sp = kinds[o]
        return sp.get('fam') or {'m': 'ResetMixin', 'b': 'BaseAnalyzer'}.get(sp['kind']) or (('Own' if sp['kind'] == 'u' else '') + sp['cls'])
    for i, (op, rec) in enumerate(zip(session['ops'], recs)):
        k = op[0]
        who = nm(op[1])
        if rec.get('err') and k != 'r':
            out.append(('%s/%s/%s/raises' % (pre, who, {'n': 'construct', 'z': 'reset', 'i': 'set_input', 'c': 'copy', 'x': 'refused-set_input', 'm': 'set_input-same-object'}[k]), '%s raised %s' % (k, rec['err']), i))
            continue
        if k == 'n':
            for g in rec.get('ctor', []):
                out.append(('%s/%s/%s/computed-at-construction' % (pre, who, g), 'building %s already stored `%s`' % (who, g), i))
        elif k == 'r':
            ref = refs.value(st[i][1], op[2])
            if not refs.same(st[i][1], op[2], rec['h'], rec.get('hc')):
                refused = any(o2[0] == 'x' and o2[1] == op[1] for o2 in session['ops'][:i]) and \
                    not any(o2[0] == 'i' and o2[1] == op[1] for o2 in session['ops'][max(j for j, o2 in enumerate(session['ops'][:i]) if o2[0] == 'x' and o2[1] == op[1]):i])
                out.append(('%s/%s/%s/%s' % (pre, who, op[2], 'differs-after-refused-set_input' if refused else 'differs-from-fresh-process'),
                            '`%s` of %s differs from what a newly built object (same input, same parameters) returns in a fresh process%s' % (
                                op[2], who, ' (here %s, fresh %s)' % (rec['h'], ref) if 'err' in rec['h'] + ref else ''), i))
            if rec.get('stored') is False:
                out.append(('%s/%s/%s/returned-object-is-not-the-stored-one' % (pre, who, op[2]), 'first read of `%s` returned an object that is not the stored one' % op[2], i))
            if rec.get('memo') is False:
                out.append(('%s/%s/%s/recomputed-on-repeated-read' % (pre, who, op[2]), 'a repeated read of `%s` returned another object' % op[2], i))
        elif k in ('z', 'i', 'm'):
            for g in rec.get('surv', []):
                out.append(('%s/%s/%s/survives-%s' % (pre, who, g, {'z': 'reset', 'i': 'set_input', 'm': 'set_input-of-the-held-object'}[k]),
                            '`%s` of %s is still stored after %s' % (g, who, {'z': 'reset()', 'i': 'set_input()', 'm': 'set_input(<the series it already holds, changed in place>)'}[k]), i))
        for (o, g, j) in rec.get('handed', []):
            out.append(('%s/%s/%s/handed-out-result-changed' % (pre, nm(o), g),
                        'the object returned by reading `%s` of %s (step %d) was changed in place by step %d (%s on %s)' % (g, nm(o), j, i, k, who), i))
        for o in rec.get('inp', []):
            out.append(('%s/%s/input/changed' % (pre, nm(o)), 'an input series of %s was changed by step %d (%s on %s)' % (nm(o), i, k, who), i))
    return out


def run_sessions(sessions, seed, tier):
    ans = ask_many([{'kind': 'session', 'seed': seed, 'tier': tier, 'ops': s['ops']} for s in sessions])
    return [a['recs'] for a in ans]


def shrink(session, key, refs, pre, seed, tier, budget=40):
    """greedy one-at-a-time deletion of operations (never a constructor that is still used) keeping `key`"""
    ops = list(session['ops'])

    def shows(ops):
        s = dict(session, ops=ops)
        try:
            recs = run_sessions([s], seed, tier)[0]
            nd = needed([s])
            refs.need(list(nd), nd)
            return any(kk == key for kk, _, _ in judge(s, recs, refs, pre))
        except Exception:
            return False
    i = len(ops) - 1
    n = 0
    while i >= 0 and n < budget:
        op = ops[i]
        cand = ops[:i] + ops[i + 1:]
        used = {o[1] for o in cand if o[0] != 'n'}
        if op[0] == 'n' and op[1] in used:
            i -= 1
            continue
        n += 1
        if shows(cand):
            ops = cand
        i -= 1
    return dict(session, ops=ops)


# ---------------------------------------------------------------------------- protocol lines (family sessions)
def il(ids):
    ids = sorted(set(ids))
    return ','.join(str(i) for i in ids) if ids else '-'


def family_line(pid, session, table, cfg, raising):
    """`<pid> session <Class> <cfg> <kinds> <ops> <raising>`; operations on foreign objects are left out"""
    gid = {g: i for i, g in enumerate(table['getters'])}
    gid['own_total'] = len(table['getters'])
    kinds, toks = {}, []
    for op in session['ops']:
        if op[0] == 'n':
            kinds[op[1]] = op[2]['kind']
    order = sorted(o for o, k in kinds.items() if k != 'f')
    oid = {o: i for i, o in enumerate(order)}
    for op in session['ops']:
        if op[0] == 'c':
            kinds[op[1]] = kinds[op[2]]
            if kinds[op[1]] != 'f':
                oid[op[1]] = len(oid)
                toks.append('c%d.%d' % (oid[op[1]], oid[op[2]]))
            continue
        if op[0] == 'n' or kinds[op[1]] == 'f':
            continue
        if op[0] == 'r':
            toks.append('r%d.%d' % (oid[op[1]], gid[op[2]]))
        else:
            toks.append('%s%d' % ('i' if op[0] == 'm' else op[0], oid[op[1]]))      # `m` = set_input with new contents
    return '%s session %s %s %s %s %s' % (pid, session['cls'], il(cfg), ','.join(kinds[o] for o in order) or '-', '|'.join(toks) or '-', il(raising))


def family_impl(session, recs, table, refs):
    gid = {g: i for i, g in enumerate(table['getters'])}
    gid['own_total'] = len(table['getters'])
    kinds = {op[1]: op[2]['kind'] for op in session['ops'] if op[0] == 'n'}
    st = {i: k for (i, o, k) in states_of(session)}
    toks = []
    carry = 0
    for i, (op, rec) in enumerate(zip(session['ops'], recs)):
        t = 1 if rec.get('glob') else 0
        if op[0] == 'c':
            kinds[op[1]] = kinds[op[2]]
        if op[0] == 'n' or kinds[op[1]] == 'f':
            carry |= t           # an effect outside the objects is reported at the next listed step
            continue
        t |= carry
        carry = 0
        if op[0] in ('c', 'x'):
            toks.append('%s:t=%d' % (op[0], t))
        elif op[0] == 'r':
            ref = refs.value(st[i], op[2])
            h = rec.get('h', 'err ?')
            if h.startswith('err'):
                s = 'e' if h == ref else 'E'
            else:
                s = '1' if refs.same(st[i], op[2], h, rec.get('hc')) else '0'
            toks.append('%d:s=%s:t=%d' % (gid[op[2]], s, t))
        else:
            toks.append('surv=%s:t=%d' % (il(gid[g] for g in rec.get('surv', []) if g in gid), t))
    return '|'.join(toks) or '-'


def cmp_family(impl, model):
    try:
        a, b = impl.split('|'), model.split('|')
        if len(a) != len(b):
            return False
        for x, y in zip(a, b):
            if x == '-' or y == '-':
                if x != y:
                    return False
                continue
            fx, fy = x.split(':'), y.split(':')
            if fx[-1] != fy[-1]:                     # class-level / module-level effect: exactly the model's
                return False
            if fx[0] in ('c', 'x'):
                if fx[0] != fy[0]:
                    return False
            elif fx[0].startswith('surv='):
                sx = set(fx[0][5:].split(',')) - {'-'}
                sy = set(fy[0][5:].split(',')) - {'-'}
                if not sx <= sy:
                    return False
            else:
                if fx[0] != fy[0]:
                    return False
                sx, sy = fx[1][2:], fy[1][2:]
                if sx == 'e':
                    continue
                if sy == '1' and sx != '1':
                    return False
                # (model `r`: the getter raises on the analyzer's FIRST input; which getters raise depends on the data —
                # after set_input the estimate may converge — and is judged by the fresh-process oracle, not here)
        return True
    except Exception:
        return False


# ---------------------------------------------------------------------------- session generators
def family_sessions(cls, label, table, rng, flavour, tier, foreign):
    """sessions around one analyzer setting; `flavour` 'c13' (reads in every order across live objects, resets) or
    'c14' (switches: set_input / reset on base, derived, user objects in every order)"""
    pub = [g for g in table['getters'] if not g.startswith('_')]
    allg = list(table['getters'])
    has_si = table.get('hasSetInput')
    base = has_si                           # BaseAnalyzer-derived
    P = lambda v=0, kind='p': {'cls': cls, 'label': label, 'kind': kind, 'variant': v}
    U = lambda v, tag: dict(P(v, 'u'), usrc=user_src(cls, label, tag))     # a user subclass; where its own result comes from varies
    S = []

    def some(k):
        return rng.sample(pub, min(k, len(pub)))

    def perm(l):
        l = list(l)
        rng.shuffle(l)
        return l
    sw = (lambda o, v: ['i', o, v]) if has_si else (lambda o, v: ['z', o])
    # ancestor first: an instance of a base class goes through reset / set_input before the derived class ever does
    for anc in (['b'] if base else []) + ['m']:
        for mode in (('z', 'i') if flavour == 'c14' and anc == 'b' else ('z',)):
            ops = [['n', 0, {'kind': 'm'} if anc == 'm' else P(0, 'b')]]
            ops.append(['z', 0] if mode == 'z' or anc == 'm' else ['i', 0, 1])
            ops.append(['n', 1, P(0)])
            ops += [['r', 1, g] for g in some(2)]
            ops.append(sw(1, 3 if flavour == 'c14' else 1))
            ops += [['r', 1, g] for g in perm(allg)]
            S.append({'cls': cls, 'label': label, 'ops': ops, 'tag': 'ancestor-first:%s:%s' % (anc, mode)})
    if base:
        # the derived class first, the base class afterwards, a user subclass with its own result last
        ops = [['n', 0, P(0)]] + [['r', 0, g] for g in some(2)] + [sw(0, 2)] + [['r', 0, g] for g in some(3)]
        ops += [['n', 1, P(0, 'b')], ['r', 1, 'parameterlist'], ['i', 1, 1], ['r', 1, 'parameterlist']]
        ops += [['n', 2, U(0, 'derived-first-then-user')], ['r', 2, 'own_total']] + [['r', 2, g] for g in some(2)] + [sw(2, 3), ['r', 2, 'own_total']] + [['r', 2, g] for g in perm(pub)]
        S.append({'cls': cls, 'label': label, 'ops': ops, 'tag': 'derived-first-then-user'})
        # plain class reset first, then the user subclass (its own result must not survive)
        ops = [['n', 0, P(0)], ['r', 0, pub[0]], ['z', 0], ['n', 1, U(1, 'class-first-then-user')], ['r', 1, 'own_total'], ['r', 1, pub[-1]], sw(1, 2), ['r', 1, 'own_total'], ['r', 1, pub[-1]],
               ['z', 1], ['r', 1, 'own_total']]
        S.append({'cls': cls, 'label': label, 'ops': ops, 'tag': 'class-first-then-user'})
    if has_si:
        # a shallow copy of an analyzer that has results: re-target the copy, then the original (bookkeeping shared
        # between the two through the copied instance dict must not let either keep a result)
        ops = [['n', 0, P(0)]] + [['r', 0, g] for g in some(2)] + [['c', 1, 0], ['i', 1, 2], ['i', 0, 3]]
        ops += [['r', 0, g] for g in perm(pub)] + [['r', 1, g] for g in some(3)] + [['c', 2, 1], ['z', 2]] + [['r', 2, g] for g in some(2)] + [['r', 1, g] for g in some(2)]
        S.append({'cls': cls, 'label': label, 'ops': ops, 'tag': 'copy-then-retarget-both'})
        # the series the analyzer already holds is changed in place and handed to set_input again: a full re-target
        ops = [['n', 0, P(0)]] + [['r', 0, g] for g in some(3)] + [['m', 0]] + [['r', 0, g] for g in perm(pub)] + [['i', 0, 2], ['r', 0, pub[0]], ['m', 0]] + [['r', 0, g] for g in some(3)]
        S.append({'cls': cls, 'label': label, 'ops': ops, 'tag': 'held-input-changed-in-place'})
        # inputs the analyzer may REFUSE (1-d, one channel, three samples): after a refused set_input it answers as before
        ops = [['n', 0, P(0)]] + [['r', 0, g] for g in some(2)] + [['x', 0, '1d']] + [['r', 0, g] for g in perm(pub)]
        ops += [['x', 0, 'onech']] + [['r', 0, g] for g in some(3)] + [['i', 0, 3], ['x', 0, 'short']] + [['r', 0, g] for g in perm(pub)]
        S.append({'cls': cls, 'label': label, 'ops': ops, 'tag': 'refused-set-input'})
    # two live objects of the class on different inputs + a sibling analyzer, everything interleaved
    nrand = (3 if tier == 'thorough' else 1) + (1 if flavour == 'c13' else 0)
    for r in range(nrand):
        objs = [P(0), P(3 if has_si else 1)]
        if base:
            objs += [U(1, 'random%d' % r), P(0, 'b')]
        objs.append({'kind': 'm'})
        if foreign:
            f = rng.choice(foreign)
            objs.append({'cls': f[0], 'label': f[1], 'kind': 'f', 'variant': 0, 'getters': f[2], 'has_si': f[3]})
        ops = [['n', i, {k: v for k, v in o.items() if k not in ('getters', 'has_si')}] for i, o in enumerate(objs)]
        rng.shuffle(ops)
        live = []
        body = []
        n_steps = 18 if flavour == 'c13' else 14
        for step in range(n_steps + len(ops)):
            if ops and (not live or rng.random() < 0.35):
                op = ops.pop()
                body.append(op)
                live.append(op[1])
                continue
            o = rng.choice(live)
            ob = objs[o]
            kd = ob['kind']
            u = rng.random()
            p_sw = 0.2 if flavour == 'c13' else 0.4
            if kd == 'm':
                body.append(['z', o])
            elif u < p_sw:
                si = ob.get('has_si', has_si) if kd == 'f' else (has_si or kd == 'b')
                body.append(['i', o, rng.choice([1, 2, 3, 4])] if si and rng.random() < 0.7 else ['z', o])
            else:
                gs = ob['getters'] if kd == 'f' else (['parameterlist'] if kd == 'b' else (allg + (['own_total'] if kd == 'u' else [])))
                body.append(['r', o, rng.choice(gs)])
        S.append({'cls': cls, 'label': label, 'ops': body + ops, 'tag': 'random%d' % r})
    return S


def two_sessions(rng, tier, with_switch):
    """analyzers of the classes that take `method`, built one after the other on inputs of different sampling rates"""
    S = []
    pairs = [(a, b) for a in FAM for b in FAM]
    for mode in ('none', 'own', 'shared'):
        for (a, b) in pairs:
            if mode == 'own' and rng.random() < 0.5 and tier != 'thorough':
                continue
            va, vb = (0, 1) if rng.random() < 0.5 else (1, 0)
            S.append({'two': mode, 'classes': [a, b], 'tag': '%s-%s' % (a, b), 'variants': [va, vb], 'switch': bool(with_switch and rng.random() < 0.5)})
    # three analyzers, method=None, three rates
    for _ in range(4 if tier == 'thorough' else 2):
        cl = [rng.choice(FAM) for _ in range(3)]
        S.append({'two': 'none', 'classes': cl, 'tag': '-'.join(cl), 'variants': rng.sample([0, 1, 2], 3), 'switch': False})
    return S


def two_ops(s, getters_of, rng):
    """construct all (in order), then read everything of the LAST one first, then the others; optionally re-target"""
    mode = s['two']
    ops = []
    for i, (c, v) in enumerate(zip(s['classes'], s['variants'])):
        ops.append(['n', i, {'fam': c, 'variant': v, 'method': mode, 'kind': 'p'}])
        if i == 0:
            # the first one is also read before the next is built (getters that write into the dict)
            g = [x for x in getters_of(c) if not x.startswith('_')]
            ops += [['r', 0, x] for x in rng.sample(g, min(2, len(g)))]
    order = list(range(len(s['classes'])))[::-1]
    for i in order:
        g = list(getters_of(s['classes'][i]))
        rng.shuffle(g)
        ops += [['r', i, x] for x in g]
    if s.get('switch'):
        for i in order:
            if s['classes'][i] != 'SeedCoherenceAnalyzer':
                ops.append(['i', i, 2])
                ops += [['r', i, x] for x in getters_of(s['classes'][i]) if not x.startswith('_')]
    return ops


# ============================================================================ cases / oracle / replay (used by c13.py and c14.py)
MODE_NAME = {'none': 'method-none', 'own': 'own-method-dict', 'shared': 'shared-user-method-dict'}
_STATE = {}


def _cmp_names(impl, model):
    try:
        got = set(impl.split('=', 1)[1].split(','))
        want = set(model.split(';')[0].split('=', 1)[1].split(','))
        return got == want
    except Exception:
        return False


def _cmp_two(impl, model):
    return not (model == 'indep=1' and impl != 'indep=1') and model.startswith('indep=')


def build_cases(pid, flavour, seed, tier, rng):
    """[Case] for the process-level sessions; keeps what the oracle needs in _STATE[(pid, seed, tier)]"""
    from common import Case
    tb = oc.tables()
    refs = Refs(seed, tier)
    P = [(c, l, b) for (c, l, b) in oc.settings(seed, tier) if c in tb]
    fams = [(c, l, b, tb[c]) for (c, l, b) in P if tb[c].get('hasReset') and c not in ('Epochs', 'TimeSeries')]
    foreign = [(c, l, [g for g in t['getters'] if not g.startswith('_')], bool(t.get('hasSetInput'))) for (c, l, b, t) in fams if t.get('hasSetInput')]
    sessions = []
    for (c, l, b, t) in fams:
        with oc.quiet():
            cfg = oc.cfg_of(b(0)[0], t)
        for s in family_sessions(c, l, t, rng, flavour, tier, [f for f in foreign if f[0] != c]):
            s['cfg'] = cfg
            sessions.append(s)
    for s in two_sessions(rng, tier, flavour == 'c14'):
        s['ops'] = two_ops(s, lambda c: tb[c]['getters'], rng)
        sessions.append(s)
    recs = run_sessions(sessions, seed, tier)
    # an input that was meant to be refused but was ACCEPTED: the object now holds an input without a reference; the
    # session is judged up to that step
    for s, rc in zip(sessions, recs):
        for i, (op, r) in enumerate(zip(s['ops'], rc)):
            if op[0] == 'x' and not r.get('refused'):
                s['ops'] = s['ops'][:i]
                del rc[i:]
                break
    nd = needed(sessions)
    refs.need(list(nd), nd)
    refs.need([(c, l, 'p', 0) for (c, l, b, t) in fams])
    out = []
    # every getter of every class, discovered from the classes
    disc = ask_many([{'kind': 'discover'}])[0]['classes']
    for cn, names in sorted(disc.items()):
        out.append(Case('%s names %s' % (pid, cn), 'getters=' + ','.join(sorted(names)), 'discovered/%s' % cn, cmp=_cmp_names, nontrivial=False))
    for s, rc in zip(sessions, recs):
        if 'two' in s:
            pre = 'two-analyzers/' + MODE_NAME[s['two']]
            bad = [k for k, _, _ in judge(s, rc, refs, pre)]
            line = '%s two %s %s' % (pid, s['two'], ','.join(s['classes']))
            out.append(Case(line, 'indep=%d' % (0 if bad else 1), 'two/%s' % s['two'], cmp=_cmp_two,
                            meta={'session': s, 'recs': rc, 'pre': pre}, nontrivial=True))
        else:
            t = tb[s['cls']]
            ref0 = refs.get((s['cls'], s['label'], 'p', 0))['getters']
            raising = [i for i, g in enumerate(t['getters']) if str(ref0.get(g, '')).startswith('err')]
            line = family_line(pid, s, t, s['cfg'], raising)
            out.append(Case(line, family_impl(s, rc, t, refs), 'session/%s/%s' % (s['cls'], s['label']), cmp=cmp_family,
                            meta={'session': s, 'recs': rc, 'pre': 'session'}, nontrivial=True))
    _STATE[(pid, seed, tier)] = refs
    return out


def _final_key(s, key):
    if 'two' in s and key.endswith('/differs-from-fresh-process'):
        who = key.split('/')[2]
        others = [c for c in s['classes']]
        others.remove(who) if who in others else None
        return key + '/with/' + '+'.join(sorted(set(others)) or [who])
    return key


def oracle_sessions(pid, seed, tier, cases, max_shrink=8):
    """-> ([Failure], stats) over the session cases"""
    from common import Failure
    refs = _STATE.get((pid, seed, tier)) or Refs(seed, tier)
    fails, shrunk, n_sess, n_reads, globs = [], {}, 0, 0, set()
    for c in cases:
        m = c.meta
        if not m or 'session' not in m:
            continue
        s, rc, pre = m['session'], m['recs'], m['pre']
        n_sess += 1
        n_reads += sum(1 for op in s['ops'] if op[0] == 'r')
        for r in rc:
            globs.update(r.get('glob', []))
        for key, what, idx in judge(s, rc, refs, pre):
            fk = _final_key(s, key)
            if fk not in shrunk:
                small = dict(s, ops=s['ops'][:idx + 1])
                if len(shrunk) < max_shrink:
                    small = shrink(small, key, refs, pre, seed, tier)
                shrunk[fk] = small
            small = shrunk[fk]
            what2 = '%s [%s; minimal session: %s]' % (what, s.get('tag', ''), ' '.join(_show_op(o) for o in small['ops']))
            fails.append(Failure(fk, what2, {'session': small, 'pre': pre, 'key': fk, 'rawkey': key, 'seed': seed, 'tier': tier}, case=c))
    return fails, {'sessions': n_sess, 'session_reads': n_reads, 'class_or_module_entries_changed': sorted(globs)[:20]}


def _show_op(op):
    if op[0] == 'n':
        sp = op[2]
        nm = sp.get('fam') or {'m': 'ResetMixin()', 'b': 'BaseAnalyzer(x)'}.get(sp['kind']) or (('Own' if sp['kind'] == 'u' else '') + sp['cls'] + '(%s)' % sp.get('label', ''))
        return 'o%d=%s@v%d%s;' % (op[1], nm, sp.get('variant', 0), (',method:' + sp['method']) if 'method' in sp else '')
    if op[0] == 'r':
        return 'o%d.%s;' % (op[1], op[2])
    if op[0] == 'c':
        return 'o%d=copy.copy(o%d);' % (op[1], op[2])
    if op[0] == 'x':
        return 'o%d.set_input(<%s>) [refused];' % (op[1], op[2])
    if op[0] == 'm':
        return 'o%d.input.data changed in place; o%d.set_input(o%d.input);' % (op[1], op[1], op[1])
    return 'o%d.%s;' % (op[1], 'reset()' if op[0] == 'z' else 'set_input(v%d)' % op[2])


def replay_session(d):
    from common import Failure
    s, pre = d['session'], d['pre']
    seed, tier = d.get('seed', 0), d.get('tier', 'quick')
    refs = Refs(seed, tier)
    rc = run_sessions([s], seed, tier)[0]
    nd = needed([s])
    refs.need(list(nd), nd)
    for key, what, _ in judge(s, rc, refs, pre):
        if key == d.get('rawkey') or _final_key(s, key) == d['key']:
            return Failure(d['key'], what, d)
    return None
