#!/usr/bin/env python3
"""archive_seed.py <src dir> <dest id> <property> [<other check> ...]
Confirms a seeded change in an isolated scratch copy of /repo (demo passes pristine / fails patched; pinned suite
unchanged) and runs the named checks against it; copies patch.diff, demo.py, meta.json (+ results) to seeded/<id>/."""
import sys, os, json, shutil, subprocess, tempfile, re
src, dest, pid = sys.argv[1:4]
others = sys.argv[4:]
V = '/verif'
S = tempfile.mkdtemp(prefix='nt_seed_', dir='/tmp')
subprocess.run(['rsync', '-a', '--exclude', '.git', '/repo/', S + '/'], check=True)
r0 = subprocess.run(['/venv/bin/python', os.path.join(src, 'demo.py'), S], capture_output=True, text=True, cwd=S).returncode
pa = subprocess.run('patch -p1 --no-backup-if-mismatch -s < %s/patch.diff' % src, shell=True, cwd=S)
res = {'demo_pristine_exit': r0, 'patch_applies': pa.returncode == 0}
if pa.returncode == 0:
    res['demo_patched_exit'] = subprocess.run(['/venv/bin/python', os.path.join(src, 'demo.py'), S], capture_output=True, text=True, cwd=S).returncode
    b = subprocess.run(['/venv/bin/python', V + '/harness/baseline.py', S], capture_output=True, text=True)
    res['suite_with_patch'] = b.stdout.strip().splitlines()[-1] if b.returncode == 0 else b.stdout.strip()[-300:]
    res['checks'] = {}
    for p in [pid] + others:
        L = S + '.lean'
        subprocess.run(['cp', '-a', V + '/lean', L], check=True)
        env = dict(os.environ, NITIME_REPO=S, VERIF_LEAN=L, VERIF_EVIDENCE_DIR=S + '.ev')
        c = subprocess.run([V + '/check', p, 'quick'], capture_output=True, text=True, cwd=V, env=env)
        lines = [l for l in c.stdout.splitlines() if l.startswith('VIOLATION') or l.startswith('BROKEN')]
        res['checks'][p] = {'exit': c.returncode, 'lines': [l[:260] for l in lines[:6]]}
        shutil.rmtree(L, ignore_errors=True)
        shutil.rmtree(S + '.ev', ignore_errors=True)
shutil.rmtree(S, ignore_errors=True)
d = os.path.join(V, 'seeded', dest)
os.makedirs(d, exist_ok=True)
for f in ('patch.diff', 'demo.py'):
    shutil.copy(os.path.join(src, f), os.path.join(d, f))
m = json.load(open(os.path.join(src, 'meta.json')))
m['property'] = pid
m['confirmed_by_lead'] = res
m['how_confirmed'] = ('harness/archive_seed.py: isolated rsync copy of /repo HEAD; demo.py exit 0 pristine / non-zero with patch.diff; harness/baseline.py '
                      '(all 139 stable tests pass with the patch); ./check <id> quick with NITIME_REPO pointing at the patched copy')
old = os.path.join(d, 'meta.json')
if os.path.exists(old):
    o = json.load(open(old))
    for k in ('history', 'detected_by'):
        if k in o:
            m[k] = o[k]
json.dump(m, open(old, 'w'), indent=1)
ok = res.get('patch_applies') and r0 == 0 and res.get('demo_patched_exit', 0) != 0 and 'passing: 139 / 139' in res.get('suite_with_patch', '')
print(dest, 'CONFIRMED' if ok else 'NOT-CONFIRMED', {k: v['exit'] for k, v in res.get('checks', {}).items()})
