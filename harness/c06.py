"""C06 — cross-spectral matrices are Hermitian, positive semidefinite, channel-consistent.

Correspondence: periodogram_csd / multi_taper_csd (fixed and adaptive weights) / get_spectra
(Welch, upper-triangular by design, and its Hermitian completion) on the real code vs the Lean
model (`Nitime.C04` estimators, `Nitime.C06.completeUpper`), full matrices.
Oracle (independent of the Lean model, numpy only): Hermitian symmetry, eigvalsh >= -1e-10*norm,
diagonal real and equal to what the single-channel function returns with the same settings,
metamorphic pairs of runs: drop / add / permute channels, flatten an extra leading dimension, other memory
layouts (Fortran, transposed view, strided, negative strides), the same ndarray refilled in place (identity-keyed
caches), the wrappers get_spectra / CoherenceAnalyzer.spectrum vs the direct call.
"""
import numpy as np
import common
from common import Case, Failure, f2x, flist, clist
import c04
from c04 import get_data, put_data, run_impl, eff_onesided, eff_nfft, clause_of, rel_close, ok_c, cmp_vec

PID = 'C06'
LEAN_TARGETS = ['Nitime.Props.C06', 'Nitime.Props.C06Hist', 'Nitime.Props.C06Block']
RULE = ('one PRNG state drives: estimator in {periodogram_csd, multi_taper_csd fixed/adaptive, welch(get_spectra) raw and completed} x '
        '2..6 channels (pcsd/mtcsd also 1 channel and an extra leading dimension) x real/complex x n of both parities x NFFT x sides x Fs; '
        'every case is also re-run with a channel dropped, a channel added, channels permuted and (where accepted) leading dimensions flattened; '
        'round 4, oracle-only (harness/c04big.py): (L9) periodogram_csd / multi_taper_csd (fixed, adaptive) / mtm_cross_spectrum / Welch / SpectralAnalyzer.cpsd with more than 2^13 retained bins (NFFT 2^14, 2^14+2, 2^15; also 2^13, 2^13+1), 1..9 channels and 4x5 leading dimensions, K*NFFT*M above 2^18 and 2^20, per entry against the Gram matrix of the np.fft tapered spectra, Hermitian, diag = psd, fold; every even NFFT in 2..512; (L10) channels scaled by 2^g_c, g lopsided in -500..500: entry (i,j) = 2^(g_i+g_j) x unscaled entry, Hermitian, diag = single-channel estimator, |C_ij|^2 <= C_ii C_jj, PSD after exact rescaling; '
        'distinct = distinct protocol line; non-trivial = signal not identically zero')
ASSUMPTIONS = c04.ASSUMPTIONS + ['get_spectra(method=welch) returns only the upper triangle by documented design: the property is checked on its Hermitian completion']
TRUSTED_EXTRA = c04.TRUSTED_EXTRA + ['numpy.linalg.eigvalsh in the oracle (monitored: min eigenvalue >= -1e-10 * largest |entry|)']
RT = 2e-9


def complete_upper(W):
    """Hermitian completion of the upper-triangular array returned by get_spectra (Welch)"""
    W = np.asarray(W)
    C = W.copy()
    M = W.shape[0]
    for i in range(M):
        for j in range(i):
            C[i, j] = np.conj(W[j, i])
    return C


def matrix_of(m, r):
    if m['op'] == 'welch':
        return complete_upper(r['W'])
    return np.asarray(r['C'])


def sub_meta(m, rows):
    mm = dict(m)
    if m.get('adaptive'):
        pass
    return put_data(mm, rows)


def single_channel(m, row):
    """the auto-density the corresponding single-channel estimator returns for this channel"""
    A = c04.tsa()
    if m['op'] == 'pcsd':
        nkw = {} if m.get('normalize') is None else {'normalize': m['normalize']}
        return np.asarray(A.periodogram(row, Fs=m['Fs'], N=m.get('NFFT'), sides=m['sides'], **nkw)[1])
    if m['op'] == 'mtcsd':
        return np.asarray(A.multi_taper_psd(row, Fs=m['Fs'], NW=m.get('NW'), BW=m.get('BW'), adaptive=m['adaptive'], jackknife=False,
                                            low_bias=m.get('low_bias', True), sides=m['sides'], NFFT=m.get('NFFT'))[1])
    r = run_impl(put_data(dict(m, via=None, hist=None, shared=None, twice=False), row))
    return np.real(np.asarray(r['W']))


def judge_skhist(m, r):
    """histories on ONE precomputed transform: every matrix handed out is what a fresh call returns (c04), Hermitian,
    positive semidefinite, its diagonal real and equal to periodogram(s[i], Sk=Sk[i]) computed on a FRESH transform, and the
    matrix of a subset / permutation Sk[idx] of the rows is the corresponding sub-matrix"""
    bad = list(c04.judge_skhist(m, r))
    A = c04.tsa()
    s = get_data(m)
    n = s.shape[-1]
    rows = s.reshape(-1, n)
    M = rows.shape[0]
    tol = c04.tol_of(m, RT)
    for idx, (c, out) in enumerate(zip(m['calls'], r['H'])):
        if c[0] != 'c':
            continue
        C = np.asarray(out)
        which = 'first' if idx == 0 else 'later'
        scale = max(float(np.max(np.abs(C))), 1e-300)
        if not rel_close(C, np.conj(np.transpose(C, (1, 0, 2))), tol):
            bad.append(('%s-use-hermitian' % which, 'use %d: C[i,j] != conj(C[j,i])' % idx))
        H = 0.5 * (C + np.conj(np.transpose(C, (1, 0, 2))))
        ev = np.linalg.eigvalsh(np.transpose(H, (2, 0, 1)))
        if ev.min() < -max(1e-10, tol) * scale:
            bad.append(('%s-use-psd' % which, 'use %d: min eigenvalue %g (largest |entry| %g)' % (idx, ev.min(), scale)))
        Skf = np.fft.fft(rows, n=m['Nsk'])
        for i in range(M):
            p = np.asarray(A.periodogram(rows[i], Fs=m['Fs'], Sk=Skf[i], sides=c[1], normalize=bool(c[2]))[1])
            if not rel_close(C[i, i].real, p.reshape(-1), tol):
                bad.append(('%s-use-diag-ne-psd' % which, 'use %d: diagonal of channel %d differs from periodogram(s[i], Sk=Sk[i]) (ratio %.6g)'
                            % (idx, i, float(np.max(np.abs(C[i, i].real)) / max(float(np.max(np.abs(p))), 1e-300)))))
                break
    # a later call on a permutation / subset of the rows of the SAME transform object (fancy indexing: a copy)
    if M >= 2 and m['calls'][0][0] == 'c':
        c = m['calls'][0]
        Sk = c04.make_sk(m).reshape(M, -1)
        first = np.asarray(A.periodogram_csd(rows, Fs=m['Fs'], Sk=Sk, sides=c[1], normalize=bool(c[2]))[1])
        perm = list(range(1, M)) + [0]
        sub = np.asarray(A.periodogram_csd(rows[perm], Fs=m['Fs'], Sk=Sk[perm], sides=c[1], normalize=bool(c[2]))[1])
        if not rel_close(sub, first[np.ix_(perm, perm)], tol):
            bad.append(('later-use-permutation', 'periodogram_csd on the permuted rows Sk[perm] of a transform that was used before is not the permuted matrix'))
    return bad


def judge(m, r=None):
    if r is None:
        r = run_impl(m)
    if m['op'] == 'skhist':
        return judge_skhist(m, r)
    s = get_data(m)
    n = s.shape[-1]
    rows = s.reshape(-1, n)
    M = rows.shape[0]
    C = matrix_of(m, r)
    bad = []
    scale = max(float(np.max(np.abs(C))), 1e-300)
    lo = c04.tol_of(m, 1e-6 if m.get('adaptive') else RT)
    for sym, what in (r.get('flags', []) if isinstance(r, dict) else []):
        bad.append((sym, what))
    if C.shape[:2] != (M, M):
        return [('shape', 'matrix shape %s for %d channels' % (C.shape, M))]
    # Hermitian
    if not rel_close(C, np.conj(np.transpose(C, (1, 0, 2))), c04.tol_of(m, RT)):
        bad.append(('hermitian', 'C[i,j] != conj(C[j,i])'))
    # positive semidefinite
    H = 0.5 * (C + np.conj(np.transpose(C, (1, 0, 2))))
    ev = np.linalg.eigvalsh(np.transpose(H, (2, 0, 1)))
    if ev.min() < -max(1e-10, c04.tol_of(m, 0.0)) * scale:
        bad.append(('psd', 'min eigenvalue %g (largest |entry| %g)' % (ev.min(), scale)))
    # diagonal: real, equal to the single-channel estimator
    d = np.array([C[i, i] for i in range(M)])
    if np.max(np.abs(d.imag)) > 1e-12 * scale:
        bad.append(('diag-not-real', 'imaginary part on the diagonal'))
    for i in range(M):
        p = single_channel(m, rows[i])
        if not rel_close(d[i].real, p.reshape(-1), lo):
            bad.append(('diag-ne-psd', 'diagonal entry of channel %d differs from the single-channel estimator (max ratio %.6g)'
                        % (i, float(np.max(np.abs(d[i].real)) / max(float(np.max(np.abs(p))), 1e-300)))))
            break
    # metamorphic: drop, add, permute
    if M >= 2:
        drop = M // 2
        keep = [i for i in range(M) if i != drop]
        if len(keep) >= 2 or m['op'] != 'welch':
            r2 = run_impl(put_data(dict(m), rows[keep]))
            C2 = matrix_of(m, r2)
            if not rel_close(C2, C[np.ix_(keep, keep)], lo):
                bad.append(('subset', 'removing channel %d changes the entries of the remaining pairs' % drop))
            # the entries are indexed by frequency: the frequency vector returned with the matrix must not depend on
            # which other channels are present either (a single-channel shortcut must report the same axis)
            f1, f2 = r.get('f') if isinstance(r, dict) else None, r2.get('f') if isinstance(r2, dict) else None
            if f1 is not None and f2 is not None and (np.shape(f1) != np.shape(f2) or not np.allclose(f1, f2, rtol=1e-12, atol=0)):
                bad.append(('subset-freqs', 'removing channel %d changes the frequency vector returned with the matrix' % drop))
        perm = list(range(1, M)) + [0] if M > 2 else [1, 0]
        C3 = matrix_of(m, run_impl(put_data(dict(m), rows[perm])))
        if not rel_close(C3, C[np.ix_(perm, perm)], lo):
            bad.append(('permutation', 'permuting the channels does not permute the matrix accordingly'))
        if M == 2 and not rel_close(C3[0, 1], np.conj(C[0, 1]), lo):
            bad.append(('swap', 'swapping the two channels does not conjugate the cross-spectrum'))
    extra = np.concatenate([rows, rows[:1, ::-1] * 0.5 + 0.25], axis=0)
    C4 = matrix_of(m, run_impl(put_data(dict(m), extra)))
    if not rel_close(C4[:M, :M], C, lo):
        bad.append(('superset', 'adding a channel changes the entries of the existing pairs'))
    # flattening of leading dimensions (functions that accept it)
    if m['op'] in ('pcsd', 'mtcsd') and len(m['shape']) > 2:
        C5 = matrix_of(m, run_impl(put_data(dict(m), rows)))
        if not rel_close(C5, C, lo):
            bad.append(('flatten', 'result for the (a,b,n) array differs from the one for its (a*b,n) flattening'))
    if not (m.get('hist') or m.get('shared') or m.get('twice') or m.get('dtype')):
        bad += c04.robustness(m, r)
    return bad


def make_cases(m, r):
    cs = c04.make_cases(m, r, pid=PID)
    if m['op'] == 'welch' and len(m['shape']) == 2 and m['shape'][0] > 1 and not c04.tag_of(m):
        s = get_data(m)
        n = s.shape[-1]
        cplx = m.get('im') is not None
        N = m['NFFT']
        line = '%s welchc %s %d %d %s %d %s %s' % (PID, f2x(m['Fs']), N, c04.welch_overlap(m), '2' if cplx else '1', s.shape[0],
                                                  flist(c04.welch_window(m)), clist(s.reshape(-1)))
        cs.append(Case(line, ok_c(complete_upper(r['W'])), 'welch-completed/%s' % ('twosided' if cplx else 'onesided'),
                       cmp=cmp_vec(), meta=None, nontrivial=bool(np.any(s != 0))))
    return cs


def gen_meta(rng, nr, tier, kind, i=0):
    """stratified by the case index i (see c04: parity of n, NFFT mode, amplitude decade 1e-9..1e6 with offset,
    channel count 1..6 incl. >= 4, extra leading dimension, complex data, adaptive weights on coherent channels)"""
    big = tier == 'thorough'
    nmax = 96 if big else 40
    if kind in ('pcsd', 'mtcsd'):
        n = c04.gen_n(rng, 8 if kind == 'pcsd' else 16, nmax, i)
        cplx = (i % 11) in (2, 5, 8)
        maxch = 6 if kind == 'pcsd' else 5
        lay = (i // 3) % 6
        if lay == 0:
            shape = (1, n)
        elif lay == 1:
            shape = (2, rng.randint(2, 3), n)
        elif lay == 2:
            shape = (rng.randint(4, maxch), n)
        else:
            shape = (rng.randint(2, maxch), n)
        Fs = c04.gen_fs(rng)
        m = {'op': kind, 'Fs': Fs, 'NFFT': c04.gen_nfft(rng, n, i), 'sides': ['default', 'onesided', 'twosided', 'default'][(i // 5) % 4]}
        if cplx and m['sides'] == 'onesided':
            m['sides'] = 'default'
        if kind == 'pcsd' and (i // 2) % 6 in (3, 5):
            m['normalize'] = (i // 2) % 6 == 5
        coherent = False
        if kind == 'mtcsd':
            m.update(adaptive=(i % 5) in (1, 3), low_bias=(i % 3) != 0)
            coherent = m['adaptive'] and i % 2 == 1
            if rng.random() < 0.3:
                m['BW'], m['NW'] = rng.choice([4, 5, 6, 8]) * Fs / n, None
            else:
                m['NW'], m['BW'] = rng.choice([2, 2.5, 3, 4, None]), None
        m['via'] = [None, 'get_spectra', None, 'CoherenceAnalyzer'][(i // 4) % 4]
        if kind == 'mtcsd' and (i // 4) % 5 == 4:
            m['via'] = 'mtm-direct'          # tapered_spectra(precomputed tapers) + mtm_cross_spectrum for every pair, called directly
            c04.to_mtm_direct(m)
            if len(shape) == 3 or shape[0] > 4:
                shape = (3, n)
        return put_data(m, c04.gen_signal(rng, nr, shape, cplx, i=i // 7, coherent=coherent))
    Ns = [8, 9, 12, 15, 16, 21] + ([32, 33] if big else [])
    N = Ns[i % len(Ns)]
    n = [rng.randint(max(4, N // 2), N - 1), rng.randint(N, 4 * N), rng.randint(2 * N, 5 * N), N, 2 * N + 1][(i // 2) % 5]
    cplx = (i % 11) in (2, 5, 8)
    M = [2, 3, 4, 5, 6, 2][(i // 3) % 6]
    m = {'op': 'welch', 'Fs': c04.gen_fs(rng), 'NFFT': N, 'sides': 'default',
         'n_overlap': [None, 0, 1, N // 2, N - 1, rng.randint(0, N - 1)][(i // 5) % 6],
         'window': rng.choice([None, None, [float(v) for v in np.ones(N)], [float(v) for v in np.hamming(N)]])}
    m['via'] = [None, None, 'CoherenceAnalyzer'][(i // 4) % 3]
    if m['via'] == 'CoherenceAnalyzer' and m['n_overlap'] is None:
        m['n_overlap'] = N // 2         # the analyzer's own default overlap (32) ignores NFFT
    return put_data(m, c04.gen_signal(rng, nr, (M, n), cplx, i=i // 7))


MIX = {'quick': [('pcsd', 110), ('mtcsd', 80), ('welch', 110), ('pcsd@dtype', 32), ('mtcsd@dtype', 24), ('welch@dtype', 24),
                 ('h_sk', 50), ('h_mt', 16), ('h_call', 18)],
       'thorough': [('pcsd', 600), ('mtcsd', 350), ('welch', 600), ('pcsd@dtype', 160), ('mtcsd@dtype', 96), ('welch@dtype', 120),
                    ('h_sk', 250), ('h_mt', 64), ('h_call', 72)]}
HIST_OPS = {'h_mt': ['mtcsd'], 'h_call': ['pcsd', 'mtcsd', 'welch']}


def gen_any(rng, nr, tier, kind, i):
    """the C06 generator, its typed variants (L1) and the history families of c04 restricted to the matrix estimators (L2/L6)"""
    if '@dtype' in kind:
        return c04.with_dtype(gen_meta(rng, nr, tier, kind.split('@')[0], i=i), c04.DTYPE_CYCLE[i % len(c04.DTYPE_CYCLE)])
    if kind.startswith('h_'):
        keep = c04.HIST_OPS
        c04.HIST_OPS = HIST_OPS
        try:
            m = c04.gen_meta(rng, nr, tier, kind, i=i)
        finally:
            c04.HIST_OPS = keep
        if kind == 'h_sk':
            m['calls'][0][0] = 'c'
            m['calls'][0] = m['calls'][0][:3]
            if len(m['shape']) == 2 and m['shape'][0] == 1:
                put_data(m, np.concatenate([get_data(m), get_data(m)[:, ::-1] * 0.5 + 0.25], axis=0))
        if m.get('via') in ('get_spectra_bi', 'SpectralAnalyzer.cpsd'):
            m['via'] = None          # the metamorphic runs of C06 change the number of channels
        if m['op'] in ('pcsd', 'mtcsd', 'welch') and len(m['shape']) == 1:
            put_data(m, np.stack([get_data(m), get_data(m)[::-1] * 0.5 + 0.25]))
        return m
    return gen_meta(rng, nr, tier, kind, i=i)
_RES = {}
SKIPPED = {}


def cases(rng, tier, seed):
    import warnings, io, contextlib
    nr = common.np_rng(PID, seed, 'signals')
    out = []
    _RES.clear()
    SKIPPED.clear()
    with warnings.catch_warnings(), contextlib.redirect_stdout(io.StringIO()):
        warnings.simplefilter('ignore')
        off = rng.randrange(10**4)
        c04._HIST_N[0] = 0
        for kind, cnt in MIX[tier]:
            for i in range(cnt):
                m = gen_any(rng, nr, tier, kind, off + i)
                try:
                    r = run_impl(m)
                except Exception as e:
                    if m['op'] == 'mtcsd':
                        try:
                            c04.mt_tapers(dict(m, low_bias=False), m['shape'][-1])
                        except Exception:
                            SKIPPED['taper-computation-raises'] = SKIPPED.get('taper-computation-raises', 0) + 1
                            continue
                    out.append(Case('%s raises' % PID, 'err ' + common.err_kind(e), clause_of(m), meta=m))
                    continue
                cs = make_cases(m, r)
                for c in cs:
                    if c.meta is not None:
                        _RES[id(c)] = (r, cs)
                out += cs
    return out


def key_of(m, sym):
    return '%s/%s' % (clause_of(m), sym)


def oracle(rng, tier, seed, focus, cases=None):
    import warnings, io, contextlib
    fails, n = [], 0
    with warnings.catch_warnings(), contextlib.redirect_stdout(io.StringIO()):
        warnings.simplefilter('ignore')
        for c in (cases or []):
            if c.meta is None:
                continue
            n += 1
            m = c.meta
            if c.impl.startswith('err'):
                fails.append(Failure(key_of(m, 'raises'), 'estimator raised %s on a valid configuration' % c.impl, {'meta': m}, case=c))
                continue
            r, group = _RES.get(id(c), (None, [c]))
            try:
                res = judge(m, r)
            except Exception as e:
                dims = m['shape'][0] if len(m['shape']) > 1 else 1
                if m['op'] == 'mtcsd' and 'ZeroDivision' in repr(e):
                    SKIPPED['taper-computation-raises'] = SKIPPED.get('taper-computation-raises', 0) + 1
                    continue
                res = [('metamorphic-run-raises', 'a derived run (drop/add/permute/flatten) raised %r' % (e,))]
            for sym, what in res:
                for g in group:
                    fails.append(Failure(key_of(m, sym), '%s: %s' % (clause_of(m), what), {'meta': m, 'symptom': sym}, case=g))
        # round 4: oracle-only families (L9 sizes beyond the block thresholds, every even N for the Nyquist bin, L10 lopsided magnitudes)
        import c04big
        bigf, bigcnt = c04big.run_pool(PID, tier, seed)
        for key, what, spc in bigf:
            fails.append(Failure(key, what, {'big': spc, 'key': key}))
    return fails, {'judged': n, 'failed': len(fails), 'focus': len(focus), 'skipped': dict(SKIPPED), 'oracle_only': bigcnt}


def replay(d):
    import warnings, io, contextlib
    if d.get('big') is not None:
        return c04.replay(d)
    m = d['meta']
    with warnings.catch_warnings(), contextlib.redirect_stdout(io.StringIO()):
        warnings.simplefilter('ignore')
        try:
            res = judge(m)
        except Exception as e:
            return Failure(key_of(m, 'raises'), 'estimator raised %r' % (e,), d)
    want = d.get('symptom')
    for sym, what in res:
        if want is None or sym == want:
            return Failure(key_of(m, sym), what, d)
    return None
