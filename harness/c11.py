"""C11 — the multichannel (LWR) recursion solves the block Yule–Walker system.

Correspondence: lwr_recursion (estimated and exact covariance sequences, nc 1..6, P 1..8),
autocov_vector / crosscov_vector (also on record lengths at and around size thresholds: ops acovs / ccovs,
sampled entries), MAR_est_LWR, fit_model (fixed order and criterion-selected, BIC/AIC), GrangerAnalyzer
re-targeted with set_input (op gseq: one object, read / set_input / read histories),
generate_mar (seeded) on the real code vs the Lean model `Nitime.C11` (complex binary64 matrices,
Gauss–Jordan inverse; the same `lwr` definition the theorems instantiate at a star ring).
Oracle (independent of the Lean model): dense numpy — block normal-equation residuals, the
innovation-covariance identity, symmetry / eigenvalues, reduction to the scalar estimator,
channel-permutation equivariance, the covariance helper against its definition, order semantics
of the fitting routine, the simulator's recursion.
"""
import numpy as np
from common import Case, Failure, flist, parse_flist, clist, parse_clist, call, close_vec
import ar_fam
from fractions import Fraction

PID = 'C11'
LEAN_TARGETS = ['Nitime.Props.C11', 'Nitime.Props.C11Sparse']
RULE = ('wave 6: exact covariance sequences of stable VAR / AR processes with SPARSE structure built in exact rational arithmetic from dyadic parameters (seasonal x(t) = B x(t-s) + e for s = 1..P+1 with B dense / diagonal / triangular / block-diagonal / rank one / nilpotent / one channel white / identical spectra; scalar sequences with a prescribed partial-correlation pattern: white, one lag only, leading / intermediate / trailing zeros, lags 1 and 4; direct sums mixed by integer unimodular matrices; sparse VARs with lags {1,4}, {2,3}) through lwr_recursion at binary64 and through the model in exact arithmetic (op lwrq), judged by the exact block Yule-Walker residual and exact recovery of the known coefficients; zero-stuffed recordings (lagged averages vanish exactly off the stuffing factor) for MAR_est_LWR, fit_model, GrangerAnalyzer; MAR_est_LWR with its rxx argument given the recording\'s own covariances; round 2: one covariance stack whose diagonal / leading slices are handed as VIEWS to the scalar estimators, the one-channel and lower-order recursions before lwr_recursion runs on it (op marp), crosscov_vector(x, x) on one object (L8); refused / failing calls of every entry point then ordinary calls against fresh copies, one GrangerAnalyzer whose read is refused part-way (a later pair does not converge) with vars() compared around the failure and set_input afterwards (op gseqf) (L7); session 3: the covariance helper, MAR_est_LWR, fit_model, generate_mar and the analyzer also on integer recordings (int16/int32/int64/uint8, mixed kinds for x and y; integer samples cross the protocol as integers: op ccovi, oracle in exact rational arithmetic), float32, big-endian, Fortran-ordered, strided (both axes) and read-only arrays; lwr_recursion on float32 / F-ordered / strided / read-only stacks; fit_model and GrangerAnalyzer for explicit order x max_order (larger, equal, smaller, 1, 0, None, default), order=None explicit, criterion default / AIC / corrected AIC / table; nlags None / omitted / = N; amplitudes 1e-150..1e150 judged against the same data scaled by an exact power of two; nearly collinear channels (cond to 1e9); a perturbation phase (other options, subclass analyzers, results overwritten) followed by a re-run of a sample of the cases on fresh objects; every routine is also run in call sequences on the same argument objects (>=3 evaluations, refilled arrays, fewer/more lags); the covariance helper (auto and cross), MAR_est_LWR and fit_model are also run on record lengths AT and AROUND implementation-size thresholds '
        '(every power of two 256..8192 exactly and within +-nlags of it, quick: one exact + one neighbour per power; thorough: all offsets around 2048/4096, decimal thresholds too; the Lean model is compared on all lags of sampled channel pairs, the oracle on every entry); '
        'GrangerAnalyzer objects are re-targeted with set_input (same shape / other length / other rate / other channel count) after reading a model-derived attribute and their order/autocov/model_coef/error_cov judged against the NEW data; '
        'cases from one PRNG state: covariance sequences estimated from coloured multichannel data (N 64..512, thorough ..4096) '
        'or exact covariances of drawn stable VAR processes; nc 1..6, P 1..8; channel permutations; covariance scales 1e-12..1e4; fit_model with fixed order 0..5 '
        'and BIC/AIC-selected order (max_order 10); generate_mar with a fixed numpy seed; distinct = distinct protocol line; '
        'block-Toeplitz systems with cond > 1e6 are skipped and counted')
ASSUMPTIONS = ['real-valued data (lwr_recursion allocates real coefficient arrays: complex recordings are outside the quantifier)',
               'covariance STACKS handed to lwr_recursion are floating point (an integer-typed stack makes its work arrays integer: P = 1 works, P >= 2 raises UFuncTypeError; not generated) and native-endian (scipy.linalg.inv 1.18 misreads big-endian input)',
               'integer recordings use (nearly) the full range of the narrow types (|x| <= 30000 int16, 250 uint8, 1e6 int32/int64): their products do not fit the type, the lagged averages must be formed in floating point',
               'criterion-selected order only for amplitudes 1e-60..1e60 (beyond, det(ecov) leaves the binary64 range and BIC/AIC are +-inf)',
               'the two error covariances met along the recursion are invertible (hypothesis of lwr_solves); ill-conditioned cases skipped and counted',
               'R(0) symmetric',
               'positive-definiteness of the innovation covariance is NOT proved: per-run eigvalsh certificate whenever the block-Toeplitz matrix of the sequence is positive definite']
TRUSTED_EXTRA = [
    'wave 6: the control flow of the order loop of lwr_recursion (no break / continue / return / raise, no conditional, header range(P), `return a, sigf` directly after it) is GENERATED from the source (harness/translate_c11.py gen_lwr_flow -> Generated/LwrFlow.lean; flow-insensitive ast walk of the loop body); Props/C11Sparse.lean lwr_source_runs_every_pass is decide over it',
    'op lwrq: the exact instance `GSq CQ n` (complex rationals, Model/C10.lean CQ; placeholder sqrtRe/phasor never called) runs the SAME lwr text; the structured sequences are built by harness/ar_exact.py in fractions.Fraction from dyadic parameters and are exactly representable in binary64 (checked per case, counted in structured_exact)',
    'op marp: the model threads the covariance stack through the scalar consumers of its diagonal views (`SliceCall`) only; program steps on private copies, on the signal path and lower-order block recursions on leading slices are read-only in the model as well (no stack step); `Generated/GrangerAttrs.lean` (`survivors`, `modelAccumulatorIsLocal`) is an `ast` walk of class GrangerAnalyzer: attribute writes through other aliases of `self` or in base classes are not seen by the translator (the run-time `vars()` comparison of op gseqf sees them)',
   
    'the lag counts of MAR_est_LWR / fit_model and the shape of the criterion loop are GENERATED from the source (harness/translate_c11.py -> Generated/FitModel.lean); the theorems marEst_order, fitModel_reports_its_order, fitModel_loop_shape are about the generated definitions',
    'Float (complex binary64) instance `GSq CF n` of the list-of-rows matrix text approximates its `GSq ℂ n` instance (unproved; bounded by the 1e-8 comparison); that the ℂ instance IS the matrix recursion of the theorems is proved (lwrLoop_concrete, lwr_solves_concrete)',
    'GrangerAnalyzer as an object: `Model/GrangerObj.lean` (one-time attributes stored on first read, dropped by set_input) is tied to the class by the re-target sequences only (no translator pass over granger.py for C11)',
    'scipy.linalg.inv modelled by its contract inv(X)·X = I (hypothesis of the theorem); the driver uses Gauss–Jordan elimination, compared on every run',
    'np.dot / .conj().T / np.mean modelled as matrix product / conjugate transpose / sum divided by the count',
    'np.random.multivariate_normal is not modelled: generate_mar is compared given the noise it returned',
    'scipy.linalg.det in the information criteria modelled by elimination on the 2x2 error covariance',
]
STATS = {'skipped_ill_conditioned': 0, 'pd_certified': 0, 'pd_not_applicable': 0}
COND_MAX = 1e6


def mods():
    import nitime.algorithms.autoregressive as ar
    import nitime.utils as ut
    import nitime.analysis.granger as gr
    return ar, ut, gr


# ------------------------------------------------------------------ dense helpers (oracle side)
def R_of(r, m):
    """R(m) for any integer m, with R(-m) = R(m)^H"""
    return r[m] if m >= 0 else r[-m].conj().T


def block_toeplitz(r, P):
    nc = r.shape[1]
    T = np.zeros((nc * (P + 1), nc * (P + 1)), dtype=r.dtype)
    for k in range(P + 1):
        for i in range(P + 1):
            T[k * nc:(k + 1) * nc, i * nc:(i + 1) * nc] = R_of(r, k - i)
    return T


def direct_autocov(x, nl):
    x = np.asarray(x)
    nc, N = x.shape
    out = np.empty((nl, nc, nc))
    for k in range(nl):
        for i in range(nc):
            for j in range(nc):
                out[k, i, j] = np.sum(x[i, k:] * np.conj(x[j, :N - k])) / (N - k)
    return out


def direct_crosscov(x, y, nl):
    """R_xy(k)[i, j] = mean over t < N-k of x_i[t+k] conj(y_j[t]) — written from the definition"""
    x, y = np.asarray(x), np.asarray(y)
    nc, N = x.shape
    out = np.empty((nl, nc, nc), dtype=np.result_type(x, y))
    for k in range(nl):
        for i in range(nc):
            for j in range(nc):
                out[k, i, j] = np.sum(x[i, k:] * np.conj(y[j, :N - k])) / (N - k)
    return out


def exact_crosscov(x, y, nl):
    """the lagged averages of INTEGER samples in exact rational arithmetic (python ints / Fractions)"""
    from fractions import Fraction
    xi = [[int(v) for v in row] for row in np.asarray(x)]
    yi = [[int(v) for v in row] for row in np.asarray(y)]
    nc, N = len(xi), len(xi[0])
    out = np.empty((nl, nc, nc))
    for k in range(nl):
        for i in range(nc):
            for j in range(nc):
                out[k, i, j] = float(Fraction(sum(xi[i][t + k] * yi[j][t] for t in range(N - k)), N - k))
    return out


def judge_gseq(m, impl, fail):
    """after every (re-)targeting the analyzer must describe the data it holds NOW: returned autocov =
    lagged average of the current pair rows, coefficients / covariance solve their block Yule–Walker
    system, order = what a fresh fit_model call on the current rows selects"""
    _, _, gr = mods()
    import warnings
    warnings.simplefilter('ignore')
    if not impl.startswith('ok'):
        return fail('raises', 'valid re-target sequence rejected: ' + impl)
    toks = impl.split()[1:]
    pos = 0
    for k, st in enumerate(m['steps']):
        tag = 'first-use/' if k == 0 else ''          # k = 0 is a single use (no re-targeting yet)
        data = np.array(parse_flist(st['data'])).reshape(st['nproc'], -1)
        ij = step_ij(m, st)
        fresh = []
        for (i, j) in ij:
            try:
                dv = ar_fam.variant(data, st.get('dt'))
                fresh.append(gr.fit_model(dv[i], dv[j], **fit_kwargs(m)))
            except ValueError:
                fresh = None
                break
        if pos < len(toks) and toks[pos] == 'E':
            if fresh is not None:
                return fail(tag + 'raises', 'reading the model raised after step %d but fit_model on the current data succeeds' % k)
            pos += 1
            continue
        if fresh is None:
            return fail(tag + 'no-raise', 'fit_model raises on the data of step %d but the analyzer reported a model' % k)
        for q, (i, j) in enumerate(ij):
            if pos + 4 > len(toks):
                return fail(tag + 'shape', 'missing results for pair (%d,%d) at step %d' % (i, j, k))
            order = int(toks[pos][1:])
            mats = lambda tok: np.array(parse_clist(tok)).real.reshape(-1, 2, 2) if tok != '-' else np.zeros((0, 2, 2))
            Rxx, coef, ecov = mats(toks[pos + 1]), mats(toks[pos + 2]), mats(toks[pos + 3])[0]
            pos += 4
            x = np.vstack([data[i], data[j]])
            where = 'pair (%d,%d) after %s' % (i, j, 'construction' if k == 0 else 'set_input #%d (%s)' % (k, st['kind']))
            if len(coef) != order or len(Rxx) != order + 1:
                return fail(tag + 'order-reported', '%s: reported order %d, %d coefficient matrices, %d lags' % (where, order, len(coef), len(Rxx)))
            want = direct_autocov(x, order + 1)
            if np.abs(Rxx - want).max() > 1e-9 * ar_fam.tol_factor(st.get('dt')) * np.abs(want).max():
                return fail(tag + 'autocov', '%s: reported autocov is not the lagged covariance of the data the analyzer holds (off by %.3g, scale %.3g)'
                            % (where, np.abs(Rxx - want).max(), np.abs(want).max()))
            f = check_solution(want, coef, ecov, fail, tag=tag, prec=ar_fam.tol_factor(st.get('dt')))
            if f:
                f.what = where + ': ' + f.what
                return f
            if m['order'] >= 0 and order != m['order']:
                return fail(tag + 'order-requested', '%s: order %d requested, %d reported' % (where, m['order'], order))
            if order != int(fresh[q][0]):
                return fail(tag + 'order-selected', '%s: reported order %d, a fresh fit_model call on the current rows gives %d' % (where, order, int(fresh[q][0])))
    return None


def stable_var(nrng, nc, P, rho):
    A = nrng.randn(P, nc, nc)
    C = np.zeros((nc * P, nc * P))
    C[:nc, :] = np.hstack(list(A))
    if P > 1:
        C[nc:, :-nc] = np.eye(nc * (P - 1))
    r = np.abs(np.linalg.eigvals(C)).max() or 1.0
    s = rho / r
    return np.array([A[k] * s ** (k + 1) for k in range(P)])    # X[t] = sum A[k] X[t-k-1] + E[t]


def exact_cov(A, cov, nl):
    """R(k) = E x(t) x(t-k)^T of the stable VAR, through its impulse response"""
    P, nc, _ = A.shape
    L = 1500
    Psi = [np.eye(nc)]
    for n in range(1, L):
        Psi.append(sum(A[k].dot(Psi[n - k - 1]) for k in range(min(P, n))))
    Psi = np.array(Psi)
    return np.array([sum(Psi[n + k].dot(cov).dot(Psi[n].T) for n in range(L - k)) for k in range(nl)])


def coloured(nrng, nc, N):
    A = stable_var(nrng, nc, int(nrng.randint(1, 4)), float(nrng.uniform(0.3, 0.9)))
    e = nrng.randn(N + 100, nc)
    x = e.copy()
    for t in range(len(x)):
        for k in range(min(t, len(A))):
            x[t] += A[k].dot(x[t - k - 1])
    return x[100:].T.copy()


def rflat(r):
    return clist(np.asarray(r).reshape(-1))


def xf_of(m, key='x'):
    """the float64 VALUES of a data field (what the model line and the oracle's expectation are about)"""
    return np.array(parse_flist(m[key])).reshape(m['nc'], -1)


def xv_of(m, key='x'):
    """what the implementation is handed: the same values in the representation `m['dt']` (`m['dty']` for y);
    a fresh object on every call"""
    return ar_fam.variant(xf_of(m, key), m.get('dty' if key == 'y' else 'dt'))


def tolf(m):
    """single-precision representations are judged at single precision"""
    return ar_fam.tol_factor(m.get('dt'), m.get('dty'))


def opt_int(v):
    """protocol convention for python's `int or None`: negative = None"""
    return None if v is None or v < 0 else int(v)


def fit_kwargs(m, crit=None):
    """keyword arguments of fit_model / GrangerAnalyzer for a case (criterion left at its default when asked)"""
    kw = {}
    if opt_int(m['order']) is not None or m.get('order_explicit_none'):
        kw['order'] = opt_int(m['order'])
    if not m.get('maxo_default'):
        kw['max_order'] = opt_int(m['maxo'])
    if not m.get('crit_default'):
        kw['criterion'] = crit if crit is not None else ut_crit(m['crit'])
    return kw


# ------------------------------------------------------------------ implementation adapter
def run_impl(m):
    ar, ut, gr = mods()
    op = m['op']
    if op in ('lwr', 'lwrq'):
        r = ar_fam.variant(np.array(parse_flist(m['r'])).reshape(-1, m['nc'], m['nc']), m.get('dt'))
        return call(lambda: (ar.lwr_recursion(r), (lambda a, s: 'ok %s %s' % (rflat(a), rflat(s)))(*ar.lwr_recursion(r)))[1])
    if op == 'gseq':
        return call(lambda: run_gseq(m))
    x = xv_of(m) if 'x' in m else None
    if op in ('acovs', 'ccovs'):
        def f():
            full = cov_call(m, x, None if op == 'acovs' else (x if m.get('same_object') else xv_of(m, 'y')))
            return 'ok ' + clist([full[i, j, k] for (i, j) in m['pairs'] for k in range(m['nl'])])
        return call(f)
    if op in ('acov', 'ccovi'):
        def f():
            full = cov_call(m, x, xv_of(m, 'y') if 'y' in m else None)
            return 'ok ' + rflat(np.asarray(full).transpose(2, 0, 1))
        return call(lambda: (f(), f())[1])
    if op == 'mar' and 'prog' in m:
        return call(lambda: (lambda a, s: 'ok %s %s' % (rflat(a), rflat(s)))(*run_prog(m, x)[0]))
    if op == 'mar' and m.get('rxx'):
        # the optional `rxx` argument, given the recording's OWN lagged covariances (laid out as by autocov_vector, with exactly
        # order+1 lags or more): whether the routine honours or ignores it, the answer is the one for the recording
        def f():
            R = ut.autocov_vector(xv_of(m), nlags=m['order'] + 1 + (2 if m['rxx'] == 'own-more' else 0))
            a, s_ = ar.MAR_est_LWR(x, m['order'], rxx=R)
            return 'ok %s %s' % (rflat(a), rflat(s_))
        return call(lambda: (f(), f())[1])
    if op == 'mar':
        return call(lambda: (ar.MAR_est_LWR(x, m['order']), (lambda a, s: 'ok %s %s' % (rflat(a), rflat(s)))(*ar.MAR_est_LWR(x, m['order'])))[1])
    if op == 'fitc':
        tbl = m['table']

        def f():
            o, Rxx, coef, ecov = gr.fit_model(x[0], x[1], max_order=m['maxo'], criterion=lambda ecov, p, mm, nt: tbl[mm])
            return 'ok %d %s %s %s' % (int(o), rflat(np.asarray(Rxx).transpose(2, 0, 1)), rflat(coef), rflat(ecov))
        return call(f)
    if op == 'fit':
        def f():
            x1 = x[0] if 'dt2' not in m else ar_fam.variant(xf_of(m)[0], m['dt'])
            x2 = x[1] if 'dt2' not in m else ar_fam.variant(xf_of(m)[1], m['dt2'])
            o, Rxx, coef, ecov = gr.fit_model(x1, x2, **fit_kwargs(m))
            return 'ok %d %s %s %s' % (int(o), rflat(np.asarray(Rxx).transpose(2, 0, 1)), rflat(coef), rflat(ecov))
        return call(f)
    if op == 'gmar':
        a = ar_fam.variant(np.array(parse_flist(m['a'])).reshape(-1, m['nc'], m['nc']), m.get('dt'))
        cov = ar_fam.variant(np.array(parse_flist(m['cov'])).reshape(m['nc'], m['nc']), m.get('dtc'))

        def f():
            np.random.seed(m['seed'])
            mar, nz = ut.generate_mar(a, cov, m['N'])
            return 'ok ' + rflat(mar.T)
        return call(f)
    raise ValueError(op)


def run_prog(m, x):
    """round 2 (L8): ONE covariance stack `R = autocov_vector(x, nlags=order+1)` whose slices are handed to other
    estimators BEFORE the block recursion runs on it — `R[c, c]` (a strided view: the autocovariance sequence of channel c)
    to the scalar estimators, `R[:, :, :k]` to `lwr_recursion` for a lower order — then `lwr_recursion(R)`; what
    `MAR_est_LWR(x, order)` does, with other consumers of the same array in between.  Returns ((a, sigma), R, scalar results)"""
    ar, ut, _ = mods()
    R = ut.autocov_vector(x, nlags=m['order'] + 1)
    scal = []
    for st in m['prog']:
        kind, c, p = st.split(':')
        c, p = int(c), int(p)
        if kind == 'LD':
            scal.append((st, ar.AR_est_LD(None, p, rxx=R[c, c])))
        elif kind == 'YW':
            scal.append((st, ar.AR_est_YW(None, p, rxx=R[c, c])))
        elif kind == 'LDcopy':
            scal.append((st, ar.AR_est_LD(None, p, rxx=np.array(R[c, c]))))
        elif kind == 'LDx':
            scal.append((st, ar.AR_est_LD(x[c], p)))
        elif kind == 'LWR':
            scal.append((st, ar.lwr_recursion(R[:, :, :p + 1].transpose(2, 0, 1))))
        elif kind == 'LWR1':        # the one-channel recursion on the diagonal sequence (a (p+1,1,1) view of R)
            scal.append((st, ar.lwr_recursion(R[c:c + 1, c:c + 1, :p + 1].transpose(2, 0, 1))))
        else:
            raise ValueError(st)
    return ar.lwr_recursion(R.transpose(2, 0, 1)), R, scal


def prog_judge(m, fail):
    """after the program: the stack still IS the lagged covariance of the data (bit for bit what a fresh call returns);
    every scalar result equals the one obtained from a private copy of the slice; one channel: LWR = -LD"""
    ar, ut, _ = mods()
    import ar_seq
    x = xv_of(m)
    try:
        (a, sig), R, scal = run_prog(m, x)
    except Exception as e:  # noqa
        return fail('alias/raises', 'covariance stack shared between estimators: %s' % type(e).__name__)
    R0 = ut.autocov_vector(xv_of(m), nlags=m['order'] + 1)
    if not ar_seq.same(R0, R):
        k = np.unravel_index(np.argmax(np.abs(R0 - R)), R.shape)
        return fail('alias/covariance-stack-changed', 'after %s the array returned by autocov_vector differs from the lagged covariance of the data '
                    '(entry %r: %.6g, was %.6g)' % ('; '.join(m['prog']), tuple(int(t) for t in k), R[k], R0[k]))
    for st, res in scal:
        kind, c, p = st.split(':')
        c, p = int(c), int(p)
        if kind in ('LD', 'YW', 'LDcopy'):
            want = (ar.AR_est_LD if kind != 'YW' else ar.AR_est_YW)(None, p, rxx=np.array(R0[c, c]))
            if not ar_seq.same([np.asarray(v) for v in want], [np.asarray(v) for v in res]):
                return fail('alias/scalar-result-depends-on-sharing', '%s on the view R[%d,%d] differs from the call on a private copy' % (st, c, c))
        if kind == 'LWR1':
            ak, s2 = ar.AR_est_LD(None, p, rxx=np.array(R0[c, c]))
            a1, s1 = res
            sc = abs(R0[c, c, 0])
            if np.abs(a1[:, 0, 0] + ak).max() > 1e-7 * max(1.0, np.abs(ak).max()) or abs(s1[0, 0] - s2) > 1e-7 * sc:
                return fail('alias/one-channel-not-scalar-estimator', 'one-channel LWR on R[%d,%d] is not minus the Levinson-Durbin solution' % (c, c))
    return None


def cov_call(m, x, y):
    """autocov_vector(x) / crosscov_vector(x, y) with nlags given, given as None, or left out (both mean "all N lags";
    such a case carries nl = N)"""
    _, ut, _ = mods()
    kw = {} if m.get('nl_default') else {'nlags': None if m.get('nl_none') else m['nl']}
    return ut.autocov_vector(x, **kw) if y is None else ut.crosscov_vector(x, y, **kw)


def default_ij(n):
    """the pairs a GrangerAnalyzer built without `ij` must hold (C12 `defij`): i < j, row by row"""
    return [(i, j) for j in range(n) for i in range(j)]


def step_ij(m, st):
    return [tuple(q) for q in m['ij']] if m['ij'] is not None else default_ij(st['nproc'])


def gseq_objects(m):
    """the analyzer of a re-target sequence and its inputs"""
    _, _, gr = mods()
    import nitime.timeseries as ts
    inputs = [ts.TimeSeries(ar_fam.variant(np.array(parse_flist(st['data'])).reshape(st['nproc'], -1), st.get('dt')), sampling_rate=st['Fs'])
              for st in m['steps']]
    G = gr.GrangerAnalyzer(inputs[0], ij=None if m['ij'] is None else [tuple(q) for q in m['ij']], n_freqs=16, **fit_kwargs(m))
    return G, inputs


def ut_crit(name):
    _, ut, _ = mods()
    if name == 'aicc':          # the optional `corrected` argument of the AIC, bound by the caller
        return lambda ecov, p, m, Ntotal: ut.akaike_information_criterion(ecov, p, m, Ntotal, corrected=True)
    return {'bic': ut.bayesian_information_criterion, 'aic': ut.akaike_information_criterion}[name]


def read_model(G, ij, first):
    """read the four model-derived attributes of every pair (attribute `first` first); tokens"""
    try:
        getattr(G, first)
        toks = []
        for (i, j) in ij:
            toks += ['o%d' % int(G.order[i, j]), rflat(np.asarray(G.autocov[i, j]).transpose(2, 0, 1)),
                     rflat(G.model_coef[i, j]), rflat(G.error_cov[i, j])]
        return toks
    except ValueError:
        return ['E']


def run_gseq(m):
    """GrangerAnalyzer(A); read; set_input(B); read; ... on ONE analyzer object"""
    import warnings
    warnings.simplefilter('ignore')
    G, inputs = gseq_objects(m)
    toks = []
    for k, st in enumerate(m['steps']):
        if k:
            G.set_input(inputs[k])
        toks += read_model(G, step_ij(m, st), m['first'][k % len(m['first'])])
    return 'ok ' + ' '.join(toks)


def noise_of(m):
    """the noise generate_mar draws for this seed (numpy's generator is not modelled)"""
    _, ut, _ = mods()
    a = np.array(parse_flist(m['a'])).reshape(-1, m['nc'], m['nc'])
    cov = np.array(parse_flist(m['cov'])).reshape(m['nc'], m['nc'])
    np.random.seed(m['seed'])
    mar, nz = ut.generate_mar(a, cov, m['N'])
    return nz


def line_of(m):
    op = m['op']
    if op == 'lwr':
        return 'C11 lwr %d %s' % (m['nc'], clist(parse_flist(m['r'])))
    if op == 'lwrq':        # the binary64 lags as exact rationals int / 2^k: the model runs the recursion in exact arithmetic
        import ar_exact
        den, ints = ar_exact.dyadic_ints(parse_flist(m['r']))
        return 'C11 lwrq %d %d %s' % (m['nc'], den, ','.join(str(v) for v in ints))
    if op == 'acov':
        return 'C11 acov %d %d %s' % (m['nc'], m['nl'], clist(parse_flist(m['x'])))
    if op == 'mar' and 'prog' in m:
        # the scalar consumers of the diagonal sequences (`c:p`) are the model's `SliceCall`s; the other steps of the program
        # (private copies, the signal path, lower-order block recursions) do not touch the stack in the model
        calls = ','.join('%s:%s' % tuple(st.split(':')[1:]) for st in m['prog'] if st.split(':')[0] in ('LD', 'YW', 'LWR1')) or '-'
        return 'C11 marp %d %d %s %s' % (m['nc'], m['order'], calls, clist(parse_flist(m['x'])))
    if op == 'mar':
        return 'C11 mar %d %d %s' % (m['nc'], m['order'], clist(parse_flist(m['x'])))
    if op == 'ccovi':      # integer-typed recordings: the samples cross the protocol as integers, the model embeds them
        xi = ','.join(str(int(v)) for v in parse_flist(m['x']))
        yi = ','.join(str(int(v)) for v in parse_flist(m['y'])) if 'y' in m else xi
        return 'C11 ccovi %d %d %s %s' % (m['nc'], m['nl'], xi, yi)
    if op == 'fit':
        return 'C11 fit %s %d %d %s' % (m['crit'], m['order'], m['maxo'], clist(parse_flist(m['x'])))
    if op == 'fitc':
        return 'C11 fitc %s %d %s' % (flist(m['table']), m['maxo'], clist(parse_flist(m['x'])))
    if op == 'gmar':
        return 'C11 gmar %d %s %s' % (m['nc'], clist(parse_flist(m['a'])), rflat(noise_of(m).T))
    if op in ('acovs', 'ccovs'):
        prs = ','.join('%d,%d' % tuple(q) for q in m['pairs'])
        return 'C11 %s %d %d %s %s' % (op, m['nc'], m['nl'], prs, m['x'] if op == 'acovs' else m['x'] + ' ' + m['y'])
    if op == 'gseq':
        toks = []
        for st in m['steps']:
            ij = step_ij(m, st)
            toks += ['S:%d:%s:%s' % (st['nproc'], ','.join('%d,%d' % q for q in ij) or '-', st['data']), 'R']
        return 'C11 %s %s %d %d %s' % ('gseqf' if m.get('fail') else 'gseq', m['crit'], m['order'], m['maxo'], ' '.join(toks))


def cmp_groups(n_exact=0, rtol=1e-8, atol=1e-300):
    def f(impl, model):
        if not (impl.startswith('ok ') and model.startswith('ok ')):
            return impl == model
        a, b = impl.split()[1:], model.split()[1:]
        if len(a) != len(b) or a[:n_exact] != b[:n_exact]:
            return False
        fl = lambda zs: [t for z in zs for t in (z.real, z.imag)]
        for x, y in zip(a[n_exact:], b[n_exact:]):
            if not close_vec(fl(parse_clist(x)), fl(parse_clist(y)), rtol, atol):
                return False
        return True
    return f


def cmp_lwrq(cond):
    """impl = lwr_recursion in binary64; model = the same recursion in EXACT rational arithmetic on the same lags, followed by
    the exact truth values of: block Yule–Walker residual == 0, sigma == sum_i A(i) R(-i), every inverse existed (all must
    be 1) and `the early-exit variant returns the same coefficients` (informational: 0 marks an input on which a vanishing
    intermediate reflection numerator is followed by a non-vanishing one)"""
    def f(impl, model):
        if not (impl.startswith('ok ') and model.startswith('ok ')):
            return impl == model
        a, b = impl.split()[1:], model.split()[1:]
        if len(a) != 2 or len(b) != 3 or b[2].split(',')[:3] != ['1', '1', '1']:
            return False
        if b[2].split(',')[3] == '0':
            STATS['early_exit_would_differ'] = STATS.get('early_exit_would_differ', 0) + 1
        k = max(1.0, cond * 1e-3)
        for x, y, absolute in ((a[0], b[0], True), (a[1], b[1], False)):
            vi = [z.real for z in parse_clist(x)]
            toks = y.split(',')
            vm = [float(Fraction(t)) for t in toks[0::2]]
            if any(Fraction(t) != 0 for t in toks[1::2]) or any(z.imag != 0 for z in parse_clist(x)):
                return False
            # coefficients are dimensionless: an exactly-zero coefficient is met up to eps*cond
            if not close_vec(vi, vm, 1e-9 * k, 1e-9 * k if absolute else 1e-300):
                return False
        return True
    return f


def cmp_tokens(rtol=1e-8):
    """token by token: `o<order>` / `E` exactly, everything else as complex vectors"""
    def f(impl, model):
        if not (impl.startswith('ok') and model.startswith('ok')):
            return impl == model
        a, b = impl.split()[1:], model.split()[1:]
        if len(a) != len(b):
            return False
        fl = lambda zs: [t for z in zs for t in (z.real, z.imag)]
        for x, y in zip(a, b):
            if x[:1] in 'oE' or y[:1] in 'oE':
                if x != y:
                    return False
            elif not close_vec(fl(parse_clist(x)), fl(parse_clist(y)), rtol, 1e-300):
                return False
        return True
    return f


# ------------------------------------------------------------------ the property, judged on the implementation
def check_solution(r, a, sigma, fail, tag='', prec=1.0):
    """block Yule–Walker for the order len(a): Σ_{i=0..P} A(i) R(k-i) = 0 (k=1..P), Σ = Σ_i A(i) R(-i)"""
    P = len(a)
    nc = r.shape[1]
    s0 = float(np.abs(r[0]).max())
    if s0 > 0 and np.isfinite(s0) and not 1e-100 < s0 < 1e100:      # the equations are homogeneous in R: judge them at scale 1
        r, sigma = r / s0, np.asarray(sigma) / s0
    if r.shape[0] < P + 1:
        return fail(tag + 'shape', 'need %d lags for %d coefficient matrices, have %d' % (P + 1, P, r.shape[0]))
    A = [np.eye(nc)] + list(a)
    T = block_toeplitz(r, P)
    cond = np.linalg.cond(T)
    sc = np.abs(T).sum(axis=1).max() * max(1.0, max(np.abs(Ai).max() for Ai in A))
    tol = 1e-9 * sc * max(1.0, cond * 1e-3) * prec
    for k in range(1, P + 1):
        res = sum(A[i].dot(R_of(r, k - i)) for i in range(P + 1))
        if np.abs(res).max() > tol:
            return fail(tag + 'normal-equations', 'block residual %.3g at k=%d (scale %.3g, cond %.3g)' % (np.abs(res).max(), k, sc, cond))
    want = sum(A[i].dot(R_of(r, -i)) for i in range(P + 1))
    if np.abs(want - sigma).max() > tol:
        return fail(tag + 'sigma', 'innovation covariance differs from Σ_i A(i)R(-i) by %.3g' % np.abs(want - sigma).max())
    if np.abs(sigma - sigma.T).max() > tol * 10:
        return fail(tag + 'sigma-symmetric', 'innovation covariance not symmetric (%.3g)' % np.abs(sigma - sigma.T).max())
    ev = np.linalg.eigvalsh((T + T.conj().T) / 2)
    if ev.min() > 1e-8 * np.abs(ev).max():
        STATS['pd_certified'] += 1
        es = np.linalg.eigvalsh((sigma + sigma.T) / 2)
        if es.min() <= 0:
            return fail(tag + 'sigma-positive-definite', 'innovation covariance has eigenvalue %.3g for a positive-definite sequence' % es.min())
    else:
        STATS['pd_not_applicable'] += 1
    return None


def judge_value(m, impl, clause):
    ar, ut, gr = mods()
    op = m['op']
    if op == 'lwrq':          # same routine, same claims
        op = 'lwr'

    def fail(sym, what):
        return Failure('%s/%s' % (clause, sym), '%s: %s [op %s]' % (clause, what, op), {'meta': m, 'clause': clause})
    if op in ('acovs', 'ccovs'):
        # the oracle looks at EVERY entry of a fresh call, not only at the sampled pairs
        x = xf_of(m)
        y = x if op == 'acovs' else xf_of(m, 'y')
        try:
            xo = xv_of(m)
            got = cov_call(m, xo, None if op == 'acovs' else (xo if m.get('same_object') else xv_of(m, 'y')))
        except Exception as e:  # noqa
            return fail('raises', 'valid input rejected: %s' % type(e).__name__)
        want = direct_crosscov(x, y, m['nl'])
        got = np.asarray(got).transpose(2, 0, 1)
        if got.shape != want.shape:
            return fail('shape', 'shape %r, expected %r' % (got.shape, want.shape))
        err = np.abs(got - want).max()
        if not err <= 1e-9 * tolf(m) * np.abs(want).max():
            k = int(np.unravel_index(np.argmax(np.abs(got - want)), want.shape)[0])
            return fail('value', 'covariance helper differs from mean_t x_i[t+k] y_j[t] by %.3g (scale %.3g) at lag %d for N=%d, nlags=%d'
                        % (err, np.abs(want).max(), k, x.shape[1], m['nl']))
        if impl.startswith('ok'):
            smp = np.array(parse_clist(impl.split()[1]))
            ws = np.array([want[k, i, j] for (i, j) in m['pairs'] for k in range(m['nl'])])
            if smp.shape != ws.shape or not np.abs(smp - ws).max() <= 1e-9 * tolf(m) * np.abs(want).max():
                return fail('value', 'sampled entries differ from the lagged average')
            return None
        return fail('raises', 'valid input rejected: ' + impl)
    if op == 'gseq':
        return judge_gseq(m, impl, fail)
    if op == 'fitc':
        tbl = m['table']
        want = None
        for o in range(0, m['maxo'] - 2):          # lags 1..max_order-1 <-> orders 0..max_order-2; rise seen at order o+1
            if tbl[o + 1] > tbl[o]:
                want = o
                break
        if want is None:
            return None if impl == 'err ValueError' else fail('no-rise-accepted', 'criterion never rises below max_order but a model was returned')
        if not impl.startswith('ok'):
            return fail('raises', 'criterion rises after order %d but fit_model raised' % want)
        if int(impl.split()[1]) != want:
            return fail('order-selected', 'criterion table first rises after order %d, fit_model reports %s' % (want, impl.split()[1]))
    if not impl.startswith('ok'):
        if op == 'fit' and m['order'] < 0 and impl == 'err ValueError':
            return None        # "did not converge at max_order" is the documented outcome; checked by correspondence
        return fail('raises', 'valid input rejected: ' + impl)
    g = impl.split()[1:]
    nc = m.get('nc', 2)
    mats = lambda tok: np.array(parse_clist(tok)).real.reshape(-1, nc, nc) if tok != '-' else np.zeros((0, nc, nc))
    if op == 'lwr':
        r = np.array(parse_flist(m['r'])).reshape(-1, nc, nc)
        a, sigma = mats(g[0]), mats(g[1])[0]
        if len(a) != r.shape[0] - 1:
            return fail('shape', '%d coefficient matrices for %d lags' % (len(a), r.shape[0]))
        f = check_solution(r, a, sigma, fail, prec=tolf(m))
        if not f and 'struct' in m and tolf(m) == 1:
            f = structured_judge(m, r, a, sigma, fail)
        if not f and 'pow2' in m:       # the equations are homogeneous: R·2^k gives the SAME coefficients and Σ·2^k (exact scaling)
            a2, s2 = ar.lwr_recursion(ar_fam.variant(r * 2.0 ** m['pow2'], m.get('dt')))
            if np.abs(a2 - a).max() > 1e-9 * max(1.0, np.abs(a).max()) or np.abs(s2 / 2.0 ** m['pow2'] - sigma).max() > 1e-9 * np.abs(r[0]).max():
                return fail('scale-invariance', 'covariances scaled by 2^%d: coefficients change by %.3g' % (m['pow2'], np.abs(a2 - a).max()))
        if tolf(m) > 1:
            return f
        if f:
            return f
        if nc == 1:     # reduction to the scalar estimator (documented sign convention: a_lwr = -a_ld)
            ak, sv = ar.AR_est_LD(None, len(a), rxx=r[:, 0, 0].copy())
            tol = 1e-8 * max(1.0, np.abs(ak).max()) * max(1.0, np.linalg.cond(block_toeplitz(r, len(a))) * 1e-3)
            if np.abs(a[:, 0, 0] + ak).max() > tol or abs(sigma[0, 0] - sv) > tol * abs(r[0, 0, 0]):
                return fail('scalar-vs-LD', 'one channel: coefficients differ from -AR_est_LD by %.3g' % np.abs(a[:, 0, 0] + ak).max())
        if nc > 1:      # relabelling the channels permutes the result
            perm = np.array(m['perm'])
            Pm = np.eye(nc)[perm]
            rp = np.array([Pm.dot(rk).dot(Pm.T) for rk in r])
            ap, sp = ar.lwr_recursion(rp)
            want_a = np.array([Pm.dot(ak_).dot(Pm.T) for ak_ in a])
            tol = 1e-8 * max(1.0, np.abs(a).max()) * max(1.0, np.linalg.cond(block_toeplitz(r, len(a))) * 1e-3)
            if np.abs(ap - want_a).max() > tol or np.abs(sp - Pm.dot(sigma).dot(Pm.T)).max() > tol * np.abs(r[0]).max():
                return fail('permutation', 'relabelling the channels does not permute the result (%.3g)' % np.abs(ap - want_a).max())
        if 'true_A' in m:
            tA = -np.array(parse_flist(m['true_A'])).reshape(-1, nc, nc)
            k = min(len(tA), len(a))
            if len(a) >= len(tA) and np.abs(a[:k] - tA[:k]).max() > 1e-6 * max(1.0, np.abs(tA).max()):
                return fail('recovery', 'exact covariances of a stable VAR: coefficients off by %.3g' % np.abs(a[:k] - tA[:k]).max())
        return None
    x = xf_of(m) if 'x' in m else None
    if op in ('acov', 'ccovi'):
        got = mats(g[0])
        y = xf_of(m, 'y') if 'y' in m else x
        want = exact_crosscov(x, y, m['nl']) if op == 'ccovi' else direct_crosscov(x, y, m['nl'])
        if got.shape != want.shape or not np.abs(got - want).max() <= 1e-9 * tolf(m) * np.abs(want[0]).max():
            return fail('value', 'covariance helper differs from mean_t x_i[t+k] y_j[t] by %.3g (scale %.3g; dtypes %s/%s)'
                        % (np.abs(got - want).max() if got.shape == want.shape else -1, np.abs(want[0]).max(), m.get('dt', 'float64'), m.get('dty', m.get('dt', 'float64'))))
        return None
    if op == 'mar':
        a, sigma = mats(g[0]), mats(g[1])[0]
        if len(a) != m['order']:
            f = fail('order-off-by-one', 'MAR_est_LWR(order=%d) returned %d coefficient matrices' % (m['order'], len(a)))
            f.key = 'mar/order-off-by-one'
            return f
        f = check_solution(direct_autocov(x, m['order'] + 1), a, sigma, fail, prec=tolf(m))
        if not f and 'prog' in m:
            f = prog_judge(m, fail)
        if not f and 'pow2' in m:       # x·2^k (exact): same coefficients, Σ·4^k
            a2, s2 = ar.MAR_est_LWR(ar_fam.variant(x * 2.0 ** m['pow2'], m.get('dt')), m['order'])
            if np.abs(a2 - a).max() > 1e-9 * max(1.0, np.abs(a).max()) or np.abs(s2 / 4.0 ** m['pow2'] - sigma).max() > 1e-9 * np.abs(sigma).max():
                return fail('scale-invariance', 'data scaled by 2^%d: coefficients change by %.3g' % (m['pow2'], np.abs(a2 - a).max()))
        return f
    if op in ('fit', 'fitc'):
        order = int(g[0])
        Rxx, coef, ecov = mats(g[1]), mats(g[2]), mats(g[3])[0]
        if len(coef) != order:
            return fail('order-reported', 'reported order %d but %d coefficient matrices' % (order, len(coef)))
        if len(Rxx) != order + 1:
            return fail('lags-reported', 'reported order %d but %d covariance lags' % (order, len(Rxx)))
        want = direct_autocov(x, order + 1)
        if np.abs(Rxx - want).max() > 1e-9 * tolf(m) * np.abs(want).max():
            return fail('autocov', 'returned Rxx is not the lagged covariance of the data')
        f = check_solution(want, coef, ecov, fail, prec=tolf(m))
        if f:
            return f
        if op == 'fitc':
            return None
        if m['order'] >= 0:
            if order != m['order']:
                return fail('order-requested', 'requested order %d, reported %d' % (m['order'], order))
            return None
        # criterion-selected: the reported order is the last one before the criterion rises
        N = x.shape[1]
        seen = []
        real = ut_crit(m['crit'])

        def spy(ecov_, p_, m_, nt_):
            seen.append((int(p_), int(m_), int(nt_), np.asarray(ecov_).shape))
            return real(ecov_, p_, m_, nt_)
        xv = xv_of(m)
        gr.fit_model(xv[0], xv[1], **dict(fit_kwargs(m), criterion=spy))
        for k, (p_, m_, nt_, shp) in enumerate(seen):
            if (p_, m_, nt_, shp) != (2, k, 2 * N, (2, 2)):
                return fail('criterion-arguments', 'criterion called with (p=%d, m=%d, Ntotal=%d) at the order-%d fit of %d-sample data' % (p_, m_, nt_, k, N))

        def crit(o):
            r = direct_autocov(x, o + 1)
            a, s = solve_dense(r, o)
            pen = np.log(2 * N) if m['crit'] == 'bic' else 1.0
            extra = 2.0 * o * (o + 1) / (2 * N - o - 1) if m['crit'] == 'aicc' else 0.0
            return 2 * np.log(np.linalg.det(s)) + 2 * 4 * o * pen / (2 * N) + extra
        cs = [crit(o) for o in range(0, order + 2)]
        margin = 1e-9 * max(1.0, max(abs(c) for c in cs))
        if any(cs[o + 1] > cs[o] + margin for o in range(order)):
            return fail('order-selected', 'criterion already rose before the reported order %d' % order)
        if not cs[order + 1] > cs[order] - margin:
            return fail('order-selected', 'criterion still falls after the reported order %d' % order)
        return None
    if op == 'gmar':
        a = np.array(parse_flist(m['a'])).reshape(-1, nc, nc)
        mar = np.array(parse_clist(g[0])).real.reshape(-1, nc)
        nz = noise_of(m).T
        if mar.shape != (m['N'], nc) or nz.shape != mar.shape:
            return fail('shape', 'output shape %r' % (mar.shape,))
        worst = 0.0
        for t in range(len(mar)):
            pred = nz[t] - sum(a[j].dot(mar[t - j - 1]) for j in range(min(t, len(a))))
            worst = max(worst, np.abs(pred - mar[t]).max())
        if worst > 1e-9 * max(np.abs(mar).max(), np.abs(nz).max(), 1e-300):
            return fail('recursion', 'X(t) + sum a(i) X(t-i) - E(t) = %.3g' % worst)
        return None
    return None


def structured_judge(m, r, a, sigma, fail):
    """wave 6: exact covariances of a KNOWN stable process with sparse / structured coefficients (a vanishing intermediate
    partial correlation, white channels, identical spectra, order lower than the fitted one): the block Yule–Walker residual
    of the returned numbers in exact rational arithmetic, and exact recovery of the known coefficients and innovation
    covariance"""
    import ar_exact
    nc = r.shape[1]
    P = len(a)
    s0 = float(np.abs(r[0]).max())
    cond = np.linalg.cond(block_toeplitz(r, P))
    k = max(1.0, cond * 1e-3)
    amax = max(1.0, float(np.abs(a).max()) if len(a) else 1.0)
    res, dsig = ar_exact.yw_residual_exact(r, a, sigma)
    if res > 1e-9 * k * s0 * amax * (P + 1) * nc:
        return fail('normal-equations', 'exact covariances of %s: block Yule-Walker residual %.3g in exact arithmetic (scale %.3g)' % (m['struct'], res, s0))
    if dsig > 1e-9 * k * s0 * amax * (P + 1) * nc:
        return fail('sigma', 'exact covariances of %s: innovation covariance differs from sum_i A(i)R(-i) by %.3g' % (m['struct'], dsig))
    tA = -np.array(parse_flist(m['true_A'])).reshape(-1, nc, nc)
    if len(tA) == P:
        err = float(np.abs(a - tA).max())
        if err > 1e-9 * k * max(1.0, float(np.abs(tA).max())):
            lag = int(np.unravel_index(np.argmax(np.abs(a - tA)), a.shape)[0]) + 1
            return fail('recovery', 'exact covariances of %s (P=%d, %d channels): coefficient at lag %d off by %.3g' % (m['struct'], P, nc, lag, err))
    if 'true_V' in m:
        tV = np.array(parse_flist(m['true_V'])).reshape(nc, nc)
        if float(np.abs(sigma - tV).max()) > 1e-9 * k * s0 * amax:
            return fail('recovery-sigma', 'exact covariances of %s: innovation covariance off by %.3g' % (m['struct'], float(np.abs(sigma - tV).max())))
    return None


def sequence_judge(m, clause):
    """pure-function behaviour on call sequences: same argument objects, >= 3 evaluations, bitwise
    equal results, arguments unchanged, no aliasing of internal state, no identity-keyed memory
    (array refilled in place; fewer / more lags asked the second time)"""
    import ar_seq, warnings
    warnings.simplefilter('ignore')
    ar, ut, gr = mods()
    op = m['op']
    nc = m.get('nc', 2)

    def fail(sym):
        return Failure('%s/sequence/%s' % (clause, sym), '%s: call sequence on the same argument objects: %s [op %s]' % (clause, sym, op),
                       {'meta': m, 'clause': clause})
    syms = []
    if op == 'lwr':
        r = ar_fam.variant(np.array(parse_flist(m['r'])).reshape(-1, nc, nc), m.get('dt'))
        syms = ar_seq.run_schedule({'lwr': lambda: ar.lwr_recursion(r)}, ['lwr'] * 3, [r])
        if not syms:
            syms = ar_seq.refill_check(lambda arr, _: ar.lwr_recursion(arr), r, r * 0.5 + 0.1 * float(np.abs(r[0]).max()) * np.eye(nc), [0])
    elif op in ('acov', 'ccovi', 'mar', 'fit', 'fitc'):
        x = xv_of(m)
        x2 = x[::-1, ::-1].copy() * 0.7 + 0.01 * float(np.abs(x).max()) if x.dtype.kind == 'f' else x[::-1, ::-1].copy()
        if op in ('acov', 'ccovi'):
            nl = m['nl']
            syms = ar_seq.run_schedule({'acov': lambda: ut.autocov_vector(x, nlags=nl),
                                        'ccov': lambda: ut.crosscov_vector(x, x, nlags=nl)}, ['acov', 'ccov', 'acov', 'ccov', 'acov'], [x])
            if not syms:
                syms = ar_seq.refill_check(lambda arr, k: ut.autocov_vector(arr, nlags=k), x, x2,
                                           [nl, max(1, nl - 1)] + ([nl + 1] if nl < x.shape[1] else []))
        elif op == 'mar':
            o = m['order']
            syms = ar_seq.run_schedule({'mar': lambda: ar.MAR_est_LWR(x, o), 'acov': lambda: ut.autocov_vector(x, nlags=o + 1)},
                                       ['mar', 'acov', 'mar', 'mar'], [x])
            if not syms:
                syms = ar_seq.refill_check(lambda arr, k: ar.MAR_est_LWR(arr, k), x, x2, [o, max(1, o - 1)])
        else:
            if op == 'fitc':
                tbl = m['table']
                crit = lambda ecov, p, mm, nt: tbl[mm]
                kw = dict(max_order=m['maxo'], criterion=crit)
            else:
                kw = fit_kwargs(m)

            def fit(arr):
                try:
                    return gr.fit_model(arr[0], arr[1], **kw)
                except ValueError:
                    return 'ValueError'
            syms = ar_seq.run_schedule({'fit': lambda: fit(x)}, ['fit'] * 3, [x])
            if not syms:
                syms = ar_seq.refill_check(lambda arr, _: fit(arr), x, x2, [0])
    elif op in ('acovs', 'ccovs'):
        x = xv_of(m)
        y = x if op == 'acovs' else xv_of(m, 'y')
        nl = m['nl']
        syms = ar_seq.run_schedule({'ccov': lambda: ut.crosscov_vector(x, y, nlags=nl),
                                    'acov': lambda: ut.autocov_vector(x, nlags=nl)}, ['ccov', 'acov', 'ccov', 'acov', 'ccov'], [x, y])
    elif op == 'gmar':
        a = ar_fam.variant(np.array(parse_flist(m['a'])).reshape(-1, nc, nc), m.get('dt'))
        cov = ar_fam.variant(np.array(parse_flist(m['cov'])).reshape(nc, nc), m.get('dtc'))

        def g():
            np.random.seed(m['seed'])
            return ut.generate_mar(a, cov, m['N'])
        syms = ar_seq.run_schedule({'gmar': g}, ['gmar'] * 3, [a, cov])
    return fail(syms[0]) if syms else None


def failure_judge(m, clause):
    """round 2 (L7): refused / failing calls of every entry point on the SAME argument objects (order >= N, singular R(0),
    x1 is x2, max_order too small, nlags beyond the record), then the ordinary calls against fresh copies"""
    import ar_fail, warnings
    warnings.simplefilter('ignore')
    ar, ut, gr = mods()
    op = m['op']

    def fail(sym):
        return Failure('%s/%s' % (clause, sym), '%s: after a refused / failing call on the same argument objects: %s [op %s]' % (clause, sym, op),
                       {'meta': m, 'clause': clause})
    if op == 'lwr':
        nc = m['nc']
        r = ar_fam.variant(np.array(parse_flist(m['r'])).reshape(-1, nc, nc), m.get('dt'))
        sing = np.zeros_like(np.asarray(r, dtype=float))
        bad = [('failure/lwr/singular-R0', lambda: ar.lwr_recursion(sing)),
               ('failure/lwr/one-lag', lambda: ar.lwr_recursion(r[:1])),
               ('failure/lwr/2d', lambda: ar.lwr_recursion(r[0])),
               ('failure/lwr/non-square', lambda: ar.lwr_recursion(r[:, :1, :])),
               ('failure/lwr/None', lambda: ar.lwr_recursion(None))]
        syms = ar_fail.after_failures(bad, [r], lambda a_: ar.lwr_recursion(a_[0]))
    elif op in ('mar', 'fit') and 'prog' not in m:
        x = xv_of(m)
        N = x.shape[-1]
        o = m['order'] if m['order'] >= 0 else 2
        bad = [('failure/mar/order-ge-N', lambda: ar.MAR_est_LWR(x, N + 1)),
               ('failure/mar/order-negative', lambda: ar.MAR_est_LWR(x, -1)),
               ('failure/mar/order-None', lambda: ar.MAR_est_LWR(x, None)),
               ('failure/autocov/nlags-gt-N', lambda: ut.autocov_vector(x, nlags=N + 5)),
               ('failure/autocov/nlags-0', lambda: ut.autocov_vector(x, nlags=0)),
               ('failure/crosscov/shape-mismatch', lambda: ut.crosscov_vector(x, x[:, :-1], nlags=2)),
               ('failure/fit/x1-is-x2', lambda: gr.fit_model(x[0], x[0], order=o)),
               ('failure/fit/max_order-1', lambda: gr.fit_model(x[0], x[-1], max_order=1)),
               ('failure/fit/max_order-0', lambda: gr.fit_model(x[0], x[-1], max_order=0)),
               ('failure/fit/order-ge-N', lambda: gr.fit_model(x[0], x[-1], order=N + 1)),
               ('failure/fit/no-order-no-max', lambda: gr.fit_model(x[0], x[-1], order=None, max_order=None)),
               ('failure/fit/criterion-raises', lambda: gr.fit_model(x[0], x[-1], criterion=lambda *a_: 1 / 0))]

        def ordinary(a_):
            xx = a_[0]
            return [ut.autocov_vector(xx, nlags=o + 1), ar.MAR_est_LWR(xx, o), gr.fit_model(xx[0], xx[-1], order=o)]
        syms = ar_fail.after_failures(bad, [x], ordinary)
    else:
        return None
    return fail(syms[0]) if syms else None


def gseq_failure_judge(m, clause):
    import ar_fail, warnings
    warnings.simplefilter('ignore')
    _, _, gr = mods()
    _, inputs = gseq_objects(m)
    mk = lambda inp: gr.GrangerAnalyzer(inp, ij=None if m['ij'] is None else [tuple(q) for q in m['ij']], n_freqs=16, **fit_kwargs(m))
    r = ar_fail.analyzer_failure_check(mk, inputs, ['order', 'model_coef', 'causality_xy', 'autocov', 'frequencies'],
                                       ['order', 'autocov', 'model_coef', 'error_cov', 'causality_xy', 'spectral_matrix'], ar_fail.plain)
    if r:
        return Failure('%s/failure/%s' % (clause, r[0]), '%s: %s [op gseq]' % (clause, r[1]), {'meta': m, 'clause': clause})
    return None


def judge(m, impl, clause):
    f = judge_value(m, impl, clause) or sequence_judge(m, clause)
    if f is None and m.get('l7'):
        f = failure_judge(m, clause)
    if f is None and m['op'] == 'gseq' and m.get('fail'):
        f = gseq_failure_judge(m, clause)
    return f


def solve_dense(r, P):
    """block Yule–Walker by one dense solve (oracle's own estimator)"""
    nc = r.shape[1]
    if P == 0:
        return np.zeros((0, nc, nc)), r[0]
    # Σ_{i=1..P} A(i) R(k-i) = -R(k), k = 1..P   ->   [A1..AP] · G = -[R1..RP],  G[i,k] = R(k-i)
    G = np.zeros((nc * P, nc * P))
    for i in range(1, P + 1):
        for k in range(1, P + 1):
            G[(i - 1) * nc:i * nc, (k - 1) * nc:k * nc] = R_of(r, k - i)
    rhs = -np.hstack([r[k] for k in range(1, P + 1)])
    A = np.linalg.solve(G.T, rhs.T).T
    a = np.array([A[:, (i - 1) * nc:i * nc] for i in range(1, P + 1)])
    s = r[0] + sum(a[i - 1].dot(R_of(r, -i)) for i in range(1, P + 1))
    return a, s


# ------------------------------------------------------------------ cases
POWERS = [256, 512, 1024, 2048, 4096, 8192]


def threshold_lengths(nrng, big):
    """(N, nlags): record lengths at and around the sizes at which an implementation plausibly switches
    algorithm (FFT / blocking / pairwise summation): every power of two exactly, and N within
    +-nlags of it (zero padding shorter than the lag range wraps around)"""
    out = []
    for p in POWERS:
        nl = int(nrng.randint(2, 10))
        out.append((p, nl))
        offs = [o for o in range(-nl, nl + 1) if o != 0]
        if big and p in (2048, 4096):
            chosen = offs
        else:
            chosen = [int(o) for o in nrng.choice(offs, size=4 if big else 1, replace=False)]
        out += [(p + o, nl) for o in chosen]
    if big:
        for p in (1000, 5000, 10000):
            nl = int(nrng.randint(2, 10))
            out += [(p - 1, nl), (p, nl), (p + 1, nl)]
        out += [(512, 33), (1024, 64), (2048, 17), (4096 - 14, 16)]
    else:
        out += [(4096 - int(nrng.randint(1, 8)), 9), (512, 33)]
    return out


def mk_case(m, clause, cmp):
    return Case(line_of(m), run_impl(m), clause, cmp=cmp, meta=m)


def cases(rng, tier, seed):
    import common
    nrng = common.np_rng(PID, seed, 'cases')
    big = tier == 'thorough'
    out = []
    for k in STATS:
        STATS[k] = 0
    # --- lwr_recursion
    n_lwr = 160 if not big else 1500
    for i in range(n_lwr):
        nc = int(nrng.randint(1, 7))
        P = int(nrng.randint(1, 9))
        if i % 7 == 3:
            nc = 1                      # 1x1 matrices are both C- and F-contiguous (overwrite_a style slips)
        if i % 5 == 2 and nc >= 2:
            P = nc - 1                  # cube-shaped stack (P+1 == nc): axis mix-ups go unnoticed by shape checks
        m = {'op': 'lwr', 'nc': nc, 'perm': [int(t) for t in nrng.permutation(nc)]}
        if i % 2 == 0:
            N = int(nrng.choice([64, 128, 256, 512] + ([2048, 4096] if big else [])))
            r = direct_autocov(coloured(nrng, nc, N), P + 1)
            tag = 'estimated'
        else:
            Pt = int(nrng.randint(1, min(P, 4) + 1))
            A = stable_var(nrng, nc, Pt, float(nrng.uniform(0.3, 0.85)))
            L = nrng.randn(nc, nc)
            cov = L.dot(L.T) + 0.2 * np.eye(nc)
            r = exact_cov(A, cov, P + 1)
            r[0] = (r[0] + r[0].T) / 2
            m['true_A'] = flist(A.reshape(-1))
            tag = 'exact'
        if not np.linalg.cond(block_toeplitz(r, P)) < COND_MAX:
            STATS['skipped_ill_conditioned'] += 1
            continue
        r = r * float(nrng.choice([1.0, 1.0, 1e-6, 1e-12, 1e4]))       # tiny / large covariances: everything is judged relative to |R(0)|
        m['r'] = flist(r.reshape(-1))
        out.append(mk_case(m, 'lwr/%s/%s' % (tag, 'scalar' if nc == 1 else 'multi'), cmp_groups()))
    # --- autocov_vector, MAR_est_LWR
    n_cov = 40 if not big else 300
    for i in range(n_cov):
        nc = int(nrng.randint(1, 5))
        N = int(nrng.choice([64, 100, 256] + ([1024] if big else [])))
        x = coloured(nrng, nc, N) * float(nrng.choice([1.0, 1e-3, 1e-6, 30.0]))
        m = {'op': 'acov', 'nc': nc, 'nl': int(nrng.randint(1, 7)), 'x': flist(x.reshape(-1))}
        out.append(mk_case(m, 'autocov', cmp_groups(rtol=1e-9)))
        order = int(nrng.randint(1, 6))
        if i % 3 == 1 and nc >= 2:
            order = nc - 1              # cube-shaped covariance stack in MAR_est_LWR
        if np.linalg.cond(block_toeplitz(direct_autocov(x, order + 1), order)) < COND_MAX:
            m = {'op': 'mar', 'nc': nc, 'order': order, 'x': flist(x.reshape(-1))}
            out.append(mk_case(m, 'mar', cmp_groups()))
    # --- fit_model
    n_fit = 40 if not big else 300
    for i in range(n_fit):
        N = int(nrng.choice([128, 256, 400]))
        x = coloured(nrng, 2, N) if i % 4 != 3 else nrng.randn(2, N)     # white data: order 0 is the answer
        x = x * float(nrng.choice([1.0, 1.0, 1e-6, 100.0]))
        if i % 2 == 0:
            m = {'op': 'fit', 'nc': 2, 'crit': 'bic', 'order': int(nrng.randint(0, 6)), 'maxo': 10, 'x': flist(x.reshape(-1))}
            cl = 'fit/fixed'
        else:
            m = {'op': 'fit', 'nc': 2, 'crit': ['bic', 'aic'][(i // 2) % 2], 'order': -1,
                 'maxo': int(nrng.choice([10, 10, 6, 3])), 'x': flist(x.reshape(-1))}
            cl = 'fit/selected/' + m['crit']
        out.append(mk_case(m, cl, cmp_groups(n_exact=1)))
        # caller-supplied criterion that depends on the order only (decides the order semantics exactly)
        xw = x if i % 3 else nrng.randn(2, N)
        kind = i % 4
        if kind == 0:
            tbl = [5.0, 6.0] + [float(t) for t in nrng.randn(10)]            # rises at once: order 0
        elif kind == 1:
            k = int(nrng.randint(1, 8))
            tbl = [float(10 - t) for t in range(k + 1)] + [20.0] * (11 - k)   # falls k times, then rises
        elif kind == 2:
            tbl = [float(10 - t) for t in range(12)]                          # never rises: ValueError
        else:
            tbl = [float(t) for t in np.round(nrng.randn(12), 1)]
        mo = int(nrng.choice([10, 10, 5, 3, 2]))
        m = {'op': 'fitc', 'nc': 2, 'table': tbl, 'maxo': mo, 'x': flist(xw.reshape(-1))}
        out.append(mk_case(m, 'fit/selected/table', cmp_groups(n_exact=1)))
    # --- record lengths at / around implementation-size thresholds: helper (sampled in the model, all entries in
    #     the oracle), MAR_est_LWR, fit_model
    lens = threshold_lengths(nrng, big)
    for t, (N, nl) in enumerate(lens):
        nc = int(nrng.randint(1, 4))
        x = coloured(nrng, nc, N) * float(nrng.choice([1.0, 1e-3, 30.0])) + (0.5 if t % 2 else 0.0)
        allp = [(i, j) for i in range(nc) for j in range(nc)]
        pairs = [list(allp[q]) for q in nrng.permutation(len(allp))[:3]]
        m = {'op': 'acovs', 'nc': nc, 'nl': nl, 'pairs': pairs, 'x': flist(x.reshape(-1))}
        out.append(mk_case(m, 'autocov/size-threshold', cmp_groups(rtol=1e-9)))
    n_cc = 4 if not big else 30
    for t in range(n_cc):
        N, nl = lens[int(nrng.randint(0, len(lens)))] if t else (2048, 5)
        nc = int(nrng.randint(1, 4))
        x = coloured(nrng, nc, N) + 0.3
        y = coloured(nrng, nc, N) * 2.0 - 0.2
        allp = [(i, j) for i in range(nc) for j in range(nc)]
        pairs = [list(allp[q]) for q in nrng.permutation(len(allp))[:3]]
        m = {'op': 'ccovs', 'nc': nc, 'nl': nl, 'pairs': pairs, 'x': flist(x.reshape(-1)), 'y': flist(y.reshape(-1))}
        out.append(mk_case(m, 'crosscov/size-threshold', cmp_groups(rtol=1e-9)))
    n_big = 3 if not big else 24
    for t in range(n_big):
        N = [2048, 4096][t] if t < 2 else lens[int(nrng.randint(0, len(lens)))][0]
        nc = int(nrng.randint(2, 4))
        x = coloured(nrng, nc, N) + (0.25 if t % 2 else 0.0)
        order = int(nrng.randint(1, 6))
        if np.linalg.cond(block_toeplitz(direct_autocov(x, order + 1), order)) < COND_MAX:
            m = {'op': 'mar', 'nc': nc, 'order': order, 'x': flist(x.reshape(-1))}
            out.append(mk_case(m, 'mar/size-threshold', cmp_groups()))
        x2 = coloured(nrng, 2, N if t != 1 else 2048)
        if t % 2 == 0:
            m = {'op': 'fit', 'nc': 2, 'crit': 'bic', 'order': int(nrng.randint(1, 6)), 'maxo': 10, 'x': flist(x2.reshape(-1))}
            out.append(mk_case(m, 'fit/fixed/size-threshold', cmp_groups(n_exact=1)))
        else:
            m = {'op': 'fit', 'nc': 2, 'crit': ['bic', 'aic'][(t // 2) % 2], 'order': -1, 'maxo': 10, 'x': flist(x2.reshape(-1))}
            out.append(mk_case(m, 'fit/selected/size-threshold', cmp_groups(n_exact=1)))
    # --- GrangerAnalyzer re-targeted with set_input after its model was read
    n_seq = 8 if not big else 60
    kinds = ['same-shape', 'other-length', 'other-rate', 'other-channels']
    attrs = ['model_coef', 'error_cov', 'order', 'autocov', 'causality_xy']
    for t in range(n_seq):
        nproc = int(nrng.choice([2, 3]))
        explicit = t % 3 == 1
        N = int(nrng.choice([128, 200, 256]))
        Fs = float(nrng.choice([1.0, 2.0, 0.5, 1000.0]))
        steps = [{'nproc': nproc, 'Fs': Fs, 'kind': 'construct',
                  'data': flist((coloured(nrng, nproc, N) * float(nrng.choice([1.0, 1e-3, 50.0]))).reshape(-1))}]
        for u in range(1 + (t % 2)):
            kind = kinds[(t + u) % 4]
            if kind == 'other-channels' and explicit:
                kind = 'same-shape'
            np2, N2, Fs2 = nproc, N, Fs
            if kind == 'other-length':
                N2 = int(nrng.choice([n for n in (96, 128, 200, 256, 400) if n != N]))
            elif kind == 'other-rate':
                Fs2 = Fs * 4.0
            elif kind == 'other-channels':
                np2 = 5 - nproc
            d2 = coloured(nrng, np2, N2) * float(nrng.choice([1.0, 3.0, 1e-2])) + (0.1 if u else 0.0)
            steps.append({'nproc': np2, 'Fs': Fs2, 'kind': kind, 'data': flist(d2.reshape(-1))})
        if explicit:
            allp = [(a, b) for a in range(nproc) for b in range(nproc) if a != b]
            ij = [list(allp[q]) for q in nrng.permutation(len(allp))[:int(nrng.randint(1, 4))]]
        else:
            ij = None
        sel = t % 3 == 2
        m = {'op': 'gseq', 'nc': 2, 'crit': ['bic', 'aic'][t % 2], 'order': -1 if sel else int(nrng.randint(1, 5)), 'maxo': 10,
             'ij': ij, 'steps': steps, 'first': [attrs[(t + q) % len(attrs)] for q in range(3)]}
        cl = 'analyzer/retarget/' + '+'.join(st['kind'] for st in steps[1:])
        out.append(mk_case(m, cl, cmp_tokens()))
    # --- generate_mar
    n_g = 30 if not big else 200
    for i in range(n_g):
        nc = int(nrng.randint(1, 5))
        P = int(nrng.randint(1, 5))
        A = stable_var(nrng, nc, P, 0.8)
        L = nrng.randn(nc, nc)
        cov = (L.dot(L.T) + 0.2 * np.eye(nc)) * float(nrng.choice([1.0, 1e-6, 1e2]))
        m = {'op': 'gmar', 'nc': nc, 'a': flist((-A).reshape(-1)), 'cov': flist(cov.reshape(-1)),
             'N': int(nrng.choice([1, 2, 3, 5, 10, 40])), 'seed': int(nrng.randint(0, 2**31 - 1))}
        out.append(mk_case(m, 'generate_mar', cmp_groups(rtol=1e-9)))
    seen = {}
    for c in out:                       # a sample of the ordinary cases also goes through the refused-call family (oracle side)
        if c.meta['op'] in ('lwr', 'mar', 'fit') and seen.setdefault(c.meta['op'], 0) < (4 if not big else 30):
            seen[c.meta['op']] += 1
            c.meta['l7'] = True
    out += structured_cases(common.np_rng(PID, seed, 'structured'), big)
    out += family_cases(nrng, big)
    out += option_cases(nrng, big)
    out += boundary_cases(nrng, big)
    out += round2_cases(nrng, big)
    out += rerun_cases(nrng, out, big)
    return out


# ------------------------------------------------------------------ wave 6: structured exact inputs
def structured_cases(nrng, big):
    """exact covariance sequences of stable VAR / AR processes with SPARSE lag structure, built in exact rational arithmetic
    from dyadic parameters (`ar_exact`): seasonal x(t) = B x(t-s) + e (s = 1..P+1; B dense / diagonal / triangular /
    block-diagonal / rank one / nilpotent / one channel white / identical spectra), scalar sequences with a prescribed
    partial-correlation pattern (white, one lag only, leading / intermediate / trailing zeros, lags 1 and 4), direct sums of
    those mixed by an integer unimodular matrix; sparse VARs through the impulse response (lags {1,4}, {2,3}, leading zero
    matrices).  Every sequence goes through `lwr_recursion` at binary64 (op lwr) and, for small sizes, through the model in
    exact arithmetic (op lwrq).  `MAR_est_LWR`, `fit_model` and the analyzer get zero-stuffed recordings: their lagged
    averages vanish EXACTLY at every lag that is not a multiple of the stuffing factor."""
    import ar_exact
    out = []
    n = 54 if not big else 600
    fams = ['seasonal', 'sum', 'scalar']
    for i in range(n):
        fam = fams[i % 3]
        nc = 1 if fam == 'scalar' else int(nrng.randint(1 if fam == 'seasonal' else 2, 7))
        P = int(nrng.randint(2, 9)) if i % 9 else 1
        if fam == 'sum' and P > 6:
            P = 6
        d = ar_exact.structured_sequence(nrng, nc, P, fam)
        exact = ar_exact.is_exact(d['R'])
        r = ar_exact.to_float(d['R'])
        if not np.linalg.cond(block_toeplitz(r, P)) < COND_MAX:
            STATS['skipped_ill_conditioned'] += 1
            continue
        pw = int(nrng.choice([0, 0, 0, -20, 13, -40]))          # exact powers of two: zeros stay zeros
        m = {'op': 'lwr', 'nc': nc, 'perm': [int(t) for t in nrng.permutation(nc)], 'r': flist((r * 2.0 ** pw).reshape(-1)),
             'true_A': flist(ar_exact.to_float(d['C']).reshape(-1)), 'true_V': flist((ar_exact.to_float([d['V']])[0] * 2.0 ** pw).reshape(-1)),
             'struct': d['desc'], 'exact_input': bool(exact)}
        STATS['structured_exact' if exact else 'structured_rounded'] = STATS.get('structured_exact' if exact else 'structured_rounded', 0) + 1
        cl = 'lwr/structured/%s/%s' % (fam, 'scalar' if nc == 1 else 'multi')
        out.append(mk_case(m, cl, cmp_groups()))
        if nc <= 4 and P <= 6 and (not big or i % 4 == 0 or nc <= 2):
            mq = dict(m, op='lwrq')
            out.append(mk_case(mq, cl + '/exact-arithmetic', cmp_lwrq(float(np.linalg.cond(block_toeplitz(r, P))))))
    # sparse VARs whose covariances come through the impulse response (rounded): lags {1,4}, {2,3}, leading zero matrices,
    # block-triangular / block-diagonal coefficient matrices
    pats = [(4, [0, 3]), (3, [1, 2]), (3, [2]), (4, [3]), (2, [1]), (4, [1, 3])]
    for i in range(12 if not big else 120):
        nc = int(nrng.randint(1, 5))
        Pt, lags = pats[i % len(pats)]
        P = int(nrng.randint(Pt, 9))
        A = np.zeros((Pt, nc, nc))
        for l in lags:
            A[l] = nrng.randint(-3, 4, (nc, nc)) / 8.0
            if i % 3 == 1:
                A[l] = np.tril(A[l])
            elif i % 3 == 2:
                A[l] = np.diag(np.diag(A[l]))
        C = np.zeros((nc * Pt, nc * Pt))
        C[:nc, :] = np.hstack(list(A))
        C[nc:, :-nc] = np.eye(nc * (Pt - 1))
        if not np.any(A[lags[-1]]) or np.abs(np.linalg.eigvals(C)).max() > 0.9:
            continue
        L = np.tril(nrng.randint(-3, 4, (nc, nc)) / 4.0, -1) + np.eye(nc)
        r = exact_cov(A, L.dot(L.T), P + 1)
        r[0] = (r[0] + r[0].T) / 2
        if not np.linalg.cond(block_toeplitz(r, P)) < COND_MAX:
            STATS['skipped_ill_conditioned'] += 1
            continue
        m = {'op': 'lwr', 'nc': nc, 'perm': [int(t) for t in nrng.permutation(nc)], 'r': flist(r.reshape(-1)), 'true_A': flist(A.reshape(-1))}
        out.append(mk_case(m, 'lwr/structured/sparse-var/%s' % ('scalar' if nc == 1 else 'multi'), cmp_groups()))
    # MAR_est_LWR / fit_model / analyzer on zero-stuffed recordings
    for i in range(8 if not big else 60):
        s = int(nrng.choice([2, 2, 3, 4]))
        nc = int(nrng.randint(1, 4))
        N = int(nrng.choice([64, 100, 128]))
        x = ar_exact.zero_stuffed(nrng, coloured(nrng, nc, N), s)
        order = int(nrng.randint(s, min(2 * s + 1, 8) + 1))
        if np.linalg.cond(block_toeplitz(direct_autocov(x, order + 1), order)) < COND_MAX:
            m = {'op': 'mar', 'nc': nc, 'order': order, 'x': flist(x.reshape(-1)), 'struct': 'zero-stuffed s=%d' % s}
            out.append(mk_case(m, 'mar/structured/zero-stuffed', cmp_groups()))
        x2 = ar_exact.zero_stuffed(nrng, coloured(nrng, 2, N), s)
        order = int(nrng.randint(s, 2 * s + 2))
        if np.linalg.cond(block_toeplitz(direct_autocov(x2, order + 1), order)) < COND_MAX:
            m = {'op': 'fit', 'nc': 2, 'crit': 'bic', 'order': order, 'maxo': 10, 'x': flist(x2.reshape(-1)), 'struct': 'zero-stuffed s=%d' % s}
            out.append(mk_case(m, 'fit/fixed/structured/zero-stuffed', cmp_groups(n_exact=1)))
        # MAR_est_LWR with its optional `rxx` argument: the recording's own covariances (channel counts above and below order+1)
        nc_r, order_r = [(3, 1), (4, 2), (2, 3), (3, 2), (5, 2), (2, 1)][i % 6]
        xr = coloured(nrng, nc_r, N)
        if i % 2:
            xr = ar_exact.zero_stuffed(nrng, xr, 2)
        if np.linalg.cond(block_toeplitz(direct_autocov(xr, order_r + 1), order_r)) < COND_MAX:
            m = {'op': 'mar', 'nc': nc_r, 'order': order_r, 'x': flist(xr.reshape(-1)), 'rxx': 'own' if i % 3 else 'own-more'}
            out.append(mk_case(m, 'mar/structured/rxx-supplied/%s' % ('wide' if nc_r > order_r + 1 else 'narrow'), cmp_groups()))
        if i % 4 == 0:
            steps = [{'nproc': 2, 'Fs': 1.0, 'kind': 'construct', 'data': flist(x2.reshape(-1))},
                     {'nproc': 2, 'Fs': 1.0, 'kind': 'same-shape', 'data': flist(ar_exact.zero_stuffed(nrng, coloured(nrng, 2, N), s).reshape(-1))}]
            m = {'op': 'gseq', 'nc': 2, 'crit': 'bic', 'order': order, 'maxo': 10, 'ij': None, 'steps': steps,
                 'first': ['model_coef', 'error_cov', 'order']}
            out.append(mk_case(m, 'analyzer/retarget/structured/zero-stuffed', cmp_tokens()))
    return out


# ------------------------------------------------------------------ round 2: shared covariance stacks (L8), failure histories (L7)
def round2_cases(nrng, big):
    import ar_fail
    _, _, gr = mods()
    out = []
    for rep in range(1 if not big else 6):
        # --- L8: slices of ONE covariance stack handed to the scalar estimators / to a lower-order recursion, then the stack itself
        progs = [lambda nc, o: ['LD:0:%d' % o], lambda nc, o: ['YW:%d:%d' % (nc - 1, o)],
                 lambda nc, o: ['LD:%d:%d' % (c, max(1, o - c % 2)) for c in range(nc)],
                 lambda nc, o: ['LWR:0:%d' % max(1, o - 1), 'LD:0:1', 'YW:0:%d' % o],
                 lambda nc, o: ['LWR1:%d:%d' % (nc - 1, o), 'LD:%d:%d' % (nc - 1, o), 'LWR1:%d:%d' % (nc - 1, o)],
                 lambda nc, o: ['LDcopy:0:%d' % o, 'LDx:0:%d' % o, 'YW:0:1', 'LD:0:%d' % o, 'LD:0:%d' % o],
                 lambda nc, o: ['LWR:0:%d' % o, 'LWR:0:%d' % o]]
        for t, pg in enumerate(progs):
            for nc in ((1, 2, 3) if t % 2 == 0 else (2, 4)):
                order = int(nrng.randint(1, 5))
                x = None
                for _ in range(20):
                    x = coloured(nrng, nc, int(nrng.choice([64, 100, 256]))) * float(nrng.choice([1.0, 1e-3, 30.0, 1e4]))
                    if np.linalg.cond(block_toeplitz(direct_autocov(x, order + 1), order)) < COND_MAX:
                        break
                m = {'op': 'mar', 'nc': nc, 'order': order, 'x': flist(x.reshape(-1)), 'prog': pg(nc, order)}
                out.append(mk_case(m, 'mar/shared-covariance/%s' % '+'.join(sorted(set(s.split(':')[0] for s in m['prog']))), cmp_groups()))
        # --- L8: the same array object in two roles (x is y), identical channels in crosscov / autocov
        x = coloured(nrng, 2, 96)
        out.append(mk_case({'op': 'ccovs', 'nc': 2, 'nl': 4, 'pairs': [[0, 0], [0, 1], [1, 0]], 'x': flist(x.reshape(-1)), 'y': flist(x.reshape(-1)),
                            'same_object': True}, 'crosscov/same-object', cmp_groups(rtol=1e-9)))
        # --- L7: ONE analyzer whose read is refused part-way (order estimation fails for a later pair), then re-targeted
        for t in range(2 if not big else 4):
            nproc = 3 + t % 2
            ij = default_ij(nproc) if t % 2 == 0 else [(0, 1), (1, 0), (0, nproc - 1), (1, 2)]
            bad, good = ar_fail.failing_then_good(gr.fit_model, nrng, nproc, 128, ij)
            if bad is None:
                continue
            steps = [{'nproc': nproc, 'Fs': 1.0, 'kind': 'construct', 'data': flist(bad.reshape(-1))},
                     {'nproc': nproc, 'Fs': 2.0, 'kind': 'after-failed-fit', 'data': flist(good.reshape(-1))}]
            if t % 2:
                steps += [{'nproc': nproc, 'Fs': 1.0, 'kind': 'failing-again', 'data': flist((bad * 3.0).reshape(-1))},
                          {'nproc': nproc, 'Fs': 1.0, 'kind': 'after-failed-fit', 'data': flist(good[::-1].copy().reshape(-1))}]
            m = {'op': 'gseq', 'nc': 2, 'crit': 'bic', 'order': -1, 'maxo': 3, 'ij': None if t % 2 == 0 else [list(q) for q in ij], 'steps': steps,
                 'first': ['order', 'model_coef', 'causality_xy'], 'fail': True}
            out.append(mk_case(m, 'analyzer/retarget/' + '+'.join(st['kind'] for st in steps[1:]), cmp_tokens()))
    return out


# ------------------------------------------------------------------ session 3: input families, options, boundaries, histories
ALL_KINDS = list(ar_fam.INT_KINDS) + ['float32'] + list(ar_fam.LAYOUT_KINDS)


def family_cases(nrng, big):
    """L1: every entry point on data that are not float64 C-contiguous: integer recordings (int16/int32/int64/uint8),
    float32, big-endian, Fortran-ordered, strided (both axes) and read-only arrays.  The model line and the oracle
    work from the values converted to float64 (exact)."""
    out = []
    reps = 1 if not big else 6
    for rep in range(reps):
        for kind in ALL_KINDS:
            cmp_tol = 1e-9 * ar_fam.tol_factor(kind)
            nc = int(nrng.randint(1, 4))
            N = int(nrng.choice([64, 97, 128]))
            x = ar_fam.prepare(coloured(nrng, nc, N) * float(nrng.choice([1.0, 30.0])), kind)
            nl = int(nrng.randint(2, 6))
            # --- covariance helper: autocov_vector and crosscov_vector (y in ANOTHER representation)
            if kind in ar_fam.INT_KINDS:
                m = {'op': 'ccovi', 'nc': nc, 'nl': nl, 'x': flist(x.reshape(-1)), 'dt': kind}
                out.append(mk_case(m, 'autocov/dtype/' + kind, cmp_groups(rtol=1e-9)))
                k2 = ar_fam.INT_KINDS[(ar_fam.INT_KINDS.index(kind) + 1 + rep) % 4]
                y = ar_fam.prepare(coloured(nrng, nc, N), k2)
                m = {'op': 'ccovi', 'nc': nc, 'nl': nl, 'x': flist(x.reshape(-1)), 'y': flist(y.reshape(-1)), 'dt': kind, 'dty': k2}
                out.append(mk_case(m, 'crosscov/dtype/%s+%s' % (kind, k2), cmp_groups(rtol=1e-9)))
            else:
                m = {'op': 'acov', 'nc': nc, 'nl': nl, 'x': flist(x.reshape(-1)), 'dt': kind}
                out.append(mk_case(m, 'autocov/dtype/' + kind, cmp_groups(rtol=cmp_tol)))
            # --- MAR_est_LWR
            order = int(nrng.randint(1, 4))
            if np.linalg.cond(block_toeplitz(direct_autocov(x, order + 1), order)) < COND_MAX:
                m = {'op': 'mar', 'nc': nc, 'order': order, 'x': flist(x.reshape(-1)), 'dt': kind}
                out.append(mk_case(m, 'mar/dtype/' + kind, cmp_groups(rtol=1e-8 * ar_fam.tol_factor(kind))))
            # --- fit_model, fixed and selected order (both rows of one kind; every other time the second row is float64)
            x2 = ar_fam.prepare(coloured(nrng, 2, int(nrng.choice([128, 200]))) * 25.0, kind)
            m = {'op': 'fit', 'nc': 2, 'crit': 'bic', 'order': int(nrng.randint(1, 5)), 'maxo': 10, 'x': flist(x2.reshape(-1)), 'dt': kind}
            if rep % 2 == 1 or kind == 'int32':
                m['dt2'] = 'f8'
            out.append(mk_case(m, 'fit/fixed/dtype/' + kind, cmp_groups(n_exact=1, rtol=1e-8 * ar_fam.tol_factor(kind))))
            if not ar_fam.lowp(kind):       # the selected order of single-precision data may legitimately flip at a near-tie
                m = {'op': 'fit', 'nc': 2, 'crit': ['bic', 'aic'][rep % 2], 'order': -1, 'maxo': 10, 'x': flist(x2.reshape(-1)), 'dt': kind}
                out.append(mk_case(m, 'fit/selected/dtype/' + kind, cmp_groups(n_exact=1)))
        # --- lwr_recursion on covariance stacks in other representations (integer stacks are outside the quantifier: the
        #     routine's work arrays inherit the dtype and it raises for P >= 2 — noted, not generated)
        #     big-endian stacks are not generated either: scipy.linalg.inv (1.18) itself misreads non-native byte order
        for kind in ['float32'] + [k for k in ar_fam.LAYOUT_KINDS if k != 'bigendian']:
            nc = int(nrng.randint(1, 4))
            P = int(nrng.randint(1, 5))
            r = direct_autocov(coloured(nrng, nc, 128), P + 1)
            if not np.linalg.cond(block_toeplitz(r, P)) < 1e4:
                continue
            r = ar_fam.prepare(r, kind)
            m = {'op': 'lwr', 'nc': nc, 'perm': [int(t) for t in nrng.permutation(nc)], 'r': flist(r.reshape(-1)), 'dt': kind}
            out.append(mk_case(m, 'lwr/dtype/' + kind, cmp_groups(rtol=1e-8 * ar_fam.tol_factor(kind))))
        # --- generate_mar with coefficient / covariance arrays in other representations
        for kind, kc in [('readonly', 'readonly'), ('F', 'F'), ('float32', None), (None, 'int64'), ('strided', 'rowstrided'), ('bigendian', 'bigendian')]:
            nc = int(nrng.randint(1, 4))
            A = stable_var(nrng, nc, int(nrng.randint(1, 4)), 0.8)
            if kc == 'int64':
                cov = np.diag(nrng.randint(1, 4, nc)).astype(float)
            else:
                L = nrng.randn(nc, nc)
                cov = L.dot(L.T) + 0.2 * np.eye(nc)
            A = ar_fam.prepare(-A, kind) if kind else -A
            m = {'op': 'gmar', 'nc': nc, 'a': flist(A.reshape(-1)), 'cov': flist(cov.reshape(-1)), 'N': int(nrng.choice([3, 10, 25])),
                 'seed': int(nrng.randint(0, 2**31 - 1)), 'dt': kind, 'dtc': kc}
            out.append(mk_case(m, 'generate_mar/dtype/%s+%s' % (kind or 'f8', kc or 'f8'), cmp_groups(rtol=1e-9 * ar_fam.tol_factor(kind))))
        # --- the analyzer on integer / single-precision / non-contiguous recordings, re-targeted to another representation
        for t, (k1, k2) in enumerate([('int32', 'int16'), ('int64', None), ('float32', 'F'), ('strided', 'uint8')]):
            nproc = 2 + t % 2
            N = int(nrng.choice([128, 200]))
            steps = []
            for kk, kind_step in ((k1, 'construct'), (k2, 'same-shape')):
                d = coloured(nrng, nproc, N) * 40.0
                d = ar_fam.prepare(d, kk) if kk else d
                steps.append({'nproc': nproc, 'Fs': 2.0, 'kind': kind_step, 'data': flist(d.reshape(-1)), 'dt': kk})
            m = {'op': 'gseq', 'nc': 2, 'crit': 'bic', 'order': int(nrng.randint(1, 4)), 'maxo': 10, 'ij': None, 'steps': steps,
                 'first': ['model_coef', 'autocov', 'order']}
            lp = ar_fam.tol_factor(k1, k2)
            out.append(mk_case(m, 'analyzer/dtype/%s+%s' % (k1, k2 or 'f8'), cmp_tokens(rtol=1e-8 * lp)))
    return out


def option_cases(nrng, big):
    """L3: the optional arguments in their boundary combinations: explicit order x explicit max_order (smaller than,
    equal to, larger than the order, None, left at its default), order given as an explicit None, criterion left at its
    default / AIC with corrected=True bound by the caller, nlags None / default / = N of the covariance helper"""
    out = []
    reps = 1 if not big else 5
    for rep in range(reps):
        # --- fit_model: fixed order against every kind of max_order
        for order in ([0, 1, 2, 3, 5, 6, 8] if rep == 0 else [int(t) for t in nrng.randint(0, 9, 6)]):
            N = int(nrng.choice([128, 200, 256]))
            x = coloured(nrng, 2, N) * float(nrng.choice([1.0, 1e-3, 100.0]))
            for maxo in sorted(set([order + 2, order + 1, order, max(order - 2, 0), 1, 0, -1])):
                m = {'op': 'fit', 'nc': 2, 'crit': 'bic', 'order': order, 'maxo': maxo, 'x': flist(x.reshape(-1))}
                if maxo == order + 2 and order % 2:
                    m['crit_default'] = True
                out.append(mk_case(m, 'fit/fixed/max_order-%s' % ('none' if maxo < 0 else 'le-order' if maxo <= order else 'gt-order'),
                                   cmp_groups(n_exact=1)))
            m = {'op': 'fit', 'nc': 2, 'crit': 'bic', 'order': order, 'maxo': 10, 'maxo_default': True, 'crit_default': True, 'x': flist(x.reshape(-1))}
            out.append(mk_case(m, 'fit/fixed/defaults', cmp_groups(n_exact=1)))
        # --- selected order: explicit order=None, default criterion, corrected AIC, small max_order (incl. the ValueError outcome)
        for t in range(8):
            N = int(nrng.choice([128, 200]))
            x = coloured(nrng, 2, N) if t % 3 else nrng.randn(2, N)
            m = {'op': 'fit', 'nc': 2, 'crit': ['aicc', 'bic', 'aicc', 'aic'][t % 4], 'order': -1, 'maxo': int([10, 10, 4, 3, 2, 1, 0, 7][t]),
                 'x': flist(x.reshape(-1))}
            if t % 2:
                m['order_explicit_none'] = True
            if m['crit'] == 'bic':
                m['crit_default'] = True
            if t == 1:
                m['maxo_default'] = True
            out.append(mk_case(m, 'fit/selected/%s/options' % m['crit'], cmp_groups(n_exact=1)))
        # --- GrangerAnalyzer(order, max_order) pairs, one analyzer re-targeted once
        for t, (order, maxo) in enumerate([(6, 4), (3, 3), (2, 1), (4, -1), (1, 0), (-1, 4), (-1, 3)]):
            nproc = 2 + t % 2
            steps = []
            for u in range(2):
                d = coloured(nrng, nproc, int(nrng.choice([128, 200]))) if order >= 0 or u == 0 else nrng.randn(nproc, 160)
                steps.append({'nproc': nproc, 'Fs': 1.0, 'kind': 'construct' if u == 0 else 'other-length', 'data': flist(d.reshape(-1))})
            m = {'op': 'gseq', 'nc': 2, 'crit': ['bic', 'aic', 'aicc'][t % 3], 'order': order, 'maxo': maxo, 'ij': None, 'steps': steps,
                 'first': ['order', 'model_coef', 'error_cov']}
            out.append(mk_case(m, 'analyzer/options/%s' % ('selected' if order < 0 else 'max_order-none' if maxo < 0 else
                                                           'max_order-le-order' if maxo <= order else 'max_order-gt-order'), cmp_tokens()))
        # --- covariance helper: nlags None, nlags left out, nlags = N (one product in the last average)
        for t in range(6):
            nc = int(nrng.randint(1, 4))
            N = int(nrng.choice([2, 3, 5, 8, 13]))
            x = nrng.randn(nc, N) * 3.0 + 0.5
            m = {'op': 'acov', 'nc': nc, 'nl': N, 'x': flist(x.reshape(-1))}
            if t % 3 == 0:
                m['nl_none'] = True
            elif t % 3 == 1:
                m['nl_default'] = True
            if t >= 3:
                m.update(op='ccovs', y=flist((nrng.randn(nc, N) - 0.2).reshape(-1)), pairs=[[i, j] for i in range(nc) for j in range(nc)])
            out.append(mk_case(m, 'crosscov/nlags-all' if 'y' in m else 'autocov/nlags-all', cmp_groups(rtol=1e-9)))
    return out


def boundary_cases(nrng, big):
    """L4: amplitudes from 1e-150 to 1e150 (covariances 1e-300..1e300: the equations are homogeneous, so the coefficient
    matrices must not change — judged against the same data scaled by an exact power of two) and nearly collinear
    channels (R(0) positive definite with condition number up to ~1e8)"""
    out = []
    reps = 1 if not big else 5
    for rep in range(reps):
        for t, amp in enumerate([1e-150, 1e-100, 1e100, 1e150, 1e-60, 1e60]):
            nc = int(nrng.randint(1, 4))
            N = int(nrng.choice([64, 100]))
            base = coloured(nrng, nc, N)
            x = base * amp
            pw = 300 if amp < 1 else -300            # an exact rescaling back towards 1
            m = {'op': 'acov', 'nc': nc, 'nl': int(nrng.randint(1, 5)), 'x': flist(x.reshape(-1))}
            out.append(mk_case(m, 'autocov/amplitude', cmp_groups(rtol=1e-9, atol=0.0)))
            order = int(nrng.randint(1, 4))
            if np.linalg.cond(block_toeplitz(direct_autocov(base, order + 1), order)) < 1e4:
                m = {'op': 'mar', 'nc': nc, 'order': order, 'x': flist(x.reshape(-1)), 'pow2': pw}
                out.append(mk_case(m, 'mar/amplitude', cmp_groups(rtol=1e-8, atol=0.0)))
                r = direct_autocov(base, order + 1) * amp * amp
                m = {'op': 'lwr', 'nc': nc, 'perm': [int(q) for q in nrng.permutation(nc)], 'r': flist(r.reshape(-1)), 'pow2': 2 * pw}
                out.append(mk_case(m, 'lwr/amplitude', cmp_groups(rtol=1e-8, atol=0.0)))
            x2 = coloured(nrng, 2, 128) * amp
            m = {'op': 'fit', 'nc': 2, 'crit': 'bic', 'order': int(nrng.randint(0, 5)), 'maxo': 10, 'x': flist(x2.reshape(-1))}
            out.append(mk_case(m, 'fit/fixed/amplitude', cmp_groups(n_exact=1, atol=0.0)))
            if abs(np.log10(amp)) <= 60:        # beyond that det(ecov) leaves the binary64 range and the criterion is ±inf
                m = {'op': 'fit', 'nc': 2, 'crit': ['bic', 'aic'][t % 2], 'order': -1, 'maxo': 10, 'x': flist(x2.reshape(-1))}
                out.append(mk_case(m, 'fit/selected/amplitude', cmp_groups(n_exact=1, atol=0.0)))
        # --- nearly collinear channels
        for t in range(4):
            N = int(nrng.choice([128, 256]))
            base = coloured(nrng, 2, N)
            eps = float(nrng.choice([1e-2, 1e-3, 3e-4]))
            x = np.vstack([base[0], base[0] + eps * base[1]])
            order = int(nrng.randint(1, 3))
            r = direct_autocov(x, order + 1)
            cond = float(np.linalg.cond(block_toeplitz(r, order)))
            if not cond < 1e9:
                STATS['skipped_ill_conditioned'] += 1
                continue
            rt = 1e-8 * max(1.0, cond * 1e-3)
            m = {'op': 'mar', 'nc': 2, 'order': order, 'x': flist(x.reshape(-1))}
            out.append(mk_case(m, 'mar/near-singular', cmp_groups(rtol=rt)))
            m = {'op': 'fit', 'nc': 2, 'crit': 'bic', 'order': order, 'maxo': 10, 'x': flist(x.reshape(-1))}
            out.append(mk_case(m, 'fit/fixed/near-singular', cmp_groups(n_exact=1, rtol=rt)))
    return out


def perturb(nrng):
    """L2 perturbation phase: the same entry points with OTHER option values, objects of the base class and of a
    subclass, and everything that was handed out overwritten in place (a call that raises here is not this phase's business)"""
    try:
        _perturb(nrng)
    except Exception:  # noqa
        pass


def _perturb(nrng):
    import histories, warnings
    import nitime.timeseries as ts
    warnings.simplefilter('ignore')
    ar, ut, gr = mods()
    x = coloured(nrng, 3, 96)
    held = []
    for nl in (1, 4, None):
        held.append(ut.autocov_vector(x, nlags=nl))
    held.append(ut.crosscov_vector(x, x[::-1].copy(), nlags=3))
    held.append(ut.autocov_vector(np.round(x * 10).astype('int32'), nlags=2))
    held.append(ar.MAR_est_LWR(x, 2))
    held.append(ar.MAR_est_LWR(x[:2], 4))
    held.append(ar.lwr_recursion(ut.autocov_vector(x, nlags=3).transpose(2, 0, 1)))
    for kw in (dict(order=3), dict(order=3, max_order=2), dict(max_order=6), dict(criterion=ut.akaike_information_criterion), dict(order=0)):
        try:
            held.append(gr.fit_model(x[0], x[1], **kw))
        except ValueError:
            pass

    class Sub(gr.GrangerAnalyzer):
        pass
    for cls in (gr.GrangerAnalyzer, Sub):
        G = cls(ts.TimeSeries(x, sampling_rate=2.0), order=2, n_freqs=8)
        held += [G.order, G.autocov, G.model_coef, G.error_cov, G.causality_xy, G.frequencies]
        G.set_input(ts.TimeSeries(x[:2, :64] * 3.0, sampling_rate=5.0))
        held += [G.model_coef, G.error_cov, G.causality_yx]
        G2 = cls(ts.TimeSeries(x, sampling_rate=1.0), max_order=5, n_freqs=4)
        try:
            held += [G2.order, G2.model_coef]
        except ValueError:
            pass
    np.random.seed(5)
    held.append(ut.generate_mar(-stable_var(nrng, 2, 2, 0.7), np.eye(2), 12))
    histories.scribble(held)


def rerun_cases(nrng, sofar, big):
    """L2: after all ordinary cases and the perturbation phase, a sample of the ordinary cases is evaluated AGAIN on fresh
    argument objects: same protocol line, so the implementation must return what the model returns, as before"""
    perturb(nrng)
    ops = {}
    for c in sofar:
        ops.setdefault((c.meta['op'], c.clause.split('/')[0]), []).append(c)
    out = []
    for key in sorted(ops):
        lst = ops[key]
        for c in lst[::max(1, len(lst) // (3 if not big else 12))][:3 if not big else 12]:
            out.append(Case(c.line, run_impl(c.meta), c.clause + '/rerun', cmp=c.cmp, meta=c.meta, nontrivial=False))
    return out


def oracle(rng, tier, seed, focus, cases=None):
    fails, n = [], 0
    STATS['pd_certified'] = STATS['pd_not_applicable'] = 0
    for c in (cases or []):
        n += 1
        f = judge(c.meta, c.impl, c.clause)
        if f:
            f.case = c
            fails.append(f)
    st = {'judged': n, 'failed': len(fails), 'focus': len(focus)}
    st.update(STATS)
    return fails, st


def replay(d):
    m = d['meta']
    return judge(m, run_impl(m), d['clause'])
