"""C20, round 4 (class L10): extreme and lopsided magnitudes for the scale-/shift-free clauses.

Exact references in rational arithmetic (fractions.Fraction; the only rounding is the final conversion to binary64) for the
Pearson coefficient, the z-score and percent change, and generators of count-valued data on a large additive baseline
(level 2^10 .. 2^30, fluctuation +-1 .. +-3) and with power-of-two gains (2^+-250, another gain per row / channel).

Tolerance: a backward-stable evaluation of a shift-free quantity on data of condition kappa = max|x| / sigma has a forward
error of a few eps * kappa; a one-pass raw-moment formula has eps * kappa^2.  tol(kappa) = 1e-9 + 16 * eps * kappa keeps the
unchanged two-pass code inside (measured: <= 2 eps kappa) and puts the raw-moment forms outside from kappa ~ 2^12 on."""
import math
from fractions import Fraction
import numpy as np

EPS = 2.0 ** -52
LEVELS = [10, 20, 24, 12, 30, 16, 22, 28, 14, 26, 18]          # log2 of the baseline
GAINS = [(0, 0), (250, 250), (-250, -250), (250, -250), (0, -30), (-250, 250), (100, 0), (0, 0), (-30, 0), (0, 250), (-250, 0)]


def fsqrt(q, shift=220):
    """sqrt of a non-negative Fraction as a Fraction, to 2^-shift relative"""
    if q == 0:
        return Fraction(0)
    num, den = q.numerator, q.denominator
    # scale so that the integer root carries `shift` significant bits whatever the magnitude of q
    e = max(0, shift - (num.bit_length() - den.bit_length()) // 2)
    return Fraction(math.isqrt(num * den * (1 << (2 * e))), den * (1 << e))


def F(v):
    return [Fraction(float(a)) for a in v]


def stats(x):
    x = F(x)
    n = len(x)
    mu = sum(x) / n
    var = sum((a - mu) ** 2 for a in x) / n
    return x, mu, var


def kappa(x):
    """max|x| / sigma of one lane (inf for a constant lane)"""
    xs, mu, var = stats(x)
    if var == 0:
        return float('inf')
    return float(max(abs(a) for a in xs) / fsqrt(var, 60))


def tol(k):
    return 1e-9 + 16 * EPS * k


def pearson(s, t):
    s, ms, vs = stats(s)
    t, mt, vt = stats(t)
    st = sum((a - ms) * (b - mt) for a, b in zip(s, t)) / len(s)
    return float(st / (fsqrt(vs) * fsqrt(vt)))


def zscore(x):
    xs, mu, var = stats(x)
    sd = fsqrt(var)
    return [float((a - mu) / sd) for a in xs]


def pchange(x):
    xs, mu, var = stats(x)
    return [float((a / mu - 1) * 100) for a in xs]


def lane(nr, n, level_log2, amp, sign=1.0, gain_log2=0):
    """count-valued lane: sign * 2^level + integer fluctuation in [-amp, amp] (not constant), times 2^gain; every value and
    every partial sum is exactly representable"""
    while True:
        f = nr.randint(-amp, amp + 1, size=n).astype(float)
        if f.min() != f.max():
            break
    base = 0.0 if level_log2 is None else sign * 2.0 ** level_log2
    return (base + f) * 2.0 ** gain_log2


def cov_exact(x, y, al, nm):
    """debiased cross-covariance C_xy[k] = sum_n x'[n+k] y'[n] (real data), exactly; returns (floats, scale = N sigma_x sigma_y [/N])"""
    xs, mx, vx = stats(x)
    ys, my, vy = stats(y)
    N = len(xs)
    xs, ys = [a - mx for a in xs], [b - my for b in ys]
    out = []
    for k in (range(-(N - 1), N) if al else range(0, N)):
        v = sum(xs[n + k] * ys[n] for n in range(max(0, -k), min(N, N - k)))
        out.append(float(v / N if nm else v))
    scale = float(fsqrt(vx, 60) * fsqrt(vy, 60)) * (1 if nm else N)
    return out, scale
