"""C10 — autoregressive estimates solve the Yule–Walker equations of the data.

Correspondence: AR_est_LD / AR_est_YW (computed and supplied autocorrelation), utils.autocorr,
AR_psd (both sides, both parities) and utils.ar_generator (supplied noise) on the real code vs the
Lean model `Nitime.C10` run at complex binary64 (the same definitions the theorems instantiate at ℂ).
Oracle (independent of the Lean model): dense numpy — Toeplitz residual, sigma formula, agreement
of the two estimators, numpy.roots stability certificate, exact recovery from the exact
autocovariance of a drawn stable AR process, the spectrum formula on the returned grid, and the
simulator's recursion on the returned arrays.

Stability clause: proved for the computed-autocorrelation path (`arLD_stable_of_signal`: Toeplitz form
= Gram form => positive definite => sigma_j > 0, |kappa_j| < 1 => roots inside the unit circle).  The
ops `gram` (binary64), `gramq` and `ldq` (exact complex rationals) run the definitions those theorems
are about: both sides of the Gram identity, and AR_est_LD in exact arithmetic with the truth value of
every link of the chain; the oracle re-derives the Gram form in Fractions.
"""
from fractions import Fraction
import numpy as np
from common import Case, Failure, clist, parse_clist, flist, parse_flist, call, close_vec

PID = 'C10'
LEAN_TARGETS = ['Nitime.Props.C10']
RULE = ('every routine is also run in call sequences on the same argument objects (>=3 evaluations in mixed order, results scribbled over, arrays refilled in place; C12: several live analyzers read in interleaved order); cases from one PRNG state: signals real / complex / strongly coloured (AR-filtered noise, pole radius to 0.97), '
        'N in 16..256 (quick) or ..4096 (thorough), orders 1..min(16,N/4); estimators LD and YW with computed and supplied '
        '(biased, unbiased, exact-AR) autocorrelation; AR_psd for sides x parity x real/complex stable coefficient sets; '
        'Gram identity c^H toeplitz(autocorr(x)) c = (1/N) sum |c*x|^2 on real/complex/coloured signals x random, sparse, leading-zero and prediction-error filters (binary64) and on small-integer dyadic signals in exact rational arithmetic (also orders >= N); AR_est_LD vs the exact-rational run of the model with all links of the stability chain evaluated exactly; '
        'ar_generator with supplied noise and dropped transients (incl. fewer samples than coefficients); amplitude scales 1e-12..1e6; grids coarser than the order; distinct = distinct protocol line; '
        'ill-conditioned Toeplitz systems (cond > 1e5) are skipped and counted')
ASSUMPTIONS = ['order >= 1 and at least order+1 autocorrelation lags are available (the code indexes rxx[1])',
               'every number the recursion divides by is non-zero (hypothesis DivisorsOK of the theorems); ill-conditioned cases skipped and counted',
               'R(0) is real (true for autocorr output; supplied sequences are generated with a real lag-0 term)',
               'stability is PROVED for every non-zero signal and every order on the computed (biased) autocorrelation path over the complex numbers (arLD_stable_of_signal) and for supplied rxx under the hypothesis that toeplitz(rxx[:p+1]) is positive definite (arLD_stable_of_pd); NOT covered by proof: a supplied rxx that is not positive definite (e.g. the unbiased estimate: no stability claim is made or checked there) and rounding (Float vs the complex numbers) - the numpy.roots / sigma > 0 certificate still runs on the binary64 results of every estimate from a biased or exact autocorrelation',
               'sigma_v >= 0 in AR_psd (sqrt of a real number)']
TRUSTED_EXTRA = [
    'Float (complex binary64) instance of the Scalar-polymorphic model approximates the ℂ instance the theorems are about (unproved; bounded by the 1e-9 comparison)',
    'scipy.signal.fftconvolve modelled as the direct lagged sum (autocorrDirect); compared on every run',
    'scipy.linalg.toeplitz(c) modelled as the Hermitian Toeplitz matrix with first column c (toepEntry)',
    'scipy.linalg.solve modelled by the contract IsSolution (T·a = y); the driver uses Gauss–Jordan elimination Mat.solveVec, whose correctness is not proved, only compared',
    'scipy.signal.freqz(b, a, worN=n, whole) modelled as the ratio of polynomials in exp(-1j·w_k), w_k = k·(π|2π)/n (scipy default include_nyquist=False)',
    'scipy.signal.lfilter modelled as the direct-form recursion lfilter1 with a[0] = 1',
    'the exact instance CQ (complex rationals) of the Scalar class used by the ops gramq/ldq has placeholder sqrtRe/phasor (not rational operations; never called by those ops)',
]

STATS = {'skipped_ill_conditioned': 0, 'cond_max_compared': 0.0}
COND_MAX = 1e5


def mods():
    import nitime.algorithms.autoregressive as ar
    import nitime.utils as ut
    return ar, ut


# ------------------------------------------------------------------ helpers (oracle side: dense numpy)
def direct_autocorr(x, nl):
    x = np.asarray(x)
    n = len(x)
    return np.array([np.sum(x[k:] * np.conj(x[:n - k])) / n for k in range(nl)])


def toeplitz_h(r, p):
    T = np.empty((p, p), dtype=complex)
    for k in range(p):
        for i in range(p):
            T[k, i] = r[k - i] if i <= k else np.conj(r[i - k])
    return T


def stable_coefs(nrng, p, cplx, rmax):
    if cplx:
        poles = nrng.uniform(0.1, rmax, p) * np.exp(1j * nrng.uniform(-np.pi, np.pi, p))
    else:
        poles = []
        while len(poles) < p:
            if p - len(poles) >= 2 and nrng.rand() < 0.7:
                z = nrng.uniform(0.1, rmax) * np.exp(1j * nrng.uniform(0, np.pi))
                poles += [z, np.conj(z)]
            else:
                poles.append(nrng.uniform(-rmax, rmax))
        poles = np.array(poles)
    c = np.poly(poles)
    ak = -c[1:]
    return ak if cplx else ak.real


def exact_autocov(ak, sigma, nl):
    """autocovariance of the AR process with coefficients ak, innovation variance sigma (impulse response)"""
    from scipy.signal import lfilter
    L = 6000
    imp = np.zeros(L, dtype=complex)
    imp[0] = 1.0
    h = lfilter([1.0], np.r_[1, -np.asarray(ak, dtype=complex)], imp)
    return np.array([sigma * np.sum(h[k:] * np.conj(h[:L - k])) for k in range(nl)])


def gen_signal(nrng, N, kind):
    if kind == 'real':
        sc = nrng.choice([1.0, 10.0, 1e-3, 1e-6])
        return nrng.randn(N) * sc + nrng.choice([0.0, 0.0, 0.5]) * sc
    if kind == 'complex':
        return (nrng.randn(N) + 1j * nrng.randn(N)) * nrng.choice([1.0, 5.0, 1e-6])
    from scipy.signal import lfilter
    cplx = kind == 'coloured-complex'
    p = nrng.randint(1, 5)
    ak = stable_coefs(nrng, p, cplx, 0.97)
    v = nrng.randn(N + 200) + (1j * nrng.randn(N + 200) if cplx else 0)
    return lfilter([1.0], np.r_[1, -ak], v)[200:] * nrng.choice([1.0, 1.0, 1e-6, 1e3])


KINDS = ['real', 'complex', 'coloured-real', 'coloured-complex']


# ------------------------------------------------------------------ implementation adapter
def impl_forms(ut, data, c, p):
    """(c^H T c, (1/N) sum_t |(c * x)[t]|^2) with T = toeplitz(utils.autocorr(x)[:p+1]) built the way AR_est_YW
    builds it (the autocorrelation sequence vanishes beyond lag N-1)"""
    from scipy import linalg
    N = len(data)
    r = np.asarray(ut.autocorr(data), dtype=complex)[:p + 1]
    r = np.r_[r, np.zeros(p + 1 - len(r), dtype=complex)]
    T = linalg.toeplitz(r)
    cc = np.r_[np.asarray(c, dtype=complex), np.zeros(p + 1, dtype=complex)][:p + 1]
    form = np.vdot(cc, T.dot(cc))
    y = np.convolve(cc, np.asarray(data, dtype=complex))
    return complex(form), complex(np.sum(np.abs(y) ** 2) / N)


def canon_est(res):
    a, s = res
    return 'ok %s %s' % (clist(np.asarray(a).reshape(-1)), clist([complex(s)]))


def run_impl(m):
    ar, ut = mods()
    op = m['op']
    if op in ('ldx', 'ywx', 'ld', 'yw'):
        fn = ar.AR_est_LD if op.startswith('ld') else ar.AR_est_YW
        data = np.array(parse_clist(m['data']))
        if not m['cplx']:
            data = data.real.copy()
        # the observed value is the SECOND of two calls on the same argument objects (a pure function
        # gives the same thing; state left behind by the first call shows up in the correspondence)
        if op.endswith('x'):
            return call(lambda: (fn(data, m['order']), canon_est(fn(data, m['order'])))[1])
        return call(lambda: (fn(None, m['order'], rxx=data), canon_est(fn(None, m['order'], rxx=data)))[1])
    if op == 'autocorr':
        data = np.array(parse_clist(m['data']))
        if not m['cplx']:
            data = data.real.copy()
        return call(lambda: 'ok ' + clist(ut.autocorr(data)[:m['nl']]))
    if op in ('gram', 'gramq'):
        data = np.array(parse_clist(m['data']))
        c = np.array(parse_clist(m['c']))
        if not m['cplx']:
            data = data.real.copy()
        return call(lambda: 'ok ' + clist(list(impl_forms(ut, data, c, m['order']))))
    if op == 'ldq':
        data = np.array(parse_clist(m['data']))
        if not m['cplx']:
            data = data.real.copy()
        return call(lambda: (ar.AR_est_LD(data, m['order']), canon_est(ar.AR_est_LD(data, m['order'])))[1])
    if op == 'psd':
        ak = np.array(parse_clist(m['ak']))
        if not m['cplx']:
            ak = ak.real.copy()

        def f():
            w, p = ar.AR_psd(ak, m['sigma'], n_freqs=m['nf'], sides='onesided' if m['one'] else 'twosided')
            return 'ok %s %s' % (flist(w), flist(p))
        return call(f)
    if op == 'gen':
        co = np.array(parse_clist(m['coefs']))
        v = np.array(parse_clist(m['v']))
        if not m['cplx']:
            co, v = co.real.copy(), v.real.copy()

        def f():
            u, vv, c = ut.ar_generator(N=len(v) - m['drop'], sigma=m['sigma'], coefs=co, drop_transients=m['drop'], v=v)
            return 'ok %s %s' % (clist(u), clist(vv))
        return call(f)
    raise ValueError(op)


def line_of(m):
    op = m['op']
    if op in ('ldx', 'ywx', 'ld', 'yw'):
        return 'C10 %s %d %s' % (op, m['order'], m['data'])
    if op == 'autocorr':
        return 'C10 autocorr %d %s' % (m['nl'], m['data'])
    if op == 'gram':
        return 'C10 gram %d %s %s' % (m['order'], m['data'], m['c'])
    if op == 'gramq':
        return 'C10 gramq %d %d %s %s' % (m['order'], m['den'], m['xints'], m['cints'])
    if op == 'ldq':
        return 'C10 ldq %d %d %s' % (m['order'], m['den'], m['xints'])
    if op == 'psd':
        return 'C10 psd %d %d %s %s' % (1 if m['one'] else 0, m['nf'], clist([m['sigma']]), m['ak'])
    if op == 'gen':
        return 'C10 gen %d %s %s %s' % (m['drop'], clist([m['sigma']]), m['coefs'], m['v'])


def parse_groups(s):
    """'ok g1 g2' -> list of numpy complex/real arrays (complex lists), or None"""
    if not s.startswith('ok '):
        return None
    return s.split()[1:]


def cmp_est(scale_r0):
    def f(impl, model):
        a, b = parse_groups(impl), parse_groups(model)
        if a is None or b is None:
            return impl == model
        ai, si = parse_clist(a[0]), parse_clist(a[1])
        am, sm = parse_clist(b[0]), parse_clist(b[1])
        fl = lambda zs: [t for z in zs for t in (z.real, z.imag)]
        return close_vec(fl(ai), fl(am), 1e-9, 1e-300) and close_vec(fl(si), fl(sm), 0.0, 1e-9 * scale_r0)
    return f


def cmp_groups(kinds, rtol=1e-9):
    def f(impl, model):
        a, b = parse_groups(impl), parse_groups(model)
        if a is None or b is None or len(a) != len(b):
            return impl == model
        for k, x, y in zip(kinds, a, b):
            if k == 'c':
                fl = lambda zs: [t for z in zs for t in (z.real, z.imag)]
                if not close_vec(fl(parse_clist(x)), fl(parse_clist(y)), rtol, 1e-300):
                    return False
            else:
                if not close_vec(parse_flist(x), parse_flist(y), rtol, 1e-300):
                    return False
        return True
    return f


def parse_cq(s):
    """'p/q,p/q,...' (interleaved re, im) -> list of (Fraction, Fraction)"""
    if s == '-':
        return []
    t = [Fraction(u) for u in s.split(',')]
    return list(zip(t[0::2], t[1::2]))


def cmp_gram(scale, exact):
    """impl = binary64 (form, gram) of the real code; model = the same two numbers from the model definitions.
    exact (gramq): the model's two sides must be IDENTICAL rationals with zero imaginary part."""
    def f(impl, model):
        a, b = parse_groups(impl), parse_groups(model)
        if a is None or b is None:
            return impl == model
        vi = parse_clist(a[0])
        if exact:
            q = parse_cq(b[0])
            if len(q) != 2 or q[0] != q[1] or q[0][1] != 0 or q[0][0] < 0:
                return False
            vm = [complex(float(z[0]), float(z[1])) for z in q]
        else:
            vm = parse_clist(b[0])
        fl = lambda zs: [t for z in zs for t in (z.real, z.imag)]
        return len(vi) == 2 and len(vm) == 2 and close_vec(fl(vi), fl(vm), 0.0, 1e-9 * scale)
    return f


def cmp_ldq(scale_r0, cond):
    """impl = AR_est_LD in binary64; model = the same recursion in exact rational arithmetic, followed by the
    exact truth values of: divisors real > 0, |kappa_j|^2 < 1, sigma real > 0, Yule-Walker residual == 0,
    sigma == R(0) - sum a_k conj R(k), sigma == c^H T c at the prediction-error filter (all must be 1)"""
    def f(impl, model):
        a, b = parse_groups(impl), parse_groups(model)
        if a is None or b is None:
            return impl == model
        if len(b) != 3 or b[2] != '1,1,1,1,1,1':
            return False
        ai, si = parse_clist(a[0]), parse_clist(a[1])
        am = [complex(float(z[0]), float(z[1])) for z in parse_cq(b[0])]
        sm = [complex(float(z[0]), float(z[1])) for z in parse_cq(b[1])]
        fl = lambda zs: [t for z in zs for t in (z.real, z.imag)]
        k = max(1.0, cond * 1e-3)
        # the coefficients are dimensionless ratios R(k)/R(0): an exactly-zero coefficient is met up to eps*cond
        return close_vec(fl(ai), fl(am), 1e-9 * k, 1e-9 * k) and close_vec(fl(si), fl(sm), 0.0, 1e-9 * k * scale_r0)
    return f


def exact_gram(data, c, p):
    """(1/N) sum_t |sum_i c_i x[t-i]|^2 in exact rational arithmetic (binary64 values are rationals)"""
    N = len(data)
    fr = lambda z: (Fraction(float(z.real)), Fraction(float(z.imag)))
    x = [fr(complex(z)) for z in data]
    cc = [fr(complex(z)) for z in list(c)[:p + 1]]
    tot = Fraction(0)
    for t in range(N + p):
        yr = yi = Fraction(0)
        for i, (cr, ci) in enumerate(cc):
            if 0 <= t - i < N and (cr or ci):
                xr, xi = x[t - i]
                yr += cr * xr - ci * xi
                yi += cr * xi + ci * xr
        tot += yr * yr + yi * yi
    return tot / N


# ------------------------------------------------------------------ the property, judged on the implementation
def r_of(m):
    """autocorrelation sequence the estimate is about (oracle's own direct computation)"""
    data = np.array(parse_clist(m['data']))
    if m['op'].endswith('x'):
        return direct_autocorr(data, m['order'] + 1)
    return data[:m['order'] + 1]


def judge_value(m, impl, clause):
    """Failure or None.  `impl` is the canonical implementation result for meta `m`."""
    ar, ut = mods()
    op = m['op']

    def fail(sym, what):
        return Failure('%s/%s' % (clause, sym), '%s: %s [op %s order=%s]' % (clause, what, op, m.get('order')),
                       {'meta': m, 'clause': clause})
    g = parse_groups(impl)
    if g is None:
        return fail('raises', 'valid input rejected: ' + impl)
    if op in ('ldx', 'ywx', 'ld', 'yw'):
        p = m['order']
        a = np.array(parse_clist(g[0]))
        s = parse_clist(g[1])[0]
        r = r_of(m)
        T = toeplitz_h(r, p)
        y = r[1:p + 1]
        cond = np.linalg.cond(T)
        # every lag the code works from carries an absolute rounding error ~ eps*R(0) (FFT autocorrelation), so the
        # residual is judged relative to R(0) as well (matters when a lag is EXACTLY zero: integer-valued signals)
        scale = np.abs(T).sum(axis=1).max() * max(np.abs(a).max(), 1e-300) + np.abs(y).max() + abs(r[0])
        if len(a) != p:
            return fail('shape', 'returned %d coefficients for order %d' % (len(a), p))
        if not np.all(np.isfinite(a)):
            return fail('nonfinite', 'non-finite coefficients')
        res = np.abs(T.dot(a) - y).max()
        if res > 1e-9 * scale * max(1.0, cond * 1e-3):
            return fail('normal-equations', 'Toeplitz residual %.3g (scale %.3g, cond %.3g)' % (res, scale, cond))
        want = (r[0] - np.sum(a * np.conj(r[1:p + 1])))
        tol = 1e-9 * abs(r[0]) * max(1.0, cond * 1e-3)
        if abs(s.imag) > 0 or abs(s.real - want.real) > tol or abs(want.imag) > tol * 10:
            return fail('sigma', 'sigma %r, R(0)-sum a_k conj R(k) = %r' % (s, want))
        if m.get('psd_valid'):
            if not s.real > 0:
                return fail('sigma-positive', 'sigma %r not positive for a valid autocorrelation' % (s,))
            roots = np.roots(np.r_[1, -a])
            if len(roots) and np.abs(roots).max() >= 1 + 1e-9:
                return fail('stability', 'fitted model has a root of modulus %.6f' % np.abs(roots).max())
        # the two estimators agree
        other = ar.AR_est_YW if op.startswith('ld') else ar.AR_est_LD
        data = np.array(parse_clist(m['data']))
        if not m['cplx']:
            data = data.real.copy()
        try:
            a2, s2 = other(data, p) if op.endswith('x') else other(None, p, rxx=data)
        except Exception as e:  # noqa
            return fail('agree', 'the other estimator raised %r' % (e,))
        tola = 1e-9 * max(np.abs(a).max(), 1e-300) * max(1.0, cond)
        if np.abs(np.asarray(a2) - a).max() > tola or abs(complex(s2) - s) > tol * 10:
            return fail('agree', 'LD and YW differ: max |da| = %.3g, d sigma = %.3g' % (np.abs(np.asarray(a2) - a).max(), abs(complex(s2) - s)))
        if 'true_ak' in m:
            ta = np.array(parse_clist(m['true_ak']))
            if np.abs(ta - a).max() > 1e-7 * max(np.abs(ta).max(), 1.0) * max(1.0, cond * 1e-2):
                return fail('recovery', 'exact autocovariance of a stable AR process: coefficients off by %.3g' % np.abs(ta - a).max())
            if abs(s - m['true_sigma']) > 1e-7 * m['true_sigma'] * max(1.0, cond * 1e-2):
                return fail('recovery-sigma', 'innovation variance %r, true %r' % (s, m['true_sigma']))
        return None
    if op in ('gram', 'gramq'):
        # the Toeplitz matrix the code builds from utils.autocorr is the Gram matrix of the shifted signal:
        # c^H T c = (1/N) sum_t |(c*x)[t]|^2 (exact, Fractions) -- real, >= 0, > 0 for x != 0 and c != 0
        v = parse_clist(g[0])
        data = np.array(parse_clist(m['data']))
        c = np.array(parse_clist(m['c']))
        G = exact_gram(data, c, m['order'])
        tol = 1e-9 * m['scale']
        if not (G > 0):
            return fail('oracle-degenerate', 'exact Gram form is not positive for non-zero x and c: %r' % (G,))
        if abs(v[0].real - float(G)) > tol or abs(v[0].imag) > tol:
            return fail('psd-identity', 'c^H toeplitz(autocorr(x)[:p+1]) c = %r, exact (1/N) sum |c*x|^2 = %.17g (scale %.3g)' % (v[0], float(G), m['scale']))
        if float(G) > 10 * tol and not v[0].real > 0:
            return fail('positive-definite', 'c^H T c = %r is not positive (exact value %.17g)' % (v[0], float(G)))
        return None
    if op == 'autocorr':
        got = np.array(parse_clist(g[0]))
        want = direct_autocorr(np.array(parse_clist(m['data'])), m['nl'])
        if len(got) != len(want) or np.abs(got - want).max() > 1e-9 * np.abs(want).max():
            return fail('value', 'autocorr differs from (1/N) sum x[n+k] conj x[n] by %.3g' % np.abs(got - want).max())
        return None
    if op == 'psd':
        w = np.array(parse_flist(g[0]))
        psd = np.array(parse_flist(g[1]))
        ak = np.array(parse_clist(m['ak']))
        n_exp = m['nf'] // 2 + 1 if m['one'] else m['nf']
        if len(w) != len(psd) or len(w) != n_exp:
            return fail('shape', 'grid/psd lengths %d/%d, expected %d' % (len(w), len(psd), n_exp))
        den = 1 - sum(ak[k] * np.exp(-1j * w * (k + 1)) for k in range(len(ak)))
        want = m['sigma'] / np.abs(den) ** 2 * (2 if m['one'] else 1)
        if np.abs(psd - want).max() > 1e-9 * np.abs(want).max():
            return fail('formula', 'psd differs from %ssigma/|1-sum a e^{-iwk}|^2 on the returned grid by %.3g (max %.3g)' % (
                '2*' if m['one'] else '', np.abs(psd - want).max(), np.abs(want).max()))
        return None
    if op == 'gen':
        u = np.array(parse_clist(g[0]))
        v = np.array(parse_clist(g[1]))
        co = np.array(parse_clist(m['coefs']))
        P = len(co)
        n_exp = len(parse_clist(m['v'])) - m['drop']
        if len(u) != n_exp or len(v) != n_exp:
            return fail('shape', 'returned lengths %d/%d, expected %d' % (len(u), len(v), n_exp))
        worst, sc = 0.0, max(np.abs(u).max(), 1e-300)
        # without dropped transients the first P samples obey the recursion from a zero state as well
        for n in range(0 if m['drop'] == 0 else P, len(u)):
            pred = sum(co[k] * u[n - 1 - k] for k in range(min(n, P))) + np.sqrt(m['sigma']) * v[n]
            worst = max(worst, abs(pred - u[n]))
        if worst > 1e-9 * sc:
            return fail('recursion', 'u[n] - sum a_k u[n-k] - sqrt(sigma) v[n] = %.3g (scale %.3g)' % (worst, sc))
        return None
    return None


def sequence_judge(m, clause):
    """the routines behave like pure functions of their arguments: the same argument OBJECTS are used
    for every call of a schedule (>= 3 evaluations per routine, both estimators interleaved), results
    must be bitwise identical, arguments bit-for-bit unchanged, returned arrays must not alias
    internal state, and a refilled array must give what a fresh copy gives"""
    import ar_seq
    ar, ut = mods()
    op = m['op']

    def fail(sym):
        return Failure('%s/sequence/%s' % (clause, sym), '%s: call sequence on the same argument objects: %s [op %s]' % (clause, sym, op),
                       {'meta': m, 'clause': clause})
    cx = lambda k: (np.array(parse_clist(m[k])) if m['cplx'] else np.array(parse_clist(m[k])).real.copy())
    if op in ('ldx', 'ywx', 'ld', 'yw'):
        data = cx('data')
        p = m['order']
        if op.endswith('x'):
            rt = {'LD': lambda: ar.AR_est_LD(data, p), 'YW': lambda: ar.AR_est_YW(data, p)}
        else:
            rt = {'LD': lambda: ar.AR_est_LD(None, p, rxx=data), 'YW': lambda: ar.AR_est_YW(None, p, rxx=data)}
        first = 'LD' if op.startswith('ld') else 'YW'
        other = 'YW' if first == 'LD' else 'LD'
        syms = ar_seq.run_schedule(rt, [first, other, first, other, other, first], [data])
        if not syms:
            data2 = data[::-1].copy() * 0.5 + data.mean()
            fn = (lambda arr, o: (ar.AR_est_LD if first == 'LD' else ar.AR_est_YW)(arr, o)) if op.endswith('x') else \
                 (lambda arr, o: (ar.AR_est_LD if first == 'LD' else ar.AR_est_YW)(None, o, rxx=arr))
            if op.endswith('x') or np.linalg.cond(toeplitz_h(data2, p)) < COND_MAX:
                syms = ar_seq.refill_check(fn, data, data2, [p, max(1, p - 1)])
    elif op in ('autocorr', 'gram', 'gramq'):
        data = cx('data')
        syms = ar_seq.run_schedule({'autocorr': lambda: ut.autocorr(data)}, ['autocorr'] * 3, [data])
        if not syms:
            syms = ar_seq.refill_check(lambda arr, _: ut.autocorr(arr), data, data[::-1].copy() + 1.0, [0])
    elif op == 'psd':
        ak = cx('ak')
        sides = 'onesided' if m['one'] else 'twosided'
        syms = ar_seq.run_schedule({'psd': lambda: ar.AR_psd(ak, m['sigma'], n_freqs=m['nf'], sides=sides)}, ['psd'] * 3, [ak])
        if not syms:
            syms = ar_seq.refill_check(lambda arr, nf: ar.AR_psd(arr, m['sigma'], n_freqs=nf, sides=sides), ak, ak * 0.5, [m['nf'], m['nf'] + 1])
    elif op == 'gen':
        co, v = cx('coefs'), cx('v')
        rt = {'gen': lambda: ut.ar_generator(N=len(v) - m['drop'], sigma=m['sigma'], coefs=co, drop_transients=m['drop'], v=v)}
        syms = ar_seq.run_schedule(rt, ['gen'] * 3, [co, v])
    else:
        syms = []
    return fail(syms[0]) if syms else None


def judge(m, impl, clause):
    if m['op'] == 'ldq':          # same routine, same claims as the computed-autocorrelation LD estimate
        m = dict(m, op='ldx')
        impl = ' '.join(impl.split()[:3])
    return judge_value(m, impl, clause) or sequence_judge(m, clause)


# ------------------------------------------------------------------ generators
def mk_case(m, clause, cmp, nontrivial=True):
    return Case(line_of(m), run_impl(m), clause, cmp=cmp, meta=m, nontrivial=nontrivial)


def cases(rng, tier, seed):
    import common
    nrng = common.np_rng(PID, seed, 'cases')
    big = tier == 'thorough'
    out = []
    STATS['skipped_ill_conditioned'] = 0
    STATS['cond_max_compared'] = 0.0

    def est_case(op, data, order, cplx, clause, extra=None):
        m = {'op': op, 'order': int(order), 'data': clist(data), 'cplx': bool(cplx)}
        m.update(extra or {})
        r = r_of(m)
        if not np.all(np.isfinite(r)) or abs(r[0]) == 0:
            return
        cond = np.linalg.cond(toeplitz_h(r, order))
        if not cond < COND_MAX:
            STATS['skipped_ill_conditioned'] += 1
            return
        STATS['cond_max_compared'] = max(STATS['cond_max_compared'], float(cond))
        out.append(mk_case(m, clause, cmp_est(abs(r[0]))))

    # --- estimators on signals (computed autocorrelation)
    n_sig = 200 if not big else 4000
    for i in range(n_sig):
        kind = KINDS[i % 4]
        N = int(nrng.choice([16, 17, 31, 32, 64, 100, 128, 256] + ([512, 1000, 2048, 4096] if big else [])))
        x = gen_signal(nrng, N, kind)
        cplx = 'complex' in kind
        order = int(nrng.randint(1, min(16, N // 4) + 1))
        for op in ('ldx', 'ywx'):
            est_case(op, x, order, cplx, 'est/%s/computed/%s' % (op[:2].upper(), kind), {'psd_valid': True})
        if i % 3 == 0:
            nl = int(nrng.randint(1, min(N, 12) + 1))
            m = {'op': 'autocorr', 'nl': nl, 'data': clist(x), 'cplx': cplx}
            out.append(mk_case(m, 'autocorr/' + ('complex' if cplx else 'real'), cmp_groups('c')))
    # --- estimators with a supplied autocorrelation
    n_sup = 200 if not big else 4000
    for i in range(n_sup):
        sub = i % 3
        cplx = bool(nrng.rand() < 0.6)
        order = int(nrng.randint(2, 9)) if cplx else int(nrng.randint(1, 9))   # complex + order >= 2: conjugation slips show
        scale = float(nrng.choice([1.0, 1.0, 1e-12, 1e6]))                     # tiny / large covariances
        if sub == 0:      # exact autocovariance of a drawn stable process -> exact recovery
            ak = stable_coefs(nrng, order, cplx, 0.85)
            sig = float(nrng.uniform(0.2, 3.0))
            r = exact_autocov(ak, sig, order + 1 + int(nrng.randint(0, 3)))
            r[0] = r[0].real
            extra = {'true_ak': clist(ak), 'true_sigma': sig, 'psd_valid': True}
            tag = 'exact'
        elif sub == 1:    # unbiased autocorrelation of a signal (may be indefinite: no stability claim)
            N = int(nrng.choice([32, 64, 128]))
            x = gen_signal(nrng, N, 'coloured-complex' if cplx else 'coloured-real')
            r = direct_autocorr(x, order + 1) * N / (N - np.arange(order + 1))
            extra, tag = {}, 'unbiased'
        else:             # biased autocorrelation of another signal, longer than needed
            N = int(nrng.choice([32, 64, 128]))
            x = gen_signal(nrng, N, 'complex' if cplx else 'real')
            r = direct_autocorr(x, order + 3)
            r[0] = r[0].real
            extra, tag = {'psd_valid': True}, 'biased'
        if not cplx:
            r = r.real.astype(float)
        r = r * scale
        if 'true_sigma' in extra:
            extra['true_sigma'] = extra['true_sigma'] * scale
        for op in ('ld', 'yw'):
            est_case(op, r, order, cplx, 'est/%s/supplied/%s' % (op.upper(), tag), extra)
    # --- stability clause: Toeplitz form = Gram form (binary64 and exact), AR_est_LD vs the exact-rational model
    def filt(kind, p, cplx, x):
        if kind == 'random':
            c = nrng.randn(p + 1) + (1j * nrng.randn(p + 1) if cplx else 0)
        elif kind == 'sparse':
            c = np.zeros(p + 1, dtype=complex)
            c[int(nrng.randint(0, p + 1))] = nrng.choice([1.0, -2.0, 0.5])
            if p >= 2 and nrng.rand() < 0.5:
                c[int(nrng.randint(0, p + 1))] += (1j if cplx else 1.0)
            if not np.any(c):
                c[p] = 1.0
        elif kind == 'leading-zero':
            c = nrng.randn(p + 1) + (1j * nrng.randn(p + 1) if cplx else 0)
            c[:int(nrng.randint(1, p + 1)) if p >= 1 else 0] = 0
            if not np.any(c):
                c[p] = 1.0
        else:   # prediction-error filter of the oracle's own dense Yule-Walker solution: the form is sigma
            r = direct_autocorr(x, p + 1)
            a = np.linalg.solve(toeplitz_h(r, p), r[1:p + 1]) if p >= 1 else np.zeros(0)
            c = np.r_[1.0, -a]
        return np.asarray(c, dtype=complex)

    FK = ['random', 'sparse', 'leading-zero', 'prediction-error']
    n_gram = 48 if not big else 600
    for i in range(n_gram):
        kind = KINDS[i % 4]
        N = int(nrng.choice([8, 16, 17, 32, 64] + ([128, 256] if big else [])))
        x = gen_signal(nrng, N, kind)
        cplx = 'complex' in kind
        p = int(nrng.randint(0, min(8, N - 1) + 1))
        fk = FK[(i // 4) % 4]
        c = filt(fk, p, cplx, x)
        if not (np.all(np.isfinite(c)) and np.any(c) and np.any(x)):
            continue
        scale = float(np.sum(np.abs(c)) ** 2 * np.sum(np.abs(x) ** 2) / N)
        m = {'op': 'gram', 'order': p, 'data': clist(x), 'c': clist(c), 'cplx': cplx, 'scale': scale}
        out.append(mk_case(m, 'gram/float/%s/%s' % (kind, fk), cmp_gram(scale, False)))

    def int_signal(N, cplx, den):
        hi = int(nrng.choice([1, 3, 8, 100]))
        xi = nrng.randint(-hi, hi + 1, 2 * N)
        if not cplx:
            xi[1::2] = 0
        if not np.any(xi):
            xi[0] = 1
        if nrng.rand() < 0.25:          # leading / trailing zero samples: lowest non-zero index > 0
            z = int(nrng.randint(1, max(2, N // 3)))
            xi[:2 * z] = 0
            if not np.any(xi):
                xi[-2] = 1
        x = (xi[0::2] + 1j * xi[1::2]) / float(den)
        return [int(v) for v in xi], x

    n_gq = 40 if not big else 500
    for i in range(n_gq):
        cplx = bool(i % 2)
        den = int(nrng.choice([1, 2, 16]))
        N = int(nrng.choice([1, 2, 3, 5, 8, 16, 24] + ([40] if big else [])))
        xi, x = int_signal(N, cplx, den)
        p = int(nrng.randint(0, 7)) if i % 5 else int(N + nrng.randint(0, 3))      # every 5th: order >= N
        ci = nrng.randint(-4, 5, 2 * (p + 1))
        if not cplx:
            ci[1::2] = 0
        if i % 3 == 0 and p >= 1:
            ci[:2 * int(nrng.randint(1, p + 1))] = 0
        if not np.any(ci):
            ci[-2] = 1
        c = (ci[0::2] + 1j * ci[1::2]) / float(den)
        scale = float(np.sum(np.abs(c)) ** 2 * np.sum(np.abs(x) ** 2) / N)
        m = {'op': 'gramq', 'order': p, 'den': den, 'xints': ','.join(map(str, xi)), 'cints': ','.join(str(int(v)) for v in ci),
             'data': clist(x), 'c': clist(c), 'cplx': cplx, 'scale': scale}
        out.append(mk_case(m, 'gram/exact/%s/%s' % ('complex' if cplx else 'real', 'order>=N' if p >= N else 'order<N'), cmp_gram(scale, True)))

    n_lq = 40 if not big else 400
    for i in range(n_lq):
        cplx = bool(i % 2)
        den = int(nrng.choice([1, 4]))
        N = int(nrng.choice([8, 12, 16, 24, 32]))
        xi, x = int_signal(N, cplx, den)
        order = int(nrng.randint(1, min(6, N // 4) + 1))
        m = {'op': 'ldq', 'order': order, 'den': den, 'xints': ','.join(map(str, xi)), 'data': clist(x), 'cplx': cplx, 'psd_valid': True}
        r = direct_autocorr(x, order + 1)
        cond = np.linalg.cond(toeplitz_h(r, order))
        if not cond < COND_MAX:
            STATS['skipped_ill_conditioned'] += 1
            continue
        out.append(mk_case(m, 'est/LD/exact-rational/%s' % ('complex' if cplx else 'real'), cmp_ldq(abs(r[0]), float(cond))))
    # --- AR_psd
    n_psd = 120 if not big else 800
    for i in range(n_psd):
        cplx = bool(i % 2)
        one = bool((i // 2) % 2)
        nf = int(nrng.choice([1, 2, 3, 4, 5, 8, 9, 16, 33, 64] + ([255, 1024] if big else [])))   # incl. grids coarser than the order
        p = int(nrng.randint(1, 9))
        ak = stable_coefs(nrng, p, cplx, 0.9)
        sig = float(nrng.choice([1.0, 0.5, 2.0, nrng.uniform(0.01, 10)]))
        m = {'op': 'psd', 'one': one, 'nf': nf, 'sigma': sig, 'ak': clist(ak), 'cplx': cplx}
        out.append(mk_case(m, 'psd/%s/%s' % ('onesided' if one else 'twosided', 'odd' if nf % 2 else 'even'), cmp_groups('ff')))
    # --- ar_generator
    n_gen = 90 if not big else 500
    for i in range(n_gen):
        cplx = bool(i % 3 == 2)
        p = int(nrng.randint(1, 7))
        co = stable_coefs(nrng, p, cplx, 0.9)
        drop = int(nrng.choice([0, 0, 3, 10]))
        N = int(nrng.choice([1, 2, 3, 8, 20, 50] + ([512] if big else [])))     # incl. fewer samples than coefficients
        v = nrng.randn(N + drop) + (1j * nrng.randn(N + drop) if cplx else 0)
        sig = float(nrng.choice([1.0, 2.0, 0.25, nrng.uniform(0.1, 5)]))
        m = {'op': 'gen', 'drop': drop, 'sigma': sig, 'coefs': clist(co), 'v': clist(v), 'cplx': cplx}
        out.append(mk_case(m, 'gen/' + ('complex' if cplx else 'real'), cmp_groups('cc')))
    return out


def oracle(rng, tier, seed, focus, cases=None):
    fails, n = [], 0
    for c in (cases or []):
        n += 1
        f = judge(c.meta, c.impl, c.clause)
        if f:
            f.case = c
            fails.append(f)
    st = {'judged': n, 'failed': len(fails), 'focus': len(focus)}
    st.update(STATS)
    return fails, st


def replay(d):
    m = d['meta']
    return judge(m, run_impl(m), d['clause'])
