"""C10 — autoregressive estimates solve the Yule–Walker equations of the data.

Correspondence: AR_est_LD / AR_est_YW (computed and supplied autocorrelation), utils.autocorr,
AR_psd (both sides, both parities) and utils.ar_generator (supplied noise) on the real code vs the
Lean model `Nitime.C10` run at complex binary64 (the same definitions the theorems instantiate at ℂ).
Oracle (independent of the Lean model): dense numpy — Toeplitz residual, sigma formula, agreement
of the two estimators, numpy.roots stability certificate, exact recovery from the exact
autocovariance of a drawn stable AR process, the spectrum formula on the returned grid, and the
simulator's recursion on the returned arrays.

Stability clause: proved for the computed-autocorrelation path (`arLD_stable_of_signal`: Toeplitz form
= Gram form => positive definite => sigma_j > 0, |kappa_j| < 1 => roots inside the unit circle).  The
ops `gram` (binary64), `gramq` and `ldq` (exact complex rationals) run the definitions those theorems
are about: both sides of the Gram identity, and AR_est_LD in exact arithmetic with the truth value of
every link of the chain; the oracle re-derives the Gram form in Fractions.
"""
from fractions import Fraction
import numpy as np
from common import Case, Failure, clist, parse_clist, flist, parse_flist, call, close_vec
import ar_fam

PID = 'C10'
LEAN_TARGETS = ['Nitime.Props.C10', 'Nitime.Props.C10Sparse']
RULE = ('wave 6: exact (dyadic) autocovariance sequences with a prescribed partial-correlation pattern (white, seasonal AR with a_k != 0 only for k = s, leading / intermediate / trailing zeros, lags 1 and 4, complex seasonal) supplied to both estimators, AR_est_LD also against the model in exact arithmetic (op ldrq), AR_psd on the sparse coefficient sets, zero-stuffed signals on the computed path; round 2: refused / failing calls of every entry point on the same argument objects followed by the ordinary calls against fresh copies (L7), programs of estimator calls with refused calls in between (op seqe), x is rxx, the returned coefficient view consumed by AR_psd / ar_generator (L8); session 3: every entry point also on integer (int16/int32/int64), float32, complex64, big-endian, strided and read-only signals / autocorrelation / coefficient / noise arrays (model line and oracle work from the values converted to float64 - exact; single precision judged at 2e-5); programs of AR_est_LD / AR_est_YW calls on ONE supplied array in every order (op seq: outputs of every call, the array afterwards); keyword arguments of autocorr / autocov (axis on 2-d inputs, all_lags, debias, normalize; op acopt); AR_psd / ar_generator with arguments left at their defaults and integer sigma; a supplied rxx together with a signal; amplitudes 1e-150..1e150 judged against the same input scaled by an exact power of two; nearly singular Toeplitz systems (cond to 1e9, tolerance scaled); a perturbation phase (other options, results overwritten) followed by a re-run of a sample of the cases on fresh objects; every routine is also run in call sequences on the same argument objects (>=3 evaluations in mixed order, results scribbled over, arrays refilled in place; C12: several live analyzers read in interleaved order); cases from one PRNG state: signals real / complex / strongly coloured (AR-filtered noise, pole radius to 0.97), '
        'N in 16..256 (quick) or ..4096 (thorough), orders 1..min(16,N/4); estimators LD and YW with computed and supplied '
        '(biased, unbiased, exact-AR) autocorrelation; AR_psd for sides x parity x real/complex stable coefficient sets; '
        'Gram identity c^H toeplitz(autocorr(x)) c = (1/N) sum |c*x|^2 on real/complex/coloured signals x random, sparse, leading-zero and prediction-error filters (binary64) and on small-integer dyadic signals in exact rational arithmetic (also orders >= N); AR_est_LD vs the exact-rational run of the model with all links of the stability chain evaluated exactly; '
        'ar_generator with supplied noise and dropped transients (incl. fewer samples than coefficients); amplitude scales 1e-12..1e6; grids coarser than the order; distinct = distinct protocol line; '
        'ill-conditioned Toeplitz systems (cond > 1e5) are skipped and counted')
ASSUMPTIONS = ['order >= 1 and at least order+1 autocorrelation lags are available (the code indexes rxx[1])',
               'every number the recursion divides by is non-zero (hypothesis DivisorsOK of the theorems); ill-conditioned cases skipped and counted',
               'R(0) is real (true for autocorr output; supplied sequences are generated with a real lag-0 term)',
               'stability is PROVED for every non-zero signal and every order on the computed (biased) autocorrelation path over the complex numbers (arLD_stable_of_signal) and for supplied rxx under the hypothesis that toeplitz(rxx[:p+1]) is positive definite (arLD_stable_of_pd); NOT covered by proof: a supplied rxx that is not positive definite (e.g. the unbiased estimate: no stability claim is made or checked there) and rounding (Float vs the complex numbers) - the numpy.roots / sigma > 0 certificate still runs on the binary64 results of every estimate from a biased or exact autocorrelation',
               'sigma_v >= 0 in AR_psd (sqrt of a real number)']
TRUSTED_EXTRA = [
    'wave 6: the control flow of the Levinson-Durbin loop of AR_est_LD (p = 2; while p <= order: ...; p += 1 with no break / continue / return / raise and no conditional) is GENERATED from the source (harness/translate_c10.py gen_ld_flow -> Generated/LdFlow.lean; ast walk of the loop body); Props/C10Sparse.lean ld_source_runs_every_pass is decide over it',
    'op ldrq: AR_est_LD on a SUPPLIED sequence at the exact instance CQ; the structured sequences are built by harness/ar_exact.py in fractions.Fraction from dyadic parameters (binary64 values cross the protocol as int / 2^k)',
    'scipy.linalg (1.18) misreads non-native byte order: a big-endian rxx handed to AR_est_YW is not generated (big-endian SIGNALS are)',
    'integer-typed supplied rxx: AR_est_LD truncates (finding est/*/supplied/int-dtype/*, proposed_fixes/C10-ld-integer-rxx.diff); those cases are generated once the key is registered in known_findings.json',
    'Float (complex binary64) instance of the Scalar-polymorphic model approximates the ℂ instance the theorems are about (unproved; bounded by the 1e-9 comparison)',
    'scipy.signal.fftconvolve modelled as the direct lagged sum (autocorrDirect); compared on every run',
    'scipy.linalg.toeplitz(c) modelled as the Hermitian Toeplitz matrix with first column c (toepEntry)',
    'scipy.linalg.solve modelled by the contract IsSolution (T·a = y); the driver uses Gauss–Jordan elimination Mat.solveVec, whose correctness is not proved, only compared',
    'scipy.signal.freqz(b, a, worN=n, whole) modelled as the ratio of polynomials in exp(-1j·w_k), w_k = k·(π|2π)/n (scipy default include_nyquist=False)',
    'scipy.signal.lfilter modelled as the direct-form recursion lfilter1 with a[0] = 1',
    'the exact instance CQ (complex rationals) of the Scalar class used by the ops gramq/ldq has placeholder sqrtRe/phasor (not rational operations; never called by those ops)',
]

STATS = {'skipped_ill_conditioned': 0, 'cond_max_compared': 0.0}
COND_MAX = 1e5


def mods():
    import nitime.algorithms.autoregressive as ar
    import nitime.utils as ut
    return ar, ut


# ------------------------------------------------------------------ helpers (oracle side: dense numpy)
def direct_autocorr(x, nl):
    x = np.asarray(x)
    n = len(x)
    return np.array([np.sum(x[k:] * np.conj(x[:n - k])) / n for k in range(nl)])


def toeplitz_h(r, p):
    T = np.empty((p, p), dtype=complex)
    for k in range(p):
        for i in range(p):
            T[k, i] = r[k - i] if i <= k else np.conj(r[i - k])
    return T


def stable_coefs(nrng, p, cplx, rmax):
    if cplx:
        poles = nrng.uniform(0.1, rmax, p) * np.exp(1j * nrng.uniform(-np.pi, np.pi, p))
    else:
        poles = []
        while len(poles) < p:
            if p - len(poles) >= 2 and nrng.rand() < 0.7:
                z = nrng.uniform(0.1, rmax) * np.exp(1j * nrng.uniform(0, np.pi))
                poles += [z, np.conj(z)]
            else:
                poles.append(nrng.uniform(-rmax, rmax))
        poles = np.array(poles)
    c = np.poly(poles)
    ak = -c[1:]
    return ak if cplx else ak.real


def exact_autocov(ak, sigma, nl):
    """autocovariance of the AR process with coefficients ak, innovation variance sigma (impulse response)"""
    from scipy.signal import lfilter
    L = 6000
    imp = np.zeros(L, dtype=complex)
    imp[0] = 1.0
    h = lfilter([1.0], np.r_[1, -np.asarray(ak, dtype=complex)], imp)
    return np.array([sigma * np.sum(h[k:] * np.conj(h[:L - k])) for k in range(nl)])


def gen_signal(nrng, N, kind):
    if kind == 'real':
        sc = nrng.choice([1.0, 10.0, 1e-3, 1e-6])
        return nrng.randn(N) * sc + nrng.choice([0.0, 0.0, 0.5]) * sc
    if kind == 'complex':
        return (nrng.randn(N) + 1j * nrng.randn(N)) * nrng.choice([1.0, 5.0, 1e-6])
    from scipy.signal import lfilter
    cplx = kind == 'coloured-complex'
    p = nrng.randint(1, 5)
    ak = stable_coefs(nrng, p, cplx, 0.97)
    v = nrng.randn(N + 200) + (1j * nrng.randn(N + 200) if cplx else 0)
    return lfilter([1.0], np.r_[1, -ak], v)[200:] * nrng.choice([1.0, 1.0, 1e-6, 1e3])


KINDS = ['real', 'complex', 'coloured-real', 'coloured-complex']


def vals_of(m, key='data'):
    """the float64 / complex128 VALUES of a field (what the model line and the oracle work from)"""
    d = np.array(parse_clist(m[key]))
    return d if m['cplx'] else d.real.copy()


def arr_of(m, key='data', dkey='dt'):
    """what the implementation is handed: the same values in the representation m[dkey]; a fresh object per call"""
    return ar_fam.variant(vals_of(m, key), m.get(dkey))


def tolf(m):
    return ar_fam.tol_factor(m.get('dt'), m.get('dtv'))


def est_call(fn, m, data):
    """AR_est_*(x, order) / AR_est_*(None, order, rxx=r) / AR_est_*(x_unrelated, order, rxx=r)"""
    if m['op'].endswith('x') or m['op'] == 'ldq':
        return fn(data, m['order'])
    if m.get('xalso'):      # a signal is passed as well: the supplied autocorrelation must win
        return fn(np.arange(3.0 * len(data)) % 7 - 2.5, m['order'], rxx=data)
    return fn(None, m['order'], rxx=data)


def helper_array(m):
    """the array handed to autocorr / autocov in an `acopt` case and the index of the signal in it"""
    x = arr_of(m)
    lay = m.get('layout', '1d')
    if lay == '1d':
        return x, None
    other = [np.asarray(x[::-1] * 0.5 + 1.0, dtype=x.dtype), np.asarray(np.roll(x, 3) * 2.0, dtype=x.dtype)]
    rows = other[:m['row']] + [x] + other[m['row']:]
    a = np.array(rows)
    return (a, -1) if lay == 'rows' else (np.ascontiguousarray(a.T), 0)


def helper_kwargs(m, axis):
    kw = {}
    if axis is not None and not (axis == -1 and m.get('axis_default')):
        kw['axis'] = axis
    if m['all_lags'] or m.get('explicit'):
        kw['all_lags'] = bool(m['all_lags'])
    if not m['normalize'] or m.get('explicit'):
        kw['normalize'] = bool(m['normalize'])
    if m['fn'] == 'autocov' and (not m['debias'] or m.get('explicit')):
        kw['debias'] = bool(m['debias'])
    return kw


# ------------------------------------------------------------------ implementation adapter
def impl_forms(ut, data, c, p):
    """(c^H T c, (1/N) sum_t |(c * x)[t]|^2) with T = toeplitz(utils.autocorr(x)[:p+1]) built the way AR_est_YW
    builds it (the autocorrelation sequence vanishes beyond lag N-1)"""
    from scipy import linalg
    N = len(data)
    r = np.asarray(ut.autocorr(data), dtype=complex)[:p + 1]
    r = np.r_[r, np.zeros(p + 1 - len(r), dtype=complex)]
    T = linalg.toeplitz(r)
    cc = np.r_[np.asarray(c, dtype=complex), np.zeros(p + 1, dtype=complex)][:p + 1]
    form = np.vdot(cc, T.dot(cc))
    y = np.convolve(cc, np.asarray(data, dtype=complex))
    return complex(form), complex(np.sum(np.abs(y) ** 2) / N)


def canon_est(res):
    a, s = res
    return 'ok %s %s' % (clist(np.asarray(a).reshape(-1)), clist([complex(s)]))


def run_impl(m):
    ar, ut = mods()
    op = m['op']
    if op in ('ldx', 'ywx', 'ld', 'yw'):
        fn = ar.AR_est_LD if op.startswith('ld') else ar.AR_est_YW
        data = arr_of(m)
        # the observed value is the SECOND of two calls on the same argument objects (a pure function
        # gives the same thing; state left behind by the first call shows up in the correspondence)
        return call(lambda: (est_call(fn, m, data), canon_est(est_call(fn, m, data)))[1])
    if op == 'seq':
        data = arr_of(m)

        def f():
            toks = []
            for ch in m['calls']:
                a, s_ = (ar.AR_est_LD if ch == 'L' else ar.AR_est_YW)(None, m['order'], rxx=data)
                toks += [clist(np.asarray(a).reshape(-1)), clist([complex(s_)])]
            return 'ok ' + ' '.join(toks) + ' ' + clist(data)
        return call(f)
    if op == 'seqe':
        data = arr_of(m)

        def f():
            toks = []
            for t in m['calls'].split(','):
                try:
                    a, s_ = (ar.AR_est_LD if t[0] == 'L' else ar.AR_est_YW)(None, int(t[1:]), rxx=data)
                    toks += [clist(np.asarray(a).reshape(-1)), clist([complex(s_)])]
                except (IndexError, ValueError):          # the refusal: order beyond the sequence
                    toks.append('E')
            return 'ok ' + ' '.join(toks) + ' ' + clist(data)
        return call(f)
    if op == 'acopt':
        a, axis = helper_array(m)
        fn = getattr(ut, m['fn'])

        def f():
            out = fn(a, **helper_kwargs(m, axis))
            if axis is not None:
                out = out[m['row']] if axis == -1 else out[:, m['row']]
            return 'ok ' + clist(out if m['all_lags'] else out[:m['nl']])
        return call(f)
    if op == 'autocorr':
        data = arr_of(m)
        return call(lambda: 'ok ' + clist(ut.autocorr(data)[:m['nl']]))
    if op in ('gram', 'gramq'):
        data = arr_of(m)
        c = np.array(parse_clist(m['c']))
        return call(lambda: 'ok ' + clist(list(impl_forms(ut, data, c, m['order']))))
    if op == 'ldq':
        data = arr_of(m)
        return call(lambda: (ar.AR_est_LD(data, m['order']), canon_est(ar.AR_est_LD(data, m['order'])))[1])
    if op == 'ldrq':        # a SUPPLIED exact (dyadic) sequence
        data = arr_of(m)
        return call(lambda: (ar.AR_est_LD(None, m['order'], rxx=data), canon_est(ar.AR_est_LD(None, m['order'], rxx=data)))[1])
    if op == 'psd':
        ak = arr_of(m, 'ak')

        def f():
            w, p = ar.AR_psd(ak, psd_sigma(m), **psd_kwargs(m))
            return 'ok %s %s' % (flist(w), flist(p))
        return call(f)
    if op == 'gen':
        def f():
            u, vv, c = ut.ar_generator(**gen_kwargs(m))
            return 'ok %s %s' % (clist(u), clist(vv))
        return call(f)
    raise ValueError(op)


DEFAULT_COEFS = [2.7607, -3.8106, 2.6535, -0.9238]      # documented default of ar_generator(coefs=None)


def psd_sigma(m):
    return int(m['sigma']) if m.get('sigint') else m['sigma']


def psd_kwargs(m):
    kw = {}
    if not m.get('nf_default'):
        kw['n_freqs'] = m['nf']
    if not (m['one'] and m.get('sides_default')):
        kw['sides'] = 'onesided' if m['one'] else 'twosided'
    return kw


def gen_kwargs(m):
    """keyword arguments of ar_generator for a case: supplied noise in the representation m['dtv'], coefficients in
    m['dt'] (or left at their default), sigma as float / python int / default, drop_transients explicit or default"""
    v = arr_of(m, 'v', 'dtv')
    kw = {'N': len(v) - m['drop'], 'v': v}
    if not m.get('coefs_default'):
        kw['coefs'] = arr_of(m, 'coefs')
    if not m.get('sigma_default'):
        kw['sigma'] = int(m['sigma']) if m.get('sigint') else m['sigma']
    if m['drop'] or not m.get('drop_default'):
        kw['drop_transients'] = m['drop']
    return kw


def line_of(m):
    op = m['op']
    if op == 'seqe':
        return 'C10 seqe %s %s' % (m['calls'], m['data'])
    if op == 'seq':
        return 'C10 seq %d %s %s' % (m['order'], m['calls'], m['data'])
    if op == 'acopt':
        return 'C10 acopt %d %d %d %d %s' % (m['debias'], m['normalize'], m['all_lags'], m['nl'], m['data'])
    if op in ('ldx', 'ywx', 'ld', 'yw'):
        return 'C10 %s %d %s' % (op, m['order'], m['data'])
    if op == 'autocorr':
        return 'C10 autocorr %d %s' % (m['nl'], m['data'])
    if op == 'gram':
        return 'C10 gram %d %s %s' % (m['order'], m['data'], m['c'])
    if op == 'gramq':
        return 'C10 gramq %d %d %s %s' % (m['order'], m['den'], m['xints'], m['cints'])
    if op == 'ldq':
        return 'C10 ldq %d %d %s' % (m['order'], m['den'], m['xints'])
    if op == 'ldrq':
        return 'C10 ldrq %d %d %s' % (m['order'], m['den'], m['rints'])
    if op == 'psd':
        return 'C10 psd %d %d %s %s' % (1 if m['one'] else 0, m['nf'], clist([m['sigma']]), m['ak'])
    if op == 'gen':
        return 'C10 gen %d %s %s %s' % (m['drop'], clist([m['sigma']]), m['coefs'], m['v'])


def parse_groups(s):
    """'ok g1 g2' -> list of numpy complex/real arrays (complex lists), or None"""
    if not s.startswith('ok '):
        return None
    return s.split()[1:]


def cmp_est(scale_r0, k=1.0):
    """coefficients (dimensionless) relative to their largest magnitude, sigma relative to R(0); `k` loosens both for
    single-precision representations and for nearly singular systems (k ~ cond * 1e-3)"""
    def f(impl, model):
        a, b = parse_groups(impl), parse_groups(model)
        if a is None or b is None:
            return impl == model
        ai, si = parse_clist(a[0]), parse_clist(a[1])
        am, sm = parse_clist(b[0]), parse_clist(b[1])
        fl = lambda zs: [t for z in zs for t in (z.real, z.imag)]
        return close_vec(fl(ai), fl(am), 1e-9 * k, 1e-300) and close_vec(fl(si), fl(sm), 0.0, 1e-9 * k * scale_r0)
    return f


def cmp_seq(scale_r0):
    """'ok a1 s1 a2 s2 ... r_after': every call like cmp_est; the array afterwards exactly"""
    def f(impl, model):
        a, b = parse_groups(impl), parse_groups(model)
        if a is None or b is None or len(a) != len(b):
            return impl == model
        one = cmp_est(scale_r0)
        for i in range(0, len(a) - 1, 2):
            if not one('ok %s %s' % (a[i], a[i + 1]), 'ok %s %s' % (b[i], b[i + 1])):
                return False
        return parse_clist(a[-1]) == parse_clist(b[-1])
    return f


def cmp_seqe(scale_r0):
    """'ok <a s | E> ... r_after': refusals must coincide, accepted calls like cmp_est, the array afterwards exactly"""
    def f(impl, model):
        a, b = impl.split(), model.split()
        if a[:1] != ['ok'] or b[:1] != ['ok'] or len(a) != len(b):
            return impl == model
        one = cmp_est(scale_r0)
        i = 1
        while i < len(a) - 1:
            if 'E' in (a[i], b[i]):
                if a[i] != b[i]:
                    return False
                i += 1
                continue
            if not one('ok %s %s' % (a[i], a[i + 1]), 'ok %s %s' % (b[i], b[i + 1])):
                return False
            i += 2
        return parse_clist(a[-1]) == parse_clist(b[-1])
    return f


def cmp_groups(kinds, rtol=1e-9):
    def f(impl, model):
        a, b = parse_groups(impl), parse_groups(model)
        if a is None or b is None or len(a) != len(b):
            return impl == model
        for k, x, y in zip(kinds, a, b):
            if k == 'c':
                fl = lambda zs: [t for z in zs for t in (z.real, z.imag)]
                if not close_vec(fl(parse_clist(x)), fl(parse_clist(y)), rtol, 1e-300):
                    return False
            else:
                if not close_vec(parse_flist(x), parse_flist(y), rtol, 1e-300):
                    return False
        return True
    return f


def parse_cq(s):
    """'p/q,p/q,...' (interleaved re, im) -> list of (Fraction, Fraction)"""
    if s == '-':
        return []
    t = [Fraction(u) for u in s.split(',')]
    return list(zip(t[0::2], t[1::2]))


def cmp_gram(scale, exact):
    """impl = binary64 (form, gram) of the real code; model = the same two numbers from the model definitions.
    exact (gramq): the model's two sides must be IDENTICAL rationals with zero imaginary part."""
    def f(impl, model):
        a, b = parse_groups(impl), parse_groups(model)
        if a is None or b is None:
            return impl == model
        vi = parse_clist(a[0])
        if exact:
            q = parse_cq(b[0])
            if len(q) != 2 or q[0] != q[1] or q[0][1] != 0 or q[0][0] < 0:
                return False
            vm = [complex(float(z[0]), float(z[1])) for z in q]
        else:
            vm = parse_clist(b[0])
        fl = lambda zs: [t for z in zs for t in (z.real, z.imag)]
        return len(vi) == 2 and len(vm) == 2 and close_vec(fl(vi), fl(vm), 0.0, 1e-9 * scale)
    return f


def cmp_ldq(scale_r0, cond):
    """impl = AR_est_LD in binary64; model = the same recursion in exact rational arithmetic, followed by the
    exact truth values of: divisors real > 0, |kappa_j|^2 < 1, sigma real > 0, Yule-Walker residual == 0,
    sigma == R(0) - sum a_k conj R(k), sigma == c^H T c at the prediction-error filter (all must be 1)"""
    def f(impl, model):
        a, b = parse_groups(impl), parse_groups(model)
        if a is None or b is None:
            return impl == model
        if len(b) != 3 or b[2] != '1,1,1,1,1,1':
            return False
        ai, si = parse_clist(a[0]), parse_clist(a[1])
        am = [complex(float(z[0]), float(z[1])) for z in parse_cq(b[0])]
        sm = [complex(float(z[0]), float(z[1])) for z in parse_cq(b[1])]
        fl = lambda zs: [t for z in zs for t in (z.real, z.imag)]
        k = max(1.0, cond * 1e-3)
        # the coefficients are dimensionless ratios R(k)/R(0): an exactly-zero coefficient is met up to eps*cond
        return close_vec(fl(ai), fl(am), 1e-9 * k, 1e-9 * k) and close_vec(fl(si), fl(sm), 0.0, 1e-9 * k * scale_r0)
    return f


def exact_gram(data, c, p):
    """(1/N) sum_t |sum_i c_i x[t-i]|^2 in exact rational arithmetic (binary64 values are rationals)"""
    N = len(data)
    fr = lambda z: (Fraction(float(z.real)), Fraction(float(z.imag)))
    x = [fr(complex(z)) for z in data]
    cc = [fr(complex(z)) for z in list(c)[:p + 1]]
    tot = Fraction(0)
    for t in range(N + p):
        yr = yi = Fraction(0)
        for i, (cr, ci) in enumerate(cc):
            if 0 <= t - i < N and (cr or ci):
                xr, xi = x[t - i]
                yr += cr * xr - ci * xi
                yi += cr * xi + ci * xr
        tot += yr * yr + yi * yi
    return tot / N


# ------------------------------------------------------------------ the property, judged on the implementation
def r_of(m):
    """autocorrelation sequence the estimate is about (oracle's own direct computation)"""
    data = np.array(parse_clist(m['data']))
    if m['op'].endswith('x'):
        return direct_autocorr(data, m['order'] + 1)
    return data[:m['order'] + 1]


def judge_value(m, impl, clause):
    """Failure or None.  `impl` is the canonical implementation result for meta `m`."""
    ar, ut = mods()
    op = m['op']

    def fail(sym, what):
        return Failure('%s/%s' % (clause, sym), '%s: %s [op %s order=%s]' % (clause, what, op, m.get('order')),
                       {'meta': m, 'clause': clause})
    if op == 'seqe':
        # calls with their own orders on ONE array, some refused (order beyond the sequence): a refusal exactly where the
        # sequence is too short, every accepted call judged like a single call, the array afterwards what it was
        if not impl.startswith('ok '):
            return fail('raises', 'program with refused calls: ' + impl)
        toks = impl.split()[1:]
        n = len(vals_of(m))
        i = 0
        for k, t in enumerate(m['calls'].split(',')):
            o = int(t[1:])
            refused = i < len(toks) and toks[i] == 'E'
            if refused != (n < o + 1):
                return fail('refusal', 'call #%d (%s) on a sequence of %d lags was %s' % (k + 1, t, n, 'refused' if refused else 'accepted'))
            if refused:
                i += 1
                continue
            sub = dict(m, op='ld' if t[0] == 'L' else 'yw', order=o)
            f = judge_value(sub, 'ok %s %s' % (toks[i], toks[i + 1]), clause)
            if f:
                f.key = '%s/after-refusal/%s' % (clause, f.key.rsplit('/', 1)[-1])
                f.what = 'call #%d (%s) of the program %s on one array: %s' % (k + 1, t, m['calls'], f.what)
                f.replay = {'meta': m, 'clause': clause}
                return f
            i += 2
        after = np.array(parse_clist(toks[-1]))
        if after.shape != vals_of(m).shape or not np.array_equal(after, np.asarray(vals_of(m), dtype=complex)):
            return fail('argument-changed-by-refused-call', 'the autocorrelation array handed in was changed by the program ' + m['calls'])
        return None
    g = parse_groups(impl)
    if g is None:
        return fail('raises', 'valid input rejected: ' + impl)
    if op in ('ldx', 'ywx', 'ld', 'yw'):
        p = m['order']
        a = np.array(parse_clist(g[0]))
        s = parse_clist(g[1])[0]
        r = r_of(m)
        T = toeplitz_h(r, p)
        y = r[1:p + 1]
        cond = np.linalg.cond(T)
        # every lag the code works from carries an absolute rounding error ~ eps*R(0) (FFT autocorrelation), so the
        # residual is judged relative to R(0) as well (matters when a lag is EXACTLY zero: integer-valued signals)
        scale = np.abs(T).sum(axis=1).max() * max(np.abs(a).max(), 1e-300) + np.abs(y).max() + abs(r[0])
        if len(a) != p:
            return fail('shape', 'returned %d coefficients for order %d' % (len(a), p))
        if not np.all(np.isfinite(a)):
            return fail('nonfinite', 'non-finite coefficients')
        res = np.abs(T.dot(a) - y).max()
        if res > 1e-9 * tolf(m) * scale * max(1.0, cond * 1e-3):
            return fail('normal-equations', 'Toeplitz residual %.3g (scale %.3g, cond %.3g)' % (res, scale, cond))
        want = (r[0] - np.sum(a * np.conj(r[1:p + 1])))
        tol = 1e-9 * tolf(m) * abs(r[0]) * max(1.0, cond * 1e-3)
        if abs(s.imag) > 0 or abs(s.real - want.real) > tol or abs(want.imag) > tol * 10:
            return fail('sigma', 'sigma %r, R(0)-sum a_k conj R(k) = %r' % (s, want))
        if m.get('psd_valid'):
            if not s.real > 0:
                return fail('sigma-positive', 'sigma %r not positive for a valid autocorrelation' % (s,))
            roots = np.roots(np.r_[1, -a])
            if len(roots) and np.abs(roots).max() >= 1 + 1e-9:
                return fail('stability', 'fitted model has a root of modulus %.6f' % np.abs(roots).max())
        # the two estimators agree
        other = ar.AR_est_YW if op.startswith('ld') else ar.AR_est_LD
        data = arr_of(m)
        try:
            a2, s2 = est_call(other, m, data)
        except Exception as e:  # noqa
            return fail('agree', 'the other estimator raised %r' % (e,))
        tola = 1e-9 * tolf(m) * max(np.abs(a).max(), 1e-300) * max(1.0, cond)
        if np.abs(np.asarray(a2) - a).max() > tola or abs(complex(s2) - s) > tol * 10:
            return fail('agree', 'LD and YW differ: max |da| = %.3g, d sigma = %.3g' % (np.abs(np.asarray(a2) - a).max(), abs(complex(s2) - s)))
        if 'pow2' in m:         # the equations are homogeneous: the data scaled by an exact power of two give the same coefficients
            fn = ar.AR_est_LD if op.startswith('ld') else ar.AR_est_YW
            k = m['pow2']
            a3, s3 = est_call(fn, m, ar_fam.variant(vals_of(m) * 2.0 ** k, m.get('dt')))
            ks = 2 * k if op.endswith('x') else k
            if np.abs(np.asarray(a3) - a).max() > 1e-9 * max(np.abs(a).max(), 1e-300) * max(1.0, cond) or abs(complex(s3) / 2.0 ** ks - s) > tol * 10:
                return fail('scale-invariance', 'input scaled by 2^%d: coefficients change by %.3g, sigma ratio off by %.3g'
                            % (k, np.abs(np.asarray(a3) - a).max(), abs(complex(s3) / 2.0 ** ks - s)))
        if 'true_ak' in m:
            ta = np.array(parse_clist(m['true_ak']))
            if m.get('struct') and tolf(m) == 1 and (np.abs(ta - a).max() > 1e-10 * max(np.abs(ta).max(), 1.0) * max(1.0, cond)
                                                  or abs(s - m['true_sigma']) > 1e-10 * m['true_sigma'] * max(1.0, cond)):
                lag = int(np.argmax(np.abs(ta - a))) + 1
                return fail('recovery', 'exact (dyadic) autocovariance of %s: coefficient at lag %d off by %.3g, sigma by %.3g'
                            % (m['struct'], lag, np.abs(ta - a).max(), abs(s - m['true_sigma'])))
            if np.abs(ta - a).max() > 1e-7 * max(np.abs(ta).max(), 1.0) * max(1.0, cond * 1e-2):
                return fail('recovery', 'exact autocovariance of a stable AR process: coefficients off by %.3g' % np.abs(ta - a).max())
            if abs(s - m['true_sigma']) > 1e-7 * m['true_sigma'] * max(1.0, cond * 1e-2):
                return fail('recovery-sigma', 'innovation variance %r, true %r' % (s, m['true_sigma']))
        return None
    if op == 'seq':
        # one array, several estimator calls: every call must satisfy the clauses of a single call, all innovation
        # variances coincide, and the array handed in still holds what it held
        toks = g
        n = len(m['calls'])
        if len(toks) != 2 * n + 1:
            return fail('shape', 'expected %d results' % n)
        sig = []
        for i, ch in enumerate(m['calls']):
            sub = dict(m, op='ld' if ch == 'L' else 'yw')
            f = judge_value(sub, 'ok %s %s' % (toks[2 * i], toks[2 * i + 1]), clause)
            if f:
                f.key = '%s/call%d-%s/%s' % (clause, i + 1, ch, f.key.rsplit('/', 1)[-1])
                f.what = 'call #%d (%s) of the program %s on one array: %s' % (i + 1, ch, m['calls'], f.what)
                f.replay = {'meta': m, 'clause': clause}
                return f
            sig.append(parse_clist(toks[2 * i + 1])[0])
        r = r_of(dict(m, op='ld'))
        if max(abs(z - sig[0]) for z in sig) > 1e-8 * abs(r[0]):
            return fail('sigma-differs-between-calls', 'program %s on one array: innovation variances %r' % (m['calls'], sig))
        after = np.array(parse_clist(toks[-1]))
        if after.shape != vals_of(m).shape or not np.array_equal(after, np.asarray(vals_of(m), dtype=complex)):
            return fail('argument-mutated', 'the autocorrelation array handed in was changed by the program ' + m['calls'])
        return None
    if op == 'acopt':
        got = np.array(parse_clist(g[0]))
        x = np.asarray(vals_of(m), dtype=complex)
        n = len(x)
        xm = x - x.mean() if m['debias'] else x
        c = np.array([np.sum(xm[k:] * np.conj(xm[:n - k])) for k in range(n)]) / (n if m['normalize'] else 1.0)
        want = np.r_[np.conj(c[:0:-1]), c] if m['all_lags'] else c[:m['nl']]
        sc = max(abs(c[0]), 1e-300)
        if got.shape != want.shape:
            return fail('shape', '%d values, expected %d' % (len(got), len(want)))
        if not np.abs(got - want).max() <= 1e-9 * tolf(m) * sc:
            return fail('value', '%s(debias=%s, normalize=%s, all_lags=%s, layout %s) differs from its definition by %.3g (scale %.3g)'
                        % (m['fn'], bool(m['debias']), bool(m['normalize']), bool(m['all_lags']), m.get('layout', '1d'), np.abs(got - want).max(), sc))
        return None
    if op in ('gram', 'gramq'):
        # the Toeplitz matrix the code builds from utils.autocorr is the Gram matrix of the shifted signal:
        # c^H T c = (1/N) sum_t |(c*x)[t]|^2 (exact, Fractions) -- real, >= 0, > 0 for x != 0 and c != 0
        v = parse_clist(g[0])
        data = np.array(parse_clist(m['data']))
        c = np.array(parse_clist(m['c']))
        G = exact_gram(data, c, m['order'])
        tol = 1e-9 * m['scale']
        if not (G > 0):
            return fail('oracle-degenerate', 'exact Gram form is not positive for non-zero x and c: %r' % (G,))
        if abs(v[0].real - float(G)) > tol or abs(v[0].imag) > tol:
            return fail('psd-identity', 'c^H toeplitz(autocorr(x)[:p+1]) c = %r, exact (1/N) sum |c*x|^2 = %.17g (scale %.3g)' % (v[0], float(G), m['scale']))
        if float(G) > 10 * tol and not v[0].real > 0:
            return fail('positive-definite', 'c^H T c = %r is not positive (exact value %.17g)' % (v[0], float(G)))
        return None
    if op == 'autocorr':
        got = np.array(parse_clist(g[0]))
        want = direct_autocorr(np.array(parse_clist(m['data'])), m['nl'])
        if len(got) != len(want) or np.abs(got - want).max() > 1e-9 * tolf(m) * np.abs(want).max():
            return fail('value', 'autocorr differs from (1/N) sum x[n+k] conj x[n] by %.3g' % np.abs(got - want).max())
        return None
    if op == 'psd':
        w = np.array(parse_flist(g[0]))
        psd = np.array(parse_flist(g[1]))
        ak = np.array(parse_clist(m['ak']))
        n_exp = m['nf'] // 2 + 1 if m['one'] else m['nf']
        if len(w) != len(psd) or len(w) != n_exp:
            return fail('shape', 'grid/psd lengths %d/%d, expected %d' % (len(w), len(psd), n_exp))
        den = 1 - sum(ak[k] * np.exp(-1j * w * (k + 1)) for k in range(len(ak)))
        want = m['sigma'] / np.abs(den) ** 2 * (2 if m['one'] else 1)
        if np.abs(psd - want).max() > 1e-9 * tolf(m) * np.abs(want).max():
            return fail('formula', 'psd differs from %ssigma/|1-sum a e^{-iwk}|^2 on the returned grid by %.3g (max %.3g)' % (
                '2*' if m['one'] else '', np.abs(psd - want).max(), np.abs(want).max()))
        return None
    if op == 'gen':
        u = np.array(parse_clist(g[0]))
        v = np.array(parse_clist(g[1]))
        co = np.array(parse_clist(m['coefs']))
        P = len(co)
        n_exp = len(parse_clist(m['v'])) - m['drop']
        if len(u) != n_exp or len(v) != n_exp:
            return fail('shape', 'returned lengths %d/%d, expected %d' % (len(u), len(v), n_exp))
        worst, sc = 0.0, max(np.abs(u).max(), 1e-300)
        # without dropped transients the first P samples obey the recursion from a zero state as well
        for n in range(0 if m['drop'] == 0 else P, len(u)):
            pred = sum(co[k] * u[n - 1 - k] for k in range(min(n, P))) + np.sqrt(m['sigma']) * v[n]
            worst = max(worst, abs(pred - u[n]))
        if worst > 1e-9 * tolf(m) * sc:
            return fail('recursion', 'u[n] - sum a_k u[n-k] - sqrt(sigma) v[n] = %.3g (scale %.3g)' % (worst, sc))
        return None
    return None


def sequence_judge(m, clause):
    """the routines behave like pure functions of their arguments: the same argument OBJECTS are used
    for every call of a schedule (>= 3 evaluations per routine, both estimators interleaved), results
    must be bitwise identical, arguments bit-for-bit unchanged, returned arrays must not alias
    internal state, and a refilled array must give what a fresh copy gives"""
    import ar_seq
    ar, ut = mods()
    op = m['op']

    def fail(sym):
        return Failure('%s/sequence/%s' % (clause, sym), '%s: call sequence on the same argument objects: %s [op %s]' % (clause, sym, op),
                       {'meta': m, 'clause': clause})
    cx = lambda k: arr_of(m, k, 'dtv' if k == 'v' else 'dt')
    if op in ('ldx', 'ywx', 'ld', 'yw'):
        data = cx('data')
        p = m['order']
        rt = {'LD': lambda: est_call(ar.AR_est_LD, m, data), 'YW': lambda: est_call(ar.AR_est_YW, m, data)}
        first = 'LD' if op.startswith('ld') else 'YW'
        other = 'YW' if first == 'LD' else 'LD'
        syms = ar_seq.run_schedule(rt, [first, other, first, other, other, first], [data])
        if not syms:
            data2 = data[::-1].copy() * 0.5 + data.mean()
            fn = (lambda arr, o: (ar.AR_est_LD if first == 'LD' else ar.AR_est_YW)(arr, o)) if op.endswith('x') else \
                 (lambda arr, o: (ar.AR_est_LD if first == 'LD' else ar.AR_est_YW)(None, o, rxx=arr))
            # the refill is an arbitrary sequence: it must be non-singular at BOTH orders it is used with (structured sequences
            # with exact zeros reversed are singular at order p-1: a false alarm of the harness, not of the code)
            if op.endswith('x') or all(np.linalg.cond(toeplitz_h(data2, q)) < COND_MAX for q in (p, max(1, p - 1))):
                syms = ar_seq.refill_check(fn, data, data2, [p, max(1, p - 1)])
    elif op == 'acopt':
        a, axis = helper_array(m)
        kw = helper_kwargs(m, axis)
        fn = getattr(ut, m['fn'])
        syms = ar_seq.run_schedule({'h': lambda: fn(a, **kw), 'plain': lambda: ut.autocorr(a, **({'axis': axis} if axis is not None else {}))},
                                   ['h', 'plain', 'h', 'plain', 'h'], [a])
    elif op in ('autocorr', 'gram', 'gramq'):
        data = cx('data')
        syms = ar_seq.run_schedule({'autocorr': lambda: ut.autocorr(data)}, ['autocorr'] * 3, [data])
        if not syms:
            syms = ar_seq.refill_check(lambda arr, _: ut.autocorr(arr), data, data[::-1].copy() + 1.0, [0])
    elif op == 'psd':
        ak = cx('ak')
        sides = 'onesided' if m['one'] else 'twosided'
        syms = ar_seq.run_schedule({'psd': lambda: ar.AR_psd(ak, psd_sigma(m), **psd_kwargs(m))}, ['psd'] * 3, [ak])
        if not syms:
            syms = ar_seq.refill_check(lambda arr, nf: ar.AR_psd(arr, m['sigma'], n_freqs=nf, sides=sides), ak, ak * 0.5, [m['nf'], m['nf'] + 1])
    elif op == 'gen':
        kw = gen_kwargs(m)
        rt = {'gen': lambda: ut.ar_generator(**kw)}
        syms = ar_seq.run_schedule(rt, ['gen'] * 3, [kw.get('coefs', np.zeros(1)), kw['v']])
    else:
        syms = []
    return fail(syms[0]) if syms else None


def failure_alias_judge(m, clause):
    """round 2.  L7: refused / failing calls of the estimators, AR_psd and ar_generator on the SAME argument objects (order
    beyond the sequence, order 0 / negative / None / fractional, a too short or all-zero autocorrelation, neither signal nor
    autocorrelation, an empty grid), then the ordinary calls on those objects against fresh copies.  L8: the same array in two
    roles (`x` is `rxx`), the coefficient array returned by one routine (a view of its work array) consumed by the others"""
    import ar_fail, ar_seq, warnings
    warnings.simplefilter('ignore')
    ar, ut = mods()
    op = m['op']

    def fail(sym):
        return Failure('%s/%s' % (clause, sym), '%s: %s [op %s order=%s]' % (clause, sym, op, m.get('order')), {'meta': m, 'clause': clause})
    if op not in ('ldx', 'ywx', 'ld', 'yw'):
        return None
    data = arr_of(m)
    p = m['order']
    n = len(data)
    supplied = not op.endswith('x')
    call_ = (lambda fn, o, d=None: fn(None, o, rxx=data if d is None else d)) if supplied else (lambda fn, o, d=None: fn(data if d is None else d, o))
    zeros = np.zeros(n, dtype=data.dtype if data.dtype.kind in 'fc' else float)
    bad = []
    for nm, fn in (('LD', ar.AR_est_LD), ('YW', ar.AR_est_YW)):
        bad += [('failure/%s/order-ge-length' % nm, lambda fn=fn: call_(fn, n + 2)),
                ('failure/%s/order-0' % nm, lambda fn=fn: call_(fn, 0)),
                ('failure/%s/order-negative' % nm, lambda fn=fn: call_(fn, -1)),
                ('failure/%s/order-None' % nm, lambda fn=fn: call_(fn, None)),
                ('failure/%s/order-fractional' % nm, lambda fn=fn: call_(fn, 1.5)),
                ('failure/%s/too-short' % nm, lambda fn=fn: call_(fn, p, data[:p])),
                ('failure/%s/all-zero' % nm, lambda fn=fn: call_(fn, p, zeros)),
                ('failure/%s/nothing-given' % nm, lambda fn=fn: fn(None, p)),
                ('failure/%s/rxx-list' % nm, lambda fn=fn: fn(None, p, rxx=[1.0] * (p + 1)))]

    def ordinary(a_):
        d = a_[0]
        f = (lambda fn: fn(None, p, rxx=d)) if supplied else (lambda fn: fn(d, p))
        return [f(ar.AR_est_LD), f(ar.AR_est_YW)]
    with np.errstate(all='ignore'):
        syms = ar_fail.after_failures(bad, [data], ordinary)
        if syms:
            return fail(syms[0])
        # --- L8: x is rxx (the supplied sequence must win, whatever else is passed)
        if supplied:
            for nm, fn in (('LD', ar.AR_est_LD), ('YW', ar.AR_est_YW)):
                if not ar_seq.same([np.asarray(v) for v in fn(data, p, rxx=data)], [np.asarray(v) for v in fn(None, p, rxx=np.array(data, copy=True))]):
                    return fail('alias/%s/x-is-rxx' % nm)
        # --- L8: the returned coefficient array consumed by the other routines: it must stay what it was, and they must
        #     give what they give on a private copy
        ak, sv = ordinary([data])[0]
        keep = np.array(ak, copy=True)
        v = np.arange(1.0, 41.0) % 7 - 3.0
        sg = abs(float(np.real(sv))) or 1.0
        outs = [ar.AR_psd(ak, sg, n_freqs=16), ut.ar_generator(N=30, sigma=1.0, coefs=ak, drop_transients=10, v=v.astype(ak.dtype))[:1],
                ar.AR_psd(ak, sg, n_freqs=9, sides='twosided')]
        if not ar_seq.same(keep, ak):
            return fail('alias/coefficients-changed-by-consumer')
        want = [ar.AR_psd(keep.copy(), sg, n_freqs=16), ut.ar_generator(N=30, sigma=1.0, coefs=keep.copy(), drop_transients=10, v=v.astype(ak.dtype))[:1],
                ar.AR_psd(keep.copy(), sg, n_freqs=9, sides='twosided')]
        if not ar_seq.same([list(o) for o in outs], [list(o) for o in want]):
            return fail('alias/consumer-depends-on-sharing')
        snap = ar_seq.snapshot([list(o) for o in outs])
        if ak.flags.writeable:
            ak[...] = 0.5
        if ar_seq.mutated(snap):
            return fail('alias/result-is-a-view-of-an-argument')
        # bad option values of the consumers, then the consumers again
        bad2 = [('failure/psd/n_freqs-0', lambda: ar.AR_psd(keep, sg, n_freqs=0)), ('failure/psd/sides-unknown', lambda: ar.AR_psd(keep, sg, n_freqs=8, sides='both')),
                ('failure/psd/sigma-None', lambda: ar.AR_psd(keep, None, n_freqs=8)), ('failure/gen/N-0', lambda: ut.ar_generator(N=0, coefs=keep, v=v[:0])),
                ('failure/gen/v-too-short', lambda: ut.ar_generator(N=30, coefs=keep, v=v[:3])), ('failure/gen/sigma-negative', lambda: ut.ar_generator(N=5, sigma=-1.0, coefs=keep, v=v[:5]))]
        syms = ar_fail.after_failures(bad2, [keep, v], lambda a_: [list(ar.AR_psd(a_[0], sg, n_freqs=16)),
                                                                     list(ut.ar_generator(N=30, sigma=1.0, coefs=a_[0], drop_transients=10, v=a_[1].astype(a_[0].dtype))[:1])])
        if syms:
            return fail(syms[0])
    return None


def judge(m, impl, clause):
    if m['op'] == 'ldq':          # same routine, same claims as the computed-autocorrelation LD estimate
        m = dict(m, op='ldx')
        impl = ' '.join(impl.split()[:3])
    if m['op'] == 'ldrq':         # same routine, same claims as the supplied-autocorrelation LD estimate
        m = dict(m, op='ld')
        impl = ' '.join(impl.split()[:3])
    f = judge_value(m, impl, clause) or sequence_judge(m, clause)
    if f is None and m.get('l7'):
        f = failure_alias_judge(m, clause)
    return f


# ------------------------------------------------------------------ generators
def mk_case(m, clause, cmp, nontrivial=True):
    return Case(line_of(m), run_impl(m), clause, cmp=cmp, meta=m, nontrivial=nontrivial)


def cases(rng, tier, seed):
    import common
    nrng = common.np_rng(PID, seed, 'cases')
    big = tier == 'thorough'
    out = []
    STATS['skipped_ill_conditioned'] = 0
    STATS['cond_max_compared'] = 0.0

    def est_case(op, data, order, cplx, clause, extra=None):
        m = {'op': op, 'order': int(order), 'data': clist(data), 'cplx': bool(cplx)}
        m.update(extra or {})
        r = r_of(m)
        if not np.all(np.isfinite(r)) or abs(r[0]) == 0:
            return
        cond = np.linalg.cond(toeplitz_h(r, order))
        if not cond < COND_MAX:
            STATS['skipped_ill_conditioned'] += 1
            return
        STATS['cond_max_compared'] = max(STATS['cond_max_compared'], float(cond))
        out.append(mk_case(m, clause, cmp_est(abs(r[0]))))

    # --- estimators on signals (computed autocorrelation)
    n_sig = 200 if not big else 4000
    for i in range(n_sig):
        kind = KINDS[i % 4]
        N = int(nrng.choice([16, 17, 31, 32, 64, 100, 128, 256] + ([512, 1000, 2048, 4096] if big else [])))
        x = gen_signal(nrng, N, kind)
        cplx = 'complex' in kind
        order = int(nrng.randint(1, min(16, N // 4) + 1))
        for op in ('ldx', 'ywx'):
            est_case(op, x, order, cplx, 'est/%s/computed/%s' % (op[:2].upper(), kind), {'psd_valid': True})
        if i % 3 == 0:
            nl = int(nrng.randint(1, min(N, 12) + 1))
            m = {'op': 'autocorr', 'nl': nl, 'data': clist(x), 'cplx': cplx}
            out.append(mk_case(m, 'autocorr/' + ('complex' if cplx else 'real'), cmp_groups('c')))
    # --- estimators with a supplied autocorrelation
    n_sup = 200 if not big else 4000
    for i in range(n_sup):
        sub = i % 3
        cplx = bool(nrng.rand() < 0.6)
        order = int(nrng.randint(2, 9)) if cplx else int(nrng.randint(1, 9))   # complex + order >= 2: conjugation slips show
        scale = float(nrng.choice([1.0, 1.0, 1e-12, 1e6]))                     # tiny / large covariances
        if sub == 0:      # exact autocovariance of a drawn stable process -> exact recovery
            ak = stable_coefs(nrng, order, cplx, 0.85)
            sig = float(nrng.uniform(0.2, 3.0))
            r = exact_autocov(ak, sig, order + 1 + int(nrng.randint(0, 3)))
            r[0] = r[0].real
            extra = {'true_ak': clist(ak), 'true_sigma': sig, 'psd_valid': True}
            tag = 'exact'
        elif sub == 1:    # unbiased autocorrelation of a signal (may be indefinite: no stability claim)
            N = int(nrng.choice([32, 64, 128]))
            x = gen_signal(nrng, N, 'coloured-complex' if cplx else 'coloured-real')
            r = direct_autocorr(x, order + 1) * N / (N - np.arange(order + 1))
            extra, tag = {}, 'unbiased'
        else:             # biased autocorrelation of another signal, longer than needed
            N = int(nrng.choice([32, 64, 128]))
            x = gen_signal(nrng, N, 'complex' if cplx else 'real')
            r = direct_autocorr(x, order + 3)
            r[0] = r[0].real
            extra, tag = {'psd_valid': True}, 'biased'
        if not cplx:
            r = r.real.astype(float)
        r = r * scale
        if 'true_sigma' in extra:
            extra['true_sigma'] = extra['true_sigma'] * scale
        for op in ('ld', 'yw'):
            est_case(op, r, order, cplx, 'est/%s/supplied/%s' % (op.upper(), tag), extra)
    # --- stability clause: Toeplitz form = Gram form (binary64 and exact), AR_est_LD vs the exact-rational model
    def filt(kind, p, cplx, x):
        if kind == 'random':
            c = nrng.randn(p + 1) + (1j * nrng.randn(p + 1) if cplx else 0)
        elif kind == 'sparse':
            c = np.zeros(p + 1, dtype=complex)
            c[int(nrng.randint(0, p + 1))] = nrng.choice([1.0, -2.0, 0.5])
            if p >= 2 and nrng.rand() < 0.5:
                c[int(nrng.randint(0, p + 1))] += (1j if cplx else 1.0)
            if not np.any(c):
                c[p] = 1.0
        elif kind == 'leading-zero':
            c = nrng.randn(p + 1) + (1j * nrng.randn(p + 1) if cplx else 0)
            c[:int(nrng.randint(1, p + 1)) if p >= 1 else 0] = 0
            if not np.any(c):
                c[p] = 1.0
        else:   # prediction-error filter of the oracle's own dense Yule-Walker solution: the form is sigma
            r = direct_autocorr(x, p + 1)
            a = np.linalg.solve(toeplitz_h(r, p), r[1:p + 1]) if p >= 1 else np.zeros(0)
            c = np.r_[1.0, -a]
        return np.asarray(c, dtype=complex)

    FK = ['random', 'sparse', 'leading-zero', 'prediction-error']
    n_gram = 48 if not big else 600
    for i in range(n_gram):
        kind = KINDS[i % 4]
        N = int(nrng.choice([8, 16, 17, 32, 64] + ([128, 256] if big else [])))
        x = gen_signal(nrng, N, kind)
        cplx = 'complex' in kind
        p = int(nrng.randint(0, min(8, N - 1) + 1))
        fk = FK[(i // 4) % 4]
        c = filt(fk, p, cplx, x)
        if not (np.all(np.isfinite(c)) and np.any(c) and np.any(x)):
            continue
        scale = float(np.sum(np.abs(c)) ** 2 * np.sum(np.abs(x) ** 2) / N)
        m = {'op': 'gram', 'order': p, 'data': clist(x), 'c': clist(c), 'cplx': cplx, 'scale': scale}
        out.append(mk_case(m, 'gram/float/%s/%s' % (kind, fk), cmp_gram(scale, False)))

    def int_signal(N, cplx, den):
        hi = int(nrng.choice([1, 3, 8, 100]))
        xi = nrng.randint(-hi, hi + 1, 2 * N)
        if not cplx:
            xi[1::2] = 0
        if not np.any(xi):
            xi[0] = 1
        if nrng.rand() < 0.25:          # leading / trailing zero samples: lowest non-zero index > 0
            z = int(nrng.randint(1, max(2, N // 3)))
            xi[:2 * z] = 0
            if not np.any(xi):
                xi[-2] = 1
        x = (xi[0::2] + 1j * xi[1::2]) / float(den)
        return [int(v) for v in xi], x

    n_gq = 40 if not big else 500
    for i in range(n_gq):
        cplx = bool(i % 2)
        den = int(nrng.choice([1, 2, 16]))
        N = int(nrng.choice([1, 2, 3, 5, 8, 16, 24] + ([40] if big else [])))
        xi, x = int_signal(N, cplx, den)
        p = int(nrng.randint(0, 7)) if i % 5 else int(N + nrng.randint(0, 3))      # every 5th: order >= N
        ci = nrng.randint(-4, 5, 2 * (p + 1))
        if not cplx:
            ci[1::2] = 0
        if i % 3 == 0 and p >= 1:
            ci[:2 * int(nrng.randint(1, p + 1))] = 0
        if not np.any(ci):
            ci[-2] = 1
        c = (ci[0::2] + 1j * ci[1::2]) / float(den)
        scale = float(np.sum(np.abs(c)) ** 2 * np.sum(np.abs(x) ** 2) / N)
        m = {'op': 'gramq', 'order': p, 'den': den, 'xints': ','.join(map(str, xi)), 'cints': ','.join(str(int(v)) for v in ci),
             'data': clist(x), 'c': clist(c), 'cplx': cplx, 'scale': scale}
        out.append(mk_case(m, 'gram/exact/%s/%s' % ('complex' if cplx else 'real', 'order>=N' if p >= N else 'order<N'), cmp_gram(scale, True)))

    n_lq = 40 if not big else 400
    for i in range(n_lq):
        cplx = bool(i % 2)
        den = int(nrng.choice([1, 4]))
        N = int(nrng.choice([8, 12, 16, 24, 32]))
        xi, x = int_signal(N, cplx, den)
        order = int(nrng.randint(1, min(6, N // 4) + 1))
        m = {'op': 'ldq', 'order': order, 'den': den, 'xints': ','.join(map(str, xi)), 'data': clist(x), 'cplx': cplx, 'psd_valid': True}
        r = direct_autocorr(x, order + 1)
        cond = np.linalg.cond(toeplitz_h(r, order))
        if not cond < COND_MAX:
            STATS['skipped_ill_conditioned'] += 1
            continue
        out.append(mk_case(m, 'est/LD/exact-rational/%s' % ('complex' if cplx else 'real'), cmp_ldq(abs(r[0]), float(cond))))
    # --- AR_psd
    n_psd = 120 if not big else 800
    for i in range(n_psd):
        cplx = bool(i % 2)
        one = bool((i // 2) % 2)
        nf = int(nrng.choice([1, 2, 3, 4, 5, 8, 9, 16, 33, 64] + ([255, 1024] if big else [])))   # incl. grids coarser than the order
        p = int(nrng.randint(1, 9))
        ak = stable_coefs(nrng, p, cplx, 0.9)
        sig = float(nrng.choice([1.0, 0.5, 2.0, nrng.uniform(0.01, 10)]))
        m = {'op': 'psd', 'one': one, 'nf': nf, 'sigma': sig, 'ak': clist(ak), 'cplx': cplx}
        out.append(mk_case(m, 'psd/%s/%s' % ('onesided' if one else 'twosided', 'odd' if nf % 2 else 'even'), cmp_groups('ff')))
    # --- ar_generator
    n_gen = 90 if not big else 500
    for i in range(n_gen):
        cplx = bool(i % 3 == 2)
        p = int(nrng.randint(1, 7))
        co = stable_coefs(nrng, p, cplx, 0.9)
        drop = int(nrng.choice([0, 0, 3, 10]))
        N = int(nrng.choice([1, 2, 3, 8, 20, 50] + ([512] if big else [])))     # incl. fewer samples than coefficients
        v = nrng.randn(N + drop) + (1j * nrng.randn(N + drop) if cplx else 0)
        sig = float(nrng.choice([1.0, 2.0, 0.25, nrng.uniform(0.1, 5)]))
        m = {'op': 'gen', 'drop': drop, 'sigma': sig, 'coefs': clist(co), 'v': clist(v), 'cplx': cplx}
        out.append(mk_case(m, 'gen/' + ('complex' if cplx else 'real'), cmp_groups('cc')))
    structured_cases(common.np_rng(PID, seed, 'structured'), big, out, est_case)
    session3_cases(nrng, big, out, est_case)
    seen = {}
    for c in out:                       # round 2: a sample of the estimator cases of every clause also goes through the
        k = (c.meta['op'], c.clause)    # refused-call family and the aliasing checks (oracle side only)
        if c.meta['op'] in ('ldx', 'ywx', 'ld', 'yw') and seen.setdefault(k, 0) < (1 if not big else 4):
            seen[k] += 1
            c.meta['l7'] = True
    out += rerun_cases(nrng, out, big)
    return out


# ------------------------------------------------------------------ wave 6: structured exact inputs
def structured_cases(nrng, big, out, est_case):
    """exact autocovariance sequences with a prescribed partial-correlation pattern, built in exact rational arithmetic from
    dyadic numbers (`ar_exact.scalar_from_pacf`): white, ONE lag only (seasonal AR: a_k != 0 only for k = s, s = 2, 3, 4),
    leading / intermediate / trailing zeros, lags 1 and 4, every other lag; complex seasonal sequences r(sk) = beta^k r(0);
    for both estimators with the sequence supplied (`rxx=`), `AR_est_LD` also against the model in exact arithmetic (op
    ldrq), `AR_psd` on the sparse coefficient sets, and both estimators on zero-stuffed signals (computed path)."""
    import ar_exact
    n = 36 if not big else 400
    for i in range(n):
        kind = ar_exact.SCALAR_KINDS[i % len(ar_exact.SCALAR_KINDS)]
        order = int(nrng.randint(2, 9)) if i % 7 else 1
        blk = ar_exact.scalar_block(nrng, order, kind)
        r = np.array([float(m_[0][0]) for m_ in blk['R']])
        exact = ar_exact.is_exact(blk['R'])
        ak = np.array([float(c_[0][0]) for c_ in blk['C']])
        sig = float(blk['V'][0][0])
        pw = int(nrng.choice([0, 0, -30, 17]))
        r = r * 2.0 ** pw
        extra = {'true_ak': clist(ak), 'true_sigma': sig * 2.0 ** pw, 'psd_valid': True, 'struct': 'pacf ' + kind, 'exact_input': bool(exact)}
        for op in ('ld', 'yw'):
            est_case(op, r, order, False, 'est/%s/supplied/structured/%s' % (op.upper(), kind), extra)
        cond = np.linalg.cond(toeplitz_h(r.astype(complex), order))
        if cond < COND_MAX:
            den, ints = ar_exact.dyadic_ints(r)
            m = dict(extra, op='ldrq', order=order, den=den, rints=','.join('%d,0' % v for v in ints), data=clist(r), cplx=False)
            out.append(mk_case(m, 'est/LD/supplied/structured/%s/exact-arithmetic' % kind, cmp_ldq(abs(r[0]), float(cond))))
        # the model spectrum of the sparse coefficient set
        nf = int(nrng.choice([4, 5, 8, 9, 16, 33]))
        m = {'op': 'psd', 'one': bool(i % 2), 'nf': nf, 'sigma': sig, 'ak': clist(ak), 'cplx': False}
        out.append(mk_case(m, 'psd/structured/%s/%s' % ('onesided' if i % 2 else 'twosided', 'odd' if nf % 2 else 'even'), cmp_groups('ff')))
    # complex seasonal sequences: r(sk) = beta^k r(0), every other lag exactly zero
    for i in range(12 if not big else 100):
        s_ = int(nrng.choice([2, 3, 4]))
        order = int(nrng.randint(s_, 9))
        beta = complex(int(nrng.randint(-3, 4)) / 8.0, int(nrng.choice([-3, -2, -1, 1, 2, 3])) / 8.0)
        r0 = float(nrng.choice([1.0, 2.0, 0.5]))
        r = np.zeros(order + 1, complex)
        r[0] = r0
        for k in range(s_, order + 1, s_):
            r[k] = beta * r[k - s_]
        ak = np.zeros(order, complex)
        ak[s_ - 1] = beta
        extra = {'true_ak': clist(ak), 'true_sigma': r0 * (1 - abs(beta) ** 2), 'psd_valid': True, 'struct': 'complex seasonal s=%d' % s_}
        for op in ('ld', 'yw'):
            est_case(op, r, order, True, 'est/%s/supplied/structured/complex-seasonal' % op.upper(), extra)
        den, ints = ar_exact.dyadic_ints(np.c_[r.real, r.imag].reshape(-1))
        cond = np.linalg.cond(toeplitz_h(r, order))
        m = dict(extra, op='ldrq', order=order, den=den, rints=','.join(str(v) for v in ints), data=clist(r), cplx=True)
        out.append(mk_case(m, 'est/LD/supplied/structured/complex-seasonal/exact-arithmetic', cmp_ldq(abs(r[0]), float(cond))))
    # zero-stuffed signals: the computed autocorrelation vanishes (up to the FFT's round-off) at every lag not a multiple of s
    for i in range(8 if not big else 60):
        s_ = int(nrng.choice([2, 3, 4]))
        cplx = bool(i % 2)
        N = int(nrng.choice([32, 64, 100]))
        x0 = gen_signal(nrng, N, 'coloured-complex' if cplx else 'coloured-real')
        x = np.zeros(N * s_, x0.dtype)
        x[::s_] = x0
        order = int(nrng.randint(s_, 2 * s_ + 2))
        for op in ('ldx', 'ywx'):
            est_case(op, x, order, cplx, 'est/%s/computed/structured/zero-stuffed' % op[:2].upper(), {'psd_valid': True})


# ------------------------------------------------------------------ session 3: input families, options, boundaries, histories
def int_rxx_enabled():
    """integer-typed SUPPLIED autocorrelation arrays make the unchanged AR_est_LD return truncated coefficients
    (finding est/LD/supplied/int-dtype/*, proposed_fixes/C10-ld-integer-rxx.diff).  The cases are generated once the
    finding is registered in known_findings.json (status known -> KNOWN-FINDING; status fixed -> must pass)."""
    import json, os
    if os.environ.get('VERIF_C10_INT_RXX'):         # builder's switch for trying the cases before the finding is registered
        return True
    try:
        d = json.load(open(os.path.join(os.path.dirname(os.path.dirname(os.path.abspath(__file__))), 'known_findings.json')))
        return any(f.get('property') == 'C10' and 'supplied/int-dtype' in str(f.get('key', '')) for f in d.get('findings', []))
    except Exception:  # noqa
        return False


def session3_cases(nrng, big, out, est_case):
    reps = 1 if not big else 6
    SIG_KINDS = ['int16', 'int32', 'int64', 'float32', 'complex64', 'strided', 'readonly', 'bigendian']
    for rep in range(reps):
        # --- L1: signals in other representations (computed autocorrelation), both estimators, helper, Gram identity
        for kind in SIG_KINDS:
            cplx = kind == 'complex64' or (kind in ('strided', 'readonly') and rep % 2 == 1)
            N = int(nrng.choice([32, 64, 100]))
            x = gen_signal(nrng, N, 'complex' if cplx else 'real')
            x = x / (np.abs(x).max() or 1.0) * 3.0
            x = ar_fam.prepare(x, kind)
            order = int(nrng.randint(1, 4))
            r = direct_autocorr(x, order + 1)
            cond = float(np.linalg.cond(toeplitz_h(r, order)))
            if ar_fam.lowp(kind) and not cond < 20:
                continue
            k = ar_fam.tol_factor(kind) * max(1.0, cond if ar_fam.lowp(kind) else 1.0)
            for op in ('ldx', 'ywx'):
                m = {'op': op, 'order': order, 'data': clist(x), 'cplx': cplx, 'dt': kind, 'psd_valid': True}
                out.append(mk_case(m, 'est/%s/computed/dtype/%s' % (op[:2].upper(), kind), cmp_est(abs(r[0]), k)))
            m = {'op': 'autocorr', 'nl': int(nrng.randint(1, 9)), 'data': clist(x), 'cplx': cplx, 'dt': kind}
            out.append(mk_case(m, 'autocorr/dtype/' + kind, cmp_groups('c', rtol=1e-9 * ar_fam.tol_factor(kind))))
        # --- L1: supplied autocorrelation in other representations (big-endian is not generated: scipy.linalg.solve
        #     itself misreads non-native byte order); integer arrays: see int_rxx_enabled
        rkinds = ['float32', 'complex64', 'strided', 'readonly'] + (['int32', 'int64'] if int_rxx_enabled() else [])
        for kind in rkinds:
            cplx = kind == 'complex64' or (kind in ('strided', 'readonly') and rep % 2 == 0)
            order = int(nrng.randint(2, 5))
            x = gen_signal(nrng, 64, 'complex' if cplx else 'real')
            x = x / (np.abs(x).max() or 1.0)
            r = direct_autocorr(x, order + 2)
            r[0] = r[0].real
            if not cplx:
                r = r.real.astype(float)
            if kind in ar_fam.INT_KINDS:
                r = np.round(r / abs(r[0]) * 1000.0)            # e.g. unnormalised integer lag sums of integer counts
            r = ar_fam.prepare(r, kind) if kind not in ar_fam.INT_KINDS else r
            cond = float(np.linalg.cond(toeplitz_h(r, order)))
            if not cond < 20:
                continue
            k = ar_fam.tol_factor(kind) * (cond if ar_fam.lowp(kind) else 1.0)
            tag = 'int-dtype' if kind in ar_fam.INT_KINDS else 'dtype/' + kind
            for op in ('ld', 'yw'):
                m = {'op': op, 'order': order, 'data': clist(r), 'cplx': cplx, 'dt': kind, 'psd_valid': True}
                if rep % 2 == 0 and kind == 'readonly':
                    m['xalso'] = True
                out.append(mk_case(m, 'est/%s/supplied/%s' % (op.upper(), tag), cmp_est(abs(r[0]), k)))
        # --- L2: programs of calls on ONE supplied array (every order of the two estimators)
        for calls in (['LY', 'YL', 'LLY', 'LYL', 'YLL', 'YYL', 'LYLY'] if rep == 0 else ['LY', 'YLY', 'LLYY']):
            cplx = bool(nrng.rand() < 0.5)
            order = int(nrng.randint(1, 6))
            x = gen_signal(nrng, 64, 'coloured-complex' if cplx else 'coloured-real')
            r = direct_autocorr(x, order + 1 + int(nrng.randint(0, 3)))
            r[0] = r[0].real
            if not cplx:
                r = r.real.astype(float)
            r = r * float(nrng.choice([1.0, 1e-12, 1e6, 37.5]))
            if not np.linalg.cond(toeplitz_h(r, order)) < 1e3:
                continue
            m = {'op': 'seq', 'order': order, 'calls': calls, 'data': clist(r), 'cplx': cplx, 'psd_valid': True}
            out.append(mk_case(m, 'est/program/' + calls, cmp_seq(abs(r[0]))))
        # --- round 2 (L7): programs with REFUSED calls (order beyond the sequence: the code raises part-way) between accepted ones
        for pat in ('L{p},L{big},L{p}', 'Y{big},L{p},Y{p}', 'L{big},Y{big},L{q},Y{p}', 'L{p},Y{n},L{n},Y{q}'):
            cplx = bool(nrng.rand() < 0.5)
            order = int(nrng.randint(2, 6))
            x = gen_signal(nrng, 64, 'coloured-complex' if cplx else 'coloured-real')
            r = direct_autocorr(x, order + 1)
            r[0] = r[0].real
            if not cplx:
                r = r.real.astype(float)
            r = r * float(nrng.choice([1.0, 1e-12, 1e6]))
            if not np.linalg.cond(toeplitz_h(r, order)) < 1e3:
                continue
            calls = pat.format(p=order, q=order - 1, n=order + 1, big=order + int(nrng.randint(2, 9)))
            m = {'op': 'seqe', 'order': order, 'calls': calls, 'data': clist(r), 'cplx': cplx, 'psd_valid': True}
            out.append(mk_case(m, 'est/program-with-refusals', cmp_seqe(abs(r[0]))))
        # --- L3: keyword arguments of the covariance helpers (axis, all_lags, debias, normalize), 1-d and 2-d inputs
        t = 0
        for fn in ('autocorr', 'autocov'):
            for (deb, nrm, alll) in [(0, 1, 0), (1, 1, 0), (0, 0, 0), (1, 0, 1), (0, 1, 1), (1, 1, 1)]:
                if fn == 'autocorr' and deb:
                    continue
                t += 1
                cplx = bool(t % 2)
                N = int(nrng.choice([5, 8, 16, 33]))
                x = gen_signal(nrng, N, 'complex' if cplx else 'real')
                x = x / (np.abs(x).max() or 1.0) + (0.5 if t % 3 == 0 else 0.0)
                lay = ['1d', 'rows', 'cols'][t % 3]
                m = {'op': 'acopt', 'fn': fn, 'debias': deb, 'normalize': nrm, 'all_lags': alll, 'nl': int(nrng.randint(1, N + 1)),
                     'data': clist(x), 'cplx': cplx, 'layout': lay, 'row': int(nrng.randint(0, 3)), 'explicit': bool(t % 4 == 0),
                     'axis_default': bool(lay == 'rows' and t % 2 == 0)}
                if t % 5 == 0:
                    m['dt'] = 'readonly'
                out.append(mk_case(m, 'helper/%s/%s%s%s/%s' % (fn, 'debias' if deb else 'raw', '' if nrm else '-unnormalised', '-all_lags' if alll else '', lay),
                                   cmp_groups('c')))
        # --- L3: AR_psd with n_freqs / sides left at their defaults, integer sigma_v, coefficient arrays in other representations
        for t, kind in enumerate([None, 'float32', 'readonly', 'strided', 'int64', None]):
            cplx = False
            p = int(nrng.randint(1, 6))
            ak = stable_coefs(nrng, p, cplx, 0.85)
            if kind == 'int64':
                ak = np.zeros(p)
                ak[-1] = 0.0
            elif kind:
                ak = ar_fam.prepare(ak, kind)
            m = {'op': 'psd', 'one': bool(t % 2 == 0), 'nf': [1024, 2, 3, 1, 16, 1024][t], 'sigma': [1.0, 2.0, 0.5, 3.0, 4.0, 2.0][t], 'ak': clist(ak),
                 'cplx': cplx, 'dt': kind}
            if m['nf'] == 1024:
                m['nf_default'] = True
            if t == 0:
                m['sides_default'] = True
            if t in (1, 3, 4):
                m['sigint'] = True
            out.append(mk_case(m, 'psd/options/%s' % (kind or 'defaults'), cmp_groups('ff', rtol=1e-9 * ar_fam.tol_factor(kind))))
        # --- L1/L3: ar_generator: default coefficients / sigma / drop_transients, integer sigma, other representations
        for t, (kc, kv) in enumerate([(None, None), ('float32', None), ('readonly', 'readonly'), (None, 'int64'), ('strided', 'float32'), ('int64', 'strided')]):
            p = int(nrng.randint(1, 5))
            co = stable_coefs(nrng, p, False, 0.85)
            drop = int([0, 3, 0, 5, 0, 2][t])
            N = int(nrng.choice([3, 8, 20]))
            v = nrng.randn(N + drop)
            m = {'op': 'gen', 'drop': drop, 'sigma': float([1.0, 2.0, 4.0, 0.25, 1.0, 9.0][t]), 'cplx': False, 'dt': kc, 'dtv': kv}
            if t == 0:
                m.update(coefs_default=True, sigma_default=True, drop_default=True)
                co = np.array(DEFAULT_COEFS)
            if kc == 'int64':
                co = np.array([1.0, 0.0][:p] + [0.0] * max(0, p - 2))        # u[n] = u[n-1] + v[n]: a random walk is a valid recursion
            elif kc:
                co = ar_fam.prepare(co, kc)
            if kv == 'int64':
                v = np.round(v * 5)
            elif kv:
                v = ar_fam.prepare(v, kv)
            if t in (2, 5):
                m['sigint'] = True
            m.update(coefs=clist(co), v=clist(v))
            out.append(mk_case(m, 'gen/options/%s+%s' % (kc or 'f8', kv or 'f8'), cmp_groups('cc', rtol=1e-9 * ar_fam.tol_factor(kc, kv))))
        # --- L4: amplitudes 1e-150 .. 1e150 (autocorrelations 1e-300 .. 1e300) and nearly singular systems
        for t, amp in enumerate([1e-150, 1e150, 1e-100, 1e100, 1e-40, 1e40]):
            cplx = bool(t % 2)
            N = int(nrng.choice([32, 64]))
            x = gen_signal(nrng, N, 'coloured-complex' if cplx else 'coloured-real')
            x = x / (np.abs(x).max() or 1.0) * amp
            order = int(nrng.randint(1, 5))
            pw = 300 if amp < 1 else -300
            n0 = len(out)
            for op in ('ldx', 'ywx'):
                est_case(op, x, order, cplx, 'est/%s/computed/amplitude' % op[:2].upper(), {'psd_valid': True, 'pow2': pw})
            r = direct_autocorr(x / amp, order + 1) * amp * amp
            r[0] = r[0].real
            if not cplx:
                r = r.real.astype(float)
            for op in ('ld', 'yw'):
                est_case(op, r, order, cplx, 'est/%s/supplied/amplitude' % op.upper(), {'psd_valid': True, 'pow2': 2 * pw})
        for t in range(4):
            # a sinusoid in very little noise: toeplitz(R) is positive definite with a condition number up to ~1e8
            N = 128
            f0 = float(nrng.uniform(0.05, 0.4))
            x = np.cos(2 * np.pi * f0 * np.arange(N) + 0.3) + float(nrng.choice([1e-2, 3e-3, 1e-3])) * nrng.randn(N)
            order = 2 + t % 2
            r = direct_autocorr(x, order + 1).real
            cond = float(np.linalg.cond(toeplitz_h(r, order)))
            if not cond < 1e9:
                STATS['skipped_ill_conditioned'] += 1
                continue
            k = max(1.0, cond * 1e-3)
            for op in ('ldx', 'ywx'):
                m = {'op': op, 'order': order, 'data': clist(x), 'cplx': False, 'psd_valid': True}
                out.append(mk_case(m, 'est/%s/computed/near-singular' % op[:2].upper(), cmp_est(abs(r[0]), k)))


def perturb(nrng):
    """L2 perturbation phase: the entry points with other option values; everything handed out is overwritten
    (a call that raises here is not this phase's business)"""
    try:
        _perturb(nrng)
    except Exception:  # noqa
        pass


def _perturb(nrng):
    import histories, warnings
    warnings.simplefilter('ignore')
    ar, ut = mods()
    x = nrng.randn(48)
    z = nrng.randn(48) + 1j * nrng.randn(48)
    held = []
    for sig in (x, z, np.round(x * 20).astype('int32'), x.astype('float32')):
        held += [ut.autocorr(sig), ut.autocov(sig), ut.autocorr(sig, all_lags=True), ut.autocov(sig, debias=False, normalize=False)]
        held += [ar.AR_est_LD(sig, 3), ar.AR_est_YW(sig, 2)]
    rxx = ut.autocorr(x)
    held += [ar.AR_est_LD(None, 4, rxx=rxx), ar.AR_est_YW(None, 4, rxx=rxx), ar.AR_est_LD(None, 2, rxx=rxx)]
    held += [ar.AR_psd(np.array([0.5, -0.2]), 2.0), ar.AR_psd(np.array([0.5, -0.2]), 2.0, n_freqs=7, sides='twosided')]
    held += [ut.ar_generator(N=16, v=nrng.randn(16)), ut.ar_generator(N=8, sigma=2.0, coefs=np.array([0.3]), drop_transients=4, v=nrng.randn(12))]
    histories.scribble(held)


def rerun_cases(nrng, sofar, big):
    """L2: after all ordinary cases and the perturbation phase a sample of them is evaluated AGAIN on fresh argument
    objects: same protocol line, so the implementation must return what the model returns, as before"""
    perturb(nrng)
    groups = {}
    for c in sofar:
        groups.setdefault((c.meta['op'], c.clause.split('/')[1] if '/' in c.clause else ''), []).append(c)
    out = []
    for key in sorted(groups):
        lst = groups[key]
        for c in lst[::max(1, len(lst) // (2 if not big else 10))][:2 if not big else 10]:
            out.append(Case(c.line, run_impl(c.meta), c.clause + '/rerun', cmp=c.cmp, meta=c.meta, nontrivial=False))
    return out


def oracle(rng, tier, seed, focus, cases=None):
    fails, n = [], 0
    for c in (cases or []):
        n += 1
        f = judge(c.meta, c.impl, c.clause)
        if f:
            f.case = c
            fails.append(f)
    st = {'judged': n, 'failed': len(fails), 'focus': len(focus)}
    st.update(STATS)
    return fails, st


def replay(d):
    m = d['meta']
    return judge(m, run_impl(m), d['clause'])
