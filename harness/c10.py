"""C10 — autoregressive estimates solve the Yule–Walker equations of the data.

Correspondence: AR_est_LD / AR_est_YW (computed and supplied autocorrelation), utils.autocorr,
AR_psd (both sides, both parities) and utils.ar_generator (supplied noise) on the real code vs the
Lean model `Nitime.C10` run at complex binary64 (the same definitions the theorems instantiate at ℂ).
Oracle (independent of the Lean model): dense numpy — Toeplitz residual, sigma formula, agreement
of the two estimators, numpy.roots stability certificate, exact recovery from the exact
autocovariance of a drawn stable AR process, the spectrum formula on the returned grid, and the
simulator's recursion on the returned arrays.
"""
import numpy as np
from common import Case, Failure, clist, parse_clist, flist, parse_flist, call, close_vec

PID = 'C10'
LEAN_TARGETS = ['Nitime.Props.C10']
RULE = ('every routine is also run in call sequences on the same argument objects (>=3 evaluations in mixed order, results scribbled over, arrays refilled in place; C12: several live analyzers read in interleaved order); cases from one PRNG state: signals real / complex / strongly coloured (AR-filtered noise, pole radius to 0.97), '
        'N in 16..256 (quick) or ..4096 (thorough), orders 1..min(16,N/4); estimators LD and YW with computed and supplied '
        '(biased, unbiased, exact-AR) autocorrelation; AR_psd for sides x parity x real/complex stable coefficient sets; '
        'ar_generator with supplied noise and dropped transients (incl. fewer samples than coefficients); amplitude scales 1e-12..1e6; grids coarser than the order; distinct = distinct protocol line; '
        'ill-conditioned Toeplitz systems (cond > 1e5) are skipped and counted')
ASSUMPTIONS = ['order >= 1 and at least order+1 autocorrelation lags are available (the code indexes rxx[1])',
               'every number the recursion divides by is non-zero (hypothesis DivisorsOK of the theorems); ill-conditioned cases skipped and counted',
               'R(0) is real (true for autocorr output; supplied sequences are generated with a real lag-0 term)',
               'stability (roots inside the unit circle) is NOT proved: per-run numpy.roots certificate on every estimate from a biased autocorrelation',
               'sigma_v >= 0 in AR_psd (sqrt of a real number)']
TRUSTED_EXTRA = [
    'Float (complex binary64) instance of the Scalar-polymorphic model approximates the ℂ instance the theorems are about (unproved; bounded by the 1e-9 comparison)',
    'scipy.signal.fftconvolve modelled as the direct lagged sum (autocorrDirect); compared on every run',
    'scipy.linalg.toeplitz(c) modelled as the Hermitian Toeplitz matrix with first column c (toepEntry)',
    'scipy.linalg.solve modelled by the contract IsSolution (T·a = y); the driver uses Gauss–Jordan elimination Mat.solveVec, whose correctness is not proved, only compared',
    'scipy.signal.freqz(b, a, worN=n, whole) modelled as the ratio of polynomials in exp(-1j·w_k), w_k = k·(π|2π)/n (scipy default include_nyquist=False)',
    'scipy.signal.lfilter modelled as the direct-form recursion lfilter1 with a[0] = 1',
]

STATS = {'skipped_ill_conditioned': 0, 'cond_max_compared': 0.0}
COND_MAX = 1e5


def mods():
    import nitime.algorithms.autoregressive as ar
    import nitime.utils as ut
    return ar, ut


# ------------------------------------------------------------------ helpers (oracle side: dense numpy)
def direct_autocorr(x, nl):
    x = np.asarray(x)
    n = len(x)
    return np.array([np.sum(x[k:] * np.conj(x[:n - k])) / n for k in range(nl)])


def toeplitz_h(r, p):
    T = np.empty((p, p), dtype=complex)
    for k in range(p):
        for i in range(p):
            T[k, i] = r[k - i] if i <= k else np.conj(r[i - k])
    return T


def stable_coefs(nrng, p, cplx, rmax):
    if cplx:
        poles = nrng.uniform(0.1, rmax, p) * np.exp(1j * nrng.uniform(-np.pi, np.pi, p))
    else:
        poles = []
        while len(poles) < p:
            if p - len(poles) >= 2 and nrng.rand() < 0.7:
                z = nrng.uniform(0.1, rmax) * np.exp(1j * nrng.uniform(0, np.pi))
                poles += [z, np.conj(z)]
            else:
                poles.append(nrng.uniform(-rmax, rmax))
        poles = np.array(poles)
    c = np.poly(poles)
    ak = -c[1:]
    return ak if cplx else ak.real


def exact_autocov(ak, sigma, nl):
    """autocovariance of the AR process with coefficients ak, innovation variance sigma (impulse response)"""
    from scipy.signal import lfilter
    L = 6000
    imp = np.zeros(L, dtype=complex)
    imp[0] = 1.0
    h = lfilter([1.0], np.r_[1, -np.asarray(ak, dtype=complex)], imp)
    return np.array([sigma * np.sum(h[k:] * np.conj(h[:L - k])) for k in range(nl)])


def gen_signal(nrng, N, kind):
    if kind == 'real':
        sc = nrng.choice([1.0, 10.0, 1e-3, 1e-6])
        return nrng.randn(N) * sc + nrng.choice([0.0, 0.0, 0.5]) * sc
    if kind == 'complex':
        return (nrng.randn(N) + 1j * nrng.randn(N)) * nrng.choice([1.0, 5.0, 1e-6])
    from scipy.signal import lfilter
    cplx = kind == 'coloured-complex'
    p = nrng.randint(1, 5)
    ak = stable_coefs(nrng, p, cplx, 0.97)
    v = nrng.randn(N + 200) + (1j * nrng.randn(N + 200) if cplx else 0)
    return lfilter([1.0], np.r_[1, -ak], v)[200:] * nrng.choice([1.0, 1.0, 1e-6, 1e3])


KINDS = ['real', 'complex', 'coloured-real', 'coloured-complex']


# ------------------------------------------------------------------ implementation adapter
def canon_est(res):
    a, s = res
    return 'ok %s %s' % (clist(np.asarray(a).reshape(-1)), clist([complex(s)]))


def run_impl(m):
    ar, ut = mods()
    op = m['op']
    if op in ('ldx', 'ywx', 'ld', 'yw'):
        fn = ar.AR_est_LD if op.startswith('ld') else ar.AR_est_YW
        data = np.array(parse_clist(m['data']))
        if not m['cplx']:
            data = data.real.copy()
        # the observed value is the SECOND of two calls on the same argument objects (a pure function
        # gives the same thing; state left behind by the first call shows up in the correspondence)
        if op.endswith('x'):
            return call(lambda: (fn(data, m['order']), canon_est(fn(data, m['order'])))[1])
        return call(lambda: (fn(None, m['order'], rxx=data), canon_est(fn(None, m['order'], rxx=data)))[1])
    if op == 'autocorr':
        data = np.array(parse_clist(m['data']))
        if not m['cplx']:
            data = data.real.copy()
        return call(lambda: 'ok ' + clist(ut.autocorr(data)[:m['nl']]))
    if op == 'psd':
        ak = np.array(parse_clist(m['ak']))
        if not m['cplx']:
            ak = ak.real.copy()

        def f():
            w, p = ar.AR_psd(ak, m['sigma'], n_freqs=m['nf'], sides='onesided' if m['one'] else 'twosided')
            return 'ok %s %s' % (flist(w), flist(p))
        return call(f)
    if op == 'gen':
        co = np.array(parse_clist(m['coefs']))
        v = np.array(parse_clist(m['v']))
        if not m['cplx']:
            co, v = co.real.copy(), v.real.copy()

        def f():
            u, vv, c = ut.ar_generator(N=len(v) - m['drop'], sigma=m['sigma'], coefs=co, drop_transients=m['drop'], v=v)
            return 'ok %s %s' % (clist(u), clist(vv))
        return call(f)
    raise ValueError(op)


def line_of(m):
    op = m['op']
    if op in ('ldx', 'ywx', 'ld', 'yw'):
        return 'C10 %s %d %s' % (op, m['order'], m['data'])
    if op == 'autocorr':
        return 'C10 autocorr %d %s' % (m['nl'], m['data'])
    if op == 'psd':
        return 'C10 psd %d %d %s %s' % (1 if m['one'] else 0, m['nf'], clist([m['sigma']]), m['ak'])
    if op == 'gen':
        return 'C10 gen %d %s %s %s' % (m['drop'], clist([m['sigma']]), m['coefs'], m['v'])


def parse_groups(s):
    """'ok g1 g2' -> list of numpy complex/real arrays (complex lists), or None"""
    if not s.startswith('ok '):
        return None
    return s.split()[1:]


def cmp_est(scale_r0):
    def f(impl, model):
        a, b = parse_groups(impl), parse_groups(model)
        if a is None or b is None:
            return impl == model
        ai, si = parse_clist(a[0]), parse_clist(a[1])
        am, sm = parse_clist(b[0]), parse_clist(b[1])
        fl = lambda zs: [t for z in zs for t in (z.real, z.imag)]
        return close_vec(fl(ai), fl(am), 1e-9, 1e-300) and close_vec(fl(si), fl(sm), 0.0, 1e-9 * scale_r0)
    return f


def cmp_groups(kinds, rtol=1e-9):
    def f(impl, model):
        a, b = parse_groups(impl), parse_groups(model)
        if a is None or b is None or len(a) != len(b):
            return impl == model
        for k, x, y in zip(kinds, a, b):
            if k == 'c':
                fl = lambda zs: [t for z in zs for t in (z.real, z.imag)]
                if not close_vec(fl(parse_clist(x)), fl(parse_clist(y)), rtol, 1e-300):
                    return False
            else:
                if not close_vec(parse_flist(x), parse_flist(y), rtol, 1e-300):
                    return False
        return True
    return f


# ------------------------------------------------------------------ the property, judged on the implementation
def r_of(m):
    """autocorrelation sequence the estimate is about (oracle's own direct computation)"""
    data = np.array(parse_clist(m['data']))
    if m['op'].endswith('x'):
        return direct_autocorr(data, m['order'] + 1)
    return data[:m['order'] + 1]


def judge_value(m, impl, clause):
    """Failure or None.  `impl` is the canonical implementation result for meta `m`."""
    ar, ut = mods()
    op = m['op']

    def fail(sym, what):
        return Failure('%s/%s' % (clause, sym), '%s: %s [op %s order=%s]' % (clause, what, op, m.get('order')),
                       {'meta': m, 'clause': clause})
    g = parse_groups(impl)
    if g is None:
        return fail('raises', 'valid input rejected: ' + impl)
    if op in ('ldx', 'ywx', 'ld', 'yw'):
        p = m['order']
        a = np.array(parse_clist(g[0]))
        s = parse_clist(g[1])[0]
        r = r_of(m)
        T = toeplitz_h(r, p)
        y = r[1:p + 1]
        cond = np.linalg.cond(T)
        scale = np.abs(T).sum(axis=1).max() * max(np.abs(a).max(), 1e-300) + np.abs(y).max()
        if len(a) != p:
            return fail('shape', 'returned %d coefficients for order %d' % (len(a), p))
        if not np.all(np.isfinite(a)):
            return fail('nonfinite', 'non-finite coefficients')
        res = np.abs(T.dot(a) - y).max()
        if res > 1e-9 * scale * max(1.0, cond * 1e-3):
            return fail('normal-equations', 'Toeplitz residual %.3g (scale %.3g, cond %.3g)' % (res, scale, cond))
        want = (r[0] - np.sum(a * np.conj(r[1:p + 1])))
        tol = 1e-9 * abs(r[0]) * max(1.0, cond * 1e-3)
        if abs(s.imag) > 0 or abs(s.real - want.real) > tol or abs(want.imag) > tol * 10:
            return fail('sigma', 'sigma %r, R(0)-sum a_k conj R(k) = %r' % (s, want))
        if m.get('psd_valid'):
            if not s.real > 0:
                return fail('sigma-positive', 'sigma %r not positive for a valid autocorrelation' % (s,))
            roots = np.roots(np.r_[1, -a])
            if len(roots) and np.abs(roots).max() >= 1 + 1e-9:
                return fail('stability', 'fitted model has a root of modulus %.6f' % np.abs(roots).max())
        # the two estimators agree
        other = ar.AR_est_YW if op.startswith('ld') else ar.AR_est_LD
        data = np.array(parse_clist(m['data']))
        if not m['cplx']:
            data = data.real.copy()
        try:
            a2, s2 = other(data, p) if op.endswith('x') else other(None, p, rxx=data)
        except Exception as e:  # noqa
            return fail('agree', 'the other estimator raised %r' % (e,))
        tola = 1e-9 * max(np.abs(a).max(), 1e-300) * max(1.0, cond)
        if np.abs(np.asarray(a2) - a).max() > tola or abs(complex(s2) - s) > tol * 10:
            return fail('agree', 'LD and YW differ: max |da| = %.3g, d sigma = %.3g' % (np.abs(np.asarray(a2) - a).max(), abs(complex(s2) - s)))
        if 'true_ak' in m:
            ta = np.array(parse_clist(m['true_ak']))
            if np.abs(ta - a).max() > 1e-7 * max(np.abs(ta).max(), 1.0) * max(1.0, cond * 1e-2):
                return fail('recovery', 'exact autocovariance of a stable AR process: coefficients off by %.3g' % np.abs(ta - a).max())
            if abs(s - m['true_sigma']) > 1e-7 * m['true_sigma'] * max(1.0, cond * 1e-2):
                return fail('recovery-sigma', 'innovation variance %r, true %r' % (s, m['true_sigma']))
        return None
    if op == 'autocorr':
        got = np.array(parse_clist(g[0]))
        want = direct_autocorr(np.array(parse_clist(m['data'])), m['nl'])
        if len(got) != len(want) or np.abs(got - want).max() > 1e-9 * np.abs(want).max():
            return fail('value', 'autocorr differs from (1/N) sum x[n+k] conj x[n] by %.3g' % np.abs(got - want).max())
        return None
    if op == 'psd':
        w = np.array(parse_flist(g[0]))
        psd = np.array(parse_flist(g[1]))
        ak = np.array(parse_clist(m['ak']))
        n_exp = m['nf'] // 2 + 1 if m['one'] else m['nf']
        if len(w) != len(psd) or len(w) != n_exp:
            return fail('shape', 'grid/psd lengths %d/%d, expected %d' % (len(w), len(psd), n_exp))
        den = 1 - sum(ak[k] * np.exp(-1j * w * (k + 1)) for k in range(len(ak)))
        want = m['sigma'] / np.abs(den) ** 2 * (2 if m['one'] else 1)
        if np.abs(psd - want).max() > 1e-9 * np.abs(want).max():
            return fail('formula', 'psd differs from %ssigma/|1-sum a e^{-iwk}|^2 on the returned grid by %.3g (max %.3g)' % (
                '2*' if m['one'] else '', np.abs(psd - want).max(), np.abs(want).max()))
        return None
    if op == 'gen':
        u = np.array(parse_clist(g[0]))
        v = np.array(parse_clist(g[1]))
        co = np.array(parse_clist(m['coefs']))
        P = len(co)
        n_exp = len(parse_clist(m['v'])) - m['drop']
        if len(u) != n_exp or len(v) != n_exp:
            return fail('shape', 'returned lengths %d/%d, expected %d' % (len(u), len(v), n_exp))
        worst, sc = 0.0, max(np.abs(u).max(), 1e-300)
        # without dropped transients the first P samples obey the recursion from a zero state as well
        for n in range(0 if m['drop'] == 0 else P, len(u)):
            pred = sum(co[k] * u[n - 1 - k] for k in range(min(n, P))) + np.sqrt(m['sigma']) * v[n]
            worst = max(worst, abs(pred - u[n]))
        if worst > 1e-9 * sc:
            return fail('recursion', 'u[n] - sum a_k u[n-k] - sqrt(sigma) v[n] = %.3g (scale %.3g)' % (worst, sc))
        return None
    return None


def sequence_judge(m, clause):
    """the routines behave like pure functions of their arguments: the same argument OBJECTS are used
    for every call of a schedule (>= 3 evaluations per routine, both estimators interleaved), results
    must be bitwise identical, arguments bit-for-bit unchanged, returned arrays must not alias
    internal state, and a refilled array must give what a fresh copy gives"""
    import ar_seq
    ar, ut = mods()
    op = m['op']

    def fail(sym):
        return Failure('%s/sequence/%s' % (clause, sym), '%s: call sequence on the same argument objects: %s [op %s]' % (clause, sym, op),
                       {'meta': m, 'clause': clause})
    cx = lambda k: (np.array(parse_clist(m[k])) if m['cplx'] else np.array(parse_clist(m[k])).real.copy())
    if op in ('ldx', 'ywx', 'ld', 'yw'):
        data = cx('data')
        p = m['order']
        if op.endswith('x'):
            rt = {'LD': lambda: ar.AR_est_LD(data, p), 'YW': lambda: ar.AR_est_YW(data, p)}
        else:
            rt = {'LD': lambda: ar.AR_est_LD(None, p, rxx=data), 'YW': lambda: ar.AR_est_YW(None, p, rxx=data)}
        first = 'LD' if op.startswith('ld') else 'YW'
        other = 'YW' if first == 'LD' else 'LD'
        syms = ar_seq.run_schedule(rt, [first, other, first, other, other, first], [data])
        if not syms:
            data2 = data[::-1].copy() * 0.5 + data.mean()
            fn = (lambda arr, o: (ar.AR_est_LD if first == 'LD' else ar.AR_est_YW)(arr, o)) if op.endswith('x') else \
                 (lambda arr, o: (ar.AR_est_LD if first == 'LD' else ar.AR_est_YW)(None, o, rxx=arr))
            if op.endswith('x') or np.linalg.cond(toeplitz_h(data2, p)) < COND_MAX:
                syms = ar_seq.refill_check(fn, data, data2, [p, max(1, p - 1)])
    elif op == 'autocorr':
        data = cx('data')
        syms = ar_seq.run_schedule({'autocorr': lambda: ut.autocorr(data)}, ['autocorr'] * 3, [data])
        if not syms:
            syms = ar_seq.refill_check(lambda arr, _: ut.autocorr(arr), data, data[::-1].copy() + 1.0, [0])
    elif op == 'psd':
        ak = cx('ak')
        sides = 'onesided' if m['one'] else 'twosided'
        syms = ar_seq.run_schedule({'psd': lambda: ar.AR_psd(ak, m['sigma'], n_freqs=m['nf'], sides=sides)}, ['psd'] * 3, [ak])
        if not syms:
            syms = ar_seq.refill_check(lambda arr, nf: ar.AR_psd(arr, m['sigma'], n_freqs=nf, sides=sides), ak, ak * 0.5, [m['nf'], m['nf'] + 1])
    elif op == 'gen':
        co, v = cx('coefs'), cx('v')
        rt = {'gen': lambda: ut.ar_generator(N=len(v) - m['drop'], sigma=m['sigma'], coefs=co, drop_transients=m['drop'], v=v)}
        syms = ar_seq.run_schedule(rt, ['gen'] * 3, [co, v])
    else:
        syms = []
    return fail(syms[0]) if syms else None


def judge(m, impl, clause):
    return judge_value(m, impl, clause) or sequence_judge(m, clause)


# ------------------------------------------------------------------ generators
def mk_case(m, clause, cmp, nontrivial=True):
    return Case(line_of(m), run_impl(m), clause, cmp=cmp, meta=m, nontrivial=nontrivial)


def cases(rng, tier, seed):
    import common
    nrng = common.np_rng(PID, seed, 'cases')
    big = tier == 'thorough'
    out = []
    STATS['skipped_ill_conditioned'] = 0
    STATS['cond_max_compared'] = 0.0

    def est_case(op, data, order, cplx, clause, extra=None):
        m = {'op': op, 'order': int(order), 'data': clist(data), 'cplx': bool(cplx)}
        m.update(extra or {})
        r = r_of(m)
        if not np.all(np.isfinite(r)) or abs(r[0]) == 0:
            return
        cond = np.linalg.cond(toeplitz_h(r, order))
        if not cond < COND_MAX:
            STATS['skipped_ill_conditioned'] += 1
            return
        STATS['cond_max_compared'] = max(STATS['cond_max_compared'], float(cond))
        out.append(mk_case(m, clause, cmp_est(abs(r[0]))))

    # --- estimators on signals (computed autocorrelation)
    n_sig = 200 if not big else 4000
    for i in range(n_sig):
        kind = KINDS[i % 4]
        N = int(nrng.choice([16, 17, 31, 32, 64, 100, 128, 256] + ([512, 1000, 2048, 4096] if big else [])))
        x = gen_signal(nrng, N, kind)
        cplx = 'complex' in kind
        order = int(nrng.randint(1, min(16, N // 4) + 1))
        for op in ('ldx', 'ywx'):
            est_case(op, x, order, cplx, 'est/%s/computed/%s' % (op[:2].upper(), kind), {'psd_valid': True})
        if i % 3 == 0:
            nl = int(nrng.randint(1, min(N, 12) + 1))
            m = {'op': 'autocorr', 'nl': nl, 'data': clist(x), 'cplx': cplx}
            out.append(mk_case(m, 'autocorr/' + ('complex' if cplx else 'real'), cmp_groups('c')))
    # --- estimators with a supplied autocorrelation
    n_sup = 200 if not big else 4000
    for i in range(n_sup):
        sub = i % 3
        cplx = bool(nrng.rand() < 0.6)
        order = int(nrng.randint(2, 9)) if cplx else int(nrng.randint(1, 9))   # complex + order >= 2: conjugation slips show
        scale = float(nrng.choice([1.0, 1.0, 1e-12, 1e6]))                     # tiny / large covariances
        if sub == 0:      # exact autocovariance of a drawn stable process -> exact recovery
            ak = stable_coefs(nrng, order, cplx, 0.85)
            sig = float(nrng.uniform(0.2, 3.0))
            r = exact_autocov(ak, sig, order + 1 + int(nrng.randint(0, 3)))
            r[0] = r[0].real
            extra = {'true_ak': clist(ak), 'true_sigma': sig, 'psd_valid': True}
            tag = 'exact'
        elif sub == 1:    # unbiased autocorrelation of a signal (may be indefinite: no stability claim)
            N = int(nrng.choice([32, 64, 128]))
            x = gen_signal(nrng, N, 'coloured-complex' if cplx else 'coloured-real')
            r = direct_autocorr(x, order + 1) * N / (N - np.arange(order + 1))
            extra, tag = {}, 'unbiased'
        else:             # biased autocorrelation of another signal, longer than needed
            N = int(nrng.choice([32, 64, 128]))
            x = gen_signal(nrng, N, 'complex' if cplx else 'real')
            r = direct_autocorr(x, order + 3)
            r[0] = r[0].real
            extra, tag = {'psd_valid': True}, 'biased'
        if not cplx:
            r = r.real.astype(float)
        r = r * scale
        if 'true_sigma' in extra:
            extra['true_sigma'] = extra['true_sigma'] * scale
        for op in ('ld', 'yw'):
            est_case(op, r, order, cplx, 'est/%s/supplied/%s' % (op.upper(), tag), extra)
    # --- AR_psd
    n_psd = 120 if not big else 800
    for i in range(n_psd):
        cplx = bool(i % 2)
        one = bool((i // 2) % 2)
        nf = int(nrng.choice([1, 2, 3, 4, 5, 8, 9, 16, 33, 64] + ([255, 1024] if big else [])))   # incl. grids coarser than the order
        p = int(nrng.randint(1, 9))
        ak = stable_coefs(nrng, p, cplx, 0.9)
        sig = float(nrng.choice([1.0, 0.5, 2.0, nrng.uniform(0.01, 10)]))
        m = {'op': 'psd', 'one': one, 'nf': nf, 'sigma': sig, 'ak': clist(ak), 'cplx': cplx}
        out.append(mk_case(m, 'psd/%s/%s' % ('onesided' if one else 'twosided', 'odd' if nf % 2 else 'even'), cmp_groups('ff')))
    # --- ar_generator
    n_gen = 90 if not big else 500
    for i in range(n_gen):
        cplx = bool(i % 3 == 2)
        p = int(nrng.randint(1, 7))
        co = stable_coefs(nrng, p, cplx, 0.9)
        drop = int(nrng.choice([0, 0, 3, 10]))
        N = int(nrng.choice([1, 2, 3, 8, 20, 50] + ([512] if big else [])))     # incl. fewer samples than coefficients
        v = nrng.randn(N + drop) + (1j * nrng.randn(N + drop) if cplx else 0)
        sig = float(nrng.choice([1.0, 2.0, 0.25, nrng.uniform(0.1, 5)]))
        m = {'op': 'gen', 'drop': drop, 'sigma': sig, 'coefs': clist(co), 'v': clist(v), 'cplx': cplx}
        out.append(mk_case(m, 'gen/' + ('complex' if cplx else 'real'), cmp_groups('cc')))
    return out


def oracle(rng, tier, seed, focus, cases=None):
    fails, n = [], 0
    for c in (cases or []):
        n += 1
        f = judge(c.meta, c.impl, c.clause)
        if f:
            f.case = c
            fails.append(f)
    st = {'judged': n, 'failed': len(fails), 'focus': len(focus)}
    st.update(STATS)
    return fails, st


def replay(d):
    m = d['meta']
    return judge(m, run_impl(m), d['clause'])
