"""Fork server for C13/C14 process-level experiments.

Started once per check by harness/onetime_sessions.py.  It imports nitime (and the harness helpers) and then NEVER
builds an analyzer itself: every request (one JSON line on stdin) is executed in a forked child, i.e. in a process
whose class-level and module-level state is exactly the state right after `import nitime.analysis`.  That is what
"a fresh object in a fresh process" means for the session oracle (a per-class table of one-time attribute names, a
module-level default dict, a memo on a module ... cannot leak from one experiment into the next, nor into a reference
value).  One JSON line per answer on stdout.
"""
import os, sys, json, traceback

HERE = os.path.dirname(os.path.abspath(__file__))
sys.path.insert(0, HERE)
sys.path.insert(0, os.environ.get('NITIME_REPO', '/repo'))


def main():
    import warnings
    warnings.simplefilter('ignore')
    import numpy  # noqa
    import nitime.timeseries, nitime.analysis, nitime.descriptors  # noqa
    import common, onetime_common, onetime_sessions as S  # noqa
    onetime_common.tables()          # pure AST work, done once here instead of in every child
    S.preload_lazy_imports()
    out = sys.stdout
    sys.stdout = sys.stderr            # nitime prints; keep the protocol channel clean
    out.write('ready\n')
    out.flush()
    for line in sys.stdin:
        line = line.strip()
        if not line:
            continue
        r, w = os.pipe()
        pid = os.fork()
        if pid == 0:
            os.close(r)
            try:
                res = S.serve(json.loads(line))
            except BaseException as e:  # noqa
                res = {'error': '%s: %s' % (type(e).__name__, e), 'tb': traceback.format_exc()[-2000:]}
            try:
                data = json.dumps(res, default=str).encode()
            except Exception as e:  # noqa
                data = json.dumps({'error': 'unserialisable result: %r' % e}).encode()
            with os.fdopen(w, 'wb') as f:
                f.write(data)
            os._exit(0)
        os.close(w)
        chunks = []
        with os.fdopen(r, 'rb') as f:
            while True:
                b = f.read(65536)
                if not b:
                    break
                chunks.append(b)
        os.waitpid(pid, 0)
        data = b''.join(chunks).decode() or json.dumps({'error': 'child died without an answer'})
        out.write(data.replace('\n', ' ') + '\n')
        out.flush()


if __name__ == '__main__':
    main()
