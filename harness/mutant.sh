#!/bin/bash
# Self-test helper: apply one patch to a scratch copy of /repo and run a check against it.
#   harness/mutant.sh <patch.diff> <Cxx> [quick|thorough]
# The scratch copy lives outside /repo and /verif and is removed afterwards.
set -u
PATCH=$(readlink -f "$1"); PID=$2; TIER=${3:-quick}
S=$(mktemp -d /tmp/nt_mut_XXXXXX)
rsync -a --exclude .git "${SWEEP_BASE:-/repo}/" "$S/"
if ! (cd "$S" && patch -p1 --no-backup-if-mismatch -s < "$PATCH"); then echo "PATCH DOES NOT APPLY"; rm -rf "$S"; exit 3; fi
cd "$(dirname "$0")/.."
# isolated copy of the Lean project (with its build output) so that files regenerated from the
# mutant never disturb checks running against the real tree
cp -a lean "$S.lean"
NITIME_REPO="$S" VERIF_LEAN="$S.lean" VERIF_EVIDENCE_DIR="$S.ev" ./check "$PID" "$TIER"; RC=$?
rm -rf "$S" "$S.lean" "$S.ev"
echo "mutant exit code: $RC"
exit $RC
