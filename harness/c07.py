"""C07 — Slepian tapers; the tridiagonal solver underneath (claimed PARTIAL by design).

Proved (lean/Nitime/Props/C07.lean): the solver solves its system over any field
(`tridisolve_solves`), the loop bodies in `_utils.pyx` and in the pure-Python fallback are the
model's (`generated_eq_model_*`), sign convention, Rayleigh identity of the concentration,
rescaling, low-bias selection.
NOT proved, decided per run by certificates only (counted separately in the evidence under
`oracle.certificate_checks`): Slepian's commutation, simplicity/ordering of the spectrum,
convergence of the inverse iteration, LAPACK.

Correspondence:
  tridisolve  random symmetric tridiagonal systems through (i) compiled nitime._utils,
              (ii) the pure-Python fallback of utils.py (module re-executed with the compiled
              import blocked), (iii) a .so rebuilt from the tree's _utils.c in a scratch dir,
              all against the model at Float; the fallback also on Fraction arrays against the
              model at Rat (exact).
  dpss        (N, NW, K) grid: the real `dpss_windows` output is passed through the driver which
              evaluates the certificates at Float (Gram error, sinc-kernel eigen-residual,
              concentration, ordering, range, sign convention); model `fixSigns` on randomly
              re-flipped rows must give back the real output; model `concentration`,
              `interpBranch` (linear), `lowBias` against the real values.
Oracle (numpy / scipy / Fractions, never the Lean model): dense solve; scipy.signal.windows.dpss
as the independent reference; dense Gram / sinc-matrix residuals; sign rules restated.
"""
import os, sys, atexit, shutil, subprocess, tempfile, importlib.util, importlib.machinery
from fractions import Fraction as Fr
import numpy as np
import blas1  # noqa: one BLAS thread (oversubscribed machines: 9 s per small dense solve otherwise)
import common
from common import Case, Failure, f2x, flist, parse_flist, close_vec

PID = 'C07'
LEAN_TARGETS = ['Nitime.Props.C07']
RULE = ('tridisolve: random symmetric tridiagonal systems (sizes 1..40 quick / ..300 thorough; diagonally dominant, '
        'random, and Slepian-shifted families; e of length N or N-1; both overwrite modes) x 3 solver forms + exact '
        'Fraction systems through the fallback; dpss: (N, NW, K) points with N in 8..256 (quick) / 8..4096 (thorough), both '
        'parities, NW in {1,1.5,..,8}, NW < N/4, K <= 2NW, plus interp_from / interp_kind options; distinct = distinct '
        'protocol line; non-trivial = right-hand side / taper not all zero; corners: zero-pivot points (11,2), (15,3.5), (29,7), (61,2.5), N = 4NW+1..+3, NW not a '
        'multiple of 0.5; every judged dpss_windows call comes after a seeded call HISTORY with the same (N, NW) (other interp_from / interp_kind / Kmax / NW / '
        'low_bias / NFFT values, every returned array overwritten in place) that the oracle and the replay redo; tridisolve operands also as float32 / int / '
        'big-endian / read-only / strided (refusal or the right solution); tridi_inverse_iteration with x0 omitted / other rtol')
ASSUMPTIONS = ['tridisolve: b non-empty, len(d) >= len(b), len(e) >= len(b)-1, pivots non-zero (theorem hypothesis; the '
               'generated systems keep |pivot| > 1e-3 of the diagonal scale, others are skipped and counted)',
               'Float instance of the polymorphic model approximates the field instance the theorem is about (unproved; 1e-9 comparison)',
               'dpss clauses "k-th eigenvector of the sinc kernel / ordering / range / agreement with the reference" are CERTIFICATE checks per run, not theorems']
TRUSTED_EXTRA = ['harness/translate_c07.py: a leading `if <test>: raise …` in tridisolve is read as a domain restriction (echoed as GUARD, not modelled)',
                 'harness/translate_c07.py: the stripping of Cython typing from _utils.pyx (cdef declarations, typed signature, xrange) before ast parsing',
                 'scipy.linalg.eigvals_banded (LAPACK) and the convergence of tridi_inverse_iteration: not modelled, monitored by residual certificates',
                 'scipy.signal.windows.dpss as independent reference; scipy.interpolate.interp1d(kind=linear) modelled by its documented semantics',
                 'np.sinc, np.sin, np.sqrt = the binary64 library functions used by the Float instance',
                 'a change to _utils.pyx alone is seen by the translator only (Cython is absent); the runtime forms are the shipped .so and the .so rebuilt from _utils.c']

REPO = common.REPO
_forms = {}
_scratch = []


def _cleanup():
    for d in _scratch:
        shutil.rmtree(d, ignore_errors=True)


atexit.register(_cleanup)


def form_compiled():
    import nitime._utils as cu
    return cu.tridisolve


def purepy_module():
    """nitime/utils.py of the tree under check, re-executed with `nitime._utils` blocked, so that
    its `except ImportError` branch defines the pure-Python tridisolve"""
    if 'purepy' not in _forms:
        import nitime  # noqa
        saved = sys.modules.get('nitime._utils', 'absent')
        sys.modules['nitime._utils'] = None
        try:
            spec = importlib.util.spec_from_file_location('dpf_purepy_utils', os.path.join(REPO, 'nitime', 'utils.py'))
            m = importlib.util.module_from_spec(spec)
            spec.loader.exec_module(m)
        finally:
            if saved == 'absent':
                del sys.modules['nitime._utils']
            else:
                sys.modules['nitime._utils'] = saved
        if getattr(m.tridisolve, '__module__', '') != 'dpf_purepy_utils':
            raise common.Infra('could not reach the pure-Python tridisolve')
        _forms['purepy'] = m
    return _forms['purepy']


def form_purepy():
    return purepy_module().tridisolve


def form_rebuilt():
    """a .so compiled from the tree's nitime/_utils.c in a scratch directory"""
    if 'rebuilt' not in _forms:
        import sysconfig
        d = tempfile.mkdtemp(prefix='dpf_so_')
        _scratch.append(d)
        so = os.path.join(d, '_utils.so')
        cmd = ['gcc', '-shared', '-fPIC', '-O2', '-w', '-I' + sysconfig.get_paths()['include'], '-I' + np.get_include(),
               os.path.join(REPO, 'nitime', '_utils.c'), '-o', so]
        try:
            p = subprocess.run(cmd, capture_output=True, text=True, timeout=600)
        except (OSError, subprocess.TimeoutExpired) as e:
            raise common.Infra('cannot rebuild _utils.c: %r' % e)
        if p.returncode != 0:
            _forms['rebuilt'] = None
            _forms['rebuilt_err'] = p.stderr[-400:]
        else:
            ld = importlib.machinery.ExtensionFileLoader('dpfrebuilt._utils', so)
            spec = importlib.util.spec_from_loader('dpfrebuilt._utils', ld)
            m = importlib.util.module_from_spec(spec)
            ld.exec_module(m)
            _forms['rebuilt'] = m.tridisolve
    return _forms['rebuilt']


FORMS = {'compiled': form_compiled, 'purepy': form_purepy, 'rebuilt': form_rebuilt}


# ------------------------------------------------------------------ tridisolve
def gen_system(nr, big):
    """(d, e, b) float arrays; pivots bounded away from zero by construction or by check"""
    fam = nr.choice(['dom', 'dom', 'rand', 'slepian', 'small'])
    N = int(nr.randint(1, 300 if big and nr.rand() < 0.3 else 41))
    if fam == 'small':
        N = int(nr.randint(1, 5))
    if fam == 'slepian':
        N = max(N, 4)
        n = np.arange(N, dtype='d')
        W = nr.choice([1, 1.5, 2, 3, 4]) / N / 2.0
        d = ((N - 1 - 2 * n) / 2.) ** 2 * np.cos(2 * np.pi * W)
        e = np.zeros(N)
        e[:-1] = n[1:] * (N - n[1:]) / 2.
        d = d - (d.max() + nr.uniform(0.5, 5.0) * N)      # shift off the spectrum: definite
    else:
        e = nr.uniform(-2, 2, N)
        if fam in ('dom', 'small'):
            d = (np.abs(e) + np.abs(np.r_[0, e[:-1]]) + nr.uniform(0.5, 3, N)) * nr.choice([-1, 1])
        else:
            d = nr.uniform(-4, 4, N)
    b = nr.uniform(-10, 10, N)
    if nr.rand() < 0.3 and N > 1:
        e = e[:-1].copy()                                  # superdiagonal only
    return d.astype('d'), e.astype('d'), b


def pivots_ok(d, e, b):
    N = len(b)
    dw = d[:N].astype('d').copy()
    scale = max(np.abs(d).max(), np.abs(e).max() if len(e) else 0, 1e-300)
    for k in range(1, N):
        if abs(dw[k - 1]) < 1e-3 * scale:
            return False
        dw[k] = dw[k] - e[k - 1] * e[k - 1] / dw[k - 1]
    return abs(dw[N - 1]) >= 1e-3 * scale


def run_tridi(form, d, e, b, overwrite):
    """call one solver form the way a user does; returns canonical string"""
    fn = FORMS[form]()
    if fn is None:
        return 'err not-built'
    d0, e0, b0 = d.copy(), e.copy(), b.copy()

    def go():
        if overwrite:
            r = fn(d0, e0, b0)          # default overwrite_b=True: solution left in b
            if r is not None:
                return 'returned-value-in-overwrite-mode'
            x = b0
        else:
            x = fn(d0, e0, b0, overwrite_b=False)
            if x is None:
                return 'returned-none'
            if not np.array_equal(b0, b):
                return 'b-mutated'
        if not (np.array_equal(d0, d) and np.array_equal(e0, e)):
            return 'input-mutated'
        # the same d, e arrays must serve a second solve (a form that aliases its work vectors onto the
        # caller's arrays is exposed here even if it restores nothing)
        b1 = b.copy()
        x2 = fn(d0, e0, b1, overwrite_b=False)
        if x2 is None or not np.array_equal(np.asarray(x2), np.asarray(x)):
            return 'second-solve-differs'
        if not (np.array_equal(d0, d) and np.array_equal(e0, e) and np.array_equal(b1, b)):
            return 'input-mutated'
        return 'ok ' + flist(x)
    return common.call(go)


def cmp_first(rtol):
    def cmp(impl, model):
        if not (impl.startswith('ok ') and model.startswith('ok ')):
            return impl == model
        try:
            return close_vec(parse_flist(impl.split()[1]), parse_flist(model.split()[1]), rtol=rtol)
        except Exception:
            return False
    return cmp


def fr_list(v):
    return ','.join(('%d/%d' % (x.numerator, x.denominator)) if x.denominator != 1 else str(x.numerator) for x in v) if len(v) else '-'


def gen_exact(rng):
    N = rng.randint(1, 7)
    e = [Fr(rng.randint(-4, 4), rng.choice([1, 1, 2, 3])) for _ in range(N)]
    d = [abs(e[i]) + (abs(e[i - 1]) if i else 0) + Fr(rng.randint(1, 6), rng.choice([1, 2, 5])) for i in range(N)]
    if rng.random() < 0.3:   # not dominant: pivots may vanish (then both sides must say so)
        d = [Fr(rng.randint(-3, 3), rng.choice([1, 2])) for _ in range(N)]
    b = [Fr(rng.randint(-9, 9), rng.choice([1, 1, 3, 7])) for _ in range(N)]
    return d, e, b


def run_exact(d, e, b):
    fn = form_purepy()
    da, ea, ba = (np.array(v, dtype=object) for v in (d, e, b))

    def go():
        x = fn(da, ea, ba, overwrite_b=False)
        return 'ok ' + fr_list(list(x))
    r = common.call(go)
    return 'err zero-pivot' if r == 'err ZeroDivisionError' else r


def exact_solve(d, e, b):
    """Gaussian elimination with Fractions on the dense matrix (oracle)"""
    N = len(b)
    A = [[Fr(0)] * N for _ in range(N)]
    for i in range(N):
        A[i][i] = d[i]
        if i + 1 < N:
            A[i][i + 1] = A[i + 1][i] = e[i]
    M = [row[:] + [b[i]] for i, row in enumerate(A)]
    for c in range(N):
        p = next((r for r in range(c, N) if M[r][c] != 0), None)
        if p is None:
            return None
        M[c], M[p] = M[p], M[c]
        for r in range(N):
            if r != c and M[r][c] != 0:
                f = M[r][c] / M[c][c]
                M[r] = [a - f * bb for a, bb in zip(M[r], M[c])]
    return [M[i][N] / M[i][i] for i in range(N)]


# ------------------------------------------------------------------ dpss
def admissible(rng, tier):
    big = tier == 'thorough'
    while True:
        c = rng.random()
        if c < 0.5:
            N = rng.randint(8, 64)
        elif c < 0.9 or not big:
            N = rng.randint(65, 256)
        else:
            N = rng.choice([511, 512, 1000, 1023, 1024, 2047, 2048, 4095, 4096]) if rng.random() < 0.7 else rng.randint(257, 4096)
        NW = rng.choice([1 + 0.5 * i for i in range(15)])
        c2 = rng.random()
        if c2 < 0.12:
            # neighbourhood of the singular case 4 NW = N (class L4): N = 4 NW + 1, + 2, + 3
            N = int(4 * NW) + rng.choice([1, 1, 2, 3])
            if N < 8:
                continue
        elif c2 < 0.2:
            NW = round(rng.uniform(1.0, 8.0), rng.choice([1, 2]))        # not a multiple of 0.5
        if not (4 * NW < N):
            continue
        K = int(2 * NW) if rng.random() < 0.5 else rng.randint(1, int(2 * NW))   # the last tapers are the delicate ones
        return N, NW, K


def utils_mod(via=None):
    if via == 'purepy':      # the re-executed utils.py whose tridisolve is the pure-Python fallback
        return purepy_module()
    import nitime.utils as u
    return u


def dpss_call(N, NW, K, via=None, **kw):
    u = utils_mod(via)
    import warnings
    with warnings.catch_warnings():
        warnings.simplefilter('ignore')      # the fallback divides numpy floats: a zero pivot warns instead of raising
        v, e = u.dpss_windows(N, NW, K, **kw)
    return np.asarray(v, dtype='d'), np.asarray(e, dtype='d')


# ------------------------------------------------------------------ process histories (class L2 / L6)
INTERP_KINDS = ['linear', 'nearest', 'zero', 'slinear', 'quadratic', 'cubic']


def _short_len(r, N, NW, K):
    """an admissible shorter length for interp_from (4 NW < M <= N, K <= M), or None"""
    lo = max(int(4 * NW) + 1, K + 1, 8)
    return r.randint(lo, N) if lo <= N else None


def history_ops(N, NW, K, hs, M=None, kind=None):
    """the PERTURBATION PHASE before a judged call: a deterministic (in N, NW, K, hs) list of JSON-able operations —
    every option variant of dpss_windows / tapered_spectra with the SAME (N, NW): interp_from with every interp_kind,
    Kmax larger / smaller / equal, Kmax as a float, NW as an int, a neighbouring NW, low_bias on and off.  Every array an
    operation returns is overwritten in place afterwards (a caller is free to do that with what it was handed).
    Judged call plain (M is None): an interpolated call with the judged (N, NW, K) comes first (a memo filled by the first
    request) and, often, last (a memo overwritten by the latest request); a plain call with MORE orders and one with the same K
    come in between (a memo that serves K <= cached orders / hands out its own buffers on a miss).
    Judged call interpolated (M, kind given): plain calls for (N, NW, K) and (M, NW, K), the same M with other kinds, another
    M with the same kind."""
    import random
    r = random.Random('hist/%d/%r/%d/%d/%r/%r' % (N, float(NW), K, hs, M, kind))
    ops = []
    kinds = list(INTERP_KINDS)
    r.shuffle(kinds)

    def interp(K_, kind_, M_=None):
        m = M_ if M_ is not None else _short_len(r, N, NW, K_)
        if m is not None:
            ops.append(['interp', K_, m, kind_])
    if M is None:
        interp(K, kinds[0])
        if K + 1 <= N:
            ops.append(['plain', float(NW), K + 1])
        interp(K - 1 if (K > 1 and r.random() < 0.5) else K + 1, kinds[1])
        for NW2 in r.sample([NW + 0.5, NW - 0.5, NW + 0.25], 2):
            if NW2 >= 0.75 and 4 * NW2 < N:
                ops.append(['plain', float(NW2), K])
        ops.append(['tapered', K, bool(r.random() < 0.5), r.choice([None, N, 2 * N, N // 2])])
        ops.append(['plainf', K])                      # Kmax as a float, NW as an int when integral (the analyzers pass 2*NW-1)
        ops.append(['refused', r.choice(['interp-from-too-long', 'bad-kind', 'kmax-too-large'])])      # class L7: a request that raises part-way
        if r.random() < 0.6:
            ops.append(['plain', float(NW), K])
        if r.random() < 0.7:
            interp(K, kinds[2])
        if r.random() < 0.3 and K > 1:
            ops.append(['plain', float(NW), K - 1])
    else:
        ops.append(['plain', float(NW), K])
        ops.append(['plain-short', M, K])
        for k2 in kinds[:2]:
            if k2 != kind:
                interp(K, k2, M)
        interp(K, kind)                                # another shorter length, same kind
        if K > 1:
            interp(K - 1, kind, M)
        ops.append(['plain', float(NW), K + 1 if K + 1 <= N else K])
        if r.random() < 0.5:
            interp(K, kind, M)                         # the judged request itself, scribbled
    return ops


def run_history(ops, N, NW, via=None, m_K=2):
    """execute the perturbation operations; every returned array is scribbled on; returns how many operations raised"""
    from histories import scribble
    import warnings
    u = utils_mod(via)
    raised = 0
    with warnings.catch_warnings():
        warnings.simplefilter('ignore')
        for op in ops:
            try:
                if op[0] == 'interp':
                    res = u.dpss_windows(N, NW, op[1], interp_from=op[2], interp_kind=op[3])
                elif op[0] == 'plain':
                    res = u.dpss_windows(N, op[1], op[2])
                elif op[0] == 'plain-short':
                    res = u.dpss_windows(op[1], NW, op[2])
                elif op[0] == 'plainf':
                    res = u.dpss_windows(N, int(NW) if float(NW) == int(NW) else NW, float(op[1]))
                elif op[0] == 'refused':
                    try:
                        if op[1] == 'interp-from-too-long':
                            u.dpss_windows(N, NW, m_K, interp_from=N + 5)
                        elif op[1] == 'bad-kind':
                            u.dpss_windows(N, NW, m_K, interp_from=max(8, N - 1), interp_kind='no-such-kind')
                        else:
                            u.dpss_windows(N, NW, N + 3)
                    except Exception:
                        pass
                    continue
                elif op[0] == 'tapered':
                    s = np.random.RandomState(N + op[1]).randn(2, N)
                    res = u.tapered_spectra(s, (NW, op[1]), NFFT=op[3], low_bias=op[2])
                else:
                    continue
                scribble(res)
            except Exception:
                raised += 1
    return raised


def reference_set(N, NW, K, M=None, kind=None):
    """independent reference for a request: scipy.signal.windows.dpss, interpolated (np.interp / interp1d) and rescaled
    when interp_from is given"""
    from scipy.signal.windows import dpss as ref_dpss
    if M is None:
        return np.atleast_2d(ref_dpss(N, NW, K))
    from scipy import interpolate as _ip
    rv = np.atleast_2d(ref_dpss(M, NW, K))
    xs, xi = np.arange(M), np.linspace(0, M - 1, N, endpoint=False)
    want = np.array([np.interp(xi, xs, row) if kind == 'linear' else _ip.interp1d(xs, row, kind=kind)(xi) for row in rv])
    return want / np.sqrt((want ** 2).sum(axis=1))[:, None]


def history_flags(N, NW, K, hs):
    """the model's memo object (`Model/C07Hist.lean`, discipline `today`) against the real call history: one event per
    dpss_windows request of the perturbation phase + the judged request, every result scribbled on after it was judged;
    flag 1 iff the answer is the recomputed (reference) value.  Returns (protocol line, impl string)"""
    from histories import scribble
    import nitime.utils as u
    import warnings
    evs, flags = [], []
    ops = [op for op in history_ops(N, NW, K, hs) if op[0] in ('interp', 'plain')] + [['plain', float(NW), K]]
    with warnings.catch_warnings():
        warnings.simplefilter('ignore')
        for op in ops:
            if op[0] == 'interp':
                K_, M_, kind_, NW_ = op[1], op[2], op[3], NW
                res = u.dpss_windows(N, NW, K_, interp_from=M_, interp_kind=kind_)
            else:
                NW_, K_, M_, kind_ = op[1], op[2], None, None
                res = u.dpss_windows(N, NW_, K_)
            want = reference_set(N, NW_, K_, M_, kind_)
            v = np.asarray(res[0], dtype='d')
            flags.append('1' if v.shape == want.shape and np.abs(v - want).max() <= 1e-6 else '0')
            req = '%d:%d:%d:%d:%d' % (N, int(round(NW_ * 100)), K_, M_ or 0, (INTERP_KINDS.index(kind_) + 1) if kind_ else 0)
            evs += ['c:' + req, 's:' + req]
            scribble(res)
    return 'C07 hist today ' + ' '.join(evs), 'ok ' + ','.join(flags)


def apply_history(m):
    """run the history a meta / replay dict names (key 'hist'), if any"""
    if m.get('hist') is None:
        return
    ops = history_ops(m['N'], m['NW'], m['K'], m['hist'], m.get('M'), m.get('interp') if 'M' in m else None)
    run_history(ops, m['N'], m['NW'], m.get('via'), m['K'])


def cmp_cert(impl, model):
    t = model.split()
    if len(t) != 7 or t[0] != 'ok':
        return False
    gram, res, conc = (common.x2f(x) for x in t[1:4])
    return gram <= 1e-7 and res <= 1e-7 and conc <= 1e-9 and t[4:] == ['1', '1', '1']


def cmp_two(rtol):
    def cmp(impl, model):
        a, b = impl.split(), model.split()
        if len(a) != len(b) or a[0] != b[0]:
            return False
        return all(close_vec(parse_flist(x), parse_flist(y), rtol=rtol) for x, y in zip(a[1:], b[1:]))
    return cmp


def cases(rng, tier, seed):
    big = tier == 'thorough'
    nr = common.np_rng(PID, seed, 'tridi')
    out = []
    # ---- tridisolve, binary64, three forms
    forms = ['compiled', 'purepy', 'rebuilt']
    skipped = 0
    nsys = 4000 if big else 220
    for i in range(nsys):
        d, e, b = gen_system(nr, big)
        if not pivots_ok(d, e, b):
            skipped += 1
            continue
        line = 'C07 tridif %s %s %s' % (flist(d), flist(e), flist(b))
        for form in forms:
            ow = bool(nr.rand() < 0.5)
            impl = run_tridi(form, d, e, b, ow)
            out.append(Case(line, impl, 'tridisolve/' + form, cmp=cmp_first(1e-9),
                            meta={'kind': 'tridi', 'form': form, 'overwrite': ow, 'd': flist(d), 'e': flist(e), 'b': flist(b)},
                            nontrivial=bool(np.any(b))))
    cases.skipped_ill_conditioned = skipped
    # ---- tridisolve, exact rationals through the fallback
    for i in range(2000 if big else 150):
        d, e, b = gen_exact(rng)
        impl = run_exact(d, e, b)
        out.append(Case('C07 tridiq %s %s %s' % (fr_list(d), fr_list(e), fr_list(b)), impl, 'tridisolve/purepy-exact',
                        cmp=lambda a, m: a.split()[:2] == m.split()[:2],
                        meta={'kind': 'tridiq', 'd': [str(x) for x in d], 'e': [str(x) for x in e], 'b': [str(x) for x in b]}))
    # ---- dpss grid
    pts, seen = [], set()
    want = 400 if big else 40
    # corners: smallest sizes, both parities, the zero-pivot points of the inverse iteration (the shift is an eigenvalue to
    # working precision: (11,2), (15,3.5), (29,7), (61,2.5), (31,7.5)), N = 4 NW + 1 / + 2, NW not a multiple of 0.5
    corners = [(8, 1, 2), (9, 1.5, 3), (11, 2, 4), (31, 7.5, 15), (64, 8, 16), (100, 2, 4), (33, 8, 16), (65, 4, 8), (1001, 3, 6),
               (15, 3.5, 7), (29, 7, 14), (61, 2.5, 5), (17, 4, 8), (18, 4, 8), (40, 2.3, 4), (20, 4.9, 9), (12, 2.99, 5)]
    if not big:
        corners = corners[:9] + rng.sample(corners[9:], 5)
    for corner in corners:
        pts.append(corner)
        seen.add(corner)
    while len(pts) < want:
        p = admissible(rng, tier)
        if p not in seen:
            seen.add(p)
            pts.append(p)
    import nitime.utils as u
    for (N, NW, K) in pts:
        # the judged call comes AFTER a perturbation phase with the same (N, NW) (class L2); the oracle and the replay redo it
        meta = {'kind': 'dpss', 'N': N, 'NW': NW, 'K': K, 'hist': rng.randint(0, 10 ** 6)}
        apply_history(meta)
        r = common.call(lambda: dpss_call(N, NW, K))
        if isinstance(r, str):
            out.append(Case('C07 cert %d %s %d - -' % (N, f2x(NW), K), r, 'dpss/certificates', meta=meta))
            continue
        v, e = r
        if N <= (1024 if big else 256):
            out.append(Case('C07 cert %d %s %d %s %s' % (N, f2x(NW), K, flist(v.ravel()), flist(e)), 'ok',
                            'dpss/certificates', cmp=cmp_cert, meta=meta))
        flips = np.array([rng.choice([1.0, -1.0]) for _ in range(K)])
        for k in range(1, K, 2):
            # the code's rule for odd tapers is vacuous when the largest extremum of the first half is the
            # first sample (empty slope sum): the sign is then whatever the iteration delivered; do not re-flip
            if int(np.argmax(np.abs(v[k, :N // 2]))) == 0:
                flips[k] = 1.0
        out.append(Case('C07 fixsigns %d %d %s' % (N, K, flist((v * flips[:, None]).ravel())), 'ok ' + flist(v.ravel()),
                        'dpss/signs', meta=dict(meta, flips=[float(f) for f in flips])))
        if N <= 4096:             # the model's autocorrelation sum is O(N^2), allocation free
            k = rng.randrange(K)
            out.append(Case('C07 conc %d %s %s' % (N, f2x(NW), flist(v[k])), 'ok ' + flist([e[k]]), 'dpss/concentration',
                            cmp=cmp_two(1e-9), meta=dict(meta, k=k)))
        if N <= 128 and len([1 for c_ in out if c_.clause == 'dpss/history-model']) < (12 if big else 4):
            rh = common.call(lambda: history_flags(N, NW, K, meta['hist']))
            if not isinstance(rh, str):
                out.append(Case(rh[0], rh[1], 'dpss/history-model', meta=meta))
        # low_bias selection through tapered_spectra
        s = common.np_rng(PID, seed, 'lb%d' % N).randn(N)
        r2 = common.call(lambda: u.tapered_spectra(s, (NW, K), low_bias=True))
        if isinstance(r2, str):
            impl = r2
        else:
            impl = 'ok %s %s' % (flist(r2[1]), flist(r2[1]))
        out.append(Case('C07 lowbias %s' % flist(e), impl, 'dpss/low_bias', meta=dict(meta, sub='lowbias')))
        # interpolation branch (linear) against the model, from the real short tapers
        if 48 <= N <= 4096 and 4 * NW < N // 2 and rng.random() < 0.5:
            M = rng.randint(max(int(4 * NW) + 1, N // 4), N - 1)
            mi = dict(meta, M=M, interp='linear')

            def both():
                short = dpss_call(M, NW, K)
                apply_history(mi)
                return short, dpss_call(N, NW, K, interp_from=M)
            r3 = common.call(both)
            if isinstance(r3, str):
                out.append(Case('C07 interp %d %d %d %s -' % (M, N, K, f2x(NW)), r3, 'dpss/interp-linear', meta=dict(meta, M=M, interp='linear')))
            else:
                (vs, _), (vi, ei) = r3
                out.append(Case('C07 interp %d %d %d %s %s' % (M, N, K, f2x(NW), flist(vs.ravel())),
                                'ok %s %s' % (flist(vi.ravel()), flist(ei)), 'dpss/interp-linear', cmp=cmp_two(1e-9),
                                meta=dict(meta, M=M, interp='linear')))
    return out


# ------------------------------------------------------------------ oracle (independent of the Lean model)
def fail(key, what, rep, case=None):
    return Failure(key, what, rep, case=case)


def check_tridi(m, case=None):
    d, e, b = (np.array(parse_flist(m[k])) for k in ('d', 'e', 'b'))
    r = run_tridi(m['form'], d, e, b, m['overwrite'])
    form = m['form']
    if not r.startswith('ok '):
        return fail('tridisolve/%s/%s' % (form, r.replace(' ', '-')), 'tridisolve (%s form, overwrite_b=%s) on a %d×%d system: %s' % (
            form, m['overwrite'], len(b), len(b), r), m, case)
    x = np.array(parse_flist(r.split()[1]))
    N = len(b)
    A = np.diag(d[:N]) + np.diag(e[:N - 1], 1) + np.diag(e[:N - 1], -1)
    ref = np.linalg.solve(A, b)
    resid = np.abs(A @ x - b).max()
    if not np.allclose(x, ref, rtol=1e-7, atol=1e-9 * max(1, np.abs(ref).max())) or resid > 1e-7 * max(1, np.abs(b).max()) * max(1, np.abs(A).max()):
        return fail('tridisolve/%s/wrong-solution' % form,
                    'tridisolve (%s form) does not solve its system: N=%d residual %.3g, max |x - dense solve| %.3g' % (
                        form, N, resid, np.abs(x - ref).max()), m, case)
    return None


def check_tridiq(m, case=None):
    d, e, b = ([Fr(s) for s in m[k]] for k in ('d', 'e', 'b'))
    r = run_exact(d, e, b)
    ref = exact_solve(d, e, b)
    if r.startswith('err'):
        # legitimate only when a leading principal minor vanishes (zero pivot without pivoting)
        N = len(b)
        dw = list(d)
        zero = False
        for k in range(1, N):
            if dw[k - 1] == 0:
                zero = True
                break
            dw[k] = dw[k] - e[k - 1] * e[k - 1] / dw[k - 1]
        zero = zero or dw[N - 1] == 0
        if zero:
            return None
        return fail('tridisolve/purepy-exact/raises', 'pure-Python tridisolve raised on a system with non-zero pivots: %s' % r, m, case)
    if ref is not None and r != 'ok ' + fr_list(ref):
        return fail('tridisolve/purepy-exact/wrong-solution', 'pure-Python tridisolve on Fractions: got %s, exact solution %s' % (r[3:], fr_list(ref)), m, case)
    return None


def sinc_matrix(N, W):
    k = np.arange(N)
    dmat = k[:, None] - k[None, :]
    with np.errstate(divide='ignore', invalid='ignore'):
        S = np.sin(2 * np.pi * W * dmat) / (np.pi * dmat)
    S[dmat == 0] = 2 * W
    return S


def first_lobe_positive(row):
    thr = 1e-9 * np.abs(row).max()
    nz = np.nonzero(np.abs(row) > thr)[0]
    return len(nz) > 0 and row[nz[0]] > 0


def check_dpss(m, certs, case=None):
    """all per-run certificates for one (N, NW, K[, interp]) point; certs counts checks done"""
    from scipy.signal.windows import dpss as ref_dpss
    N, NW, K = m['N'], m['NW'], m['K']
    rep = {k: m[k] for k in m if k in ('kind', 'N', 'NW', 'K', 'M', 'interp', 'sub', 'via', 'hist')}
    via = m.get('via')
    tag = 'N=%d NW=%s K=%d%s%s' % (N, NW, K, ' (through the pure-Python tridisolve)' if via else '',
                                 '' if m.get('hist') is None else ' after the call history #%d (other option values of dpss_windows / tapered_spectra '
                                 'with the same N, NW; every returned array overwritten in place)' % m['hist'])

    def c(name):
        certs[name] = certs.get(name, 0) + 1
    if m.get('sub') == 'lowbias':
        import nitime.utils as u
        apply_history(m)
        s = np.random.RandomState(N).randn(N)
        r = common.call(lambda: u.tapered_spectra(s, (NW, K), low_bias=True))
        if isinstance(r, str):
            return fail('dpss/low_bias/raises', 'tapered_spectra(low_bias=True) %s: %s' % (tag, r), rep, case)
        _, ratios = ref_dpss(N, NW, K, return_ratios=True)
        ratios = np.atleast_1d(ratios)
        c('low_bias')
        sure = np.abs(ratios - 0.9) > 1e-9
        want = int(np.sum(ratios > 0.9))
        if np.all(sure) and (len(r[1]) != want or r[0].shape[-2] != want or not np.all(r[1] > 0.9)):
            return fail('dpss/low_bias/selection', 'tapered_spectra(low_bias=True) %s keeps %d tapers (eigvals %s); %d reference concentrations exceed 0.9' % (
                tag, len(r[1]), np.round(r[1], 4).tolist(), want), rep, case)
        return None
    if 'M' in m:
        kind = m['interp']
        apply_history(m)
        r = common.call(lambda: dpss_call(N, NW, K, via=via, interp_from=m['M'], interp_kind=kind))
        if isinstance(r, str):
            return fail('dpss/interp/raises', 'dpss_windows(%s, interp_from=%d, %s): %s' % (tag, m['M'], kind, r), rep, case)
        v, e = r
        if v.shape != (K, N) or e.shape != (K,):
            return fail('dpss/interp/shape', 'dpss_windows(%s, interp_from=%d) returned shapes %s, %s' % (tag, m['M'], v.shape, e.shape), rep, case)
        c('interp_unit_norm')
        nrm = np.sqrt((v ** 2).sum(axis=1))
        if np.abs(nrm - 1).max() > 1e-10:
            return fail('dpss/interp/unit-norm', 'interpolated tapers (%s, interp_from=%d, kind=%s) have norms %s' % (tag, m['M'], kind, nrm.tolist()[:4]), rep, case)
        # independent reference: the reference tapers of the SHORT length, interpolated (np.interp for linear, interp1d
        # otherwise) and rescaled; concentrations = quadratic form of the sinc kernel
        c('interp_reference')
        from scipy import interpolate as _ip
        M = m['M']
        rv = np.atleast_2d(ref_dpss(M, NW, K))
        xs, xi = np.arange(M), np.linspace(0, M - 1, N, endpoint=False)
        want = np.array([np.interp(xi, xs, row) if kind == 'linear' else _ip.interp1d(xs, row, kind=kind)(xi) for row in rv])
        want = want / np.sqrt((want ** 2).sum(axis=1))[:, None]
        dv = np.abs(v - want).max()
        if dv > 1e-6:
            return fail('dpss/interp/reference', 'dpss_windows(%s, interp_from=%d, kind=%s) differs from the interpolated, rescaled reference tapers of length %d by %.3g' % (
                tag, M, kind, M, dv), rep, case)
        if N <= 2048:
            ce = np.einsum('ki,ij,kj->k', v, sinc_matrix(N, float(NW) / N), v)
            if np.abs(ce - e).max() > 1e-8:
                return fail('dpss/interp/concentration', 'dpss_windows(%s, interp_from=%d, kind=%s): returned concentrations differ from v^T Sinc_W v by %.3g' % (
                    tag, M, kind, np.abs(ce - e).max()), rep, case)
        return None
    apply_history(m)
    r = common.call(lambda: dpss_call(N, NW, K, via=via))
    if isinstance(r, str):
        if r == 'err ZeroDivisionError':
            return fail('dpss/inverse-iteration/zero-pivot', 'dpss_windows(%s) raises ZeroDivisionError: the inverse iteration shifts by the '
                        'computed eigenvalue and tridisolve meets an exactly zero last pivot' % tag, rep, case)
        return fail('dpss/raises/' + r.split()[-1], 'dpss_windows(%s): %s' % (tag, r), rep, case)
    v, e = r
    W = float(NW) / N
    if v.shape != (K, N) or e.shape != (K,):
        return fail('dpss/shape', 'dpss_windows(%s) returned shapes %s, %s' % (tag, v.shape, e.shape), rep, case)
    c('orthonormal')
    G = v @ v.T
    gerr = np.abs(G - np.eye(K)).max()
    if gerr > 1e-8:
        return fail('dpss/orthonormal', '%s: max |<v_i,v_j> - delta_ij| = %.3g' % (tag, gerr), rep, case)
    c('range')
    if not (np.all(e > 0) and np.all(e < 1 + 1e-9)):
        return fail('dpss/range', '%s: concentrations outside (0,1): %s' % (tag, e.tolist()), rep, case)
    c('ordering')
    if np.any(np.diff(e) > 1e-9):
        return fail('dpss/ordering', '%s: concentrations not non-increasing: %s' % (tag, e.tolist()), rep, case)
    if N <= 2048:
        c('eigen_residual')
        S = sinc_matrix(N, W)
        res = np.abs(S @ v.T - v.T * e[None, :]).max()
        if res > 1e-7:
            return fail('dpss/eigen-residual', '%s: max |Sinc_W v_k - lambda_k v_k| = %.3g' % (tag, res), rep, case)
        if N <= 512:
            c('kth_eigenvector')
            top = np.linalg.eigvalsh(S)[::-1][:K]
            if np.abs(top - e).max() > 1e-7:
                return fail('dpss/kth-eigenvalue', '%s: returned concentrations %s are not the %d largest eigenvalues %s of the sinc kernel' % (
                    tag, e.tolist(), K, top.tolist()), rep, case)
    # spectral-gap certificate for `inverse_iteration_step`: one solve with shift mu_k multiplies the component
    # along eigenvector i by 1/(lambda_i - mu_k); convergence to taper k needs |lambda_k - mu_k| << |lambda_i - mu_k|
    c('spectral_gap')
    from scipy.linalg import eigvalsh_tridiagonal, eigvals_banded
    nidx = np.arange(N, dtype='d')
    dg = ((N - 1 - 2 * nidx) / 2.) ** 2 * np.cos(2 * np.pi * W)
    od = nidx[1:] * (N - nidx[1:]) / 2.
    lam = eigvalsh_tridiagonal(dg, od)[::-1]
    ab = np.zeros((2, N))
    ab[1] = dg
    ab[0, 1:] = od
    mu = eigvals_banded(ab, select='i', select_range=(N - K, N - 1))[::-1]
    for k in range(K):
        near = np.abs(lam[k] - mu[k])
        others = np.abs(np.delete(lam, k) - mu[k]).min() if N > 1 else np.inf
        if not near <= 1e-6 * others:
            return fail('dpss/spectral-gap', '%s: shift for taper %d is not isolated: |lambda_k - mu| = %.3g, nearest other eigenvalue at %.3g' % (tag, k, near, others), rep, case)
    c('symmetry')
    sgn = np.array([1.0 if k % 2 == 0 else -1.0 for k in range(K)])[:, None]
    asym = np.abs(v[:, ::-1] - sgn * v).max()
    if asym > 1e-7:
        return fail('dpss/symmetry', '%s: taper k is not (-1)^k-symmetric about the centre: max deviation %.3g' % (tag, asym), rep, case)
    c('sign_even')
    for k in range(0, K, 2):
        if not v[k].sum() > 0:
            return fail('dpss/sign-even', '%s: taper %d has non-positive mean %.3g' % (tag, k, v[k].mean()), rep, case)
    c('sign_odd')
    for k in range(1, K, 2):
        if not first_lobe_positive(v[k]):
            return fail('dpss/sign-odd', '%s: taper %d does not start with a positive lobe' % (tag, k), rep, case)
    c('reference')
    rv, rr = ref_dpss(N, NW, K, return_ratios=True)
    rv, rr = np.atleast_2d(rv), np.atleast_1d(rr)
    dv = np.abs(v - rv).max()
    if dv > 1e-6 or np.abs(e - rr).max() > 1e-8:
        return fail('dpss/reference', '%s: differs from scipy.signal.windows.dpss: tapers by %.3g, concentrations by %.3g' % (
            tag, dv, np.abs(e - rr).max()), rep, case)
    return None


def _tridi_dtype_one(form, fn, kind, which, ow, sys_, rep, bad):
    d, e, b = sys_

    def conv(a):
        if kind == 'bigendian':
            return a.astype('>f8')
        if kind == 'readonly':
            a = a.copy()
            a.flags.writeable = False
            return a
        if kind == 'strided':
            return np.repeat(a, 2)[::2]
        return a.astype(kind)
    dd, ee = (conv(d), conv(e)) if which in ('all', 'de') else (d.copy(), e.copy())
    bb = conv(b) if which in ('all', 'b') else b.copy()
    d64, e64, b64 = (np.array(a, dtype='d') for a in (dd, ee, bb))
    ref = np.linalg.solve(np.diag(d64) + np.diag(e64[:-1], 1) + np.diag(e64[:-1], -1), b64)
    what = '%s tridisolve on %s operands (%s, overwrite_b=%s)' % (form, kind, which, ow)
    try:
        import warnings
        with warnings.catch_warnings():
            warnings.simplefilter('ignore')
            x = fn(dd, ee, bb, overwrite_b=ow)
    except (TypeError, ValueError):
        if not (np.array_equal(d64, dd) and np.array_equal(e64, ee) and np.array_equal(b64, bb)):
            return bad(what + ' refused the operands but modified them')
        return None
    except Exception as ex:
        return bad(what + ' raised ' + type(ex).__name__)
    got = bb if ow else x
    if got is None:
        return bad(what + ' returned nothing')
    tol = 1e-4 if kind == 'float32' else 1e-9
    if not np.allclose(np.asarray(got, dtype='d'), ref, rtol=tol, atol=tol * max(1.0, np.abs(ref).max())):
        return Failure('robust/tridi/dtype/%s/%s-operands-wrong-solution' % (form, 'integer' if kind.startswith(('int', 'uint')) else kind),
                       what + ' silently returns %s; the system defined by the operand values has the solution %s' % (
                           np.asarray(got).tolist()[:4], np.round(ref, 6).tolist()[:4]), rep)
    if not (np.array_equal(d64, dd) and np.array_equal(e64, ee)) or (not ow and not np.array_equal(b64, bb)):
        return bad(what + ' modified its inputs')
    return None


def robust(name, sd):
    """second-wave classes: repeated calls with the same argument objects, input overwritten in place
    between calls, strided / Fortran-ordered / transposed-view inputs, results not aliasing inputs or
    earlier results.  Returns Failure or None."""
    import nitime.utils as u
    nr = np.random.RandomState(sd)
    rep = {'kind': 'robust', 'name': name, 'sd': sd}

    def bad(what):
        return Failure('robust/' + name, 'robustness %s: %s' % (name, what), rep)
    N = int(nr.choice([16, 33, 64, 101]))
    NW = float(nr.choice([1.5, 2, 3]))
    K = int(nr.randint(1, int(2 * NW) + 1))
    if name == 'dpss/repeat':
        v1, e1 = dpss_call(N, NW, K)
        v1c, e1c = v1.copy(), e1.copy()
        import nitime.utils as uu
        va, ea = uu.dpss_windows(N, NW, K)
        va *= -3.0                                  # scribble on a returned result
        ea[:] = 7.0
        v2, e2 = dpss_call(N, NW, K)
        if not (np.array_equal(v2, v1c) and np.array_equal(e2, e1c)):
            return bad('dpss_windows(%d, %s, %d) changed after a previously returned result was modified / on the second call' % (N, NW, K))
        vi1 = dpss_call(4 * N, NW, K, interp_from=N)[0]
        vi2 = dpss_call(4 * N, NW, K, interp_from=N)[0]
        if not np.array_equal(vi1, vi2):
            return bad('interpolated dpss_windows differs between two identical calls')
        return None
    if name == 'tapered/same-object':
        s = nr.randn(3, N)
        s0 = s.copy()
        t1, l1 = u.tapered_spectra(s, (NW, K), low_bias=False)
        if not np.array_equal(s, s0):
            return bad('tapered_spectra modified its input')
        t1 = np.array(t1)
        t2, _ = u.tapered_spectra(s, (NW, K), low_bias=False)
        if not np.allclose(t1, t2, rtol=0, atol=0):
            return bad('tapered_spectra differs between two calls on the same array object')
        s[:] = nr.randn(3, N)                       # overwrite the same object in place
        t3, _ = u.tapered_spectra(s, (NW, K), low_bias=False)
        t4, _ = u.tapered_spectra(s.copy(), (NW, K), low_bias=False)
        if not np.allclose(t3, t4, rtol=1e-12, atol=1e-12 * np.abs(t4).max()):
            return bad('tapered_spectra after overwriting the input array in place returns the result for the OLD contents')
        return None
    if name == 'tapered/layout':
        s = nr.randn(3, N)
        ref, _ = u.tapered_spectra(s.copy(), (NW, K), low_bias=False)
        for lab, arr in (('fortran', np.asfortranarray(s)), ('transposed-view', np.ascontiguousarray(s.T).T),
                         ('strided', np.repeat(s, 2, axis=1)[:, ::2])):
            got, _ = u.tapered_spectra(arr, (NW, K), low_bias=False)
            if not np.allclose(got, ref, rtol=1e-12, atol=1e-12 * np.abs(ref).max()):
                return bad('tapered_spectra on a %s input differs from the C-contiguous result' % lab)
        # precomputed tapers (ndarray, also read-only / strided / float32) = the (NW, K) route without low-bias selection
        v, _ = dpss_call(N, NW, K)
        vro = v.copy()
        vro.flags.writeable = False
        for lab, tp in (('ndarray', v.copy()), ('read-only', vro), ('strided', np.repeat(v, 2, axis=1)[:, ::2])):
            got = u.tapered_spectra(s.copy(), tp, low_bias=bool(nr.rand() < 0.5))      # no eigenvalues are returned on this route
            if isinstance(got, tuple) or not np.allclose(got, ref, rtol=1e-12, atol=1e-12 * np.abs(ref).max()):
                return bad('tapered_spectra with precomputed tapers (%s) differs from the (NW, K) route' % lab)
        # dtype families of the signal (class L1): the same numbers as int16 / int32 / float32 / big-endian / read-only
        from histories import dtype_family
        for lab, sv in dtype_family(s, None, ('int16', 'int32', 'float32', 'bigendian', 'readonly')):
            want, _ = u.tapered_spectra(np.array(sv, dtype='d'), (NW, K), low_bias=False)
            got, _ = u.tapered_spectra(sv, (NW, K), low_bias=False)
            tol = 1e-5 if lab == 'float32' else 1e-12
            if not np.allclose(got, want, rtol=tol, atol=tol * np.abs(want).max()):
                return bad('tapered_spectra on %s data differs from the result on the same numbers as float64' % lab)
        return None
    if name == 'dpss/handed-out':
        # class L6: what was handed out earlier still holds what it held after ANY later call; a later call is not
        # affected by what the caller did to earlier results
        from histories import scribble
        keep = []                                   # (label, the arrays themselves, snapshots)
        M = _short_len(nr, N, NW, K) if N >= 16 else None

        def grab(label, thunk):
            r = thunk()
            keep.append((label, r, [np.array(a, copy=True) for a in r]))
            return r
        grab('plain', lambda: u.dpss_windows(N, NW, K))
        if M is not None:
            grab('interp', lambda: u.dpss_windows(N, NW, K, interp_from=M, interp_kind=str(nr.choice(INTERP_KINDS))))
        grab('plain-more', lambda: u.dpss_windows(N, NW, K + 1))
        grab('plain-again', lambda: u.dpss_windows(N, NW, K))
        s_ = nr.randn(N)
        u.tapered_spectra(s_, (NW, K), low_bias=False)
        for label, r, snap in keep:
            for a, b in zip(r, snap):
                if not np.array_equal(np.asarray(a), b):
                    return bad('the arrays returned by an earlier dpss_windows call (%s) changed after later calls (N=%d NW=%s K=%d)' % (label, N, NW, K))
        for i, (la, ra, _) in enumerate(keep):
            for lb_, rb, _ in keep[i + 1:]:
                for a in ra:
                    for b in rb:
                        if np.shares_memory(a, b):
                            return bad('results of two dpss_windows calls (%s, %s) share memory' % (la, lb_))
        v0 = keep[0][2]
        for _, r, _ in keep:
            scribble(r)
        v2, e2 = dpss_call(N, NW, K)
        if not (np.array_equal(v2, v0[0]) and np.array_equal(e2, v0[1])):
            return bad('dpss_windows(%d, %s, %d) differs from its first result after every earlier result was overwritten in place' % (N, NW, K))
        return None
    if name.startswith('tridi/dtype/'):
        # class L1: operands that are not C-contiguous binary64 — a form may REFUSE them (TypeError / ValueError, operands
        # untouched) or must return the solution of the system the operand VALUES define; never a silently wrong vector
        form = name.split('/')[-1]
        fn = FORMS[form]()
        if fn is None:
            return None
        d, e, b = gen_system(nr, False)
        while not pivots_ok(d, e, b) or len(e) != len(b) or len(b) < 2:
            d, e, b = gen_system(nr, False)
        d_f, e_f, b_f = d, e, b
        e_i = np.round(nr.uniform(1, 4, len(b)))              # integer-valued, diagonally dominant system for the integer kinds
        d_i = np.abs(e_i) + np.abs(np.r_[0, e_i[:-1]]) + np.round(nr.uniform(1, 5, len(b)))
        b_i = np.round(nr.uniform(1, 20, len(b)))
        for kind in ('float32', 'int32', 'int64', 'uint8', 'bigendian', 'readonly', 'strided'):
            for which in ('all', 'b', 'de'):
                for ow in (False, True):
                    f = _tridi_dtype_one(form, fn, kind, which, ow, (d_i, e_i, b_i) if kind in ('int32', 'int64', 'uint8') else (d_f, e_f, b_f), rep, bad)
                    if f is not None:
                        return f
        return None
    if name.startswith('tridi/alias/'):
        # class L8: one array object in two argument roles (e is d; b is d; b is e) = the call on independent equal-valued arrays
        form = name.split('/')[-1]
        fn = FORMS[form]()
        if fn is None:
            return None
        n_ = int(nr.randint(3, 30))
        d = nr.uniform(3, 6, n_) * nr.choice([-1, 1])
        for roles in ('e-is-d', 'b-is-d', 'b-is-e'):
            for ow in (False, True):
                if roles == 'e-is-d':
                    dd = d.copy(); args = (dd, dd, nr.uniform(-5, 5, n_)); ind = (d.copy(), d.copy(), args[2].copy())
                elif roles == 'b-is-d':
                    e = nr.uniform(-1, 1, n_); dd = d.copy(); args = (dd, e.copy(), dd); ind = (d.copy(), e.copy(), d.copy())
                else:
                    e = nr.uniform(-1, 1, n_); ee = e.copy(); args = (d.copy(), ee, ee); ind = (d.copy(), e.copy(), e.copy())
                if not pivots_ok(ind[0], ind[1], ind[2]):
                    continue
                want = fn(ind[0], ind[1], ind[2].copy(), overwrite_b=False)
                r = common.call(lambda: fn(args[0], args[1], args[2], overwrite_b=ow))
                got = args[2] if ow else r
                if isinstance(r, str) or got is None or not np.allclose(got, want, rtol=1e-12, atol=1e-12):
                    return bad('%s tridisolve with one array in two roles (%s, overwrite_b=%s) differs from the call on independent equal arrays' % (form, roles, ow))
        return None
    if name == 'inviter/options':
        # class L3: tridi_inverse_iteration with x0 omitted (random start), x0 given, other rtol, read-only d / e: the result is
        # a unit-norm eigenvector of the tridiagonal matrix for the eigenvalue nearest w; d, e untouched
        from scipy.linalg import eigvalsh_tridiagonal
        n = np.arange(N, dtype='d')
        W = NW / N
        dg = ((N - 1 - 2 * n) / 2.) ** 2 * np.cos(2 * np.pi * W)
        od = np.zeros(N)
        od[:-1] = n[1:] * (N - n[1:]) / 2.
        lam = eigvalsh_tridiagonal(dg, od[:-1])[::-1]
        k = int(nr.randint(0, K))
        T = np.diag(dg) + np.diag(od[:-1], 1) + np.diag(od[:-1], -1)
        d0, e0 = dg.copy(), od.copy()
        variants = [('x0-default', {}), ('x0-given', {'x0': np.sin((k + 1) * np.linspace(0, np.pi, N))}),
                    ('rtol', {'x0': nr.randn(N), 'rtol': float(nr.choice([1e-6, 1e-10, 1e-12]))})]
        for lab, kw in variants:
            dr, er = dg.copy(), od.copy()
            if nr.rand() < 0.5:
                dr.flags.writeable = False
                er.flags.writeable = False
            st = np.random.get_state()
            np.random.seed(int(nr.randint(0, 2 ** 31 - 1)))
            try:
                v = u.tridi_inverse_iteration(dr, er, lam[k], **kw)
            finally:
                np.random.set_state(st)
            if not (np.array_equal(dr, d0) and np.array_equal(er, e0)):
                return bad('tridi_inverse_iteration (%s) modified d / e' % lab)
            v = np.asarray(v, dtype='d')
            if abs(np.linalg.norm(v) - 1) > 1e-10:
                return bad('tridi_inverse_iteration (%s) returned a vector of norm %.6g' % (lab, np.linalg.norm(v)))
            res = np.abs(T @ v - lam[k] * v).max()
            if res > 1e-6 * max(1.0, np.abs(T).max()):
                return bad('tridi_inverse_iteration (%s, N=%d NW=%s, eigenvalue #%d): |T v - w v| = %.3g' % (lab, N, NW, k, res))
        return None
    if name.startswith('tridi/layout/'):
        form = name.split('/')[-1]
        fn = FORMS[form]()
        if fn is None:
            return None
        d, e, b = gen_system(nr, False)
        while not pivots_ok(d, e, b) or len(e) != len(b):
            d, e, b = gen_system(nr, False)
        ref = np.linalg.solve(np.diag(d) + np.diag(e[:-1], 1) + np.diag(e[:-1], -1), b)
        dd, ee, bb = (np.repeat(a, 2)[::2] for a in (d, e, b))          # strided views
        r = common.call(lambda: fn(dd, ee, bb, overwrite_b=False))
        if isinstance(r, str):
            return bad('%s tridisolve on strided views: %s' % (form, r))
        if not np.allclose(r, ref, rtol=1e-7, atol=1e-9) or not (np.array_equal(dd, d) and np.array_equal(ee, e) and np.array_equal(bb, b)):
            return bad('%s tridisolve on strided views: wrong solution or inputs modified' % form)
        b2 = np.repeat(b, 2)
        view = b2[::2]
        r = common.call(lambda: fn(d.copy(), e.copy(), view))            # in place through a view
        if isinstance(r, str) or not np.allclose(b2[::2], ref, rtol=1e-7, atol=1e-9) or not np.array_equal(b2[1::2], b):
            return bad('%s tridisolve overwrite_b through a strided view: %s' % (form, r if isinstance(r, str) else 'solution not left in the view / neighbours touched'))
        return None
    return None


ROBUST = ['dpss/repeat', 'dpss/handed-out', 'inviter/options', 'tapered/same-object', 'tapered/layout', 'tridi/layout/compiled', 'tridi/layout/purepy',
          'tridi/layout/rebuilt', 'tridi/dtype/compiled', 'tridi/dtype/purepy', 'tridi/dtype/rebuilt', 'tridi/alias/compiled', 'tridi/alias/purepy',
          'tridi/alias/rebuilt']
ROBUST_REPEAT = {}


def oracle(rng, tier, seed, focus, cases_=None):
    fails, certs, n_t, n_q, n_d = [], {}, 0, 0, 0
    seen_pts = set()
    for c in (cases_ or []):
        m = c.meta or {}
        f = None
        if m.get('kind') == 'tridi':
            n_t += 1
            f = check_tridi(m, c)
        elif m.get('kind') == 'tridiq':
            n_q += 1
            f = check_tridiq(m, c)
        elif m.get('kind') == 'dpss':
            key = (m['N'], m['NW'], m['K'], m.get('M'), m.get('sub'))
            if key in seen_pts and c not in focus:
                continue
            seen_pts.add(key)
            n_d += 1
            f = check_dpss(m, certs, c)
        if f:
            fails.append(f)
    big = tier == 'thorough'
    # the same certificates with dpss_windows running on the pure-Python tridisolve
    n_fb = 0
    for key in sorted(k for k in seen_pts if k[3] is None and k[4] is None and k[0] <= (1024 if big else 300))[:(120 if big else 25)]:
        n_fb += 1
        # the call history runs through the fallback too (its module has its own globals); every request costs seconds in pure Python for long tapers
        hs = rng.randint(0, 10 ** 6)
        f = check_dpss({'kind': 'dpss', 'N': key[0], 'NW': key[1], 'K': key[2], 'via': 'purepy', 'hist': hs if key[0] <= 200 else None}, certs)
        if f:
            fails.append(f)
    # interp_kind options: unit norm only (the interpolants are external)
    for i in range(60 if big else 8):
        N = rng.randint(64, 2048 if big else 400)
        NW = rng.choice([1, 1.5, 2, 2.5, 3, 4])
        K = rng.randint(1, int(2 * NW))
        M = rng.randint(max(16, int(4 * NW) + 2), N - 1)
        kind = rng.choice(['linear', 'nearest', 'zero', 'slinear', 'quadratic', 'cubic', 2, 3])      # names and integer spline orders
        f = check_dpss({'kind': 'dpss', 'N': N, 'NW': NW, 'K': K, 'M': M, 'interp': kind, 'hist': rng.randint(0, 10 ** 6)}, certs)
        if f:
            fails.append(f)
    n_rb = 0
    for name in ROBUST:
        for i in range((6 if big else 2) * ROBUST_REPEAT.get(name, 1)):
            n_rb += 1
            sd = rng.randint(0, 10**6)
            r = common.call(lambda: robust(name, sd))
            if isinstance(r, str):
                fails.append(Failure('robust/%s/raises' % name, 'robustness %s raised: %s' % (name, r), {'kind': 'robust', 'name': name, 'sd': sd}))
            elif r:
                fails.append(r)
    stats = {'robustness_experiments': n_rb, 'dpss_points_through_fallback': n_fb, 'tridisolve_dense_checks': n_t, 'tridisolve_exact_checks': n_q, 'dpss_points': n_d,
             'certificate_checks': certs, 'certificate_checks_total': sum(certs.values()),
             'skipped_ill_conditioned': getattr(cases, 'skipped_ill_conditioned', 0), 'failed': len(fails),
             'rebuilt_so': 'ok' if _forms.get('rebuilt') else _forms.get('rebuilt_err', 'not built')}
    return fails, stats


def replay(d):
    k = d.get('kind')
    if k == 'tridi':
        return check_tridi(d)
    if k == 'tridiq':
        return check_tridiq(d)
    if k == 'dpss':
        return check_dpss(d, {})
    if k == 'robust':
        r = common.call(lambda: robust(d['name'], d['sd']))
        if isinstance(r, str):
            return Failure('robust/%s/raises' % d['name'], r, d)
        return r
    return None
