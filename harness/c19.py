"""C19 — event-related estimators recover the true response of a noise-free linear system.

Correspondence: nitime.analysis.EventRelatedAnalyzer (.FIR, .eta, .ets, .et_data; TimeSeries and
Events inputs) and nitime.utils.fir_design_matrix on the real code vs the exact-rational Lean
model `Nitime.C19` (driver drvC19).
Oracle (independent of the Lean model): the planted ground truth (integer responses placed by
this file), dense numpy rank, metamorphic pairs (series vs event times, linear combinations).
"""
import warnings
from fractions import Fraction as Fr
import numpy as np
from common import Case, Failure, f2x, x2f, flist, ilist, parse_flist, call, close_vec, err_kind

PID = 'C19'
LEAN_TARGETS = ['Nitime.Props.C19', 'Nitime.Props.C19Rows', 'Nitime.Props.C19Fail']
RULE = ('planted designs from one PRNG state: response length L 2..8 (quick; to 32 thorough), 1-3 event types from '
        '{1,2,3,5,7,-1,-2,-3}, overlapping (FIR) or separated (ETA/ETS/et_data) placements, 1-d / 1-3 channel data, '
        'shared or per-channel events, offsets 0..3 (-3..3 for Events input), correct_baseline/zscore flags, 10 sampling '
        'intervals; integer responses (exact in binary64) and noisy variants; AMPLITUDE SCALE: every planted design is also run with '
        'per-channel gains over the decades 1e-300..1e300 (exact powers of two 2^-990..2^990 and decimal m*10^k; one channel at '
        'gain 1 next to a channel at e.g. 1e-11 in the same recording; all four outputs, both event representations, read '
        'sequences), each channel judged relative to ITS OWN scale; 2-d event series whose ROWS use different code sets / counts / placements; '
        'recordings stored as uint8/uint16/int16/int32/int64/float32/big-endian and read-only, event series in other dtypes, noisy float32 recordings; '
        'sampling interval as number / time object / rate, offset and len_et as numpy integers, Events with data columns; two analyzers with different '
        'options alive at once on the same input objects, cases re-run at the end of the process, xcorr_eta reads inside the read orders, results '
        'overwritten by the caller right after each read; ROUND 2: failure histories on one analyzer (a later channel refused, ragged rows, events series of another length, '
        'Events outside the recording, refused constructor arguments) with snapshots, in-place repairs and new analyzers on the same objects; both sides of every guard / range '
        '(occurrence counts 127..257 and 32768, zero channels next to tiny ones, first / last admissible samples, offsets around len_et, caller-side codes 1.5 / 200 / 70000 / -0.0); '
        'aliased arguments (views of one base array, one object in both roles, strided / reversed / transposed views, Events cut from the time axis, in-place changes between two analyzers); '
        'distinct = distinct protocol line; '
        'non-trivial = at least one event and a non-zero signal')
ASSUMPTIONS = ['event codes are integers; responses and data are finite binary64 values (planted ones integer-valued)',
               'a recording stored in another dtype IS its exact float64 embedding (integers of magnitude < 2^53, float32): the spec, the model and the oracle work on those numbers',
               'rows of a 2-d event series use the same NUMBER of codes for FIR / eta / ets (the analyzer stacks the rows into one array); et_data admits any numbers',
               'windows of all events lie inside the recording (k + offset + L <= N), the domain on which the estimators are defined',
               'FIR designs are full column rank (checked by an independent dense rank computation; rank-deficient designs are counted and skipped)',
               'ets is judged only for types with >= 2 occurrences (the standard error of one sample is undefined: nan in both)',
               'amplitudes stay inside the binary64 normal range with head-room for the sums the estimators form (|gain| in 1e-300..1e300; '
               'for ets with decimal gains and for noisy data 1e-140..1e140, because the standard error squares the deviations)']
TRUSTED_EXTRA = ['scipy.linalg.pinv(X^T X) X^T y is modelled, for full column rank, as the exact solution of the normal equations (own Gaussian '
                 'elimination over Rat, proved sound and total in Lean; Lean also proves that ANY matrix P with G P G = G for the invertible Gram matrix G, '
                 'over Q or R, gives P X^T y = the model\'s result: firSolve_eq_pinv(_real) -- what stays trusted is that scipy\'s pinv returns such a P up to rounding); '
                 'binary64 rounding of LAPACK is not modelled (FIR compared at 1e-9 of the largest magnitude OF EACH CHANNEL)',
                 'np.unique / np.where / np.roll / np.hstack / np.mean / scipy.stats.sem / fancy indexing are modelled by their documented semantics',
                 'designEntry is the closed form of the accumulated design matrix; Lean proves it equal to the per-event accumulation (designEntry_eq_eventSum) '
                 'and the op `design` compares it with utils.fir_design_matrix entry by entry',
                 'Rat -> binary64 on output uses Model/F64 (validated bit-for-bit in C01) in the normal range and the model\'s own `toFloatSub` (round to the '
                 '2^-1074 grid) below 2^-1022 (only rounding dust of recordings at amplitude ~1e-300 gets there)']

UNIT_PS = {'ps': 1, 'ns': 10**3, 'us': 10**6, 'ms': 10**9, 's': 10**12}
SIS = [(2.0, 's'), (1.0, 's'), (0.5, 's'), (0.25, 's'), (0.1, 's'), (0.3, 's'), (1.5, 's'), (3, 'ms'), (7, 'ms'), (250, 'ms')]
CODES = [1, 2, 3, 5, 7, -1, -2, -3]


def si_ps(si, unit):
    v = Fr(si).limit_denominator(1000) * UNIT_PS[unit]
    assert v.denominator == 1
    return int(v)


def nt():
    import nitime.timeseries as ts
    from nitime.analysis import EventRelatedAnalyzer
    import nitime.utils as tsu
    return ts, EventRelatedAnalyzer, tsu


# ------------------------------------------------------------------ implementation adapter
def canon_arr(a):
    a = np.asarray(a)
    if np.iscomplexobj(a):
        if np.any(a.imag != 0):     # nan+0j has imag 0
            return None
        a = a.real
    return a.astype(float)


def canon_ts(T):
    a = canon_arr(T.data)
    if a is None:
        return 'complex-with-nonzero-imag'
    if T.time_unit is None:
        return 'no-unit'
    return 'ok t0=%d si=%d shape=%s data=%s' % (int(np.asarray(T.t0)), int(np.asarray(T.sampling_interval)),
                                                ilist(a.shape), flist(a.reshape(-1)))


def run_impl(sp):
    ts, ERA, tsu = nt()
    if sp['kind'] == 'planted':
        # the harness's own ground-truth signal (what the oracle plants), to be compared with the
        # Lean specification function `planted` that the theorems are stated with
        return 'ok ' + flist(plant(sp['ev'], sp['resp'][0], sp['L'], sp['off'], len(sp['ev'])))
    if sp['kind'] in ('design', 'designsum'):
        def f():
            m = tsu.fir_design_matrix(np.array(sp['ev'], dtype=float if sp.get('evfloat') else int), sp['L'])
            if np.any(m != np.round(m)):
                return 'non-integer-entries'
            return 'ok %d %d %s' % (m.shape[0], m.shape[1], ilist(m.reshape(-1)))
        return call(f)
    if sp['kind'] == 'seq':
        return run_seq_impl(sp)

    def f():
        with warnings.catch_warnings():
            warnings.simplefilter('ignore')
            a, _, _ = build(sp)
            return canon_read(sp['what'], read(a, sp['what']))
    return call(f)


def fits(vals, dt):
    """can the float64 values be stored in dtype `dt` without changing them (the spec's numbers ARE the recording:
    the model and the oracle read them as the exact float64 embedding of the stored values)"""
    a = np.array(vals, dtype=float)
    if not np.all(np.isfinite(a)):
        return False
    with warnings.catch_warnings():
        warnings.simplefilter('ignore')
        try:
            if np.dtype(dt).kind in 'iu':
                info = np.iinfo(np.dtype(dt))
                if a.size and (a.min() < info.min or a.max() > info.max or np.any(a != np.round(a))):
                    return False
            return bool(np.array_equal(a.astype(dt).astype(float), a))
        except Exception:  # noqa
            return False


def as_stored(vals, dt, readonly=False):
    """the numbers of the spec as an array of the recording's dtype (float64 when none is named or the values do not
    fit: derived specs -- linear combinations, gains -- may leave the type's range)"""
    a = np.array(vals, dtype=float)
    if dt and fits(vals, dt):
        a = a.astype(dt)
    if readonly:
        a.flags.writeable = False
    return a


def interval_arg(sp):
    """the sampling interval in the form the spec asks for: number (default), time object, or the rate instead"""
    ts = nt()[0]
    form = sp.get('ctor', 'si')
    if form == 'sitime':
        t = ts.TimeArray(np.int64(si_ps(sp['si'], sp['unit'])), time_unit='ps')
        t.convert_unit(sp['unit'])
        return dict(sampling_interval=t)
    if form == 'rate' and sp['unit'] == 's' and float(sp['si']) in (2.0, 1.0, 0.5, 0.25):
        return dict(sampling_rate=1.0 / float(sp['si']))
    return dict(sampling_interval=sp['si'])


def build(sp, shared=None):
    """the real analyzer for a spec, with the input objects (kept for the mutation snapshots).  `shared` = (T, E) of
    another analyzer built from the same recording (two analyzers on the SAME input objects)"""
    ts, ERA, tsu = nt()
    nch, N = sp['nch'], sp['N']
    if shared is not None:
        T, E = shared
    else:
        data = as_stored(sp['data'], sp.get('dtype'), sp.get('ro'))
        data = data.reshape((nch, N)) if nch else data
        is_series = sp['kind'] == 'series' or sp.get('base') == 'series'
        ev = None
        if is_series:
            import c19_r2
            evv = c19_r2.real_codes(sp)      # the codes as the caller writes them (1.5, 200, -0.0 ...); sp['ev'] = their ranks
            ev = np.array(evv, dtype=float if (sp.get('evfloat') or sp.get('codes_real')) else int)
            if sp.get('evdtype'):
                ev = as_stored(evv, sp['evdtype'], sp.get('ro'))
            ev = ev.reshape((sp['evch'], N)) if sp['evch'] else ev
        if sp.get('alias'):
            import c19_r2
            data, ev = c19_r2.alias_arrays(sp, data, ev)       # L8: views of one base array, strided / reversed / transposed views
        T = ts.TimeSeries(data, time_unit=sp['unit'], **interval_arg(sp))
        if is_series:
            if sp.get('alias') == 'same':       # f(x, x): ONE series object in both roles (an integer-coded recording)
                E = T
            else:
                E = ts.TimeSeries(ev, time_unit=sp['unit'], **interval_arg(sp))
        elif sp.get('alias') == 'timeview':     # Events built from a view of the recording's own time axis
            E = ts.Events(T.time[np.array(sp['slots'], dtype=int)])
        else:
            tm = ts.TimeArray(np.array(sp['times'], dtype=np.int64), time_unit='ps')
            if sp.get('evunit'):
                tm.convert_unit(sp['evunit'])
            if sp.get('evcols'):     # an Events object that carries data columns besides the times
                k = len(sp['times'])
                E = ts.Events(tm, amp=np.arange(k) * 1.5 + 7, code=np.arange(k)[::-1] % 3 + 2, indices=[list(range(k))], labels=['trial'])
            else:
                E = ts.Events(tm)
    off, L = sp['off'], sp['L']
    if sp.get('offform') == 'npint':
        off = np.int64(off)
    if sp.get('lenform') == 'float':
        L = float(L)
    elif sp.get('lenform') == 'npint':
        L = np.int32(L)
    a = ERA(T, E, L, zscore=bool(sp.get('zs')), correct_baseline=bool(sp['cb']), offset=off)
    return a, T, E


def read(a, w):
    return {'fir': lambda: a.FIR, 'eta': lambda: a.eta, 'ets': lambda: a.ets, 'etdata': lambda: a.et_data,
            'xcorr': lambda: a.xcorr_eta}[w]()


def canon_read(w, obj):
    if w == 'xcorr':      # not modelled: only ever compared with another read of the real code (bit pattern)
        d = np.asarray(obj.data, dtype=complex).reshape(-1)
        return 'ok t0=%d si=%d shape=%s data=%s' % (int(np.asarray(obj.t0)), int(np.asarray(obj.sampling_interval)), ilist(np.asarray(obj.data).shape),
                                                    flist([v for z in d for v in (z.real, z.imag)]))
    if w != 'etdata':
        return canon_ts(obj)
    blocks, vals, t0s, sis = [], [], set(), set()
    for row in obj:
        for x in row:
            arr = canon_arr(x.data)
            blocks.append(arr.shape[0])
            vals += list(arr.reshape(-1))
            t0s.add(int(np.asarray(x.t0)))
            sis.add(int(np.asarray(x.sampling_interval)))
    if len(t0s) != 1 or len(sis) != 1:
        return 'inconsistent-axes'
    return 'ok t0=%d si=%d blocks=%s data=%s' % (t0s.pop(), sis.pop(), ilist(blocks), flist(vals))


# ------------------------------------------------------------------ read sequences on ONE analyzer object
def _bytes(x):
    """bytes of everything array-like reachable from an input / stored attribute"""
    ts = nt()[0]
    if isinstance(x, (list, tuple)):
        return b'|'.join(_bytes(y) for y in x)
    if isinstance(x, ts.TimeSeries):
        return np.ascontiguousarray(x.data).tobytes()
    if isinstance(x, ts.Events):
        return np.ascontiguousarray(np.asarray(x.time)).tobytes()
    return np.ascontiguousarray(np.asarray(x)).tobytes()


def snapshot(a, T, E):
    return {'input-series': _bytes(T), 'input-events': _bytes(E), 'stored-data': _bytes(a.data), 'stored-events': _bytes(a.events)}


def scribble_data(o):
    """the caller overwrites, in place, the samples of a result it was handed (the `.data` of every series in it; the
    time-axis attributes are left alone: they are small objects shared with the input by design)"""
    if isinstance(o, (list, tuple)):
        for x in o:
            scribble_data(x)
        return
    d = getattr(o, 'data', None)
    if isinstance(d, np.ndarray) and d.size and d.flags.writeable:
        d[...] = -7.25 * (1 + np.arange(d.size).reshape(d.shape) % 3)


def run_sequence(sp, order, scrib=False):
    """read the outputs in `order` on one analyzer; returns per read: canonical result, which snapshots
    changed across the read; and afterwards the canonical form of every EARLIER returned object again.
    `scrib`: the caller overwrites, in place, every array of each result right after it was handed out (it is the
    caller's to do with as it likes); `again` then holds, per read, which inputs / stored arrays THAT changed."""
    with warnings.catch_warnings():
        warnings.simplefilter('ignore')
        a, T, E = build(sp)
        firsts, objs, mutated, aliased = [], [], [], []
        for w in order:
            before = snapshot(a, T, E)
            try:
                o = read(a, w)
                c = canon_read(w, o)
            except Exception as e:  # noqa
                o, c = None, 'err ' + err_kind(e)
            after = snapshot(a, T, E)
            mutated.append(sorted(k for k in before if before[k] != after[k]))
            firsts.append(c)
            objs.append(o)
            if scrib:
                if o is not None:
                    scribble_data(o)
                later = snapshot(a, T, E)
                aliased.append(sorted(k for k in after if after[k] != later[k]))
        if scrib:
            return firsts, mutated, aliased
        again = [canon_read(w, o) if o is not None else c for w, o, c in zip(order, objs, firsts)]
    return firsts, mutated, again


def run_seq_impl(sp):
    firsts, _, _ = run_sequence(sp, sp['order'])
    return ' ;; '.join(firsts)


def same_out(sp, w, x, y):
    if x == y:
        return True
    a, b = parse_out(x), parse_out(y)
    if a is None or b is None or a[0] != b[0]:
        return False
    if w in ('etdata', 'xcorr'):
        return len(a[1]) == len(b[1]) and all(p == q or (p != p and q != q) for p, q in zip(a[1], b[1]))
    q = dict(sp)
    q['what'] = w
    return close_per_channel(q, a[1], b[1], 1e-12)


def with_xcorr(sp, order):
    """the order with reads of `xcorr_eta` (not modelled; judged against a fresh analyzer only) put in front of, between
    and after the modelled reads, when the spec asks for it and xcorr_eta is defined for the spec"""
    if not sp.get('xc') or sp.get('base', sp['kind']) != 'series' or 'xcorr' in order:
        return list(order)
    q = dict(sp)
    q.update(kind='series', what='xcorr')
    if not run_impl(q).startswith('ok'):
        return list(order)
    k = sp['xc'] % (len(order) + 1)
    # (a second read of the same getter returns the stored object: only when the caller has not overwritten it)
    return list(order[:k]) + ['xcorr'] + list(order[k:]) + (['xcorr'] if sp['xc'] % 2 and not sp.get('scrib') else [])


def sequence_failures(sp, order):
    """property-level: any read order on one object gives what a fresh analyzer gives for that output alone
    (and the planted truth), never changes the inputs / stored arrays, and never changes results handed out
    earlier.  Returns every kind of failure seen (one per key)."""
    order = with_xcorr(sp, order)
    fresh = {}
    for w in order:
        q = dict(sp)
        q.update(kind=sp.get('base', sp['kind']), what=w)
        fresh[w] = run_impl(q)
    firsts, mutated, again = run_sequence(sp, order)
    rp = {'spec': sp, 'order': list(order), 'seq': True}
    out = {}

    def add(key, what):
        out.setdefault(key, Failure(key, what, dict(rp)))
    if sp.get('scrib'):
        # the caller overwrites every result as soon as it has it: no input / stored array may change through that
        # (a result must not be a view of the analyzer's arrays), and the later reads still equal a fresh analyzer's
        firsts, mutated, aliased = run_sequence(sp, order, scrib=True)
        for i, w in enumerate(order):
            if aliased[i]:
                add('sequence/%s/result-aliases-input' % w, 'overwriting the %s result in place (order %s, offset %d) changed %s' % (
                    w, '>'.join(order), sp['off'], ','.join(aliased[i])))
        again = firsts
    for i, w in enumerate(order):
        if mutated[i]:
            add('sequence/%s/input-mutated' % w, 'reading %s (order %s, offset %d) changed %s' % (
                w, '>'.join(order), sp['off'], ','.join(mutated[i])))
    for i, w in enumerate(order):
        if not same_out(sp, w, firsts[i], fresh[w]):
            first = 'multi'
            for v in order[:i]:
                f2, _, _ = run_sequence(sp, [v, w])
                if not same_out(sp, w, f2[1], fresh[w]):
                    first = v
                    break
            add('sequence/%s-then-%s/value' % (first, w), '%s read after %s on the same analyzer (offset %d) differs from a fresh analyzer: %s vs %s' % (
                w, '>'.join(order[:i]), sp['off'], firsts[i][:120], fresh[w][:120]))
    for i, w in enumerate(order):
        if w == 'xcorr':
            continue
        q = dict(sp)
        q.update(kind=sp.get('base', sp['kind']), what=w)
        q.pop('order', None)
        f = check_case(Case('', firsts[i], 'seq', meta=q))
        if f is not None and not f.key.startswith('fir/negative-code'):
            add('sequence/%s/truth/%s' % (w, f.key), f.what)
    for i, w in enumerate(order):
        if again[i] != firsts[i]:
            add('sequence/%s/earlier-result-changed' % w, 'the %s result handed out earlier changed after reading %s' % (
                w, '>'.join(order[i + 1:])))
    return list(out.values())


def sequence_check(sp, order, key=None):
    fs = sequence_failures(sp, order)
    if key is not None:
        same = [f for f in fs if f.key == key]
        if same:
            return same[0]
    return fs[0] if fs else None


def line_of(sp):
    if sp['kind'] in ('design', 'designsum'):
        return 'C19 %s %d %s' % (sp['kind'], sp['L'], ilist(sp['ev']))
    if sp['kind'] == 'planted':
        codes = my_types(sp['ev'])
        return 'C19 planted %d %d %s %s %s' % (sp['off'], sp['L'], ilist(sp['ev']), ilist(codes),
                                                flist([v for c in codes for v in sp['resp'][0][str(c)]]))
    if sp['kind'] == 'seq':
        evs = sp['ev'] if sp['base'] == 'series' else sp['times']
        return 'C19 seq %s %s seq %d %d %d %d %d %d %d %s %s' % (
            ','.join(sp['order']), sp['base'], sp['off'], sp['L'], 1 if sp['cb'] else 0, si_ps(sp['si'], sp['unit']),
            sp['nch'], sp['N'], sp.get('evch', 0), ilist(evs), flist(sp['data']))
    evs = sp['ev'] if sp['kind'] == 'series' else sp['times']
    return 'C19 %s %s %d %d %d %d %d %d %d %s %s' % (
        sp['kind'], sp['what'], sp['off'], sp['L'], 1 if sp['cb'] else 0, si_ps(sp['si'], sp['unit']),
        sp['nch'], sp['N'], sp.get('evch', 0), ilist(evs), flist(sp['data']))


def parse_out(s):
    """'ok t0=.. si=.. shape=..|blocks=.. data=..' -> (header string, [floats]) or None"""
    if not s.startswith('ok '):
        return None
    if s.startswith('ok t0='):
        head, _, d = s.rpartition(' data=')
        return head, parse_flist(d)
    return s, []


def close_nan(a, b, rtol, atol=1e-300):
    """nan positions must coincide; the remaining entries agree to rtol of the largest magnitude"""
    if len(a) != len(b) or any((x != x) != (y != y) for x, y in zip(a, b)):
        return False
    fa = [x for x in a if x == x]
    fb = [y for y in b if y == y]
    return close_vec(fa, fb, rtol=rtol, atol=atol)


def n_channels(sp):
    return max(sp.get('nch', 0), 1)


def gain_of(sp, ch):
    """amplitude scale of channel `ch` (1 for an unscaled design)"""
    g = sp.get('gains')
    return abs(float(g[ch])) if g else 1.0


def chan_blocks(vals, C):
    """FIR / eta / ets values are laid out channel-major with equally long channel blocks"""
    if C <= 1 or len(vals) % C:
        return [vals]
    n = len(vals) // C
    return [vals[i * n:(i + 1) * n] for i in range(C)]


def close_per_channel(sp, a, b, rtol):
    """every channel is compared relative to ITS OWN magnitude (a recording may hold a channel of
    amplitude 1e-11 next to an ordinary one: a tolerance taken from the largest channel would not see
    the small one at all).  For a noise-free planted ets (truth 0) the comparison is absolute at
    1e-12 of the channel's amplitude scale instead (0 vs a few ulp of rounding dust)."""
    if len(a) != len(b):
        return False
    C = n_channels(sp)
    A, B = chan_blocks(a, C), chan_blocks(b, C)
    if len(A) != len(B):
        return False
    for ch, (x, y) in enumerate(zip(A, B)):
        if close_nan(x, y, rtol, atol=0.0):
            continue
        if sp.get('what') == 'ets' and sp.get('planted') and len(A) == C and close_nan(x, y, 0.0, atol=1e-12 * gain_of(sp, ch)):
            continue
        return False
    return True


def make_cmp_seq(sp):
    def cmp(impl, model):
        xs, ys = impl.split(' ;; '), model.split(' ;; ')
        if len(xs) != len(ys) or len(xs) != len(sp['order']):
            return False
        for w, x, y in zip(sp['order'], xs, ys):
            q = dict(sp)
            q['what'] = w
            if not make_cmp(q)(x, y):
                return False
        return True
    return cmp


def make_cmp(sp):
    # et_data hands out copies of the samples: always bit-exact; eta of integer (or power-of-two scaled) data too
    exact = sp.get('what') == 'etdata' or (bool(sp.get('integer')) and sp.get('what') == 'eta')
    rtol = 1e-9 if sp.get('what') == 'fir' else 1e-12

    def one(impl, model):
        if impl == model:
            return True
        a, b = parse_out(impl), parse_out(model)
        if a is None or b is None:
            return False
        if a[0] != b[0]:
            return False
        if exact:
            return all((x == y) or (x != x and y != y) for x, y in zip(a[1], b[1])) and len(a[1]) == len(b[1])
        return close_per_channel(sp, a[1], b[1], rtol)

    def cmp(impl, model):
        if model == 'singular':
            # rank-deficient design: outside the modelled domain; only acceptable when the independent rank agrees
            return sp.get('rank_deficient', False)
        return any(one(impl, m) for m in model.split(' || '))
    return cmp


def mk_case(sp):
    if sp['kind'] in ('series', 'events') and sp['what'] == 'fir' and 'rank_deficient' not in sp:
        sp['rank_deficient'] = not full_rank(sp)
    if sp['kind'] == 'seq':
        return Case(line_of(sp), run_impl(sp), 'seq/' + sp['base'], cmp=make_cmp_seq(sp), meta=sp, nontrivial=True)
    clause = sp['kind'] + '/' + sp.get('what', 'matrix')
    nontriv = any(v != 0 for v in sp.get('data', [1])) and (len(sp.get('times', [])) > 0 or any(sp.get('ev', [])))
    return Case(line_of(sp), run_impl(sp), clause, cmp=make_cmp(sp), meta=sp, nontrivial=nontriv)


# ------------------------------------------------------------------ independent ground truth
def my_types(evrow):
    return sorted({int(c) for c in evrow if c != 0})


def my_design(evrow, L, off, N):
    """dense design in ORIGINAL coordinates with plain +1 entries (the property's linear system):
    column (b, j) has a 1 at row k+off+j for every event k of the b-th sorted code"""
    types = my_types(evrow)
    X = np.zeros((N, len(types) * L))
    for k, c in enumerate(evrow):
        if c != 0:
            b = types.index(int(c))
            for j in range(L):
                if k + off + j < N:
                    X[k + off + j, b * L + j] += 1
    return X


def ev_rows(sp):
    N, C = sp['N'], max(sp['nch'], 1)
    ev = sp['ev']
    return [ev[(ch if sp['evch'] else 0) * N:(ch if sp['evch'] else 0) * N + N] for ch in range(C)]


def full_rank(sp):
    for row in ev_rows(sp):
        X = my_design(row, sp['L'], sp['off'], sp['N'])
        if X.shape[1] == 0 or np.linalg.matrix_rank(X) < X.shape[1]:
            return False
    return True


def plant(evrow, resp, L, off, N):
    """y[k+off+j] += resp[code][j] for every event k (the ground-truth system)"""
    y = [0.0] * N
    for k, c in enumerate(evrow):
        if c != 0:
            for j in range(L):
                y[k + off + j] += resp[str(int(c))][j]
    return y


# ------------------------------------------------------------------ generators
def gen_placement(rng, N, L, off, codes, separated, per_type_min=1):
    """event codes over N samples; all windows inside [0, N); every code occurs >= per_type_min times"""
    last = N - off - L          # last admissible event index
    if last < 0:
        return None
    ev = [0] * N
    need = len(codes) * per_type_min
    if separated:
        slots = list(range(rng.randint(0, min(2, last)), last + 1, L + rng.randint(0, 2)))
        rng.shuffle(slots)
        slots = slots[:max(need, rng.randint(len(codes), 3 * len(codes) + 2))]
    else:
        pr = rng.choice([0.15, 0.3, 0.5])
        slots = [k for k in range(0, last + 1) if rng.random() < pr]
        if len(slots) < need:
            slots = rng.sample(range(0, last + 1), min(last + 1, need + 1))
        rng.shuffle(slots)
    if len(slots) < need:
        return None
    for i, k in enumerate(slots):
        ev[k] = codes[i % len(codes)] if i < need else rng.choice(codes)
    return ev


def row_code_sets(rng, C, what, positive=False):
    """one set of event codes PER ROW of a 2-d event series, the sets differing between rows (row 0 {1,2}, row 1
    {1,3}; disjoint sets; negative codes in one row only ...).  FIR / eta / ets stack the rows into one array, so every
    row gets the same NUMBER of codes; et_data is a list of lists and admits any numbers."""
    pool = [abs(c) for c in CODES] if positive else CODES
    pool = list(dict.fromkeys(pool))
    while True:
        k = rng.randint(1, 3)
        sets = []
        for ch in range(C):
            kk = rng.randint(1, 3) if what == 'etdata' else k
            sets.append(rng.sample(pool, kk))
        if C >= 2 and rng.random() < 0.5:       # overlapping sets: one code in common, the others not
            common_code = rng.choice(pool)
            sets = [list(dict.fromkeys([common_code] + [c for c in s if c != common_code][:max(len(s) - 1, 0)])) for s in sets]
        if len({tuple(sorted(s)) for s in sets}) > 1 and (what == 'etdata' or len({len(s) for s in sets}) == 1):
            return sets


def gen_series(rng, tier, what, big=False, positive=False, off=None, rowcodes=False, nonneg=False, nch=None):
    L = rng.randint(2, 8) if not big else rng.randint(9, 32)
    codes = rng.sample(CODES, rng.randint(1, 3))
    if rng.random() < 0.4 or positive:
        codes = list(dict.fromkeys(abs(c) for c in codes))
    off = rng.choice([0, 0, 0, 1, 2, 3]) if off is None else off
    nch = rng.choice([0, 0, 1, 2, 3]) if nch is None else nch
    if rowcodes:
        nch = max(nch, 2)
    C = max(nch, 1)
    evch = nch if (nch and (rowcodes or rng.random() < 0.5)) else 0
    N = rng.randint(3 * L + off + 4, 6 * L + off + 30) if not big else rng.randint(4 * L + off, 6 * L + off + 40)
    separated = what != 'fir'
    ptm = 2 if (what == 'ets' and rng.random() < 0.8) else 1
    rcodes = row_code_sets(rng, C, what, positive) if rowcodes else [codes] * C
    if rowcodes and separated:
        N += 3 * L * max(len(s) for s in rcodes)
    rows = []
    while len(rows) < (C if evch else 1):
        ev = gen_placement(rng, N, L, off, rcodes[len(rows)], separated, per_type_min=ptm)
        if ev is None:
            N += 2 * L + 2
            rows = []
            continue
        rows.append(ev)
    si, unit = rng.choice(SIS)
    resp = []
    for ch in range(C):
        r = {}
        for c in sorted(rcodes[ch]):
            v = [rng.randint(0 if nonneg else -9, 9) for _ in range(L)]
            if all(x == 0 for x in v):
                v[0] = 1
            if nonneg and L >= 2 and v[0] <= min(v[1:]):     # a response that dips below its first sample
                v[0], v[1] = max(v) + 1, min(v)
            r[str(c)] = [float(x) for x in v]
        resp.append(r)
    data = []
    for ch in range(C):
        data += plant(rows[ch if evch else 0], resp[ch], L, off, N)
    sp = {'kind': 'series', 'what': what, 'off': off, 'L': L, 'cb': rng.random() < 0.3 and what in ('eta', 'ets'),
          'zs': rng.random() < 0.3, 'si': si, 'unit': unit, 'nch': nch, 'N': N, 'evch': evch,
          'ev': [c for r in rows for c in r], 'data': data, 'resp': resp, 'planted': True, 'integer': True,
          'evfloat': rng.random() < 0.3}
    if rowcodes:
        sp['rowcodes'] = True
    return sp


# dtype / layout families (the recording and the event series as stored by an acquisition system) -----------------
DATA_DTYPES = ['uint8', 'uint16', 'int16', 'int32', 'int64', 'float32', '>f8', '>i4', '>f4', '>i2', 'float64']
EV_DTYPES = ['int8', 'int16', 'int32', 'int64', 'uint8', 'float32', '>i4', '>f8', 'float64']


def gen_typed(rng, sp, k=0):
    """the same design with the recording stored in another dtype (unsigned / signed integers, float32, big-endian),
    read-only arrays, the event series in another dtype, and the optional arguments in their other admissible forms
    (sampling interval as time object / rate, offset as numpy integer, len_et as float)"""
    q = dict(sp)
    q.pop('rank_deficient', None)
    cand = [d for d in DATA_DTYPES if fits(sp['data'], d)]
    if cand:
        pref = [d for d in ('uint8', 'uint16', 'float32', 'int16') if d in cand]
        q['dtype'] = pref[k % len(pref)] if (pref and k % 3 != 2) else rng.choice(cand)
    if sp['kind'] == 'series':
        ecand = [d for d in EV_DTYPES if fits(sp['ev'], d)]
        if ecand and rng.random() < 0.7:
            q['evdtype'] = rng.choice(ecand)
    else:
        q['evcols'] = rng.random() < 0.6
        q['evunit'] = rng.choice([None, 'ms', 's', 'us'])
    q['ro'] = rng.random() < 0.3
    q['ctor'] = rng.choice(['si', 'sitime', 'sitime', 'rate'])
    q['offform'] = rng.choice(['int', 'npint'])
    q['lenform'] = rng.choice(['int', 'npint'])
    return q


def noise32(rng, sp):
    """a noisy recording held in single precision (the spec's numbers are the float32 values, exactly)"""
    q = dict(sp)
    q.pop('rank_deficient', None)
    q['data'] = [float(np.float32(v + rng.uniform(-1, 1))) for v in sp['data']]
    q.update(planted=False, integer=False, dtype='float32')
    return q


def variant_tag(sp):
    """which input family a spec belongs to (goes into the failure key of the generic symptoms)"""
    if sp.get('dtype') and sp['dtype'] != 'float64' and fits(sp['data'], sp['dtype']):
        return '/dtype-' + sp['dtype'].lstrip('<>=')
    if sp.get('evdtype'):
        return '/evdtype-' + sp['evdtype'].lstrip('<>=')
    if sp.get('rowcodes'):
        return '/rowcodes'
    if sp.get('alias'):
        return '/alias-' + sp['alias']
    if sp.get('codes_real') or sp.get('negzero'):
        return '/codes'
    if sp.get('edge'):
        return '/edge-' + sp['edge']
    return ''


def gen_many_events(rng, what='fir', positive=False):
    """long recording, short response, MORE THAN 127 occurrences of one code (heavily overlapping): the
    Gram matrix XᵀX has diagonal entries > 127 (a design matrix held in a narrow integer type would wrap)"""
    L = rng.randint(2, 3)
    codes = rng.sample(CODES, rng.randint(1, 2))
    if positive:
        codes = list(dict.fromkeys(abs(c) for c in codes))
    off = rng.choice([0, 0, 1])
    N = rng.randint(330, 520)
    last = N - off - L
    while True:
        ev = [0] * N
        for k in range(last + 1):
            if rng.random() < 0.62:
                ev[k] = codes[0] if rng.random() < 0.8 else rng.choice(codes)
        if sum(1 for c in ev if c == codes[0]) > 140 and my_types(ev) == sorted(codes):
            break
    si, unit = rng.choice(SIS)
    resp = [{str(c): [float(rng.randint(-9, 9) or 1) for _ in range(L)] for c in sorted(codes)}]
    return {'kind': 'series', 'what': what, 'off': off, 'L': L, 'cb': False, 'zs': False, 'si': si, 'unit': unit, 'nch': 0,
            'N': N, 'evch': 0, 'ev': ev, 'data': plant(ev, resp[0], L, off, N), 'resp': resp, 'planted': True,
            'integer': True, 'evfloat': rng.random() < 0.3, 'many': True}


def add_noise(rng, sp):
    sp = dict(sp)
    sp['data'] = [v + rng.uniform(-1, 1) for v in sp['data']]
    sp['planted'] = False
    sp['integer'] = False
    return sp


# amplitude scale ------------------------------------------------------------------------------------
DECADES = [-300, -250, -200, -150, -100, -60, -30, -20, -15, -13, -12, -11, -10, -9, -8, -7, -6, -4, -3, -2, -1,
           1, 2, 3, 4, 6, 8, 9, 10, 12, 15, 20, 30, 60, 100, 150, 200, 250, 300]
MANTISSAS = [1.0, 1.0, 2.0, 2.5, 5.0, 3.0, 7.0]


def is_pow2(g):
    import math
    return g > 0 and math.frexp(g)[0] == 0.5


def draw_gain(rng, lim=300):
    """one amplitude factor from the decades 1e-lim..1e+lim: an exact power of two (scaling is then exact in
    binary64: eta / et_data stay bit-exact) or a decimal m*10^k (what a change of physical units looks like)"""
    r = rng.random()
    if r < 0.35:
        kmax = int(lim * 3.3)
        k = rng.choice([rng.randint(-kmax, kmax), rng.randint(-60, 60), rng.choice([-1, 1]) * rng.randint(27, 45)])
        return 2.0 ** (k or 1)
    dec = [d for d in DECADES if abs(d) <= lim]
    k = rng.choice(dec) if r < 0.85 else rng.choice([-1, 1]) * rng.randint(1, lim)
    m = rng.choice(MANTISSAS)
    if abs(k) >= lim:
        m = 1.0
    return float('%ge%d' % (m, k))


def draw_gains(rng, C, lim=300):
    """per-channel gains; with several channels mostly MIXED: one channel keeps gain 1 next to scaled ones"""
    if C == 1:
        return [draw_gain(rng, lim)]
    mode = rng.random()
    if mode < 0.6:
        g = [draw_gain(rng, lim) for _ in range(C)]
        g[rng.randrange(C)] = 1.0
    elif mode < 0.85:
        g = [draw_gain(rng, lim) for _ in range(C)]
    else:
        g = [draw_gain(rng, lim)] * C
    return g


def scale_spec(sp, gains):
    """the same planted design with channel ch of the recording (and of the planted truth) multiplied by gains[ch]"""
    C, N = n_channels(sp), sp['N']
    assert sp.get('planted') and 'gains' not in sp and len(gains) == C
    q = dict(sp)
    q['data'] = [float(gains[ch]) * v for ch in range(C) for v in sp['data'][ch * N:(ch + 1) * N]]
    q['resp'] = [{c: [float(gains[ch]) * x for x in r] for c, r in sp['resp'][ch].items()} for ch in range(C)]
    q['gains'] = [float(g) for g in gains]
    q['integer'] = bool(sp.get('integer')) and all(is_pow2(g) for g in gains)
    q.pop('rank_deficient', None)
    return q


def gen_scaled(rng, sp):
    """a planted spec at per-channel amplitudes over the decades (ets with inexact gains: 1e-140..1e140)"""
    C = n_channels(sp)
    g = draw_gains(rng, C)
    if sp['what'] == 'ets' and not all(is_pow2(x) for x in g):
        g = [x if (is_pow2(x) or 1e-140 <= x <= 1e140) else draw_gain(rng, 140) for x in g]
    if all(x == 1.0 for x in g):
        g[0] = 1e-11
    return scale_spec(sp, g)


def gen_events(rng, tier, what, nonneg=False):
    """Events input: one type, separated placements, offsets may be negative"""
    L = rng.randint(2, 8)
    off = rng.choice([0, 0, 1, 2, 3, -1, -2, -3])
    nch = rng.choice([0, 0, 1, 2, 3])
    C = max(nch, 1)
    N = rng.randint(3 * L + 10, 6 * L + 30)
    lo, hi = max(0, -off), N - L - max(off, 0)
    slots = list(range(lo, hi + 1, L + rng.randint(0, 2)))
    rng.shuffle(slots)
    slots = slots[:max(2, rng.randint(1, len(slots)))]
    if rng.random() < 0.7:
        slots.sort()
    si, unit = rng.choice(SIS)
    sps = si_ps(si, unit)
    jit = rng.choice([0, 0, 1, 2])
    times = [k * sps + (0 if jit == 0 else (sps // 4 if jit == 1 else sps // 2 + sps // 3)) for k in slots]
    resp = []
    data = []
    for ch in range(C):
        v = [float(rng.randint(0 if nonneg else -9, 9)) for _ in range(L)]
        if all(x == 0 for x in v):
            v[0] = 1.0
        if nonneg and v[0] <= min(v[1:]):     # a response that dips below its first sample
            v[0], v[1] = max(v) + 1.0, min(v)
        resp.append({'1': v})
        y = [0.0] * N
        for k in slots:
            for j in range(L):
                y[k + off + j] += v[j]
        data += y
    return {'kind': 'events', 'what': what, 'off': off, 'L': L, 'cb': rng.random() < 0.3, 'zs': rng.random() < 0.3,
            'si': si, 'unit': unit, 'nch': nch, 'N': N, 'evch': 0, 'times': times, 'slots': slots, 'data': data,
            'resp': resp, 'planted': True, 'integer': True}


def series_of_events(sp):
    """the same events as an event-coded series (code 1); only for off >= 0"""
    ev = [0] * sp['N']
    for k in sp['slots']:
        ev[k] = 1
    q = dict(sp)
    q.update(kind='series', ev=ev, evch=0, evfloat=False)
    q.pop('times')
    return q


def fixed_specs():
    """small hand-made designs that run first on every seed (minimal inputs of the recorded findings,
    every estimator, offsets, negative codes)"""
    out = []
    N, L = 12, 2
    ev = [0, 1, 0, 0, -1, 0, 0, 1, -1, 0, 0, 0]
    resp = [{'1': [1.0, 2.0], '-1': [3.0, 5.0]}]
    for what in ('fir', 'eta', 'ets', 'etdata'):
        e = ev if what == 'fir' else [0, 1, 0, 0, -1, 0, 0, 1, 0, 0, -1, 0][:N]
        for off in (0, 1):
            n = N + 2
            e2 = e + [0, 0]
            out.append({'kind': 'series', 'what': what, 'off': off, 'L': L, 'cb': False, 'zs': False, 'si': 2.0, 'unit': 's',
                        'nch': 0, 'N': n, 'evch': 0, 'ev': e2, 'data': plant(e2, resp[0], L, off, n), 'resp': resp,
                        'planted': True, 'integer': True})
    ev = [0, 2, 1, 0, 0, 1, 2, 0, 0, 0]
    resp = [{'1': [1.0, -2.0, 4.0], '2': [3.0, 5.0, -1.0]}]
    out.append({'kind': 'series', 'what': 'fir', 'off': 0, 'L': 3, 'cb': False, 'zs': False, 'si': 0.5, 'unit': 's', 'nch': 0,
                'N': 10, 'evch': 0, 'ev': ev, 'data': plant(ev, resp[0], 3, 0, 10), 'resp': resp, 'planted': True, 'integer': True})
    for cb in (False, True):
        for off in (0, 1, -1):
            slots = [2, 6]
            y = [0.0] * 10
            for k in slots:
                y[k + off] += 4.0
                y[k + off + 1] += 7.0
            out.append({'kind': 'events', 'what': 'eta', 'off': off, 'L': 2, 'cb': cb, 'zs': False, 'si': 1.0, 'unit': 's', 'nch': 0,
                        'N': 10, 'evch': 0, 'times': [k * 10**12 for k in slots], 'slots': slots, 'data': y,
                        'resp': [{'1': [4.0, 7.0]}], 'planted': True, 'integer': True})
    # amplitude scale: a two-channel recording, channel 0 ordinary, channel 1 the same kind of signal x 1e-11 (MEG in
    # tesla) / x 2^-40 / x 1e12; and 1-d recordings at 1e-13, 1e-300, 1e300 -- every output
    ev2 = [0, 1, 2, 0, 0, 1, 0, 2, 0, 2, 1, 0, 0, 0, 0]
    evs = [0, 1, 0, 0, 2, 0, 0, 1, 0, 0, 2, 0, 0, 0, 0]
    r2 = [{'1': [1.0, -2.0, 4.0], '2': [3.0, 5.0, -1.0]}, {'1': [2.0, 7.0, -3.0], '2': [-4.0, 1.0, 6.0]}]
    for what in ('fir', 'eta', 'ets', 'etdata'):
        e = ev2 if what == 'fir' else evs
        for off in (0, 1):
            n = len(e) + off
            e3 = e + [0] * off
            base2 = {'kind': 'series', 'what': what, 'off': off, 'L': 3, 'cb': False, 'zs': False, 'si': 1.0, 'unit': 's', 'nch': 2,
                     'N': n, 'evch': 0, 'ev': e3, 'data': plant(e3, r2[0], 3, off, n) + plant(e3, r2[1], 3, off, n), 'resp': r2,
                     'planted': True, 'integer': True}
            for g in ([1.0, 1e-11], [2.0 ** -40, 1.0], [1e12, 1.0]):
                out.append(scale_spec(base2, g))
            base1 = dict(base2)
            base1.update(nch=0, data=plant(e3, r2[0], 3, off, n), resp=r2[:1])
            for g in ([1e-13], [1e-300], [1e300], [2.0 ** -990]):
                if what == 'ets' and g[0] in (1e-300, 1e300):
                    continue
                out.append(scale_spec(base1, g))
    for cb in (False, True):
        slots = [2, 6]
        y = [0.0] * 10
        for k in slots:
            y[k + 1] += 4.0
            y[k + 2] += 7.0
        b = {'kind': 'events', 'what': 'eta', 'off': 1, 'L': 2, 'cb': cb, 'zs': False, 'si': 1.0, 'unit': 's', 'nch': 2,
             'N': 10, 'evch': 0, 'times': [k * 10**12 for k in slots], 'slots': slots, 'data': y + [2 * v for v in y],
             'resp': [{'1': [4.0, 7.0]}, {'1': [8.0, 14.0]}], 'planted': True, 'integer': True}
        for what in ('eta', 'ets'):
            b2 = dict(b)
            b2['what'] = what
            out.append(scale_spec(b2, [1.0, 1e-11]))
            out.append(scale_spec(b2, [2.0 ** 900, 3e-9]))
    # ROWS THAT DIFFER: a 2-d event series, row 0 uses the codes {1,2}, row 1 the codes {1,3} (other placements, other
    # counts), 2-d data; and a row with a negative code next to a row without -- every output
    ea = [0, 1, 0, 0, 0, 2, 0, 0, 0, 1, 0, 0, 0, 2, 0, 0, 0, 0, 0, 0]
    eb = [0, 0, 3, 0, 0, 0, 1, 0, 0, 0, 3, 0, 0, 0, 0, 3, 0, 0, 0, 0]
    ec = [0, 0, 2, 0, 0, 0, -1, 0, 0, 0, 2, 0, 0, 0, 0, -1, 0, 0, 0, 0]
    ra = {'1': [1.0, -2.0, 4.0], '2': [3.0, 5.0, -1.0]}
    rb = {'1': [2.0, 7.0, -3.0], '3': [-4.0, 1.0, 6.0]}
    rc = {'-1': [6.0, -5.0, 2.0], '2': [1.0, 8.0, -7.0]}
    fa = [0, 1, 2, 0, 0, 1, 0, 2, 0, 2, 1, 0, 0, 0, 0, 0, 0, 0, 0, 0]
    fb = [0, 3, 0, 1, 3, 0, 0, 1, 1, 0, 3, 0, 0, 0, 0, 0, 0, 0, 0, 0]
    for what in ('fir', 'eta', 'ets', 'etdata'):
        for off in (0, 1):
            for (e0, e1, r0, r1) in ((fa, fb, ra, rb),) if what == 'fir' else ((ea, eb, ra, rb), (ea, ec, ra, rc)):
                n = len(e0) + off
                x0, x1 = e0 + [0] * off, e1 + [0] * off
                out.append({'kind': 'series', 'what': what, 'off': off, 'L': 3, 'cb': what == 'eta' and off == 1, 'zs': False, 'si': 1.0, 'unit': 's',
                            'nch': 2, 'N': n, 'evch': 2, 'ev': x0 + x1, 'data': plant(x0, r0, 3, off, n) + plant(x1, r1, 3, off, n),
                            'resp': [r0, r1], 'planted': True, 'integer': True, 'rowcodes': True})
    # RECORDINGS THAT ARE NOT float64: unsigned integers with a response that dips below its first sample (baseline
    # correction must not wrap), float32, big-endian; both event representations
    ru = [{'1': [5.0, 2.0, 7.0]}]
    eu = [0, 0, 1, 0, 0, 0, 0, 0, 1, 0, 0, 0, 0, 0, 1, 0, 0, 0, 0, 0]
    for dt in ('uint8', 'uint16', 'float32', '>i2', 'int64'):
        for what in ('eta', 'ets', 'etdata', 'fir'):
            for cb in (True, False):
                if cb and what in ('etdata', 'fir'):
                    continue
                out.append({'kind': 'series', 'what': what, 'off': 0, 'L': 3, 'cb': cb, 'zs': False, 'si': 1.0, 'unit': 's', 'nch': 0, 'N': 20,
                            'evch': 0, 'ev': eu, 'data': plant(eu, ru[0], 3, 0, 20), 'resp': ru, 'planted': True, 'integer': True, 'dtype': dt})
                if what in ('eta', 'ets'):
                    out.append({'kind': 'events', 'what': what, 'off': 0, 'L': 3, 'cb': cb, 'zs': False, 'si': 1.0, 'unit': 's', 'nch': 0, 'N': 20,
                                'evch': 0, 'times': [k * 10**12 for k in (2, 8, 14)], 'slots': [2, 8, 14], 'data': plant(eu, ru[0], 3, 0, 20),
                                'resp': ru, 'planted': True, 'integer': True, 'dtype': dt, 'evcols': dt == 'uint8'})
    r32 = __import__('random').Random(32)
    for what in ('eta', 'ets'):
        base32 = {'kind': 'series', 'what': what, 'off': 0, 'L': 3, 'cb': False, 'zs': False, 'si': 1.0, 'unit': 's', 'nch': 0, 'N': 20,
                  'evch': 0, 'ev': eu, 'data': plant(eu, ru[0], 3, 0, 20), 'resp': ru, 'planted': True, 'integer': True}
        out.append(noise32(r32, base32))
        b2 = dict(base32)
        b2.update(kind='events', times=[k * 10**12 for k in (2, 8, 14)], slots=[2, 8, 14])
        b2.pop('ev')
        out.append(noise32(r32, b2))
        out.append(series_of_events(out[-1]))
    out.append({'kind': 'design', 'L': 2, 'ev': [0, 1, 0, -1, 0, 0]})
    out.append({'kind': 'design', 'L': 2, 'ev': [0, 1, 0, 0, 0, 1]})     # short slice -> ValueError
    out.append({'kind': 'design', 'L': 3, 'ev': [2, 1, 2, 0, 7, 0, 0]})
    out.append({'kind': 'designsum', 'L': 2, 'ev': [0, 1, 0, -1, 0, 0]})
    out.append({'kind': 'planted', 'off': 1, 'L': 2, 'ev': [0, 1, -2, 0, 1, 0, 0, 0], 'resp': [{'1': [3.0, 5.0], '-2': [7.0, 4.0]}]})
    return out


def seq_specs(rng, tier):
    """read sequences on ONE analyzer object: every permutation of the applicable getters (series input:
    FIR, eta, ets, et_data; Events input: eta, ets), offsets 0 and != 0, separated planted designs with
    positive codes (so that every getter has a planted truth and FIR is full rank)"""
    import itertools
    out = []
    offs = [1, 0, 2] if tier == 'quick' else [1, 0, 2, 3, 1, 2, 0, 3, 1, 2]
    for o in offs:
        base = gen_series(rng, tier, 'ets', positive=True, off=o)
        base['zs'] = False
        base['cb'] = (len(out) == 0) or rng.random() < 0.4
        if o == 2:     # read sequences on a recording with mixed channel amplitudes
            while not base['nch'] >= 2:
                base = gen_series(rng, tier, 'ets', positive=True, off=o)
                base['zs'], base['cb'] = False, rng.random() < 0.4
            base = gen_scaled(rng, base)
        if o == 0:     # rows that differ in their code sets, stored as integers, other argument forms; results overwritten by the caller
            base = gen_series(rng, tier, 'ets', positive=True, off=o, rowcodes=True, nonneg=True)
            base['zs'], base['cb'] = rng.random() < 0.5, True
            base = gen_typed(rng, base, len(out))
        for n_o, order in enumerate(itertools.permutations(['fir', 'eta', 'ets', 'etdata'])):
            q = dict(base)
            q.update(kind='seq', base='series', order=list(order), what='seq')
            if n_o % 2 == 0:
                q['xc'] = n_o // 2 + 1          # reads of xcorr_eta in between (judged against a fresh analyzer only)
            if n_o % 3 == 1:
                q['scrib'] = True
            out.append(q)
    for i in range(3 if tier == 'quick' else 12):
        base = gen_events(rng, tier, 'eta')
        while base['off'] == 0 and i > 0:
            base = gen_events(rng, tier, 'eta')
        if i % 3 == 2:
            base['what'] = 'ets'
            base = gen_scaled(rng, base)
        if i % 3 == 1:
            base = gen_typed(rng, base, i)
        for order in (['eta', 'ets'], ['ets', 'eta']):
            q = dict(base)
            q.update(kind='seq', base='events', order=order, what='seq', scrib=(order[0] == 'ets'))
            out.append(q)
    return out


def gen_specs(rng, tier):
    n = 120 if tier == 'quick' else 1500
    specs = list(fixed_specs())
    for i in range(4 if tier == 'quick' else 40):
        specs.append(gen_many_events(rng, positive=(i % 2 == 0)))
        if i % 2 == 1:
            specs.append(gen_scaled(rng, specs[-1]))
    specs += seq_specs(rng, tier)
    step = 2 if tier == 'quick' else 6       # how often the row / dtype families are added to the random stream
    for i in range(n):
        for what in ('fir', 'eta', 'ets', 'etdata'):
            sp = gen_series(rng, tier, what, big=(tier == 'thorough' and i % 10 == 0) or (tier == 'quick' and i % 30 == 29))
            specs.append(sp)
            if what != 'etdata' and i % 3 == 0:
                specs.append(add_noise(rng, sp))
            if i % 3 != 0:
                specs.append(gen_scaled(rng, sp))
            # rows of a 2-d event series that differ in their code sets / counts / placements
            if i % step == 0:
                specs.append(gen_series(rng, tier, what, rowcodes=True, nch=rng.choice([2, 2, 3])))
            # the recording (and the event series) stored in other dtypes / read-only / other argument forms
            if i % step == 1:
                tsp = gen_series(rng, tier, what, nonneg=(i % 4 == 1), rowcodes=(i % 8 == 3))
                if i % 4 == 1 and what in ('eta', 'ets'):
                    tsp['cb'] = True
                specs.append(gen_typed(rng, tsp, i // 2))
                if what in ('eta', 'ets') and i % 6 == 1:
                    specs.append(noise32(rng, tsp))
        for what in ('eta', 'ets'):
            sp = gen_events(rng, tier, what)
            specs.append(sp)
            if i % step == 1:
                tsp = gen_events(rng, tier, what, nonneg=(i % 4 == 1))
                if i % 4 == 1:
                    tsp['cb'] = True
                tsp = gen_typed(rng, tsp, i // 2)
                specs.append(tsp)
                if tsp['off'] >= 0:
                    specs.append(series_of_events(tsp))
                if i % 6 == 1:
                    n32 = noise32(rng, tsp)
                    specs.append(n32)
                    if n32['off'] >= 0:
                        specs.append(series_of_events(n32))
            if sp['off'] >= 0 and i % 2 == 0:
                specs.append(series_of_events(sp))
            if i % 3 == 0:
                specs.append(add_noise(rng, sp))
            if i % 3 != 0:
                q = gen_scaled(rng, sp)
                specs.append(q)
                if q['off'] >= 0 and i % 2 == 1:
                    specs.append(series_of_events(q))
        # design matrices straight from utils.fir_design_matrix
        N = rng.randint(4, 30)
        L = rng.randint(1, 6)
        ev = [rng.choice(CODES) if rng.random() < 0.25 else 0 for _ in range(N)]
        if rng.random() < 0.8:
            for k in range(max(0, N - L + 1), N):
                ev[k] = 0
        specs.append({'kind': 'design', 'L': L, 'ev': ev, 'evfloat': rng.random() < 0.3})
        if i % 2 == 0:
            specs.append({'kind': 'designsum', 'L': L, 'ev': ev})
        if i % 4 == 0:
            q = gen_series(rng, tier, rng.choice(['fir', 'eta']))
            if not q['nch']:
                specs.append({'kind': 'planted', 'off': q['off'], 'L': q['L'], 'ev': q['ev'], 'resp': q['resp']})
    return specs


def cmp_values(exact):
    def cmp(impl, model):
        if not (impl.startswith('ok ') and model.startswith('ok ')):
            return impl == model
        a, b = parse_flist(impl[3:]), parse_flist(model[3:])
        if len(a) != len(b):
            return False
        if exact:
            return all(x == y or (x != x and y != y) for x, y in zip(a, b))
        return close_nan(a, b, 1e-12)
    return cmp


def extra_cases(sp, c):
    """the model functions the row / dtype theorems are stated with, on the same inputs: `etaBlock` with each row's own
    types (op etarows) for 2-d event series, `etaRow` over `embedInt` (op etaint) for 1-d recordings stored as integers"""
    out = []
    if sp.get('kind') != 'series' or sp.get('what') != 'eta' or not c.impl.startswith('ok t0='):
        return out
    vals = c.impl.rpartition(' data=')[2]
    if sp.get('evch'):
        out.append(Case(line_of(sp).replace('C19 series eta', 'C19 etarows eta', 1), 'ok ' + vals, 'rows/eta',
                        cmp=cmp_values(bool(sp.get('integer'))), meta=None))
    dt = sp.get('dtype')
    if dt and np.dtype(dt).kind in 'iu' and not sp['nch'] and fits(sp['data'], dt):
        out.append(Case('C19 etaint 0 %d %d %d %s %s' % (1 if sp['cb'] else 0, sp['off'], sp['L'], ilist(sp['ev']), ilist([int(v) for v in sp['data']])),
                        'ok ' + vals, 'dtype/eta-int', cmp=cmp_values(True), meta=None))
    return out


def cases(rng, tier, seed):
    import c19_r2
    out = []
    specs = gen_specs(rng, tier)
    # round 2: both sides of every guard / range of the anchored code (L7), aliased argument forms (L8)
    specs += c19_r2.guard_specs(rng, tier) + c19_r2.alias_specs(rng, tier)
    for sp in specs:
        c = mk_case(sp)
        out.append(c)
        out += extra_cases(sp, c)
    # failure histories on one analyzer object (L7): the refused sequences through the model, the histories for the oracle
    out += c19_r2.gramdiag_cases(specs)
    hist = c19_r2.history_specs(rng, tier)
    out += c19_r2.model_cases(rng, tier, hist)
    for sp, fam, sd in hist:
        row = ev_rows(sp)[0] if sp['kind'] == 'series' else [1]
        out.append(Case('C19 types %s' % ilist(row), 'ok ' + ilist(my_types(row)), 'hist/' + fam, meta={'kind': 'hist', 'spec': sp, 'family': fam, 'fseed': sd}))
    return out


# ------------------------------------------------------------------ oracle
def expected(sp):
    """ground truth (list of floats, shape) for a planted spec, straight from the planted responses"""
    C, L = max(sp['nch'], 1), sp['L']
    if sp['kind'] == 'series':
        rows = ev_rows(sp)
        T = len(my_types(rows[0]))
    w = sp['what']
    if sp['kind'] == 'events':
        vals = []
        for ch in range(C):
            r = sp['resp'][ch]['1']
            vals += [(x - r[0]) if (sp['cb'] and w == 'eta') else (0.0 if w == 'ets' else x) for x in r]
        return vals, [d for d in (C, L) if d != 1]
    vals = []
    for ch in range(C):
        for c in my_types(rows[ch]):
            r = sp['resp'][ch][str(c)]
            if w in ('fir',):
                vals += r
            elif w == 'eta':
                vals += [(x - r[0]) if sp['cb'] else x for x in r]
            elif w == 'ets':
                cnt = sum(1 for e in rows[ch] if e == c)
                vals += [0.0 if cnt >= 2 else float('nan')] * L
    return vals, [d for d in (C, T, L) if d != 1]


def check_case(c):
    sp = c.meta
    if sp['kind'] in ('design', 'designsum'):
        return check_design(c)
    if sp['kind'] == 'gramdiag':
        import c19_r2
        return c19_r2.check_gramdiag(c)
    if sp['kind'] == 'planted':
        return None
    if sp['kind'] == 'seq':
        f = sequence_check(sp, sp['order'])
        if f:
            f.case = c
        return f
    w, kind = sp['what'], sp['kind']
    pre = ('fir' if w == 'fir' else w) + ('/events-input' if kind == 'events' else '')

    def fail(sym, what):
        tag = variant_tag(sp) if sym in ('value', 'raises', 'shape', 'malformed', 'direct') else ''
        fam = ' [data dtype %s, events dtype %s%s]' % (sp.get('dtype', 'float64'), sp.get('evdtype', 'int64'),
                                                     ', rows with different code sets' if sp.get('rowcodes') else '') if tag else ''
        return Failure('%s%s/%s' % (pre, tag, sym), '%s %s (off=%d L=%d cb=%s nch=%d N=%d)%s: %s; impl=%s' % (
            kind, w, sp['off'], sp['L'], sp['cb'], sp['nch'], sp['N'], fam, what, c.impl[:160]),
            {'spec': sp}, case=c)
    if w == 'fir' and sp.get('rank_deficient'):
        return None
    if c.impl.startswith('err'):
        if kind == 'events' and sp['nch'] == 1 and c.impl == 'err IndexError':
            return fail('one-channel-2d/raises', 'data of shape (1, N) with Events input: self.data[0] takes the first SAMPLE of the TimeSeries, then IndexError')
        return fail('raises', 'valid input raised')
    out = parse_out(c.impl)
    if out is None:
        return fail('malformed', 'result is not a real-valued time series')
    head, vals = out
    fields = dict(f.split('=') for f in head.split()[1:])
    sps = si_ps(sp['si'], sp['unit'])
    # time axis: starts at the requested offset, keeps the sampling interval
    if int(fields['t0']) != sp['off'] * sps:
        return Failure('axis/%s/t0' % pre, 't0 = %s ps, want offset*interval = %d ps' % (fields['t0'], sp['off'] * sps), {'spec': sp}, case=c)
    if int(fields['si']) != sps:
        return Failure('axis/%s/si' % pre, 'sampling interval %s ps, want %d ps' % (fields['si'], sps), {'spec': sp}, case=c)
    if not sp.get('planted'):
        return direct_check(sp, fields, vals, fail)
    if w == 'etdata':
        rows = ev_rows(sp)
        want_blocks, want = [], []
        for ch in range(max(sp['nch'], 1)):
            for code in my_types(rows[ch]):
                cnt = sum(1 for e in rows[ch] if e == code)
                want_blocks.append(cnt)
                want += sp['resp'][ch][str(code)] * cnt
        if fields['blocks'] != ilist(want_blocks):
            return fail('shape', 'occurrence counts %s, want %s' % (fields['blocks'], want_blocks))
        if vals != want:
            return fail('value', 'an occurrence differs from the planted response' + (' (gains %s)' % sp['gains'] if sp.get('gains') else ''))
        return None
    want, shape = expected(sp)
    if fields['shape'] != ilist(shape):
        return fail('shape', 'shape %s, want %s' % (fields['shape'], shape))
    # every channel is judged relative to its own amplitude scale
    C = n_channels(sp)
    bad = None
    if len(vals) != len(want):
        bad = (0, 'length')
    else:
        for ch, (bv, bw) in enumerate(zip(chan_blocks(vals, C), chan_blocks(want, C))):
            g = gain_of(sp, ch)
            if w == 'fir':
                ok = close_vec(bv, bw, rtol=1e-9)
            elif w == 'ets':
                ok = all((y != y) or abs(x) <= 1e-12 * g for x, y in zip(bv, bw))
            elif sp.get('integer'):
                ok = all(x == y for x, y in zip(bv, bw))
            else:       # decimal gain: the mean of k identical binary64 values may be off by an ulp
                ok = close_vec(bv, bw, rtol=1e-12)
            if not ok:
                bad = (ch, 'gain %g' % g)
                break
    if bad is None:
        return None
    # classify the symptom
    L = sp['L']
    if w == 'fir' and len(vals) == len(want):
        rows = ev_rows(sp)
        codes = [cd for ch in range(max(sp['nch'], 1)) for cd in my_types(rows[ch])]
        flipped = [v for i, cd in enumerate(codes) for v in ([-x for x in want[i * L:(i + 1) * L]] if cd < 0 else want[i * L:(i + 1) * L])]
        if any(cd < 0 for cd in codes) and all(close_vec(x, y, rtol=1e-9) for x, y in zip(chan_blocks(vals, C), chan_blocks(flipped, C))):
            return fail('negative-code/sign-flipped', 'the response of a negative event code is returned negated')
    if w == 'eta' and kind == 'events' and sp['cb']:
        raw = [x for ch in range(max(sp['nch'], 1)) for x in sp['resp'][ch]['1']]
        if vals == raw:
            return fail('correct-baseline-ignored', 'correct_baseline=True has no effect for Events input (series input subtracts the first sample)')
    if w in ('fir', 'eta') and sorted(vals) == sorted(want):
        blocks_w = sorted(tuple(want[i:i + L]) for i in range(0, len(want), L))
        blocks_v = sorted(tuple(vals[i:i + L]) for i in range(0, len(vals), L))
        if blocks_w == blocks_v:
            return fail('order/not-sorted-by-code', 'rows are not ordered by sorted event code')
    if sp.get('gains') and len(vals) == len(want):
        bv, bw = chan_blocks(vals, C)[bad[0]], chan_blocks(want, C)[bad[0]]
        zero = all(x == 0 for x in bv) and any(y != 0 for y in bw)
        return fail('value', 'channel %d (amplitude %s, gains %s): estimate %s the planted response of that channel: got %s want %s' % (
            bad[0], bad[1], sp['gains'], 'is identically 0 instead of' if zero else 'differs (relative to the channel\'s own scale) from', bv[:6], bw[:6]))
    return fail('value', 'estimate differs from the planted response: got %s want %s' % (vals[:8], want[:8]))


def direct_values(sp):
    """eta / ets / et_data of ANY recording (noisy ones included) straight from the stored numbers -- their exact float64
    embedding -- by plain loops: the average as the exact rational mean (Fractions) rounded once, the standard error by
    the textbook formula over exact rationals (one float sqrt at the end), et_data as copies.  -> (values, shape/blocks)"""
    import math
    C, N, L, off, w = n_channels(sp), sp['N'], sp['L'], sp['off'], sp['what']
    vals, blocks, T = [], [], None
    for ch in range(C):
        d = sp['data'][ch * N:(ch + 1) * N]
        if sp['kind'] == 'series':
            row = ev_rows(sp)[ch]
            groups = [[k for k, e in enumerate(row) if e == code] for code in my_types(row)]
        else:
            groups = [list(sp['slots'])]
        T = len(groups) if T is None else T
        for idx in groups:
            wins = [[Fr(d[k + off + j]) for j in range(L)] for k in idx]
            if w == 'etdata':
                blocks.append(len(idx))
                vals += [float(x) for win in wins for x in win]
                continue
            if sp['cb']:
                wins = [[x - win[0] for x in win] for win in wins]
            n = len(wins)
            for j in range(L):
                col = [win[j] for win in wins]
                m = sum(col) / n
                if w == 'eta':
                    vals.append(float(m))
                elif n < 2:
                    vals.append(float('nan'))
                else:
                    vals.append(math.sqrt(float(sum((x - m) ** 2 for x in col) / (n - 1) / n)))
    shape = blocks if w == 'etdata' else [x for x in ((C, T, L) if sp['kind'] == 'series' else (C, L)) if x != 1]
    return vals, shape


def direct_check(sp, fields, vals, fail):
    """non-planted recordings: the estimate equals the direct computation from the stored numbers"""
    w = sp['what']
    if w == 'fir':
        return None
    want, shape = direct_values(sp)
    if fields.get('blocks' if w == 'etdata' else 'shape') != ilist(shape):
        return fail('shape', 'shape %s, want %s' % (fields.get('blocks' if w == 'etdata' else 'shape'), shape))
    if w == 'etdata':
        ok = vals == want
    else:
        q = dict(sp)
        q['planted'] = False
        ok = close_per_channel(q, vals, want, 1e-12 if w == 'eta' else 1e-9)
    if not ok:
        return fail('direct', '%s differs from the %s computed directly from the stored values (exact embedding into float64): got %s want %s' % (
            w, 'exact rational average' if w == 'eta' else 'standard error of the mean' if w == 'ets' else 'windows', vals[:6], want[:6]))
    return None


def check_design(c):
    sp = c.meta
    ev, L = sp['ev'], sp['L']
    n = len(ev)
    short = any(e != 0 and k + L > n for k, e in enumerate(ev))
    if c.impl.startswith('err'):
        return None if short else Failure('design/raises', 'fir_design_matrix raised on a valid design', {'spec': sp}, case=c)
    if short:
        return None
    # property-level: X @ h reproduces the signed planted signal (docstring: negative codes enter with their sign)
    toks = c.impl.split()
    if toks[0] != 'ok':
        return Failure('design/malformed', c.impl[:100], {'spec': sp}, case=c)
    r, p = int(toks[1]), int(toks[2])
    types = my_types(ev)
    if r != n or p != len(types) * L:
        return Failure('design/shape', 'shape (%d,%d), want (%d,%d)' % (r, p, n, len(types) * L), {'spec': sp}, case=c)
    X = np.array([int(t) for t in toks[3].split(',')] if toks[3] != '-' else [], dtype=float).reshape(r, p)
    Xabs = np.zeros((n, p))
    for k, e in enumerate(ev):
        if e != 0:
            b = types.index(e)
            for j in range(L):
                Xabs[k + j, b * L + j] += 1
    if not np.array_equal(np.abs(X), Xabs):
        return Failure('design/entries', 'design matrix is not the sum of shifted identity blocks of the sorted codes', {'spec': sp}, case=c)
    return None


def metamorphic(rng, cases_):
    """pairs across cases: series vs event-times representation; linear combinations of the data"""
    fails, n = [], 0
    by_line = {}
    ev_cases = [c for c in cases_ if c.meta and c.meta.get('kind') == 'events']
    ser = {}
    for c in cases_:
        m = c.meta
        if m and m.get('kind') == 'series' and 'slots' in m:
            ser[(m['what'], tuple(m['slots']), m['off'], m['cb'], tuple(m['data']))] = c
    for c in ev_cases:
        m = c.meta
        k = (m['what'], tuple(m['slots']), m['off'], m['cb'], tuple(m['data']))
        s = ser.get(k)
        if s is None:
            continue
        n += 1
        a, b = parse_out(c.impl), parse_out(s.impl)
        if a is None or b is None:
            if a is None and b is None:
                continue
            if m['nch'] == 1 and c.impl == 'err IndexError':
                continue     # reported on the case itself (…/events-input/one-channel-2d/raises)
            fails.append(Failure('repr-equiv/%s/one-raises' % m['what'], 'one representation raises, the other does not: %s vs %s' % (c.impl[:60], s.impl[:60]),
                                 {'spec': m, 'pair': 'series'}, case=c))
            continue
        same = a[0] == b[0] and len(a[1]) == len(b[1]) and all(x == y or (x != x and y != y) for x, y in zip(a[1], b[1]))
        if not same and not m.get('integer') and a[0] == b[0]:
            # noisy recordings: the two representations list the events in different orders (np.where sorts them, the
            # Events object keeps the caller's order), so the sums may differ in the last place -- not more
            qq = dict(m)
            qq['planted'] = False
            same = close_per_channel(qq, a[1], b[1], 1e-12 if m['what'] == 'eta' else 1e-11)
        if not same:
            sym = 'correct-baseline-ignored' if (m['cb'] and m['what'] == 'eta') else ('cb' if m['cb'] else 'differs')
            key = ('eta/events-input/correct-baseline-ignored' if sym == 'correct-baseline-ignored'
                   else 'repr-equiv/%s/%s' % (m['what'], sym))
            if variant_tag(m).startswith('/dtype-'):
                key = 'repr-equiv/%s%s' % (m['what'], variant_tag(m))
            fails.append(Failure(key, 'event-coded series and event times give different %s: %s vs %s' % (m['what'], s.impl[:100], c.impl[:100]),
                                 {'spec': m, 'pair': 'series'}, case=c))
    # linearity: est(a*y1 + y2) = a*est(y1) + est(y2), same design, per channel
    pool = [c for c in cases_ if c.meta and c.meta.get('kind') in ('series', 'events') and c.meta['what'] in ('fir', 'eta')
            and not c.impl.startswith('err') and not c.meta.get('rank_deficient')]
    for c in pool[::3]:
        m = c.meta
        f = linear_check(m, rng.choice([2.0, -3.0, 0.5]), rng.randint(0, 10**6))
        n += 1
        if f:
            f.case = None
            fails.append(f)
    # homogeneity per channel over the amplitude decades (all four outputs, both event representations, noisy data too)
    pool = [c for c in cases_ if c.meta and c.meta.get('kind') in ('series', 'events') and not c.impl.startswith('err')
            and not c.meta.get('rank_deficient') and 'gains' not in c.meta]
    for c in pool[1::3]:
        m = c.meta
        lim = 140 if (m['what'] == 'ets' or not m.get('integer')) else 300
        g = draw_gains(rng, n_channels(m), lim)
        if m['what'] == 'ets' or not m.get('integer'):
            g = [x if 1e-140 <= x <= 1e140 else draw_gain(rng, 140) for x in g]
        if all(x == 1.0 for x in g):
            g[0] = 2.5e-11
        f = scale_check(m, g)
        n += 1
        if f:
            f.case = None
            fails.append(f)
    # process histories: two analyzers with different options alive at once on the same input objects; and the cases of
    # the first phase run AGAIN on fresh inputs after everything else this process has done since
    pool = [c for c in cases_ if c.meta and c.meta.get('kind') in ('series', 'events') and not c.impl.startswith('err')]
    stride = 9 if len(pool) < 6000 else 45
    for c in pool[2::stride]:
        try:
            f = interleave_check(c.meta)
        except Exception as e:  # noqa  (a constructor that raises on the alternative options etc.)
            f = Failure('interleave/raises', 'two analyzers on the same input objects: %r' % e, {'spec': c.meta, 'inter': True})
        n += 1
        if f:
            fails.append(f)
    for c in pool[4::stride]:
        try:
            f = rerun_check(c.meta, first=c.impl)
        except Exception as e:  # noqa
            f = Failure('rerun/raises', 'the same call again: %r' % e, {'spec': c.meta, 'rerun': True})
        n += 1
        if f:
            fails.append(f)
    return fails, n


def alt_options(sp):
    """the same recording and events analysed with OTHER option values (shorter window, smaller offset, the flags
    flipped); every window of the alternative lies inside the recording whenever the original's does"""
    q = dict(sp)
    q.pop('rank_deficient', None)
    q.update(L=max(2, sp['L'] - 1), cb=not sp['cb'], zs=not sp.get('zs'),
             off=(max(sp['off'] - 1, 0) if sp['off'] >= 0 else sp['off'] + 1))
    q['planted'] = False
    return q


def getters_of(sp):
    return ['fir', 'eta', 'ets', 'etdata'] if sp.get('base', sp['kind']) == 'series' else ['eta', 'ets']


def interleave_check(sp):
    """process history, two analyzers alive at once: A and B are built on the SAME input objects with different
    options and read alternately; every read equals what a fresh analyzer with those options gives on fresh inputs"""
    alt = alt_options(sp)
    rp = {'spec': sp, 'inter': True}
    ws = getters_of(sp)
    got = []
    with warnings.catch_warnings():
        warnings.simplefilter('ignore')
        a, T, E = build(sp)
        b, _, _ = build(alt, shared=(T, E))
        for k, w in enumerate(ws):
            for who, an in ((('A', a), ('B', b)) if k % 2 == 0 else (('B', b), ('A', a))):
                try:
                    got.append((who, w, canon_read(w, read(an, w))))
                except Exception as e:  # noqa
                    got.append((who, w, 'err ' + err_kind(e)))
    for who, w, r in got:
        q = dict(sp if who == 'A' else alt)
        q['what'] = w
        fresh = run_impl(q)
        if not same_out(q, w, r, fresh):
            return Failure('interleave/%s/value' % w, '%s of analyzer %s (len_et=%d offset=%d correct_baseline=%s zscore=%s), read while another analyzer '
                           'on the same input objects with other options (len_et=%d offset=%d) is in use, differs from a fresh analyzer on fresh inputs: %s vs %s' % (
                               w, who, q['L'], q['off'], q['cb'], q.get('zs'), (alt if who == 'A' else sp)['L'], (alt if who == 'A' else sp)['off'], r[:100], fresh[:100]), rp)
    return None


def rerun_check(sp, first=None):
    """process history, one entry point called again: the case is run, then the same recording with OTHER options,
    then the case again on fresh inputs -- same canonical answer every time (and as `first`, the answer of the cases
    phase that ran before everything else in this process)"""
    r1 = run_impl(sp)
    run_impl(alt_options(sp))
    r2 = run_impl(sp)
    for x, y, how in ((first, r2, 'than at the start of the process'), (r1, r2, 'than before a call with other options')):
        if x is not None and not same_out(sp, sp['what'], x, y):
            return Failure('rerun/%s/%s/value' % (sp['kind'], sp['what']), 'the same call on fresh inputs gives another result %s: %s vs %s' % (how, x[:100], y[:100]),
                           {'spec': sp, 'rerun': True})
    return None


def linear_check(m, a, nseed):
    if m.get('alias') in ('same', 'samearray'):      # the recording IS the event series: other data = other events
        return None
    r = np.random.RandomState(nseed)
    y1 = np.array(m['data'])
    y2 = np.round(r.uniform(-8, 8, size=len(y1)))
    outs = []
    for y in (y1, y2, a * y1 + y2):
        q = dict(m)
        q['data'] = [float(v) for v in y]
        o = parse_out(run_impl(q))
        if o is None:
            return Failure('linear/%s/raises' % m['what'], 'estimator raised on a linear combination of admissible data', {'spec': m, 'lin': [a, nseed]})
        outs.append(np.array(o[1]))
    want = a * outs[0] + outs[1]
    # judged at the scale of the DATA (a recording at amplitude 1e268 whose estimate happens to be 0 absorbs the second,
    # unit-amplitude recording completely: not a failure of linearity)
    dmax = float(np.max(np.abs(a * y1 + y2))) if len(y1) else 0.0
    if not close_vec(list(outs[2]), list(want), rtol=1e-9, atol=1e-9 * dmax):
        return Failure('linear/%s/value' % m['what'], 'est(a*y1+y2) != a*est(y1)+est(y2) (a=%s)' % a, {'spec': m, 'lin': [a, nseed]})
    return None


def scale_check(m, gains):
    """per-channel homogeneity: the estimate of diag(g)·Y is diag(g)·(estimate of Y) -- FIR, eta, et_data; ets with |g| --
    every channel judged at its own scale (tolerance relative to g[ch] times that channel's data / estimate magnitude)"""
    C, N, w = n_channels(m), m['N'], m['what']
    if m.get('alias') in ('same', 'samearray'):
        return None
    rp = {'spec': m, 'scale': [float(g) for g in gains]}
    q = dict(m)
    q['data'] = [float(gains[ch]) * v for ch in range(C) for v in m['data'][ch * N:(ch + 1) * N]]
    o1, o2 = parse_out(run_impl(m)), parse_out(run_impl(q))
    if o1 is None:
        return None      # judged on the case itself
    if o2 is None:
        return Failure('scale/%s/raises' % w, 'estimator raised on the same recording with channel gains %s' % gains, rp)
    if o1[0] != o2[0] or len(o1[1]) != len(o2[1]):
        return Failure('scale/%s/shape' % w, 'shape / axis changed with the amplitude: %s vs %s' % (o1[0][:80], o2[0][:80]), rp)
    if w == 'etdata':
        fields = dict(f.split('=') for f in o1[0].split()[1:])
        counts = [int(t) for t in fields['blocks'].split(',')] if fields['blocks'] != '-' else []
        ntypes = [len(my_types(r)) for r in ev_rows(m)]      # rows of a 2-d event series may use different numbers of codes
        if sum(ntypes) != len(counts):
            return None
        starts = [sum(ntypes[:ch]) for ch in range(C)]
        sizes = [sum(counts[starts[ch]:starts[ch] + ntypes[ch]]) * m['L'] for ch in range(C)]
        A, B, k = [], [], 0
        for n in sizes:
            A.append(o1[1][k:k + n])
            B.append(o2[1][k:k + n])
            k += n
    else:
        A, B = chan_blocks(o1[1], C), chan_blocks(o2[1], C)
        if len(A) != C:
            return None
    for ch in range(C):
        g = float(gains[ch])
        want = [abs(g) * x if w == 'ets' else g * x for x in A[ch]]
        dmax = max([abs(v) for v in m['data'][ch * N:(ch + 1) * N]] + [0.0])
        if w == 'etdata':
            ok = len(want) == len(B[ch]) and all(x == y for x, y in zip(want, B[ch]))
        elif w == 'fir':
            ok = close_nan(B[ch], want, 1e-9, atol=0.0)
        else:
            ok = close_nan(B[ch], want, 0.0, atol=1e-12 * abs(g) * dmax)
        if not ok:
            zero = all(x == 0 for x in B[ch]) and any(y != 0 for y in want)
            return Failure('scale/%s/value' % w, '%s of the recording with channel %d multiplied by %g %s %g x (%s of the original channel) '
                           '(judged at that channel\'s scale): got %s want %s' % (w, ch, g, 'is identically 0, not' if zero else 'is not', g, w, B[ch][:6], want[:6]), rp)
    return None


def oracle(rng, tier, seed, focus, cases=None):
    fails, n = [], 0
    for c in (cases or []):
        if c.meta:
            n += 1
            if c.meta.get('kind') == 'seq':
                for f in sequence_failures(c.meta, c.meta['order']):
                    f.case = c
                    fails.append(f)
                continue
            if c.meta.get('kind') == 'hist':
                import c19_r2
                fails += c19_r2.failure_failures(c.meta['spec'], c.meta['family'], c.meta['fseed'])
                continue
            f = check_case(c)
            if f:
                fails.append(f)
    mf, mn = metamorphic(rng, cases or [])
    fails += mf
    # L8: the caller overwrites the recording in place between two analyzers built on the same input objects
    import c19_r2
    pool = [c for c in (cases or []) if c.meta and c.meta.get('kind') in ('series', 'events') and c.meta.get('planted')
            and 'gains' not in c.meta and not c.impl.startswith('err') and not c.meta.get('many') and not c.meta.get('rank_deficient')]
    for i, c in enumerate(pool[3::(11 if len(pool) < 6000 else 60)]):
        fails += c19_r2.inplace_failures(c.meta, seed * 1000 + i)
        mn += 1
    for f in fails:
        f.replay['key'] = f.key
    # smallest failing input first (it is the one recorded per key)
    fails.sort(key=lambda f: len(f.replay['spec'].get('data', [])) + len(f.replay['spec'].get('ev', [])))
    skipped = sum(1 for c in (cases or []) if c.meta and c.meta.get('rank_deficient'))
    return fails, {'judged': n, 'metamorphic': mn, 'failed': len(fails), 'rank_deficient_skipped': skipped, 'focus': len(focus)}


def replay(d):
    """re-run one recorded failing input on the current tree.  A failure under a DIFFERENT key that is a
    recorded known finding (e.g. the negative-code sign on a design that also has negative codes) is not
    a reproduction of the recorded failure."""
    import common
    f = _replay(d)
    if f is not None and f.key != d.get('key') and common.match_known(f.key, common.load_findings(PID)):
        return None
    return f


def _replay(d):
    sp = dict(d['spec'])
    sp.pop('rank_deficient', None)
    if d.get('gramdiag'):
        import c19_r2
        cs = c19_r2.gramdiag_cases([{'kind': 'series', 'what': 'fir', 'many': True, 'nch': 0, 'ev': sp['ev'], 'L': sp['L']}])
        return c19_r2.check_gramdiag(cs[0])
    if d.get('fail') or d.get('inplace'):
        import c19_r2
        fs = c19_r2.failure_failures(sp, d['fail'], d.get('fseed', 0)) if d.get('fail') else c19_r2.inplace_failures(sp, d.get('fseed', 0))
        same = [f for f in fs if f.key == d.get('key')]
        return same[0] if same else (fs[0] if fs else None)
    if d.get('seq'):
        return sequence_check(sp, d['order'], d.get('key'))
    if d.get('inter'):
        return interleave_check(sp)
    if d.get('rerun'):
        return rerun_check(sp)
    if 'lin' in d:
        return linear_check(sp, d['lin'][0], d['lin'][1])
    if 'scale' in d:
        return scale_check(sp, d['scale'])
    c = mk_case(sp)
    if d.get('pair') == 'series':
        s = mk_case(series_of_events(sp))
        fs, _ = metamorphic(__import__('random').Random(0), [c, s])
        fs = [f for f in fs if not f.key.startswith('linear/')]
        return fs[0] if fs else check_case(c)
    return check_case(c)
