"""histories.py — shared helpers for PROCESS HISTORIES and INPUT FAMILIES in the correspondence harnesses.

Lessons of the seeded-change waves (DESIGN 11.4/11.8): a check that calls every entry point once, on fresh float64
C-contiguous arrays, cannot see (a) state that survives between calls (module-level / class-level caches, memoised
attributes, dicts shared between objects), (b) results that alias internal state, (c) paths taken only for other dtypes,
layouts or optional arguments.  The helpers below make those cheap to add to any harness; what is judged stays the
property's own oracle and the model (a re-run of a case is just another Case with the same protocol line).

  scribble(result)                 overwrite, in place, every writeable ndarray reachable from a result
  dtype_family(x, rng, kinds)      the same numbers as int16/int32/int64/uint8/float32/complex64/F-order/strided/read-only
  Sandwich                         run thunks; then perturb (variant calls, scribbling on what was handed out); then re-run
"""
import numpy as np


def _arrays(obj, seen=None, depth=0):
    if seen is None:
        seen = set()
    if id(obj) in seen or depth > 4:
        return
    seen.add(id(obj))
    if isinstance(obj, np.ndarray):
        yield obj
        for a in ('data', 'time', 'metadata'):
            try:
                v = obj.__dict__.get(a) if hasattr(obj, '__dict__') else None
            except Exception:
                v = None
            if v is not None:
                yield from _arrays(v, seen, depth + 1)
        return
    if isinstance(obj, (list, tuple)):
        for v in obj:
            yield from _arrays(v, seen, depth + 1)
    elif isinstance(obj, dict):
        for v in obj.values():
            yield from _arrays(v, seen, depth + 1)
    elif hasattr(obj, '__dict__') and type(obj).__module__.startswith('nitime'):
        for v in list(vars(obj).values()):
            yield from _arrays(v, seen, depth + 1)


def scribble(result, value=None):
    """overwrite in place every writeable ndarray reachable from `result` (a caller is free to do that with what it
    was handed); returns how many arrays were changed"""
    n = 0
    for a in _arrays(result):
        if not isinstance(a, np.ndarray) or a.size == 0 or not a.flags.writeable:
            continue
        try:
            if a.dtype.kind in 'fc':
                a[...] = (value if value is not None else -7.25) * (1 + np.arange(a.size).reshape(a.shape) % 3)
            elif a.dtype.kind in 'iu':
                a[...] = 3
            elif a.dtype.kind == 'b':
                a[...] = ~a
            else:
                continue
            n += 1
        except Exception:
            pass
    return n


INT_KINDS = ('int16', 'int32', 'int64', 'uint8')


def dtype_family(x, rng=None, kinds=('int16', 'int32', 'int64', 'uint8', 'float32', 'complex64', 'F', 'strided', 'readonly', 'bigendian')):
    """[(label, array)] holding "the same data" as the float64 / complex128 array x in other representations.
    Integer kinds: x is scaled into the type's range and rounded (so the VALUES differ from x — callers compute their
    expectation from the returned array converted back with .astype(float64), which is exact for all of these)."""
    x = np.asarray(x)
    out = []
    for k in kinds:
        try:
            if k in INT_KINDS:
                if np.iscomplexobj(x):
                    continue
                info = np.iinfo(k)
                m = float(np.max(np.abs(x))) or 1.0
                if k == 'uint8':
                    y = np.round((x - x.min()) / ((x.max() - x.min()) or 1.0) * 200 + 20).astype(k)
                else:
                    y = np.round(x / m * min(info.max // 4, 20000)).astype(k)
                out.append((k, y))
            elif k == 'float32':
                if np.iscomplexobj(x):
                    continue
                out.append((k, x.astype(np.float32)))
            elif k == 'complex64':
                out.append((k, x.astype(np.complex64)))
            elif k == 'F':
                if x.ndim >= 2:
                    out.append((k, np.asfortranarray(x)))
            elif k == 'strided':
                big = np.zeros(x.shape[:-1] + (2 * x.shape[-1],), dtype=x.dtype)
                big[..., ::2] = x
                out.append((k, big[..., ::2]))
            elif k == 'readonly':
                y = x.copy()
                y.flags.writeable = False
                out.append((k, y))
            elif k == 'bigendian':
                out.append((k, x.astype(x.dtype.newbyteorder('>'))))
        except Exception:
            pass
    return out


class Sandwich:
    """first pass: `add(tag, thunk)` runs thunk() and keeps (tag, thunk, result).  `perturb(variant_thunks)` runs the
    variant calls (other options / other objects sharing state) and scribbles on every result handed out so far.
    `second_pass()` re-runs every thunk and yields (tag, first_result_snapshot, second_result): a correct
    implementation returns equal values both times."""

    def __init__(self, snapshot):
        self.snapshot = snapshot          # result -> comparable canonical form (taken BEFORE scribbling)
        self.items = []

    def add(self, tag, thunk):
        r = thunk()
        self.items.append([tag, thunk, r, self.snapshot(r)])
        return r

    def perturb(self, variant_thunks=(), scribble_results=True):
        for v in variant_thunks:
            try:
                r = v()
                if scribble_results:
                    scribble(r)
            except Exception:
                pass
        if scribble_results:
            for it in self.items:
                scribble(it[2])

    def second_pass(self):
        for tag, thunk, _, snap in self.items:
            yield tag, snap, thunk()
