#!/usr/bin/env python3
"""Regenerates /verif/MANIFEST.json from the table below (kept valid at all times)."""
import json, os
V = os.path.dirname(os.path.dirname(os.path.abspath(__file__)))
props = [json.loads(l) for l in open(os.path.join(V, 'properties.jsonl'))]

# id -> (technique, level text, level note, design ref); kept in harness/claims.py
import sys
sys.path.insert(0, os.path.dirname(os.path.abspath(__file__)))
from claims import CLAIMED, NOT_APPLICABLE
from claims_s3 import S3
import re
PENDING = 'check not built yet (work in progress; DESIGN.md section 10 gives the order of work)'

m = {"version": 1, "setup_cmd": "./setup.sh",
     "hooks": {"guard": "NITIME_VERIF", "enable": "no source hooks are needed (all observation is done from outside by the harness); checks run /repo's working tree as it is",
               "baseline_off_cmd": "cd /repo && /venv/bin/python -m pytest -ra -q -p no:cacheprovider --timeout=900 --continue-on-collection-errors",
               "source_commits": [], "add_only": True},
     "engines": [{"name": "lean4-proof+correspondence", "path": "check", "serves_properties": sorted(CLAIMED),
                  "kind_free_text": "Lean 4 theorems about executable models (lean/Nitime); translator harness/translate.py regenerates lean/Nitime/Generated from /repo on every run; harness/cXX.py runs the model driver and the real code on the same operations and an independent oracle on the real code"}],
     "checks": [], "not_applicable": [],
     "notes": "Every check: translate -> lake build (proofs re-checked) -> axiom audit -> correspondence -> oracle -> decide. Exit 2 = infrastructure failure (no verdict). known_findings.json lists repaired (fix:) and recorded defects."}
for p in props:
    i = p['id']
    if i in CLAIMED:
        tech, text, note, ref = CLAIMED[i]
        note = note + ' ' + S3.get(i, '')
        ref = ref + ', 11.8'
        try:   # the number of audited theorems is a measured quantity: take it from the last evidence file
            n = json.load(open(os.path.join(V, 'evidence', i + '.json')))['coverage']['obligations']
            text = re.sub(r'^(Proof(?: \(partial\))?): \d+ theorems', lambda m: '%s: %d theorems' % (m.group(1), n), text)
        except Exception:
            pass
        m['checks'].append({"property_id": i, "quick_cmd": "./check %s quick" % i, "thorough_cmd": "./check %s thorough" % i,
                            "evidence_file": "evidence/%s.json" % i, "replay_cmd_template": "./check %s --replay {path}" % i,
                            "engine": "lean4-proof+correspondence",
                            "level_claimed": {"category": "proof", "text": text, "design_ref": ref},
                            "level_note": note, "technique": tech})
    else:
        m['not_applicable'].append({"property_id": i, "reason": NOT_APPLICABLE.get(i, PENDING)})
json.dump(m, open(os.path.join(V, 'MANIFEST.json'), 'w'), indent=1)
print('claimed', sorted(CLAIMED))
