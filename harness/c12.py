"""C12 — Granger causality spectra obey the spectral decomposition identities.

Correspondence: transfer_function_xy, spectral_matrix_xy + coherence_from_spectral +
interdependence_xy, granger_causality_xy on random stable bivariate models, and GrangerAnalyzer
(causality_xy / causality_yx / simultaneous_causality with explicit and default ij lists) vs the
Lean model `Nitime.C12` run at complex binary64 (the definitions the theorems instantiate at ℂ).
Oracle (independent of the Lean model): dense numpy — inv of the coefficient polynomial,
H·Σ·Hᴴ, eigenvalues, the Geweke formulas written directly, relabelling, zero coupling, and the
analyzer arrays rebuilt pair by pair with fresh calls of the public functions.
"""
import numpy as np
from common import Case, Failure, flist, parse_flist, clist, parse_clist, call, close_vec
import ar_fam

PID = 'C12'
LEAN_TARGETS = ['Nitime.Props.C12']
RULE = ('round 2: coefficient rows that coincide bit for bit (reciprocal, equal diagonals, all equal, identical channels, zero couplings), entries / arrays sharing memory (as_strided), covariance a view of the coefficient array, off-diagonals one cell (L8; op tfs = the same call with the four responses bound to shared objects); refused / failing calls of the five functions then ordinary calls against fresh copies; one analyzer whose first read is refused part-way, vars() compared, then re-targeted (L7); session 3: coefficient / covariance / transfer-function / spectral arrays also as float32, complex64, integer (covariance, nilpotent integer coefficients), big-endian, Fortran-ordered, strided and read-only arrays; n_freqs left at its default; innovation covariances of scale 1e-140..1e140 judged against the same model with the covariance scaled by an exact power of two; poles at radius 0.99 / 0.997; analyzers with criterion-selected order (max_order, criterion given), explicit order with a smaller / None max_order, grids of 1..3 points, default n_freqs, integer / float32 / strided / F-ordered recordings; a perturbation phase (other options, subclass analyzers, results overwritten) followed by a re-run of a sample of the cases on fresh objects; GrangerAnalyzer objects are re-targeted with set_input (same shape / other length / other rate / other channel count) after reading model-derived or causality attributes, and every array / axis read afterwards is judged against the NEW input (the model is fed fresh fit_model results of the input current at each step); every routine is also run in call sequences on the same argument objects (>=3 evaluations in mixed order, results scribbled over, arrays refilled in place; C12: several live analyzers read in interleaved order); cases from one PRNG state: stable bivariate VAR models of order 1..6 (companion spectral radius 0.3..0.92), '
        'with and without zeroed cross-couplings, diagonal and correlated positive-definite innovation covariances, '
        'n_freqs of both parities; covariance scales 1e-12..1e4; analyzer runs on simulated 3..4-channel data with explicit ij lists in random order, '
        'reversed pairs and the default list; distinct = distinct protocol line')
ASSUMPTIONS = ['det A(ω) ≠ 0 on the grid (true for stable models; generated models are stable)',
               'Σ real symmetric positive definite (σ>0, γ>0, σγ−υ²>0) and the auto components / det S positive: '
               'exactly the hypotheses under which the code\'s logarithms are finite',
               'GrangerAnalyzer.frequencies (Nyquist-inclusive get_freqs) vs the freqz grid is a C05 clause; here values are compared bin by bin and the axis mismatch is reported under the key analyzer/frequencies/*']
TRUSTED_EXTRA = [
    'op tfs: which of the four response arrays inside transfer_function_xy are one object cannot be observed from outside; the harness passes the maximal sharing the coefficient rows allow (bit-equal rows -> one object, what a coefficient-keyed memo would hand out) and `transfer_function_value_independent_of_sharing` shows the value is the same for every valid binding',
    'round 2 failure histories: the instance-dict comparison (`ar_fail.vars_delta`) treats attributes that are declared one-time properties as allowed to appear after a refused read; writes reaching the instance through other aliases of `self`, base classes or descriptors other than `OneTimeProperty` are seen by the run-time comparison but not by the translator (`Generated/GrangerAttrs.lean` looks at the methods of class GrangerAnalyzer only)',
   
    'Float (complex binary64) instance of the Scalar-polymorphic model approximates the ℂ instance the theorems are about (unproved; bounded by the 1e-9 comparison)',
    'scipy.signal.freqz(b, 1, worN=n, whole=False[, include_nyquist]) modelled as the polynomial in exp(-1j·w_k); grid options are GENERATED from freq_response by harness/translate_c10.py',
    'numpy element-wise arithmetic along the frequency axis modelled per bin; np.log by Float.log / Real.log of the same ratio',
    'GrangerAnalyzer model fitting (fit_model / lwr_recursion) is NOT part of C12: the analyzer correspondence takes the fitted (coef, ecov) per pair from the analyzer and checks the spectra and their placement (fitting is C11)',
    'in the re-target sequences (op anaseq) the model of the analyzer object (`Model/GrangerObj.lean`) is fed FRESH fit_model results of the input current at each step, so an analyzer that keeps fits / spectra / axis of an earlier input disagrees with the model as well as with the oracle',
]


def mods():
    import nitime.algorithms.autoregressive as ar
    import nitime.analysis.granger as gr
    import nitime.timeseries as ts
    return ar, gr, ts


# ------------------------------------------------------------------ generators
def stable_var(nrng, P, rho, zero=None):
    """coefficient matrices a (P,2,2) in the code's convention X[t] + sum a[k] X[t-k] = E[t]"""
    A = nrng.randn(P, 2, 2)
    if zero == 'xy':
        A[:, 0, 1] = 0.0
    elif zero == 'yx':
        A[:, 1, 0] = 0.0
    elif zero == 'both':
        A[:, 0, 1] = 0.0
        A[:, 1, 0] = 0.0
    C = np.zeros((2 * P, 2 * P))
    C[:2, :] = np.hstack(list(A))
    if P > 1:
        C[2:, :-2] = np.eye(2 * (P - 1))
    r = np.abs(np.linalg.eigvals(C)).max()
    if r == 0:
        r = 1.0
    s = rho / r
    A = np.array([A[k] * s ** (k + 1) for k in range(P)])
    return -A


def gen_cov(nrng, kind):
    if kind == 'diag':
        return np.diag(nrng.uniform(0.2, 3.0, 2))
    L = nrng.randn(2, 2)
    c = L.dot(L.T) + 0.1 * np.eye(2)
    return (c + c.T) / 2


def aflat(a):
    return flist(np.asarray(a, dtype=float).reshape(-1))


def a_of(m):
    """coefficient matrices as the implementation receives them (representation m['dt'])"""
    return ar_fam.variant(np.array(parse_flist(m['a'])).reshape(m['P'], 2, 2), m.get('dt'))


def cov_of(m):
    return ar_fam.variant(np.array(parse_flist(m['cov'])).reshape(2, 2), m.get('dtc'))


def args_of(m):
    """(a, cov) as the implementation receives them.  `mem` (round 2, L8) says how the OBJECTS share memory: coefficient
    entries that are one buffer, a coefficient array that is a slice of a larger buffer, the covariance a view of `a`"""
    mem = m.get('mem')
    if not mem:
        return a_of(m), (cov_of(m) if 'cov' in m else None)
    import ar_fail
    av = np.array(parse_flist(m['a'])).reshape(m['P'], 2, 2)
    cv = np.array(parse_flist(m['cov'])).reshape(2, 2) if 'cov' in m else None
    if mem == 'recip-one-buffer':
        a = ar_fail.strided_recip(av)
    elif mem == 'alleq-one-buffer':
        a = ar_fail.strided_alleq(av)
    elif mem in ('slice-of-buffer', 'cov-is-view-of-a'):
        big = np.full((m['P'] + 3, 2, 2), 0.125)
        big[1:1 + m['P']] = av
        a = big[1:1 + m['P']]
        if mem == 'cov-is-view-of-a' and cv is not None:
            assert np.array_equal(av[0], cv)
            return a, a[0]
    elif mem == 'cov-offdiag-one-cell':          # Σ whose two off-diagonal entries are one memory cell
        a = np.array(av, copy=True)
        buf = np.array([cv[0, 0], cv[0, 1], cv[1, 1]])
        cv2 = np.lib.stride_tricks.as_strided(buf, shape=(2, 2), strides=(8, 8))
        assert np.array_equal(cv2, cv)
        return a, cv2
    else:
        raise ValueError(mem)
    return a, (None if cv is None else np.array(cv, copy=True))


def roles_of(m):
    """which of the four coefficient rows `np.r_[1, a[:,0,0]]`, `np.r_[0, a[:,0,1]]`, `np.r_[0, a[:,1,0]]`, `np.r_[1, a[:,1,1]]`
    coincide bit for bit: each name is bound to the FIRST object evaluated from an equal row (what a memo keyed on the
    coefficients would hand out)"""
    av = np.array(parse_flist(m['a'])).reshape(m['P'], 2, 2)
    rows = [np.r_[1, av[:, 0, 0]].tobytes(), np.r_[0, av[:, 0, 1]].tobytes(), np.r_[0, av[:, 1, 0]].tobytes(), np.r_[1, av[:, 1, 1]].tobytes()]
    return ''.join(str(rows.index(r)) for r in rows)


def tolf(m):
    return ar_fam.tol_factor(m.get('dt'), m.get('dtc'), m.get('dth'), m.get('dts'))


def nf_kw(m):
    """n_freqs given or left at its default (1024)"""
    return {} if m.get('nf_default') else {'n_freqs': m['nf']}


def fit_kw(m):
    """order / max_order / criterion options of the analyzer (= of fit_model)"""
    kw = {'order': None if m['order'] is None or m['order'] < 0 else m['order']}
    if 'maxo' in m:
        kw['max_order'] = None if m['maxo'] is None or m['maxo'] < 0 else m['maxo']
    if m.get('crit'):
        import nitime.utils as ut
        kw['criterion'] = {'bic': ut.bayesian_information_criterion, 'aic': ut.akaike_information_criterion}[m['crit']]
    return kw


# ------------------------------------------------------------------ implementation adapter
def m2(M):
    return ' '.join(clist(M[i, j]) for i in (0, 1) for j in (0, 1))


def run_impl(m):
    ar, gr, ts = mods()
    op = m['op']
    if op == 'gcs':      # the relabelled model, built on the Python side by exchanging the channels
        a = np.array(parse_flist(m['a'])).reshape(m['P'], 2, 2)
        cov = np.array(parse_flist(m['cov'])).reshape(2, 2)
        Pm = np.array([[0.0, 1.0], [1.0, 0.0]])
        a_sw = np.array([Pm.dot(ak).dot(Pm) for ak in a])

        def f():
            w, fx2y, fy2x, fxy, Sw = ar.granger_causality_xy(a_sw, Pm.dot(cov).dot(Pm), n_freqs=m['nf'])
            return 'ok %s %s %s %s' % (flist(np.real(fx2y)), flist(np.real(fy2x)), flist(np.real(fxy)), m2(Sw))
        return call(f)
    if op in ('tf', 'tfs', 'sm', 'gc'):
        a, cov = args_of(m)
        if op in ('tf', 'tfs'):
            def f():
                w, Hw = ar.transfer_function_xy(a, **nf_kw(m))
                return 'ok %s %s' % (flist(w), m2(Hw))
            return call(f)
        if op == 'sm':
            def f():
                w, Hw = ar.transfer_function_xy(a, **nf_kw(m))
                Sw = ar.spectral_matrix_xy(ar_fam.variant(Hw, m.get('dth')), cov)
                Sv = ar_fam.variant(Sw, m.get('dts'))
                return 'ok %s %s %s' % (m2(Sw), flist(ar.coherence_from_spectral(Sv)), flist(ar.interdependence_xy(Sv)))
            return call(f)

        def f():
            w, fx2y, fy2x, fxy, Sw = ar.granger_causality_xy(a, cov, **nf_kw(m))
            return 'ok %s %s %s %s' % (flist(np.real(fx2y)), flist(np.real(fy2x)), flist(np.real(fxy)), m2(Sw))
        return call(f)
    if op == 'ana':
        G = analyzer(m)

        def f():
            return 'ok %s %s %s' % (flist(G.causality_xy.reshape(-1)), flist(G.causality_yx.reshape(-1)),
                                    flist(G.simultaneous_causality.reshape(-1)))
        return call(f)
    if op == 'anaseq':
        return call(lambda: run_anaseq(m))
    if op == 'afreq':
        _, gr, ts = mods()
        G = gr.GrangerAnalyzer(ts.TimeSeries(np.zeros((2, 8)), sampling_rate=m['Fs']), order=1, n_freqs=m['nf'])
        return call(lambda: 'ok ' + flist(np.asarray(G.frequencies)))
    if op == 'defij':
        data = np.zeros((m['n'], 8))
        _, gr, ts = mods()
        G = gr.GrangerAnalyzer(ts.TimeSeries(data, sampling_rate=1.0), order=1)
        return 'ok ' + (','.join('%d:%d' % (int(i), int(j)) for i, j in G.ij) if len(G.ij) else '-')
    raise ValueError(op)


def analyzer(m):
    _, gr, ts = mods()
    data = ar_fam.variant(np.array(parse_flist(m['data'])).reshape(m['nproc'], -1), m.get('dt'))
    ij = None if m['ij'] is None else [tuple(p) for p in m['ij']]
    return gr.GrangerAnalyzer(ts.TimeSeries(data, sampling_rate=m['Fs']), ij=ij, **dict(fit_kw(m), **nf_kw(m)))


READ_TOK = {'causality_xy': 'Rxy', 'causality_yx': 'Ryx', 'simultaneous_causality': 'Rsim', 'frequencies': 'Rf',
            'model_coef': 'Rm', 'error_cov': 'Rm', 'order': 'Rm', 'autocov': 'Rm'}


def default_ij(n):
    """the pairs an analyzer built without `ij` holds (clause analyzer/default-ij)"""
    return [(i, j) for j in range(n) for i in range(j)]


def step_ij(m, st):
    return [tuple(q) for q in m['ij']] if m['ij'] is not None else default_ij(st['nproc'])


def step_data(st):
    return np.array(parse_flist(st['data'])).reshape(st['nproc'], -1)


def run_anaseq(m):
    """GrangerAnalyzer(A); reads; set_input(B); reads; ... on ONE analyzer object"""
    import warnings
    warnings.simplefilter('ignore')
    _, gr, ts = mods()
    inputs = [ts.TimeSeries(ar_fam.variant(step_data(st), st.get('dt')), sampling_rate=st['Fs']) for st in m['steps']]
    G = gr.GrangerAnalyzer(inputs[0], ij=None if m['ij'] is None else [tuple(q) for q in m['ij']], n_freqs=m['nf'], **fit_kw(m))
    toks = []
    for k, st in enumerate(m['steps']):
        if k:
            G.set_input(inputs[k])
        for attr in st['reads']:
            try:
                v = getattr(G, attr)
            except ValueError:          # order estimation did not converge for one of the pairs: the read is refused
                if READ_TOK[attr] != 'Rm':
                    toks.append('E')
                continue
            if READ_TOK[attr] != 'Rm':
                toks.append(flist(np.asarray(v).reshape(-1)))
    return 'ok ' + ' '.join(toks)


def line_of(m):
    op = m['op']
    if op == 'anaseq':
        _, gr, _ = mods()
        toks = []
        for st in m['steps']:
            data = step_data(st)
            prs = []
            try:
                for (i, j) in step_ij(m, st):          # fitting is C11: fresh fit_model results of THIS input
                    o, Rxx, co, ec = gr.fit_model(data[i], data[j], **fit_kw(m))
                    co = np.asarray(co)
                    prs.append('%d:%d:%d:%s:%s' % (i, j, co.shape[0], aflat(co), aflat(ec)))
            except ValueError:                         # fitting THIS input raises for one of its pairs
                prs = ['X']
            from common import f2x
            toks.append('S|%d|%s|%s' % (st['nproc'], f2x(st['Fs']), ';'.join(prs) or '-'))
            toks += [READ_TOK[a] for a in st['reads']]
        return 'C12 anaseq %d %s' % (m['nf'], ' '.join(toks))
    if op == 'tf':
        return 'C12 tf %d %d %s' % (m['nf'], m['P'], m['a'])
    if op == 'tfs':
        return 'C12 tfs %d %d %s %s' % (m['nf'], m['P'], m['a'], roles_of(m))
    if op in ('sm', 'gc', 'gcs'):
        return 'C12 %s %d %d %s %s' % (op, m['nf'], m['P'], m['a'], m['cov'])
    if op == 'afreq':
        from common import f2x
        return 'C12 afreq %s %d' % (f2x(m['Fs']), m['nf'])
    if op == 'defij':
        return 'C12 defij %d' % m['n']
    if op == 'ana':
        G = analyzer(m)
        toks = []
        try:
            for (i, j) in G.ij:
                co = np.asarray(G.model_coef[i, j])
                toks.append('%d:%d:%d:%s:%s' % (i, j, co.shape[0], aflat(co), aflat(G.error_cov[i, j])))
        except Exception:  # noqa  (the analyzer cannot fit its pairs: the case then disagrees / is judged as 'raises')
            toks = []
        return 'C12 ana %d %d %s' % (m['nproc'], m['nf'], ' '.join(toks))


def cmp_groups(kinds, rtol=1e-9, atol=1e-300):
    def f(impl, model):
        if not (impl.startswith('ok ') and model.startswith('ok ')):
            return impl == model
        a, b = impl.split()[1:], model.split()[1:]
        if len(a) != len(b) or len(a) != len(kinds):
            return False
        for k, x, y in zip(kinds, a, b):
            if 'E' in (x, y):          # a refused read
                if x != y:
                    return False
                continue
            if k == 'c':
                fl = lambda zs: [t for z in zs for t in (z.real, z.imag)]
                if not close_vec(fl(parse_clist(x)), fl(parse_clist(y)), rtol, atol):
                    return False
            elif k == 'l':     # logarithms of O(1) ratios: absolute tolerance
                xa, ya = np.array(parse_flist(x)), np.array(parse_flist(y))
                if xa.shape != ya.shape or not np.array_equal(np.isnan(xa), np.isnan(ya)):
                    return False
                ok = ~np.isnan(xa)
                if ok.any() and np.abs(xa[ok] - ya[ok]).max() > rtol * max(1.0, np.abs(xa[ok]).max()):
                    return False
            else:
                if not close_vec(parse_flist(x), parse_flist(y), rtol, atol):
                    return False
        return True
    return f


# ------------------------------------------------------------------ oracle
def dense(a, cov, w):
    """A(w), H = inv A, S = H cov H^H by dense linear algebra"""
    P = a.shape[0]
    A = np.array([np.eye(2) + sum(a[k] * np.exp(-1j * wk * (k + 1)) for k in range(P)) for wk in w])
    H = np.array([np.linalg.inv(Ak) for Ak in A])
    S = None if cov is None else np.array([Hk.dot(cov).dot(Hk.conj().T) for Hk in H])
    return A, H, S


def geweke(H, cov):
    """directional / instantaneous / total measures written directly from the definitions"""
    s, u, g = cov[0, 0], cov[0, 1], cov[1, 1]
    S = np.array([Hk.dot(cov).dot(Hk.conj().T) for Hk in H])
    Sxx, Syy = S[:, 0, 0].real, S[:, 1, 1].real
    f_y2x = np.log(Sxx / (Sxx - (g - u * u / s) * np.abs(H[:, 0, 1]) ** 2))
    f_x2y = np.log(Syy / (Syy - (s - u * u / g) * np.abs(H[:, 1, 0]) ** 2))
    detS = np.array([np.linalg.det(Sk).real for Sk in S])
    tot = -np.log(detS / (Sxx * Syy))           # -log(1 - coh)
    return f_x2y, f_y2x, tot - f_x2y - f_y2x, tot, S


def unpack_m2(toks):
    arrs = [np.array(parse_clist(t)) for t in toks]
    return np.array([[arrs[0], arrs[1]], [arrs[2], arrs[3]]]).transpose(2, 0, 1)


def judge_value(m, impl, clause):
    ar, gr, ts = mods()
    op = m['op']

    def fail(sym, what):
        return Failure('%s/%s' % (clause, sym), '%s: %s [op %s]' % (clause, what, op), {'meta': m, 'clause': clause})
    if not impl.startswith('ok'):
        return fail('raises', 'valid input rejected: ' + impl)
    g = impl.split()[1:]
    if op == 'tfs':
        op = 'tf'
    if op in ('tf', 'sm', 'gc'):
        a = np.array(parse_flist(m['a'])).reshape(m['P'], 2, 2)
        nb = m['nf'] // 2 + 1
        cov = np.array(parse_flist(m['cov'])).reshape(2, 2) if 'cov' in m else None
        w_impl = ar.transfer_function_xy(a, n_freqs=m['nf'])[0]
        tf_ = tolf(m)
    if op == 'tf':
        w = np.array(parse_flist(g[0]))
        H = unpack_m2(g[1:5])
        if len(w) != nb or H.shape[0] != nb:
            return fail('shape', '%d bins, expected %d' % (len(w), nb))
        A, Hd, _ = dense(a, None, w)
        err = max(np.abs(H[k].dot(A[k]) - np.eye(2)).max() for k in range(nb))
        cond = max(np.linalg.cond(Ak) for Ak in A)
        if err > 1e-9 * tf_ * max(1.0, cond):
            return fail('inverse', 'max |H(w)A(w) - I| = %.3g on the returned grid (cond %.3g)' % (err, cond))
        return None
    if op == 'sm':
        S = unpack_m2(g[0:4])
        coh = np.array(parse_flist(g[4]))
        idp = np.array(parse_flist(g[5]))
        A, H, Sd = dense(a, cov, w_impl)
        sc = np.abs(Sd).max()
        if np.abs(S - Sd).max() > 1e-9 * tf_ * sc:
            return fail('HSigmaHH', 'spectral matrix differs from dense H·Σ·Hᴴ by %.3g (scale %.3g)' % (np.abs(S - Sd).max(), sc))
        if np.abs(S - S.conj().transpose(0, 2, 1)).max() > 1e-9 * tf_ * sc:
            return fail('hermitian', 'spectral matrix not Hermitian')
        ev = np.array([np.linalg.eigvalsh((Sk + Sk.conj().T) / 2).min() for Sk in S])
        if ev.min() < -1e-9 * tf_ * sc:
            return fail('psd', 'negative eigenvalue %.3g' % ev.min())
        cw = np.abs(Sd[:, 0, 1]) ** 2 / (Sd[:, 0, 0].real * Sd[:, 1, 1].real)
        if np.abs(coh - cw).max() > 1e-9 * tf_:
            return fail('coherence', 'coherence differs from |Sxy|²/(Sxx Syy) by %.3g' % np.abs(coh - cw).max())
        if np.abs(idp + np.log(1 - cw)).max() > 1e-9 * tf_ * max(1.0, np.abs(idp).max()):
            return fail('interdependence', 'interdependence differs from -log(1-coh)')
        return None
    if op == 'gc':
        fx2y, fy2x, fxy = [np.array(parse_flist(t)) for t in g[0:3]]
        S = unpack_m2(g[3:7])
        A, H, Sd = dense(a, cov, w_impl)
        ex2y, ey2x, exy, tot, _ = geweke(H, cov)
        sc = np.abs(Sd).max()
        if np.abs(S - Sd).max() > 1e-9 * tf_ * sc:
            return fail('S-same', 'returned spectral matrix differs from H·Σ·Hᴴ by %.3g' % np.abs(S - Sd).max())
        S2 = ar.spectral_matrix_xy(ar.transfer_function_xy(a, n_freqs=m['nf'])[1], cov).transpose(2, 0, 1)
        if np.abs(S - S2).max() > 1e-9 * tf_ * sc:
            return fail('S-same-routines', 'granger_causality_xy and spectral_matrix_xy report different spectral matrices')
        for nm, got, want in (('x2y', fx2y, ex2y), ('y2x', fy2x, ey2x), ('xy', fxy, exy)):
            if not np.all(np.isfinite(got)):
                return fail(nm + '-nonfinite', 'non-finite causality values')
            if np.abs(got - want).max() > 1e-8 * tf_ * max(1.0, np.abs(want).max()):
                return fail(nm + '-value', 'f_%s differs from its definition by %.3g' % (nm, np.abs(got - want).max()))
        if min(fx2y.min(), fy2x.min()) < -1e-10 * tf_:
            return fail('nonneg', 'negative directional causality %.3g' % min(fx2y.min(), fy2x.min()))
        coh = ar.coherence_from_spectral(S.transpose(1, 2, 0))
        if np.abs(fx2y + fy2x + fxy + np.log(1 - coh)).max() > 1e-8 * tf_ * max(1.0, np.abs(tot).max()):
            return fail('decomposition', 'f_x2y + f_y2x + f_xy differs from -log(1-coherence) by %.3g' % np.abs(fx2y + fy2x + fxy + np.log(1 - coh)).max())
        # relabelling the channels swaps the directions
        Pm = np.array([[0.0, 1.0], [1.0, 0.0]])
        a_sw = np.array([Pm.dot(ak).dot(Pm) for ak in a])
        _, sx2y, sy2x, sxy, _ = ar.granger_causality_xy(a_sw, Pm.dot(cov).dot(Pm), n_freqs=m['nf'])
        tol = 1e-8 * tf_ * max(1.0, np.abs(tot).max())
        if 'pow2' in m:     # Σ·2^k (exact): the three measures are unchanged, S scales by 2^k
            _, q1, q2, q3, Sq = ar.granger_causality_xy(a_of(m), cov_of(m) * 2.0 ** m['pow2'], n_freqs=m['nf'])
            if max(np.abs(q1 - fx2y).max(), np.abs(q2 - fy2x).max(), np.abs(q3 - fxy).max()) > tol or \
                    np.abs(Sq.transpose(2, 0, 1) / 2.0 ** m['pow2'] - S).max() > 1e-9 * sc:
                return fail('scale-invariance', 'innovation covariance scaled by 2^%d changes the causality spectra' % m['pow2'])
        if np.abs(sx2y - fy2x).max() > tol or np.abs(sy2x - fx2y).max() > tol or np.abs(sxy - fxy).max() > tol:
            return fail('relabel', 'relabelling the channels does not swap the two directions')
        if m.get('zero') in ('xy', 'both') and np.abs(fy2x).max() > 1e-10 * tf_:
            return fail('no-coupling', 'a[:,0,1] = 0 but f_y2x = %.3g' % np.abs(fy2x).max())
        if m.get('zero') in ('yx', 'both') and np.abs(fx2y).max() > 1e-10 * tf_:
            return fail('no-coupling', 'a[:,1,0] = 0 but f_x2y = %.3g' % np.abs(fx2y).max())
        return None
    if op == 'afreq':
        fr = np.array(parse_flist(g[0]))
        wgrid = ar.granger_causality_xy(np.zeros((1, 2, 2)), np.eye(2), n_freqs=m['nf'])[0]
        if len(fr) != len(wgrid) or np.abs(fr - wgrid * m['Fs'] / (2 * np.pi)).max() > 1e-9 * m['Fs']:
            f = fail('axis-not-the-spectral-grid', 'analyzer.frequencies is not Fs·w/2π for the grid w of granger_causality_xy')
            f.key = 'analyzer/frequencies/axis-not-the-spectral-grid'
            return f
        return None
    if op == 'anaseq':
        n_out = 0
        for k, st in enumerate(m['steps']):
            tag = 'first-use/' if k == 0 else ''
            data, n, nb = step_data(st), st['nproc'], m['nf'] // 2 + 1
            where = 'after %s' % ('construction' if k == 0 else 'set_input #%d (%s)' % (k, st['kind']))
            want = None
            try:
                for (i, j) in step_ij(m, st):
                    gr.fit_model(data[i], data[j], **fit_kw(m))
                refused = False
            except ValueError:
                refused = True
            for attr in st['reads']:
                if READ_TOK[attr] == 'Rm':
                    continue
                if n_out >= len(g):
                    return fail(tag + 'shape', 'missing output for %s %s' % (attr, where))
                if attr != 'frequencies' and (g[n_out] == 'E') != refused:
                    if refused:
                        return fail(tag + 'no-raise', '%s %s: fit_model raises for a pair of the data the analyzer holds, but a result was reported' % (attr, where))
                    return fail(tag + 'raises', '%s %s raised, but fit_model succeeds for every pair of the data the analyzer holds' % (attr, where))
                if g[n_out] == 'E':
                    n_out += 1
                    continue
                got = np.array(parse_flist(g[n_out]))
                n_out += 1
                if attr == 'frequencies':
                    wgrid = ar.granger_causality_xy(np.zeros((1, 2, 2)), np.eye(2), n_freqs=m['nf'])[0]
                    if len(got) != nb or np.abs(got - wgrid * st['Fs'] / (2 * np.pi)).max() > 1e-9 * st['Fs']:
                        return fail(tag + 'frequencies', 'frequencies %s is not Fs·w/2π for the sampling rate %g of the input the analyzer holds' % (where, st['Fs']))
                    continue
                if want is None:       # definitions, written directly, on fresh fits of the CURRENT data
                    want = [np.full((n, n, nb), np.nan) for _ in range(3)]
                    for (i, j) in step_ij(m, st):
                        o, Rxx, coef, ecov = gr.fit_model(data[i], data[j], **fit_kw(m))
                        w = ar.transfer_function_xy(coef, n_freqs=m['nf'])[0]
                        A, H, Sd = dense(np.asarray(coef), np.asarray(ecov), w)
                        ex2y, ey2x, exy, tot, _ = geweke(H, np.asarray(ecov))
                        want[0][i, j], want[1][i, j], want[2][i, j] = ex2y, ey2x, exy
                idx = {'causality_xy': 0, 'causality_yx': 1, 'simultaneous_causality': 2}[attr]
                nm = ('xy', 'yx', 'sim')[idx]
                if got.size != n * n * nb:
                    return fail(tag + 'shape-' + nm, '%s %s has %d values, expected %d x %d x %d' % (attr, where, got.size, n, n, nb))
                got = got.reshape(n, n, nb)
                wt = want[idx]
                if not np.array_equal(np.isnan(got), np.isnan(wt)):
                    return fail(tag + 'placement-' + nm, '%s %s is filled at the wrong index pairs' % (attr, where))
                ok = ~np.isnan(wt)
                if ok.any() and np.abs(got[ok] - wt[ok]).max() > 1e-8 * max(1.0, np.abs(wt[ok]).max()):
                    return fail(tag + 'values-' + nm, '%s %s differs from the Geweke measures of the models fitted to the data the analyzer holds (by %.3g)'
                                % (attr, where, np.abs(got[ok] - wt[ok]).max()))
        return None
    if op == 'gcs':
        return None        # judged through its 'gc' partner (clause relabel); here only model-vs-implementation
    if op == 'defij':
        want = [(i, j) for j in range(m['n']) for i in range(j)]
        got = [] if g[0] == '-' else [tuple(int(t) for t in p.split(':')) for p in g[0].split(',')]
        if sorted(got) != sorted(want) or len(set(got)) != len(got):
            return fail('pairs', 'default ij is not the set of pairs i<j')
        return None
    if op == 'ana':
        G = analyzer(m)
        n, nb = m['nproc'], m['nf'] // 2 + 1
        arrs = [np.array(parse_flist(t)).reshape(n, n, -1) for t in g[0:3]]
        if arrs[0].shape[2] != nb:
            return fail('shape', 'arrays have %d bins, expected %d' % (arrs[0].shape[2], nb))
        data = ar_fam.variant(np.array(parse_flist(m['data'])).reshape(n, -1), m.get('dt'))
        ij = [tuple(p) for p in m['ij']] if m['ij'] is not None else [(i, j) for j in range(n) for i in range(j)]
        want = [np.full((n, n, nb), np.nan) for _ in range(3)]
        for (i, j) in ij:
            order, Rxx, coef, ecov = gr.fit_model(data[i], data[j], **fit_kw(m))
            w, fx2y, fy2x, fxy, Sw = ar.granger_causality_xy(coef, ecov, n_freqs=m['nf'])
            want[0][i, j], want[1][i, j], want[2][i, j] = fx2y, fy2x, fxy
        for nm, got, wt in zip(('xy', 'yx', 'sim'), arrs, want):
            if not np.array_equal(np.isnan(got), np.isnan(wt)):
                return fail('placement-' + nm, 'causality_%s is filled at the wrong index pairs' % nm)
            ok = ~np.isnan(wt)
            if ok.any() and np.abs(got[ok] - wt[ok]).max() > 1e-9 * ar_fam.tol_factor(m.get('dt')) * max(1.0, np.abs(wt[ok]).max()):
                return fail('values-' + nm, 'causality_%s[i,j] differs from the pairwise function result' % nm)
        # frequency axis: bin k of the spectra is at w_k·Fs/2π on the grid the functions return
        fr = np.asarray(G.frequencies)
        wgrid = ar.granger_causality_xy(np.zeros((1, 2, 2)), np.eye(2), n_freqs=m['nf'])[0]
        if len(fr) != nb or np.abs(fr - wgrid * m['Fs'] / (2 * np.pi)).max() > 1e-9 * m['Fs']:
            f = fail('axis-not-the-spectral-grid', 'analyzer.frequencies is not Fs·w/2π for the grid w of granger_causality_xy '
                     '(max difference %.3g Hz at Fs=%g)' % (np.abs(fr[:nb] - (wgrid * m['Fs'] / (2 * np.pi))[:len(fr)]).max() if len(fr) else -1, m['Fs']))
            f.key = 'analyzer/frequencies/axis-not-the-spectral-grid'
            return f
        return None
    return None


def pair_results(data, ij, order, nf, kw=None):
    """what the analyzer must hold for these pairs, from fresh calls of the public functions"""
    ar, gr, ts = mods()
    out = {}
    for (i, j) in ij:
        o, Rxx, coef, ecov = gr.fit_model(data[i], data[j], **(kw or {'order': order}))
        w, fx2y, fy2x, fxy, Sw = ar.granger_causality_xy(coef, ecov, n_freqs=nf)
        out[(i, j)] = (fx2y, fy2x, fxy, Sw)
    return out


def sequence_judge(m, clause):
    """pure-function behaviour on call sequences (same argument objects, >= 3 evaluations of every
    routine in mixed order, bitwise-equal results, arguments unchanged, no aliasing, no memory keyed
    on identity) and, for the analyzer, no state shared between live instances"""
    import ar_seq, warnings
    warnings.simplefilter('ignore')
    ar, gr, ts = mods()
    op = m['op']

    def fail(sym):
        return Failure('%s/sequence/%s' % (clause, sym), '%s: call sequence on the same argument objects: %s [op %s]' % (clause, sym, op),
                       {'meta': m, 'clause': clause})
    syms = []
    if op == 'tfs':
        op = 'tf'
    if op in ('tf', 'sm', 'gc', 'gcs'):
        a, cov = args_of(m)
        if cov is None:
            cov = np.array([[1.0, 0.3], [0.3, 0.8]])
        nf = m['nf']
        rt = {'tf': lambda: ar.transfer_function_xy(a, n_freqs=nf),
              'sm': lambda: ar.spectral_matrix_xy(ar.transfer_function_xy(a, n_freqs=nf)[1], cov),
              'coh': lambda: ar.coherence_from_spectral(ar.spectral_matrix_xy(ar.transfer_function_xy(a, n_freqs=nf)[1], cov)),
              'idp': lambda: ar.interdependence_xy(ar.spectral_matrix_xy(ar.transfer_function_xy(a, n_freqs=nf)[1], cov)),
              'gc': lambda: ar.granger_causality_xy(a, cov, n_freqs=nf)}
        orders = {'tf': ['tf', 'gc', 'sm', 'tf', 'gc', 'idp', 'coh', 'tf', 'sm', 'gc', 'tf'],
                  'sm': ['sm', 'tf', 'gc', 'sm', 'coh', 'gc', 'tf', 'sm', 'idp', 'gc', 'tf'],
                  'gc': ['gc', 'gc', 'tf', 'sm', 'gc', 'tf', 'idp', 'tf', 'sm', 'coh', 'gc'],
                  'gcs': ['idp', 'gc', 'tf', 'coh', 'gc', 'sm', 'tf', 'gc', 'tf', 'sm', 'idp']}
        syms = ar_seq.run_schedule(rt, orders[op], [a, cov])
        if not syms and not m.get('mem'):
            syms = ar_seq.refill_check(lambda arr, k: ar.granger_causality_xy(arr, cov, n_freqs=k), a, a * 0.5, [nf, nf + 1])
        if not syms and (m.get('mem') or m.get('struct') or m.get('l7')):
            syms = failure_and_alias_judge(m, ar)
    elif op == 'ana':
        n, nf, order = m['nproc'], m['nf'], m['order']
        data = np.array(parse_flist(m['data'])).reshape(n, -1)
        allp = [(i, j) for i in range(n) for j in range(n) if i != j]
        ijA = [tuple(p) for p in m['ij']] if m['ij'] is not None else [(i, j) for j in range(n) for i in range(j)]
        specs = [(data, m['ij']),
                 (data[::-1, ::-1].copy() * 0.5 + 0.01, [list(p) for p in allp]),          # overlapping pairs, other data
                 (np.roll(data, 3, axis=1) * 2.0, [list(p) for p in allp[::2]])]
        kwf = fit_kw(m)
        mk = lambda d, ij: gr.GrangerAnalyzer(ts.TimeSeries(d, sampling_rate=m['Fs']), ij=None if ij is None else [tuple(p) for p in ij],
                                              n_freqs=nf, **kwf)
        try:
            live = [mk(d, ij) for d, ij in specs]
            want = [pair_results(specs[0][0], ijA, order, nf, kwf),
                    pair_results(specs[1][0], allp, order, nf, kwf),
                    pair_results(specs[2][0], allp[::2], order, nf, kwf)]
        except ValueError:          # a criterion-selected order that does not converge on the derived data: nothing to interleave
            return None
        nb = nf // 2 + 1

        def check(k, attr):
            G, w = live[k], want[k]
            got = getattr(G, attr)
            if attr == 'spectral_matrix':
                if set(got.keys()) != set(w.keys()):
                    return 'analyzer%d.spectral_matrix holds pairs that were not requested' % k
                return None if all(ar_seq.same(np.asarray(got[q]), np.asarray(w[q][3])) for q in w) else \
                    'analyzer%d.spectral_matrix is not its own pairs\' result' % k
            idx = {'causality_xy': 0, 'causality_yx': 1, 'simultaneous_causality': 2}[attr]
            exp = np.full((n, n, nb), np.nan)
            for q in w:
                exp[q[0], q[1]] = w[q][idx]
            return None if ar_seq.same(exp, np.asarray(got)) else 'analyzer%d.%s differs from its own pairwise results (NaN elsewhere)' % (k, attr)
        sched = [(0, 'causality_xy'), (1, 'causality_xy'), (0, 'causality_yx'), (2, 'spectral_matrix'), (1, 'simultaneous_causality'),
                 (0, 'simultaneous_causality'), (0, 'spectral_matrix'), (1, 'causality_yx'), (2, 'causality_xy'), (1, 'spectral_matrix'),
                 (0, 'causality_xy')]
        for k, attr in sched:
            bad = check(k, attr)
            if bad:
                f = Failure('%s/sequence/cross-instance-state' % clause, '%s: interleaved reads of live analyzers: %s' % (clause, bad),
                            {'meta': m, 'clause': clause})
                return f
    return fail(syms[0]) if syms else None


def failure_and_alias_judge(m, ar):
    """round 2.  L7: refused / failing calls of every function entry point on the SAME argument objects (bad grids, wrong
    shapes, `None`, a singular covariance), then the ordinary calls on those objects against fresh copies.  L8: a result
    handed out must not be (a view of) an argument: after overwriting the arguments it still holds what it held"""
    import ar_fail, ar_seq, copy
    a, cov = args_of(m)
    if cov is None:
        cov = np.array([[1.0, 0.3], [0.3, 0.8]])
    nf = m['nf']
    args = [a, cov]

    def ordinary(ar_):
        aa, cc = ar_
        w, H = ar.transfer_function_xy(aa, n_freqs=nf)
        S = ar.spectral_matrix_xy(H, cc)
        return [w, H, S, ar.coherence_from_spectral(S), ar.interdependence_xy(S), ar.granger_causality_xy(aa, cc, n_freqs=nf)]
    zero_cov = np.zeros((2, 2))
    bad = [('transfer/n_freqs-0', lambda: ar.transfer_function_xy(a, n_freqs=0)),
           ('transfer/n_freqs-negative', lambda: ar.transfer_function_xy(a, n_freqs=-2)),
           ('transfer/n_freqs-None', lambda: ar.transfer_function_xy(a, n_freqs=None)),
           ('transfer/n_freqs-float', lambda: ar.transfer_function_xy(a, n_freqs=2.5)),
           ('transfer/a-2d', lambda: ar.transfer_function_xy(a[0], n_freqs=nf)),
           ('transfer/a-3x3', lambda: ar.transfer_function_xy(np.zeros((2, 3, 3))[:, :1, :1], n_freqs=nf)),
           ('spectral/cov-None', lambda: ar.spectral_matrix_xy(ar.transfer_function_xy(a, n_freqs=nf)[1], None)),
           ('spectral/cov-1d', lambda: ar.spectral_matrix_xy(ar.transfer_function_xy(a, n_freqs=nf)[1], cov[0])),
           ('spectral/Hw-is-a', lambda: ar.spectral_matrix_xy(a, cov)),
           ('granger/cov-None', lambda: ar.granger_causality_xy(a, None, n_freqs=nf)),
           ('granger/cov-singular', lambda: ar.granger_causality_xy(a, zero_cov, n_freqs=nf)),
           ('granger/cov-is-a', lambda: ar.granger_causality_xy(a, a, n_freqs=nf)),
           ('granger/n_freqs-0', lambda: ar.granger_causality_xy(a, cov, n_freqs=0)),
           ('granger/a-None', lambda: ar.granger_causality_xy(None, cov, n_freqs=nf)),
           ('coherence/None', lambda: ar.coherence_from_spectral(None)),
           ('interdependence/1d', lambda: ar.interdependence_xy(np.ones(3)))]
    with np.errstate(all='ignore'):
        syms = ['failure/' + t for t in ar_fail.after_failures(bad, args, ordinary)]
        if syms:
            return syms
        res = ordinary(args)
    snap = ar_seq.snapshot(res)
    for arr in args:
        if arr.flags.writeable:
            arr[...] = 0.375
    if ar_seq.mutated(snap):
        return ['alias/result-is-a-view-of-an-argument']
    return []


def analyzer_failure_judge(m, clause):
    """round 2 (L7), analyzer: a read that raises part-way (order estimation fails for a LATER pair) must leave the
    analyzer as it was — only declared one-time attributes may have appeared in `vars()` — and after `set_input` every
    result equals that of a fresh analyzer on the new input (bitwise)"""
    import ar_fail, ar_seq, warnings
    warnings.simplefilter('ignore')
    _, gr, ts = mods()
    mk_in = lambda st: ts.TimeSeries(ar_fam.variant(step_data(st), st.get('dt')), sampling_rate=st['Fs'])
    ij = None if m['ij'] is None else [tuple(q) for q in m['ij']]
    G = gr.GrangerAnalyzer(mk_in(m['steps'][0]), ij=ij, n_freqs=m['nf'], **fit_kw(m))
    attrs = ['causality_xy', 'order', 'spectral_matrix', 'model_coef', 'frequencies']

    def fail(sym, what):
        return Failure('%s/%s' % (clause, sym), '%s: %s [op anaseq]' % (clause, what), {'meta': m, 'clause': clause})
    for k, st in enumerate(m['steps']):
        if k:
            G.set_input(mk_in(st))
        before = ar_fail.vars_snapshot(G)
        raised = False
        for attr in attrs[k % 2:] + attrs[:k % 2]:
            try:
                getattr(G, attr)
            except ValueError:
                raised = True
                d = ar_fail.vars_delta(G, before)
                if d:
                    return fail('failure/' + d, 'after reading %s raised at step %d the analyzer holds %s' % (attr, k, sorted(set(vars(G)) - set(before))))
        if not raised:
            F = gr.GrangerAnalyzer(mk_in(st), ij=ij, n_freqs=m['nf'], **fit_kw(m))
            for attr in ('order', 'autocov', 'model_coef', 'error_cov', 'causality_xy', 'causality_yx', 'simultaneous_causality', 'spectral_matrix', 'frequencies'):
                if not ar_seq.same(_plain(getattr(F, attr)), _plain(getattr(G, attr))):
                    return fail('failure/stale-after-failed-read', '%s after set_input #%d differs from a fresh analyzer on the same input '
                                '(an earlier read on another input had raised)' % (attr, k))
    return None


def _plain(v):
    """dicts keyed by numpy-integer pairs -> plain tuples, values as arrays"""
    if isinstance(v, dict):
        return {tuple(int(t) for t in k) if isinstance(k, tuple) else k: _plain(x) for k, x in v.items()}
    if isinstance(v, (list, tuple)):
        return [np.asarray(x) for x in v]
    return np.asarray(v) if not isinstance(v, (int, float)) else v


def judge(m, impl, clause):
    f = judge_value(m, impl, clause) or sequence_judge(m, clause)
    if f is None and m['op'] == 'anaseq' and m.get('fail'):
        f = analyzer_failure_judge(m, clause)
    return f


# ------------------------------------------------------------------ cases
def mk_case(m, clause, cmp):
    return Case(line_of(m), run_impl(m), clause, cmp=cmp, meta=m)


def sim_data(nrng, nproc, N):
    from scipy.signal import lfilter
    e = nrng.randn(nproc, N + 50)
    x = np.array([lfilter([1.0], [1.0, -0.5 * nrng.uniform(0.2, 1.5), 0.3], e[i]) for i in range(nproc)])
    mix = np.eye(nproc) + 0.4 * nrng.randn(nproc, nproc)
    x = mix.dot(x)
    x[1:, 1:] += 0.5 * x[:-1, :-1]          # lagged coupling between neighbours
    return x[:, 50:]


def cases(rng, tier, seed):
    import common
    nrng = common.np_rng(PID, seed, 'cases')
    big = tier == 'thorough'
    out = []
    n_fn = 200 if not big else 4000
    for i in range(n_fn):
        P = int(nrng.randint(1, 9))
        zero = [None, None, 'xy', 'yx', 'both'][i % 5]
        a = stable_var(nrng, P, float(nrng.uniform(0.3, 0.92)), zero)
        cov = gen_cov(nrng, 'diag' if i % 3 == 0 else 'full') * float(nrng.choice([1.0, 1.0, 1e-6, 1e-12, 1e4]))
        # grids from 1..8 points against every order 1..8 (n_freqs//2+1 may be far below order+1), then the usual ones
        nf = int(nrng.choice([1, 2, 3, 4, 5, 6, 7, 8]) if i % 2 else nrng.choice([8, 9, 16, 31, 64] + ([255, 1024] if big else [])))
        par = 'odd' if nf % 2 else 'even'
        base = {'P': P, 'nf': nf, 'a': aflat(a), 'zero': zero}
        out.append(mk_case(dict(base, op='tf'), 'transfer/' + par, cmp_groups('fcccc')))
        out.append(mk_case(dict(base, op='sm', cov=aflat(cov)), 'spectral/' + par, cmp_groups('ccccfl')))
        out.append(mk_case(dict(base, op='gc', cov=aflat(cov)), 'granger/%s/%s' % (zero or 'coupled', par), cmp_groups('lllcccc')))
        if i % 4 == 0:
            out.append(mk_case(dict(base, op='gcs', cov=aflat(cov)), 'granger-relabelled/' + par, cmp_groups('lllcccc')))
    for n in range(0, 7):
        out.append(mk_case({'op': 'defij', 'n': n}, 'analyzer/default-ij', None))
    for nf in [1, 2, 3, 8, 9, 16, 33, 64, 1024]:
        Fs = float(nrng.choice([1.0, 2.0, 0.5, 1000.0, 3.7]))
        out.append(mk_case({'op': 'afreq', 'Fs': Fs, 'nf': nf}, 'analyzer/frequencies', cmp_groups('f')))
    n_an = 24 if not big else 150
    for i in range(n_an):
        nproc = int(nrng.choice([2, 3, 4]))
        N = int(nrng.choice([128, 200]))
        data = sim_data(nrng, nproc, N) * float(nrng.choice([1.0, 1e-3, 50.0]))
        allp = [(a, b) for a in range(nproc) for b in range(nproc) if a != b]
        kind = i % 4
        if kind == 0:
            ij = None
        else:
            k = int(nrng.randint(1, len(allp) + 1))
            idx = nrng.permutation(len(allp))[:k]
            ij = [list(allp[t]) for t in idx]
            if kind == 3 and ij:
                ij.append(ij[0])       # a repeated pair
        m = {'op': 'ana', 'nproc': nproc, 'nf': int(nrng.choice([16, 33])), 'order': int(nrng.randint(1, 4)),
             'Fs': float(nrng.choice([1.0, 2.0, 0.5, 1000.0])), 'ij': ij, 'data': aflat(data)}
        out.append(mk_case(m, 'analyzer/' + ('default' if ij is None else 'explicit'), cmp_groups('lll')))
    # --- one analyzer re-targeted with set_input after it has been read
    n_seq = 10 if not big else 60
    kinds = ['same-shape', 'other-length', 'other-rate', 'other-channels']
    cattrs = ['causality_xy', 'causality_yx', 'simultaneous_causality']
    mattrs = ['model_coef', 'error_cov', 'order', 'autocov']
    for t in range(n_seq):
        nproc = int(nrng.choice([2, 3]))
        explicit = t % 3 == 1
        N = int(nrng.choice([128, 200]))
        Fs = float(nrng.choice([1.0, 2.0, 0.5, 1000.0]))
        first = [mattrs[t % 4]] if t % 2 else [cattrs[t % 3]]           # what is read before the re-targeting
        steps = [{'nproc': nproc, 'Fs': Fs, 'kind': 'construct', 'reads': first + ['frequencies'],
                  'data': aflat(sim_data(nrng, nproc, N) * float(nrng.choice([1.0, 1e-3, 50.0])))}]
        for u in range(1 + (t % 2)):
            kind = kinds[(t + u) % 4]
            if kind == 'other-channels' and explicit:
                kind = 'same-shape'
            np2, N2, Fs2 = steps[-1]['nproc'], N, steps[-1]['Fs']
            if kind == 'other-length':
                N2 = int(nrng.choice([n for n in (96, 128, 200, 256) if n != N]))
            elif kind == 'other-rate':
                Fs2 = Fs2 * 4.0
            elif kind == 'other-channels':
                np2 = 5 - np2
            d2 = sim_data(nrng, np2, N2) * float(nrng.choice([1.0, 3.0, 1e-2]))
            reads = [cattrs[(t + u + q) % 3] for q in range(2)] + ['frequencies', cattrs[(t + u + 2) % 3]]
            steps.append({'nproc': np2, 'Fs': Fs2, 'kind': kind, 'reads': reads, 'data': aflat(d2)})
        if explicit:
            allp = [(a, b) for a in range(nproc) for b in range(nproc) if a != b]
            ij = [list(allp[q]) for q in nrng.permutation(len(allp))[:int(nrng.randint(1, 4))]]
        else:
            ij = None
        m = {'op': 'anaseq', 'nf': int(nrng.choice([16, 33])), 'order': int(nrng.randint(1, 4)), 'ij': ij, 'steps': steps}
        kinds_of_reads = ''.join('f' if a == 'frequencies' else 'l' for st in steps for a in st['reads'] if READ_TOK[a] != 'Rm')
        out.append(mk_case(m, 'analyzer/retarget/' + '+'.join(st['kind'] for st in steps[1:]), cmp_groups(kinds_of_reads)))
    for c in out[::9]:
        if c.meta['op'] in ('tf', 'sm', 'gc'):
            c.meta['l7'] = True            # these also go through the refused-call family (oracle side only)
    out += session3_cases(nrng, big)
    out += round2_cases(nrng, big)
    out += rerun_cases(nrng, out, big)
    return out


# ------------------------------------------------------------------ round 2: structured / aliased inputs (L8), failure histories (L7)
STRUCTS = ['reciprocal', 'eqdiag', 'reciprocal+eqdiag', 'alleq', 'identical-channels', 'zero-couplings', 'a0-symmetric']


def structured_var(nrng, P, rho, struct):
    """a stable model whose coefficient rows COINCIDE bit for bit in the way `struct` says"""
    A = nrng.randn(P, 2, 2)
    if struct in ('reciprocal', 'reciprocal+eqdiag', 'identical-channels'):
        A[:, 1, 0] = A[:, 0, 1]
    if struct in ('eqdiag', 'reciprocal+eqdiag', 'identical-channels'):
        A[:, 1, 1] = A[:, 0, 0]
    if struct == 'alleq':
        A[:] = A[:, :1, :1]
    if struct == 'zero-couplings':
        A[:, 0, 1] = 0.0
        A[:, 1, 0] = 0.0
    if struct == 'a0-symmetric':            # a[0] is a symmetric positive definite matrix (it will serve as Σ as well)
        L = nrng.randn(2, 2)
        A[0] = L.dot(L.T) + 0.3 * np.eye(2)
        A[0] = (A[0] + A[0].T) / 2
    C = np.zeros((2 * P, 2 * P))
    C[:2, :] = np.hstack(list(A))
    if P > 1:
        C[2:, :-2] = np.eye(2 * (P - 1))
    r = np.abs(np.linalg.eigvals(C)).max() or 1.0
    sc = rho / r
    A = np.array([A[k] * sc ** (k + 1) for k in range(P)])          # one factor per lag: the structure survives
    return A if struct == 'a0-symmetric' else -A


def failing_then_good(nrng, nproc, N):
    """recordings for which order estimation (BIC, max_order 3) converges for the FIRST pairs and fails for a later one
    (a strongly autocorrelated last channel: the criterion never rises), and recordings for which it converges everywhere"""
    from scipy.signal import lfilter
    _, gr, _ = mods()
    kw = {'order': None, 'max_order': 3}

    def status(x, ij):
        out = []
        for (i, j) in ij:
            try:
                gr.fit_model(x[i], x[j], **kw)
                out.append(True)
            except ValueError:
                out.append(False)
        return out
    ij = default_ij(nproc)
    for _ in range(40):
        bad = nrng.randn(nproc, N)
        bad[-1] = lfilter(np.ones(8) / 8.0, [1.0, -0.9], nrng.randn(N + 100))[100:]
        good = nrng.randn(nproc, int(nrng.choice([N, N + 32])))
        sb, sg = status(bad, ij), status(good, ij)
        if sb[0] and not all(sb) and all(sg):
            return bad, good
    return None, None


def round2_cases(nrng, big):
    out = []
    reps = 1 if not big else 5
    for rep in range(reps):
        # --- L8: coefficient rows that coincide bit for bit; entries / arrays that share memory; Σ a view of `a`
        for t, struct in enumerate(STRUCTS):
            for mem in ([None, 'slice-of-buffer'] + {'reciprocal': ['recip-one-buffer'], 'reciprocal+eqdiag': ['recip-one-buffer'],
                                                     'identical-channels': ['recip-one-buffer'], 'alleq': ['alleq-one-buffer', 'recip-one-buffer'],
                                                     'zero-couplings': ['recip-one-buffer'], 'a0-symmetric': ['cov-is-view-of-a']}.get(struct, [])):
                P = int(nrng.randint(1, 6))
                a = structured_var(nrng, P, float(nrng.uniform(0.3, 0.85)), struct)
                if struct == 'a0-symmetric':
                    cov = np.array(a[0], copy=True)
                elif struct == 'identical-channels':
                    v, u = float(nrng.uniform(0.5, 2.0)), float(nrng.uniform(-0.4, 0.4))
                    cov = np.array([[v, u], [u, v]])
                else:
                    cov = gen_cov(nrng, 'full')
                nf = int(nrng.choice([2, 5, 8, 9, 16]))
                par = 'odd' if nf % 2 else 'even'
                base = {'P': P, 'nf': nf, 'a': aflat(a), 'zero': 'both' if struct == 'zero-couplings' else None, 'struct': struct}
                if mem:
                    base['mem'] = mem
                tag = '%s/%s' % (struct, mem or 'values')
                out.append(mk_case(dict(base, op='tf'), 'transfer/structured/' + tag, cmp_groups('fcccc')))
                out.append(mk_case(dict(base, op='tfs'), 'transfer/structured-shared/' + tag, cmp_groups('fcccc')))
                out.append(mk_case(dict(base, op='sm', cov=aflat(cov)), 'spectral/structured/' + tag, cmp_groups('ccccfl')))
                out.append(mk_case(dict(base, op='gc', cov=aflat(cov)), 'granger/structured/' + tag, cmp_groups('lllcccc')))
        # Σ whose off-diagonal entries are one memory cell, with an ordinary model
        P = int(nrng.randint(1, 5))
        a = stable_var(nrng, P, 0.7)
        cov = gen_cov(nrng, 'full')
        base = {'P': P, 'nf': 8, 'a': aflat(a), 'zero': None, 'mem': 'cov-offdiag-one-cell', 'cov': aflat(cov)}
        out.append(mk_case(dict(base, op='sm'), 'spectral/structured/cov-offdiag-one-cell', cmp_groups('ccccfl')))
        out.append(mk_case(dict(base, op='gc'), 'granger/structured/cov-offdiag-one-cell', cmp_groups('lllcccc')))
        # --- L8: analyzers on recordings with IDENTICAL channels / rows that are views of one buffer (pairs (i, j) with equal
        #     rows are singular: fit_model raises LinAlgError or returns garbage -> only distinct-valued pairs are requested)
        x = sim_data(nrng, 3, 128)
        x[2] = x[0]
        m = {'op': 'ana', 'nproc': 3, 'nf': 8, 'order': 2, 'Fs': 1.0, 'ij': [[0, 1], [2, 1], [1, 0], [1, 2]], 'data': aflat(x)}
        out.append(mk_case(m, 'analyzer/structured/identical-channels', cmp_groups('lll')))
        # --- L7: one analyzer whose first read is REFUSED part-way (a later pair does not converge), then re-targeted
        for t in range(2 if not big else 4):
            nproc = 3 if t % 2 == 0 else 4
            bad, good = failing_then_good(nrng, nproc, 128)
            if bad is None:
                continue
            Fs = float(nrng.choice([1.0, 2.0]))
            rd = [['causality_xy', 'frequencies', 'order'], ['model_coef', 'causality_yx', 'frequencies']][t % 2]
            steps = [{'nproc': nproc, 'Fs': Fs, 'kind': 'construct', 'reads': rd, 'data': aflat(bad)},
                     {'nproc': nproc, 'Fs': Fs * (1 + t % 2), 'kind': 'after-failed-fit', 'data': aflat(good),
                      'reads': ['causality_xy', 'causality_yx', 'frequencies', 'simultaneous_causality']}]
            if t % 2:
                steps.append({'nproc': nproc, 'Fs': Fs, 'kind': 'failing-again', 'reads': ['causality_yx', 'frequencies'], 'data': aflat(bad * 2.0)})
                steps.append({'nproc': nproc, 'Fs': Fs, 'kind': 'after-failed-fit', 'data': aflat(good[::-1].copy()),
                              'reads': ['simultaneous_causality', 'causality_xy']})
            m = {'op': 'anaseq', 'nf': 8, 'order': -1, 'maxo': 3, 'crit': 'bic', 'ij': None, 'steps': steps, 'fail': True}
            kinds_of_reads = ''.join('f' if a_ == 'frequencies' else 'l' for st in steps for a_ in st['reads'] if READ_TOK[a_] != 'Rm')
            out.append(mk_case(m, 'analyzer/retarget/' + '+'.join(st['kind'] for st in steps[1:]), cmp_groups(kinds_of_reads)))
    return out


# ------------------------------------------------------------------ session 3: input families, options, boundaries, histories
def session3_cases(nrng, big):
    out = []
    reps = 1 if not big else 6
    for rep in range(reps):
        # --- L1: coefficient / covariance / transfer-function / spectral arrays in other representations
        fam = [('float32', 'float32', None, None), (None, 'int64', None, None), ('F', 'F', 'F', 'F'), ('strided', 'rowstrided', 'strided', 'readonly'),
               ('readonly', 'readonly', 'readonly', 'strided'), ('bigendian', 'bigendian', None, None), ('rowstrided', None, 'complex64', 'complex64'),
               ('int64', None, None, None)]
        for (ka, kc, kh, ks) in fam:
            P = int(nrng.randint(1, 6))
            a = stable_var(nrng, P, float(nrng.uniform(0.3, 0.85)), [None, 'xy', 'yx'][rep % 3] if ka != 'int64' else None)
            if ka == 'int64':
                a = np.zeros((P, 2, 2))
                a[0] = [[0.0, 0.0], [1.0, 0.0]]         # y[t] = -x[t-1] + e: integer coefficients, stable (nilpotent companion)
            elif ka:
                a = ar_fam.prepare(a, ka)
            cov = np.array([[2.0, 1.0], [1.0, 3.0]]) if kc == 'int64' else gen_cov(nrng, 'full')
            if kc and kc != 'int64':
                cov = ar_fam.prepare(cov, kc)
                cov = (cov + cov.T) / 2
            nf = int(nrng.choice([2, 3, 8, 9, 16]))
            par = 'odd' if nf % 2 else 'even'
            lp = ar_fam.tol_factor(ka, kc, kh, ks)
            base = {'P': P, 'nf': nf, 'a': aflat(a), 'zero': None, 'dt': ka, 'dtc': kc}
            tag = '%s+%s' % (ka or 'f8', kc or 'f8')
            out.append(mk_case(dict(base, op='tf'), 'transfer/dtype/' + tag, cmp_groups('fcccc', rtol=1e-9 * lp)))
            out.append(mk_case(dict(base, op='sm', cov=aflat(cov), dth=kh, dts=ks), 'spectral/dtype/%s/%s+%s' % (tag, kh or 'c16', ks or 'c16'),
                               cmp_groups('ccccfl', rtol=1e-9 * lp, atol=1e-300 if lp == 1 else 1e-6)))
            out.append(mk_case(dict(base, op='gc', cov=aflat(cov)), 'granger/dtype/' + tag, cmp_groups('lllcccc', rtol=1e-9 * lp)))
        # --- L3: n_freqs left at its default; L4: innovation covariances of scale 1e-140 / 1e140 (the measures are homogeneous of
        #     degree 0 in Σ), models with poles close to the unit circle
        P = int(nrng.randint(1, 4))
        a = stable_var(nrng, P, 0.7)
        cov = gen_cov(nrng, 'full')
        base = {'P': P, 'nf': 1024, 'nf_default': True, 'a': aflat(a), 'zero': None}
        out.append(mk_case(dict(base, op='tf'), 'transfer/n_freqs-default', cmp_groups('fcccc')))
        out.append(mk_case(dict(base, op='gc', cov=aflat(cov)), 'granger/n_freqs-default', cmp_groups('lllcccc')))
        for sc, pw in [(1e-140, 400), (1e140, -400), (1e-60, 150), (1e75, -200)]:
            P = int(nrng.randint(1, 6))
            a = stable_var(nrng, P, float(nrng.uniform(0.3, 0.9)))
            cov = gen_cov(nrng, 'full' if pw % 100 == 0 else 'diag') * sc
            nf = int(nrng.choice([4, 9, 16]))
            base = {'P': P, 'nf': nf, 'a': aflat(a), 'zero': None, 'cov': aflat(cov), 'pow2': pw}
            out.append(mk_case(dict(base, op='sm'), 'spectral/amplitude', cmp_groups('ccccfl', atol=0.0)))
            out.append(mk_case(dict(base, op='gc'), 'granger/amplitude', cmp_groups('lllcccc', atol=0.0)))
        for rho in (0.99, 0.997):
            P = int(nrng.randint(1, 4))
            a = stable_var(nrng, P, rho)
            out.append(mk_case({'op': 'tf', 'P': P, 'nf': 64, 'a': aflat(a), 'zero': None}, 'transfer/near-unit-circle', cmp_groups('fcccc', rtol=1e-7)))
        # --- L3 / L1: analyzer options: order selected by a criterion (max_order, criterion given), explicit order with a smaller
        #     max_order, tiny grids, n_freqs default; integer / single-precision / non-contiguous recordings
        specs = [dict(order=-1, maxo=6, crit='bic', nf=8), dict(order=-1, maxo=10, crit='aic', nf=9), dict(order=3, maxo=2, nf=16),
                 dict(order=2, maxo=-1, nf=1), dict(order=1, nf=2), dict(order=2, nf=3), dict(order=1, nf=1024, nf_default=True),
                 dict(order=2, nf=16, dt='int32'), dict(order=1, nf=9, dt='float32'), dict(order=2, nf=8, dt='strided'), dict(order=1, nf=8, dt='F'),
                 dict(order=2, nf=8, dt='int16')]
        for t, sp in enumerate(specs):
            nproc = 2 + t % 2
            data = sim_data(nrng, nproc, int(nrng.choice([128, 200]))) * 40.0
            if sp.get('dt'):
                data = ar_fam.prepare(data, sp['dt'])
            m = dict({'op': 'ana', 'nproc': nproc, 'Fs': float(nrng.choice([1.0, 2.0, 250.0])), 'ij': None if t % 2 else [[0, 1], [1, 0]], 'data': aflat(data)}, **sp)
            if sp['order'] < 0 and not selectable(m):
                m.update(order=2)           # the criterion does not converge on this draw: a fixed-order analyzer instead
            lp = ar_fam.tol_factor(sp.get('dt'))
            out.append(mk_case(m, 'analyzer/options/%s' % ('selected' if sp['order'] < 0 else sp.get('dt') or ('nf%d' % sp['nf'])), cmp_groups('lll', rtol=1e-9 * lp)))
    return out


def selectable(m):
    """does the criterion loop converge for every pair of this analyzer case (filter used while GENERATING cases only)"""
    _, gr, _ = mods()
    data = np.array(parse_flist(m['data'])).reshape(m['nproc'], -1)
    n = m['nproc']
    ij = [tuple(p) for p in m['ij']] if m['ij'] is not None else [(i, j) for j in range(n) for i in range(j)]
    try:
        for (i, j) in ij:
            gr.fit_model(data[i], data[j], **fit_kw(m))
        return True
    except Exception:  # noqa
        return False


def perturb(nrng):
    """L2 perturbation phase: the entry points with other option values, analyzers of the base class and of a subclass,
    and everything that was handed out overwritten in place (a call that raises here is not this phase's business)"""
    try:
        _perturb(nrng)
    except Exception:  # noqa
        pass


def _perturb(nrng):
    import histories, warnings
    warnings.simplefilter('ignore')
    ar, gr, ts = mods()
    held = []
    a = stable_var(nrng, 2, 0.6)
    cov = gen_cov(nrng, 'full')
    for nf in (4, 7, 1024):
        w, H = ar.transfer_function_xy(a, n_freqs=nf)
        S = ar.spectral_matrix_xy(H, cov)
        held += [w, H, S, ar.coherence_from_spectral(S), ar.interdependence_xy(S), ar.granger_causality_xy(a, cov, n_freqs=nf)]
    x = sim_data(nrng, 3, 128)

    class Sub(gr.GrangerAnalyzer):
        pass
    for cls in (gr.GrangerAnalyzer, Sub):
        G = cls(ts.TimeSeries(x, sampling_rate=3.0), order=2, n_freqs=8, ij=[(0, 1), (2, 1)])
        held += [G.causality_xy, G.causality_yx, G.simultaneous_causality, G.spectral_matrix, G.frequencies, G.model_coef, G.error_cov]
        G.set_input(ts.TimeSeries(x[:2] * 2.0, sampling_rate=7.0))
        G2 = cls(ts.TimeSeries(x, sampling_rate=1.0), max_order=5, n_freqs=4)
        try:
            held += [G2.causality_xy, G2.frequencies]
        except ValueError:
            pass
    histories.scribble(held)


def rerun_cases(nrng, sofar, big):
    """L2: after all ordinary cases and the perturbation phase a sample of them is evaluated AGAIN on fresh objects: same
    protocol line, so the implementation must return what the model returns, as before"""
    perturb(nrng)
    groups = {}
    for c in sofar:
        groups.setdefault((c.meta['op'], c.clause.split('/')[0]), []).append(c)
    out = []
    for key in sorted(groups):
        lst = groups[key]
        for c in lst[::max(1, len(lst) // (3 if not big else 12))][:3 if not big else 12]:
            out.append(Case(c.line, run_impl(c.meta), c.clause + '/rerun', cmp=c.cmp, meta=c.meta, nontrivial=False))
    return out


def oracle(rng, tier, seed, focus, cases=None):
    fails, n = [], 0
    for c in (cases or []):
        n += 1
        f = judge(c.meta, c.impl, c.clause)
        if f:
            f.case = c
            fails.append(f)
    return fails, {'judged': n, 'failed': len(fails), 'focus': len(focus)}


def replay(d):
    m = d['meta']
    return judge(m, run_impl(m), d['clause'])
