"""C18 — parameter-stepping histories on ONE FilterAnalyzer object (L2 / L6 / L7; session 3, round 4).

One analyzer is stepped through a sequence of settings with the documented ResetMixin protocol: assign attributes
(lb, ub and the attributes the getters really read: _filt_order, _gpass, _gstop, _ftype, _win, _boxcar_iterations),
call reset(), read EVERY one-time attribute again (filtered_fourier, filtered_boxcar, fir, iir; random order) — in
widening, narrowing, disjoint, overlapping and random band orders, with refused settings (ub beyond Nyquist: fir / iir
raise) in between, with the input's data overwritten in place or the analyzer re-targeted to another series between steps,
with a REFUSED public call filtfilt(b, a, in_ts) in between (coefficients too long for in_ts / for the own data, in_ts not a
series: every attribute of the analyzer must be the same object as before and the next reads as fresh), and with a re-read
WITHOUT reset (must hand out the stored object).

Expectation at every step (independent of the Lean model): a FRESH FilterAnalyzer built with those parameters on a copy of
the current data gives the same outcome (value or exception kind); filtered_fourier is also compared with the projection
definition (numpy FFT, true bin frequencies); the input's data are unchanged; everything handed out earlier still holds
what it held.  Each history is also ONE protocol line `C18 session …` per judged channel (whole operation sequence; reads of
filtered_fourier / filtered_boxcar) run by the Lean session model (Model/C18Sess.lean: `run floatSem`), theorem
`filtered_after_param_history_eq_fresh`.
"""
import random
import numpy as np
import common
from common import Case, Failure, f2x, flist, parse_flist, close_vec

METHODS = ['filtered_fourier', 'filtered_boxcar', 'fir', 'iir']
ATTR = {'filt_order': '_filt_order', 'gpass': '_gpass', 'gstop': '_gstop', 'iir_ftype': '_ftype', 'fir_win': '_win',
        'boxcar_iterations': '_boxcar_iterations'}
WINS = ['hamming', 'hann', 'blackman', 'bartlett', ('kaiser', 4.0)]
IIRS = [('ellip', 1, 60), ('ellip', 0.5, 40), ('cheby1', 1, 40), ('cheby2', 1, 40), ('butter', 1, 20)]
PATTERNS = {
    'widening': [(0.38, 0.5), (0.27, 0.62), (0.16, 0.78), (0.0, 0.78), (0.16, None)],
    'narrowing': [(0.16, None), (0.16, 0.78), (0.27, 0.62), (0.38, 0.5)],
    'disjoint': [(0.16, 0.3), (0.52, 0.8), (0.33, 0.47), (0.0, 0.28), (0.6, None)],
    'overlapping': [(0.16, 0.45), (0.3, 0.7), (0.55, 0.8), (0.2, 0.6)],
}


def nt():
    import nitime.timeseries as ts
    from nitime.analysis import FilterAnalyzer
    return ts, FilterAnalyzer


def rows(a):
    a = np.asarray(a, dtype='d')
    return a.reshape(1, -1) if a.ndim == 1 else a


def tok_ub(ub):
    return 'none' if ub is None else f2x(ub)


def cmp_session(impl, model):
    a, m = impl.split(), model.split()
    if len(a) != 2 or len(m) != 2 or a[0] != 'ok' or m[0] != 'ok':
        return impl == model
    xs, ys = a[1].split('|'), m[1].split('|')
    if len(xs) != len(ys):
        return False
    try:
        return all(close_vec(parse_flist(x), parse_flist(y), rtol=1e-9) for x, y in zip(xs, ys))
    except Exception:
        return False


def relation(prev, cur, nyq):
    if prev is None:
        return 'first'
    a0, b0 = prev[0], nyq if prev[1] is None else prev[1]
    a1, b1 = cur[0], nyq if cur[1] is None else cur[1]
    if (a1, b1) == (a0, b0):
        return 'same'
    if a1 <= a0 and b1 >= b0:
        return 'widening'
    if a1 >= a0 and b1 <= b0:
        return 'narrowing'
    if a1 > b0 or b1 < a0:
        return 'disjoint'
    return 'overlapping'


def projection(x, fs, lb, ub):
    """the definition: keep DC and the bins whose TRUE frequency lies in [lb, ub]; None when a bin is too close to an edge"""
    n = x.shape[-1]
    k = np.arange(n)
    f = np.minimum(k, n - k) * fs / n
    ubv = fs / 2 if ub is None else ub
    eps = 1e-9 * max(fs, 1.0)
    if np.any((np.abs(f - lb) < eps) & (k != 0)) or np.any(np.abs(f - ubv) < eps):
        return None
    keep = ((f >= lb) & (f <= ubv)) | (k == 0)
    return np.real(np.fft.ifft(np.where(keep, np.fft.fft(x, axis=-1), 0), axis=-1))


def outcome(fn):
    """('ok', series) or ('err', kind)"""
    r = common.call(fn)
    return ('err', r) if isinstance(r, str) else ('ok', r)


def plan(sd, full):
    """the whole history as data (deterministic in sd): initial series, steps"""
    rng = random.Random('C18-hist-%d-%d' % (sd, full))
    nr = np.random.RandomState(sd % (2**31))
    if full:
        n = rng.randint(76, 110)
    else:
        n = rng.randint(9, 48)
    nch = rng.choice([1, 1, 2, 3])
    fs = rng.choice([1.0, 2.0, 10.0, 16.0, 250.0, 0.5])
    pat = rng.choice(sorted(PATTERNS) + ['random'])
    if pat == 'random':
        bands = []
        for _ in range(rng.randint(3, 5)):
            a, b = sorted([rng.uniform(0.16, 0.45), rng.uniform(0.5, 0.8)])
            kind = rng.choice(['band', 'band', 'low', 'high'])
            bands.append((0.0 if kind == 'low' else a, None if kind == 'high' else b))
    else:
        bands = list(PATTERNS[pat])
        if rng.random() < 0.3:
            bands = bands + bands[:1]                      # come back to the first band
    steps = []
    for i, (a, b) in enumerate(bands):
        j = lambda v: v if v in (0.0, None) else v + rng.uniform(-0.012, 0.012)   # noqa: E731 (off-grid edges)
        st = {'band': (j(a), j(b)), 'opts': {}, 'input': None, 'stale': False, 'refused': False, 'order': rng.sample(METHODS, 4)}
        only_opts = i > 0 and rng.random() < 0.3
        if only_opts:
            st['band'] = steps[-1]['band']                 # the SAME band: only options change (memo keyed by the band alone)
        if i > 0 and (only_opts or rng.random() < 0.7):
            for name in rng.sample(sorted(ATTR), rng.randint(1, 3)):
                if name == 'filt_order':
                    st['opts'][name] = rng.choice([4, 8, 12, 16])
                elif name == 'fir_win':
                    st['opts'][name] = rng.choice(WINS)
                elif name == 'boxcar_iterations':
                    st['opts'][name] = rng.choice([1, 2, 3, 5])
                else:
                    ft, gp, gs = rng.choice(IIRS)
                    st['opts'].update(iir_ftype=ft, gpass=gp, gstop=gs)
        if i > 0 and rng.random() < 0.35:
            how = rng.choice(['inplace', 'retarget', 'retarget-other-length'])
            n2 = n if how != 'retarget-other-length' else n + rng.choice([-3, -1, 1, 2, 5])
            st['input'] = {'how': how, 'n': n2, 'fs': fs if how == 'inplace' else rng.choice([fs, fs, 2 * fs, 0.5 * fs]),
                           'seed': rng.randint(0, 10**6)}
        if i > 0 and rng.random() < 0.3:
            st['stale'] = True                             # before this step: assign a band WITHOUT reset, re-read
        if i > 0 and rng.random() < 0.25:
            st['refused'] = True                           # before this step: ub beyond Nyquist (fir / iir refuse), reset, read all
        if i > 0 and rng.random() < 0.35:
            st['badcall'] = {'how': rng.choice(['too-long-for-in_ts', 'in_ts-not-a-series', 'too-long-for-own']), 'seed': rng.randint(0, 10**6)}
        steps.append(st)
    return {'n': n, 'nch': nch, 'fs': fs, 'pattern': pat, 'unit': rng.choice(['s', 'ms', 'us']), 't0': rng.choice([0.0, 2.5, 120.0]),
            'flat': rng.random() < 0.6, 'steps': steps, 'order0': 8, 'seed': sd}


def mk_data(seed, nch, n):
    nr = np.random.RandomState(seed % (2**31))
    return nr.randn(nch, n) * nr.uniform(0.5, 4) + nr.uniform(-20, 20, (nch, 1))


def history(sd, full=True, want_cases=False, case_of=None):
    ts, FA = nt()
    P = plan(sd, full)
    rep = {'kind': 'hist', 'sd': sd, 'full': bool(full)}
    methods = METHODS if full else METHODS[:2]
    fails = []

    def bad(key, what, step):
        fails.append(Failure('history/' + key, 'history sd=%d (%s, n=%d nch=%d Fs=%g, %s bands) step %d: %s' % (
            sd, 'all methods' if full else 'fourier+boxcar', P['n'], P['nch'], P['fs'], P['pattern'], step, what), dict(rep, key='history/' + key),
            case=case_of))

    def series(d, fs):
        d = d[0] if (P['nch'] == 1 and P['flat']) else d
        return ts.TimeSeries(np.array(d, dtype='d'), sampling_rate=fs, t0=P['t0'], time_unit=P['unit'])

    cur = mk_data(sd + 17, P['nch'], P['n'])
    fs = P['fs']
    T = series(cur, fs)
    params = {'lb': 0.0, 'ub': None, 'filt_order': P['order0'], 'gpass': 1, 'gstop': 60, 'iir_ftype': 'ellip', 'fir_win': 'hamming',
              'boxcar_iterations': 2}
    b0 = P['steps'][0]['band']
    params['lb'], params['ub'] = b0[0] * fs / 2, None if b0[1] is None else b0[1] * fs / 2
    F = FA(T, **params)
    fsr0 = float(T.sampling_rate)
    ops = []                                               # protocol tokens
    reads = [[] for _ in range(min(P['nch'], 2))]          # what the reads of fourier / boxcar returned, per judged channel
    line_ok = True
    handed = []                                            # (label, series object, copy of its data)
    prev_band = None

    def read_all(step, order, judge=True, rel=''):
        nonlocal line_ok
        for m in order:
            if m not in methods:
                continue
            got = outcome(lambda: getattr(F, m))
            fresh = outcome(lambda: getattr(FA(series(cur.copy(), fs), **params), m))
            if m in ('filtered_fourier', 'filtered_boxcar'):
                ops.append('rf' if m == 'filtered_fourier' else 'rb')
                if got[0] == 'ok' and rows(got[1].data).shape == cur.shape:
                    for c in range(len(reads)):
                        reads[c].append(flist(rows(got[1].data)[c]))
                else:
                    line_ok = False
            if not judge:
                continue
            if got[0] != fresh[0] or (got[0] == 'err' and got[1] != fresh[1]):
                bad('%s/%s/outcome-differs-from-fresh' % (m, rel), 'stepped analyzer gives %s, a fresh analyzer with the same parameters %s' % (
                    got[1] if got[0] == 'err' else 'a result', fresh[1] if fresh[0] == 'err' else 'a result'), step)
                continue
            if got[0] == 'err':
                continue
            g, w = rows(got[1].data), rows(fresh[1].data)
            sc = max(np.abs(cur).max(), 1e-300)
            if g.shape != w.shape:
                bad('%s/%s/shape' % (m, rel), 'shape %s, fresh analyzer %s' % (g.shape, w.shape), step)
                continue
            if not np.all(np.abs(g - w) <= 1e-12 * sc):
                bad('%s/%s/differs-from-fresh' % (m, rel), 'after set lb=%r ub=%r %s + reset() the read differs from a fresh analyzer with these '
                    'parameters on the same data by %.3g (scale %.3g)' % (params['lb'], params['ub'], {k: v for k, v in params.items() if k not in ('lb', 'ub')},
                                                                         np.abs(g - w).max(), sc), step)
            if m == 'filtered_fourier':
                pr = projection(cur, fs, params['lb'], params['ub'])
                if pr is not None and not np.all(np.abs(g - pr) <= 1e-9 * sc):
                    kk = np.fft.fft(g - pr, axis=-1)
                    bad('filtered_fourier/%s/not-the-projection' % rel, 'output is not the projection on [%r, %r] Hz: off by %.3g (largest at bin %d)' % (
                        params['lb'], params['ub'], np.abs(g - pr).max(), int(np.argmax(np.abs(kk).max(axis=0)))), step)
            o, f_ = got[1], fresh[1]
            if o.sampling_interval != f_.sampling_interval or o.time_unit != f_.time_unit or not np.all(np.asarray(o.t0) == np.asarray(f_.t0)):
                bad('%s/%s/axis' % (m, rel), 'axis (interval, t0, unit) differs from the fresh analyzer', step)
            if np.abs(g.mean(axis=1) - cur.mean(axis=1)).max() > 1e-9 * sc:
                bad('%s/%s/mean' % (m, rel), 'channel means changed by %.3g' % np.abs(g.mean(axis=1) - cur.mean(axis=1)).max(), step)
            if np.shares_memory(np.asarray(o.data), np.asarray(T.data)):
                bad('%s/%s/aliases-input' % (m, rel), 'result shares memory with the input data', step)
            handed.append(('step %d %s' % (step, m), o, np.array(o.data, dtype='d').copy()))
        if not np.array_equal(rows(T.data), cur):
            bad('input-modified', 'the input series data were modified by reading %s' % order, step)

    def assign(name, v):
        params[name] = v
        setattr(F, name if name in ('lb', 'ub') else ATTR[name], v)

    for i, st in enumerate(P['steps']):
        if st['input'] is not None and i > 0:
            inp = st['input']
            new = mk_data(inp['seed'], P['nch'], cur.shape[1] if inp['how'] == 'inplace' else inp['n'])
            if inp['how'] == 'inplace':
                np.asarray(T.data)[...] = new[0] if np.asarray(T.data).ndim == 1 else new     # same array object, new contents
                cur = new
            else:
                fs = inp['fs']
                cur = new
                T = series(cur, fs)
                F._ts, F.data, F.sampling_rate, F.time_unit = T, T.data, T.sampling_rate, T.time_unit   # what __init__ keeps of the input
            ops.append(('IN', float(T.sampling_rate), cur.copy()))          # token written per judged channel below
        nyq = fs / 2
        band = (st['band'][0] * nyq, None if st['band'][1] is None else st['band'][1] * nyq)
        if st['stale'] and i > 0 and st['input'] is None:
            # assign another band WITHOUT reset(): a re-read hands out the STORED object (setattr_on_read)
            keep = {m: F.__dict__.get(m) for m in methods}
            F.lb = band[0]
            ops.append('lb=' + f2x(float(band[0])))
            params['lb'] = band[0]
            for m in methods[:2]:
                got = outcome(lambda: getattr(F, m))
                ops.append('rf' if m == 'filtered_fourier' else 'rb')
                if got[0] == 'ok' and rows(got[1].data).shape == cur.shape:
                    for c in range(len(reads)):
                        reads[c].append(flist(rows(got[1].data)[c]))
                else:
                    line_ok = False
                if keep[m] is not None and (got[0] != 'ok' or got[1] is not keep[m]):
                    bad('%s/stale-read-not-the-stored-object' % m, 're-read without reset() does not hand out the stored object', i)
        if st.get('badcall') and i > 0:
            # a REFUSED call of the public filtfilt(b, a, in_ts) (L7): the analyzer must be left exactly as it was
            bc = st['badcall']
            nrb = np.random.RandomState(bc['seed'])
            other = ts.TimeSeries(nrb.randn(P['nch'], 12) + 100.0, sampling_rate=3 * fs, t0=77.0, time_unit='ms' if P['unit'] != 'ms' else 's')
            if bc['how'] == 'too-long-for-in_ts':
                args = (nrb.uniform(-1, 1, 9), [1.0], other)                 # scipy refuses: 12 samples <= 3 * 9
            elif bc['how'] == 'in_ts-not-a-series':
                args = (nrb.uniform(-1, 1, 3), [1.0], np.asarray(other.data))
            else:
                args = (nrb.uniform(-1, 1, cur.shape[1] // 3 + 2), [1.0], None)
            before = dict(vars(F))
            r = outcome(lambda: F.filtfilt(*args))
            after = dict(vars(F))
            ops.append('refused')
            if r[0] == 'ok':
                bad('refused-filtfilt/%s/not-refused' % bc['how'], 'filtfilt accepted what scipy / the series interface refuses', i)
            changed = sorted(k for k in set(before) | set(after) if before.get(k, None) is not after.get(k, None))
            if changed:
                bad('refused-filtfilt/%s/state-changed' % bc['how'], 'after the refused call (%s) the analyzer attributes %s are other objects than before' % (
                    r[1], changed), i)
        if st['refused'] and i > 0:
            # a refused setting: ub beyond Nyquist (fir: ValueError from its guard; iir: scipy refuses), then carry on
            assign('ub', 1.3 * nyq)
            ops.append('ub=' + f2x(float(1.3 * nyq)))
            F.reset()
            ops.append('reset')
            read_all(i, st['order'][::-1], rel='refused-band')
        assign('lb', band[0])
        assign('ub', band[1])
        ops.append('lb=' + f2x(float(band[0])))
        ops.append('ub=' + tok_ub(None if band[1] is None else float(band[1])))
        for k, v in st['opts'].items():
            assign(k, v)
            ops.append('opt')
        F.reset()
        ops.append('reset')
        rel = 'input-changed' if st['input'] is not None else relation(prev_band, band, nyq)
        read_all(i, st['order'], rel=rel)
        prev_band = band
    for lab, o, d in handed:
        if not np.array_equal(np.asarray(o.data, dtype='d'), d):
            bad('handed-out-result-changed', 'the result of %s changed after later steps' % lab, len(P['steps']))
            break
    cs = []
    if want_cases:
        d0 = mk_data(sd + 17, P['nch'], P['n'])
        for c in range(len(reads)):
            toks = []
            for o in ops:
                if isinstance(o, tuple):
                    toks.append('in=%s:%s' % (f2x(o[1]), flist(o[2][c])))
                else:
                    toks.append(o)
            line = 'C18 session %s %s %s %s %s' % (f2x(fsr0), f2x(float(b0[0] * P['fs'] / 2)), tok_ub(None if b0[1] is None else float(b0[1] * P['fs'] / 2)),
                                                  flist(d0[c]), ' '.join(toks))
            impl = ('ok ' + '|'.join(reads[c])) if line_ok else 'err read-failed'
            cs.append(Case(line, impl, 'history/session/' + P['pattern'], cmp=cmp_session, meta=dict(rep, ch=c)))
    return (fails[0] if fails else None), cs, fails


def seeds(seed, tier):
    hr = random.Random('C18-histories-%d' % seed)
    big = tier == 'thorough'
    return ([(hr.randint(0, 10**6), True) for _ in range(40 if big else 10)] +
            [(hr.randint(0, 10**6), False) for _ in range(80 if big else 20)])
