"""Sequence / aliasing checks shared by the C10, C11, C12 oracles (phase 2).

A pure function of its arguments (which is what the Lean models are) gives, for ANY schedule of
calls on the same argument objects: (1) bitwise-identical results every time a routine is
evaluated, (2) argument arrays bit-for-bit unchanged, (3) results that do not alias internal
state (overwriting a returned array does not change a later result), (4) no dependence on the
identity of an argument object (refilling the same ndarray in place with new data gives what a
fresh copy gives).  `run_schedule` and `refill_check` decide these on the real implementation.
"""
import copy
import numpy as np


def arrays_of(obj, out=None):
    out = [] if out is None else out
    if isinstance(obj, np.ndarray):
        out.append(obj)
    elif isinstance(obj, dict):
        for k in obj:
            arrays_of(obj[k], out)
    elif isinstance(obj, (list, tuple)):
        for v in obj:
            arrays_of(v, out)
    return out


def snapshot(objs):
    return [(a, a.tobytes(), a.shape, a.dtype) for a in arrays_of(objs)]


def mutated(snap):
    return any(a.shape != sh or a.dtype != dt or a.tobytes() != b for a, b, sh, dt in snap)


def same(x, y):
    """bitwise-equal values (NaN equal to NaN), same structure / shapes / dtypes"""
    if isinstance(x, np.ndarray) or isinstance(y, np.ndarray):
        if not (isinstance(x, np.ndarray) and isinstance(y, np.ndarray)):
            try:
                return np.shape(x) == np.shape(y) and bool(np.array_equal(np.asarray(x), np.asarray(y), equal_nan=True))
            except Exception:  # noqa
                return False
        if x.shape != y.shape or x.dtype != y.dtype:
            return False
        try:
            return bool(np.array_equal(x, y, equal_nan=True))
        except TypeError:
            return bool(np.array_equal(x, y))
    if isinstance(x, dict) and isinstance(y, dict):
        return set(x) == set(y) and all(same(x[k], y[k]) for k in x)
    if isinstance(x, (list, tuple)) and isinstance(y, (list, tuple)):
        return len(x) == len(y) and all(same(a, b) for a, b in zip(x, y))
    if isinstance(x, float) and isinstance(y, float) and x != x and y != y:
        return True
    try:
        return bool(x == y)
    except Exception:  # noqa
        return False


def scribble(res, args):
    """overwrite every returned array that is not (a view of) an argument"""
    arg_arrays = arrays_of(args)
    for a in arrays_of(res):
        if not a.flags.writeable or a.size == 0:
            continue
        if any(np.may_share_memory(a, b) for b in arg_arrays):
            continue
        try:
            a[...] = 1234.5 if a.dtype.kind in 'fc' else 7
        except Exception:  # noqa
            pass


def run_schedule(routines, schedule, args):
    """routines: name -> thunk (closing over the SAME argument objects `args`); schedule: names in
    call order.  Returns a list of symptom strings (empty = behaves like a pure function)."""
    snap = snapshot(args)
    base, count, syms = {}, {}, []
    scribbled = set()
    held = {}
    for name in schedule:
        try:
            r = routines[name]()
        except Exception as e:  # noqa
            syms.append('%s#%d/raises-%s' % (name, count.get(name, 0) + 1, type(e).__name__))
            break
        count[name] = count.get(name, 0) + 1
        for hn, (hr, hs) in held.items():      # results handed out earlier must stay what they were
            if mutated(hs):
                syms.append('%s/earlier-result-changed-by-%s' % (hn, name))
                return syms
        if name not in base:
            base[name] = copy.deepcopy(r)
            held[name] = (r, snapshot(r))
        elif not same(base[name], r):
            syms.append('%s/%s' % (name, 'result-aliases-state' if scribbled else 'repeat-call-differs'))
            break
        if mutated(snap):
            syms.append('%s/argument-mutated' % name)
            break
        if count[name] >= 2:          # from the second evaluation on, trash what was returned
            scribble(r, args)
            scribbled.add(name)
            if mutated(snap):         # cannot happen (argument views are skipped); be safe
                syms.append('%s/argument-mutated' % name)
                break
    return syms


def refill_check(fn, first, second, variants):
    """identity-keyed state: `fn(arr, v)`; call on an array holding `first`, overwrite THE SAME
    array in place with `second`, call again (for every v in variants) and compare with the call on
    a fresh copy of `second`.  Returns symptom strings."""
    syms = []
    # the refill must be expressible in the buffer's own representation (integer / single-precision buffers): what is
    # compared is "reused object" vs "fresh object" holding the SAME stored values
    second = np.asarray(second).astype(np.asarray(first).dtype)
    for v1 in variants:
        for v2 in variants:
            buf = np.array(first, copy=True)
            try:
                fn(buf, v1)
                buf[...] = second
                got = fn(buf, v2)
                fresh = np.array(first, copy=True)       # a fresh object with the buffer's dtype AND memory layout
                fresh[...] = second
                want = fn(fresh, v2)
            except Exception as e:  # noqa
                syms.append('refill/raises-%s' % type(e).__name__)
                return syms
            if not same(copy.deepcopy(want), got):
                syms.append('refill/stale-result-for-reused-array')
                return syms
    return syms
