"""C16, round 2: L7 failure paths and L8 aliasing.

Correspondence (`seriescopy` lines, model = lean/Nitime/Model/C16Copy.lean): TimeSeries.copy() and `+ - *` on series whose
metadata is a generated CONTAINER GRAPH (dict / list / ndarray nodes, immutable values, and handles copy.deepcopy refuses:
lock, generator, open file, object whose __deepcopy__ raises — at the top level and nested): raised / which ORIGINAL containers
are reachable from the result / value of the graph / operand afterwards / does a write to everything reachable from the result
reach the operand.
Oracle (never the model; twin recipes = the same recipe run twice, one instance never touched):
* series_failure_paths: metadata recipes x {copy(), s+1, s-array, s*k, s/k, s+bad-shape, copy.copy(s), copy.deepcopy(s)} x
  {float64, int64} x {.time read, unread}; series sharing ONE metadata dict / ONE UniformTime;
* entry_failures: every registry entry with arguments made to fail part-way (last channel NaN / zeros, second argument one
  sample short, None for a needed value, negative numeric keywords, unknown method / unit): arguments bit-for-bit unchanged
  whether it raised or returned; a result that is returned shares no memory with the arguments and may be overwritten;
* entry_aliases: every entry with two plain array arguments of equal shape, the second being the same object / a view /
  transposed-and-back / reversed view / overlapping slice / interleaved rows of one buffer: result = that for independent
  equal-valued arguments, arguments unchanged, result shares nothing;
* analyzer_failures: analyzers built with refused / failing configurations and inputs whose last channel is zeros / NaN:
  inputs unchanged after every (failed) read, no attribute appears on the analyzer by a failed read, the next ordinary
  analyzer on the same series answers as on a fresh series; seeds that are views of the targets, events that are a view of the data.
"""
import copy, operator, os, threading
import numpy as np
from common import Case, Failure, err_kind, np_rng
import histories

PID = 'C16'
_KEEP = []


def _c16():
    import c16
    return c16


def ts():
    import nitime.timeseries as t
    return t


# ------------------------------------------------------------------ handles copy.deepcopy refuses
class _Raiser(object):
    """a proxy of something on disk: refuses to be deep-copied"""
    def __deepcopy__(self, memo):
        raise TypeError('this proxy cannot be deep-copied')

    def __repr__(self):
        return '<proxy>'


def _gen():
    yield 1


def make_handle(kind):
    kind = kind % 4
    if kind == 0:
        return threading.Lock()
    if kind == 1:
        return _gen()
    if kind == 2:
        fh = open(os.devnull, 'rb')
        _KEEP.append(fh)
        return fh
    return _Raiser()


HANDLE_TYPES = (type(threading.Lock()), type(_gen()), _Raiser)


def is_handle(x):
    return isinstance(x, HANDLE_TYPES) or hasattr(x, 'fileno')


def canon_md(x):
    """value of a metadata graph (handles by their type only)"""
    if isinstance(x, dict):
        return ('D', tuple((repr(k), canon_md(v)) for k, v in sorted(x.items(), key=lambda kv: repr(kv[0]))))
    if isinstance(x, list):
        return ('L', tuple(canon_md(v) for v in x))
    if isinstance(x, tuple):
        return ('T', tuple(canon_md(v) for v in x))
    if isinstance(x, np.ndarray):
        return ('A', str(x.dtype), x.shape, x.tobytes())
    if is_handle(x):
        return ('H', type(x).__name__)
    return ('V', repr(x))


def containers(x, out=None, seen=None):
    """every mutable container reachable from x (dict, list, ndarray; through tuples)"""
    out = [] if out is None else out
    seen = set() if seen is None else seen
    if id(x) in seen:
        return out
    seen.add(id(x))
    if isinstance(x, dict):
        out.append(x)
        for v in list(x.values()):
            containers(v, out, seen)
    elif isinstance(x, list):
        out.append(x)
        for v in list(x):
            containers(v, out, seen)
    elif isinstance(x, tuple):
        for v in x:
            containers(v, out, seen)
    elif isinstance(x, np.ndarray):
        out.append(x)
    return out


def scribble_md(x):
    """in-place change of every container reachable from x (children first)"""
    for c in reversed(containers(x)):
        try:
            if isinstance(c, dict):
                for k in list(c):
                    if not isinstance(c[k], (dict, list, np.ndarray, tuple)) and not is_handle(c[k]):
                        c[k] = 'scribbled'
                c['scribbled'] = 777
            elif isinstance(c, list):
                c.append(777)
                if c and not isinstance(c[0], (dict, list, np.ndarray, tuple)):
                    c[0] = 'scribbled'
            elif c.flags.writeable and c.size:
                c[...] = 777
        except Exception:  # noqa
            pass


def series_state(s):
    """everything the property says must stay: data, axis, time attributes, metadata at every level"""
    d = [('data', str(s.data.dtype), s.data.shape, s.data.tobytes()), ('meta', canon_md(s.metadata)), ('unit', s.time_unit)]
    for a in ('t0', 'sampling_interval', 'duration'):
        try:
            d.append((a, int(np.asarray(getattr(s, a)))))
        except Exception:  # noqa
            d.append((a, 'unreadable'))
    d.append(('rate', repr(float(s.sampling_rate))))
    return d


def series_full_state(s):
    """series_state + the axis (reads `.time`: only for the final comparison)"""
    t = s.time
    return series_state(s) + [('time', np.asarray(t).tobytes(), int(np.asarray(t.t0)), int(np.asarray(t.sampling_interval)), t.time_unit)]


def scribble_series(r):
    """every in-place change the public object allows, each on its own"""
    acts = [lambda: r.data.__setitem__(Ellipsis, 777), lambda: operator.iadd(r, 5), lambda: operator.imul(r, 2),
            lambda: operator.iadd(r.time, 3), lambda: np.asarray(r.time).__setitem__(Ellipsis, 777),
            lambda: operator.iadd(r.time.t0, 3), lambda: operator.iadd(r.t0, 11), lambda: operator.iadd(r.sampling_interval, 13),
            lambda: operator.iadd(r.time.sampling_interval, 17), lambda: scribble_md(r.metadata)]
    for f in acts:
        try:
            f()
        except Exception:  # noqa
            pass


def shared_with(r, s):
    """which parts of the result r ARE (or share memory with) mutable parts of s"""
    parts = []
    if r is s:
        return ['the-series-itself']
    if r.data is s.data or np.shares_memory(r.data, s.data):
        parts.append('data')
    if 'time' in r.__dict__ and 'time' in s.__dict__:
        if r.__dict__['time'] is s.__dict__['time'] or np.shares_memory(np.asarray(r.__dict__['time']), np.asarray(s.__dict__['time'])):
            parts.append('time')
    for at in ('t0', 'sampling_interval', 'duration'):
        if isinstance(r.__dict__.get(at), np.ndarray) and r.__dict__.get(at) is s.__dict__.get(at):
            parts.append(at)
    if r.metadata is s.metadata:
        parts.append('metadata')
    mine = containers(s.metadata)
    for c in containers(r.metadata):
        for j, o in enumerate(mine):
            if c is o or (isinstance(c, np.ndarray) and isinstance(o, np.ndarray) and c.size and o.size and np.shares_memory(c, o)):
                if j > 0 or r.metadata is not s.metadata:
                    parts.append('metadata-nested')
                break
    return sorted(set(parts))


# ------------------------------------------------------------------ correspondence: generated metadata graphs
def gen_graph(rng, depth=0, force_handle=None):
    """('D'|'L'|'A', [slot…]); slot = ('v', int) | ('h', kind) | ('r', node)"""
    kind = 'D' if depth == 0 else rng.choice(['D', 'L', 'L', 'A'])
    if kind == 'A':
        return ('A', [('v', rng.randint(-9, 9)) for _ in range(rng.randint(1, 3))])
    slots = []
    for _ in range(rng.randint(0 if depth else 1, 3)):
        u = rng.random()
        if u < 0.45 or depth >= 3:
            slots.append(('v', rng.randint(-9, 9)))
        elif u < 0.60 and force_handle is not False:
            slots.append(('h', rng.randint(0, 3)))
        else:
            slots.append(('r', gen_graph(rng, depth + 1, force_handle)))
    return (kind, slots)


def has_handle(node):
    return any(s[0] == 'h' or (s[0] == 'r' and has_handle(s[1])) for s in node[1])


def has_nested(node):
    return any(s[0] == 'r' for s in node[1])


def lay_out(node, heap, objs):
    """post-order: children first; returns the heap index of `node`; objs[i] = the python object of heap slot i"""
    toks, vals = [], []
    for s in node[1]:
        if s[0] == 'v':
            toks.append('v%d' % s[1]); vals.append(s[1])
        elif s[0] == 'h':
            toks.append('h%d' % s[1]); vals.append(make_handle(s[1]))
        else:
            j = lay_out(s[1], heap, objs)
            toks.append('r%d' % j); vals.append(objs[j])
    py = {('k%d' % i): v for i, v in enumerate(vals)} if node[0] == 'D' else list(vals) if node[0] == 'L' else np.array(vals, dtype=np.int64)
    heap.append(','.join(toks) or '-')
    objs.append(py)
    return len(heap) - 1


def run_seriescopy(graph, data, other, op, lazy):
    """the real copy()/operator on the series described by (graph, data) -> (impl string, observations)"""
    T = ts().TimeSeries

    def recipe():
        heap = [','.join('v%d' % v for v in data), 'v2,v3', ','.join('v%d' % v for v in other)]
        objs = [None, None, None]
        root = lay_out(graph, heap, objs)
        s = T(np.array(data, dtype=np.int64), sampling_interval=3, t0=2, time_unit='s', metadata=objs[root])
        o = np.array(other, dtype=np.int64)
        objs[0], objs[2] = s.data, o
        return s, o, heap, objs, root
    s, o, heap, objs, root = recipe()
    twin, otwin, _, _, _ = recipe()
    if lazy:
        _ = s.time
    line = 'C16 seriescopy %s 0 1 %d 2 %s' % (';'.join(heap), root, op)
    fn = {'copy': lambda: s.copy(), 'add': lambda: s + o, 'sub': lambda: s - o, 'mul': lambda: s * o}[op]
    obs = {'raised': None, 'shared': [], 'reached': False, 'changed_by_call': False, 'returned': False}
    try:
        r = fn()
    except Exception as e:  # noqa
        obs['raised'] = type(e).__name__
        same = series_full_state(s) == series_full_state(twin) and o.tobytes() == otwin.tobytes()
        obs['changed_by_call'] = not same
        return line, 'raised %s heap=%s' % (obs['raised'], 'same' if same else 'changed'), obs
    obs['returned'] = True
    old_same = series_state(s) == series_state(twin) and o.tobytes() == otwin.tobytes()
    obs['changed_by_call'] = not old_same
    # which ORIGINAL heap objects are reachable from the result
    mine = containers(r.metadata) + [r.data] + ([np.asarray(r.__dict__['time'])] if 'time' in r.__dict__ else [])
    shared = set()
    for i, py in enumerate(objs):
        if py is None:
            continue
        for c in mine:
            if c is py or (isinstance(c, np.ndarray) and isinstance(py, np.ndarray) and c.size and py.size and np.shares_memory(c, py)):
                shared.add(i)
    if 'time' in r.__dict__ and 'time' in s.__dict__ and (r.__dict__['time'] is s.__dict__['time'] or np.shares_memory(np.asarray(r.time), np.asarray(s.time))):
        shared.add(1)
    equal = canon_md(r.metadata) == canon_md(s.metadata) and np.asarray(r.time).tobytes() == np.asarray(twin.time).tobytes()
    vals = ','.join(str(int(v)) for v in np.asarray(r.data).reshape(-1)) or '-'
    scribble_series(r)
    reached = not (series_full_state(s) == series_full_state(twin) and o.tobytes() == otwin.tobytes())
    obs.update(shared=sorted(shared), reached=reached)
    impl = 'ok data=%s shared=%s equal=%d old=%s write-reaches-operand=%d' % (vals, ','.join(map(str, sorted(shared))) or '-', int(equal),
                                                                             'same' if old_same else 'changed', int(reached))
    return line, impl, obs


def cmp_strict(impl, model):
    return impl == model.split(' ## ')[0]


def gen_seriescopy(rng, force=None):
    n = rng.randint(2, 4)
    data = [rng.randint(-20, 20) for _ in range(n)]
    graph = gen_graph(rng, 0, force_handle=force)
    if force is True and not has_handle(graph):
        # a handle somewhere, next to / below / above a nested mutable value
        where = rng.choice(['top-first', 'top-last', 'nested'])
        h = ('h', rng.randint(0, 3))
        nested = ('r', (rng.choice(['L', 'D', 'A']), [('v', 1), ('v', 2)]))
        if where == 'top-first':
            graph = ('D', [h] + graph[1] + [nested])
        elif where == 'top-last':
            graph = ('D', [nested] + graph[1] + [h])
        else:
            graph = ('D', [nested] + graph[1] + [('r', ('L', [('v', 5), ('r', ('D', [('v', 6), h]))]))])
    op = rng.choice(['copy', 'copy', 'add', 'sub', 'mul'])
    shape = rng.choice(['same', 'same', 'one', 'bad'])
    other = [rng.randint(-5, 5) for _ in range({'same': n, 'one': 1, 'bad': n + 1}[shape])]
    lazy = rng.random() < 0.5
    line, impl, obs = run_seriescopy(graph, data, other, op, lazy)
    cls = ('handle' if has_handle(graph) else 'copyable') + ('+nested' if has_nested(graph) else '')
    return Case(line, impl, 'seriescopy/%s/%s/%s' % (op, cls, 'bad-shape' if shape == 'bad' and op != 'copy' else 'ok-shape'), cmp=cmp_strict,
                meta={'what': 'seriescopy', 'graph': graph, 'data': data, 'other': other, 'op': op, 'lazy': lazy, 'obs': obs})


def judge_seriescopy(c):
    m = c.meta
    o = m['obs']
    tag = '/'.join(c.clause.split('/')[1:3])
    sym = None
    if o['changed_by_call']:
        sym = 'operand-changed-by-the-call'
    elif o['returned'] and o['reached']:
        sym = 'write-to-result-reaches-operand'
    elif o['returned'] and o['shared']:
        sym = 'result-shares-operand-objects'
    if sym is None:
        return None
    return Failure('seriescopy/%s/%s' % (tag, sym),
                   'TimeSeries %s on a series with metadata graph %s (%s): %s; shared original objects (heap ids) %s  [%s] impl=%s'
                   % (m['op'], m['graph'], 'raised ' + str(o['raised']) if o['raised'] else 'returned', sym, o['shared'], c.line[:160], c.impl[:120]),
                   {'what': 'seriescopy', 'meta': m, 'line': c.line}, case=c)


def rejudge_seriescopy(d):
    m = d['meta']
    g = _tuplify(m['graph'])
    line, impl, obs = run_seriescopy(g, m['data'], m['other'], m['op'], m['lazy'])
    c = Case(line, impl, 'seriescopy/%s/%s/x' % (m['op'], ('handle' if has_handle(g) else 'copyable') + ('+nested' if has_nested(g) else '')),
             meta=dict(m, graph=g, obs=obs))
    return judge_seriescopy(c)


def _tuplify(g):
    return (g[0], [tuple(s) if s[0] != 'r' else ('r', _tuplify(s[1])) for s in g[1]])


def cases(rng, tier):
    k = {'quick': 1, 'thorough': 10}[tier]
    out = []
    for _ in range(60 * k):
        out.append(gen_seriescopy(rng))
    for _ in range(60 * k):
        out.append(gen_seriescopy(rng, force=True))
    for _ in range(20 * k):
        out.append(gen_seriescopy(rng, force=False))
    return out


# ------------------------------------------------------------------ oracle 1: series copy / arithmetic, recipes x operations
def _plain():
    return {'subject': 'S01', 'bad_channels': [3, 7], 'roi': {'coords': np.array([[10, 20, 30], [11, 21, 31]]), 'labels': ['lh', 'rh']},
            'history': [('detrend', {'order': 1})], 'n': 3}


def _with(path_fn):
    def recipe():
        md = _plain()
        path_fn(md)
        return md
    return recipe


MD_RECIPES = [
    ('empty', lambda: {}),
    ('plain', _plain),
    ('lock-top', _with(lambda md: md.__setitem__('lock', make_handle(0)))),
    ('generator-top', _with(lambda md: md.__setitem__('reader', make_handle(1)))),
    ('file-in-dict', _with(lambda md: md.__setitem__('session', {'fh': make_handle(2), 'notes': ['run 1']}))),
    ('raiser-in-list-in-dict', _with(lambda md: md['roi'].__setitem__('proxies', [1, [make_handle(3)], 2]))),
    ('lock-in-tuple', _with(lambda md: md.__setitem__('sync', (1, make_handle(0))))),
    ('lock-deep', _with(lambda md: md['history'][0][1].__setitem__('guard', {'l': [make_handle(0)]}))),
    ('lock-first-key', lambda: dict([('a-lock', make_handle(0))] + list(_plain().items()))),
    ('only-lock-and-array', lambda: {'lock': make_handle(0), 'w': np.arange(3.)}),
]

SERIES_OPS = [
    ('copy', lambda s: s.copy(), True), ('add-scalar', lambda s: s + 1, True), ('sub-array', lambda s: s - np.arange(16).reshape(8, 2), True),
    ('mul-scalar', lambda s: s * 2.5, True), ('div-scalar', lambda s: s / 4, True), ('add-series', lambda s: s + ts().TimeSeries(np.ones((2, 8)), sampling_interval=0.5, t0=2.0), True),
    ('add-bad-shape', lambda s: s + np.ones((3, 3)), True), ('div-zero', lambda s: s / 0, True), ('add-none', lambda s: s + None, True),
    ('mul-string', lambda s: s * 'x', True),
    ('copy.deepcopy', lambda s: copy.deepcopy(s), True),
    ('copy.copy', lambda s: copy.copy(s), False),     # python's shallow copy shares by contract: only "the call itself changes nothing" is judged
]


def series_failure_paths(tier, seed):
    T = ts().TimeSeries
    fails, n = [], 0
    rep = {'what': 'r2', 'part': 'series'}
    for rname, recipe in MD_RECIPES:
        for dt in (np.float64, np.int64):
            for opname, op, full in SERIES_OPS:
                for lazy in (False, True):
                    def make():
                        rs = np.random.RandomState(11)
                        return T((rs.standard_normal((2, 8)) * 10).astype(dt), sampling_interval=0.5, t0=2.0, time_unit='s', metadata=recipe())
                    s, twin = make(), make()
                    if lazy:
                        _ = s.time
                    n += 1
                    where = 'series-fail/%s/%s/%s/%s' % (rname, opname, np.dtype(dt).name, 'time-read' if lazy else 'time-unread')
                    try:
                        with np.errstate(all='ignore'):
                            r = op(s)
                        status = 'returned'
                    except Exception as e:  # noqa
                        r, status = None, 'raised ' + type(e).__name__
                    if series_full_state(s) != series_full_state(twin):
                        fails.append(Failure(where + '/operand-changed-by-the-call', '%s: the call (%s) changed the series' % (where, status), rep))
                        continue
                    if r is None or not full or not isinstance(r, ts().TimeSeriesBase):
                        continue
                    parts = shared_with(r, s)
                    scribble_series(r)
                    if series_full_state(s) != series_full_state(twin):
                        st_, tw_ = dict((x[0], x[1:]) for x in series_full_state(s)), dict((x[0], x[1:]) for x in series_full_state(twin))
                        what = '+'.join(k_ for k_ in sorted(st_) if st_[k_] != tw_.get(k_))
                        fails.append(Failure(where + '/result-mutation-reaches-operand.' + what,
                                             '%s: the call returned; changing its result in place changed the operand\'s %s (shared: %s)' % (where, what, parts or 'nothing by identity'), rep))
                    elif parts:
                        fails.append(Failure(where + '/result-shares-' + '+'.join(parts), '%s: the result shares %s with the operand' % (where, parts), rep))
    # L8: two series built with ONE metadata dict / ONE UniformTime / one data buffer's rows
    for opname, op, full in SERIES_OPS[:7]:
        for shared_kind in ('metadata', 'time', 'metadata+time'):
            def make2():
                rs = np.random.RandomState(5)
                md = _plain() if 'metadata' in shared_kind else None
                u = ts().UniformTime(t0=2.0, sampling_interval=0.5, length=8, time_unit='s') if 'time' in shared_kind else None
                kw = lambda: dict(metadata=md if md is not None else _plain(), **({'time': u} if u is not None else {'sampling_interval': 0.5, 't0': 2.0}))
                return T(rs.standard_normal((2, 8)), **kw()), T(rs.standard_normal((2, 8)), **kw()), md, u
            (s1, s2, md, u), (t1, t2, tmd, tu) = make2(), make2()
            n += 1
            where = 'series-shared-%s/%s' % (shared_kind, opname)
            try:
                r = op(s1)
            except Exception:  # noqa
                r = None
            bad = []
            if r is not None:
                if md is not None and r.metadata is md:
                    bad.append('result.metadata-IS-the-shared-dict')
                if md is not None and any(c is o for c in containers(r.metadata) for o in containers(md)):
                    bad.append('result-metadata-holds-a-container-of-the-shared-dict')
                if u is not None and (r.time is u or np.shares_memory(np.asarray(r.time), np.asarray(u))):
                    bad.append('result.time-IS-the-shared-axis')
                if np.shares_memory(r.data, s1.data) or np.shares_memory(r.data, s2.data):
                    bad.append('result.data-shares-memory')
                scribble_series(r)
            for nm_, a_, b_ in (('operand', s1, t1), ('the-other-series', s2, t2)):
                if series_full_state(a_) != series_full_state(b_):
                    bad.append('%s-changed' % nm_)
            if md is not None and canon_md(md) != canon_md(tmd):
                bad.append('shared-dict-changed')
            if u is not None and (np.asarray(u).tobytes() != np.asarray(tu).tobytes() or int(u.t0) != int(tu.t0) or int(u.sampling_interval) != int(tu.sampling_interval)):
                bad.append('shared-axis-changed')
            if bad:
                fails.append(Failure(where + '/' + '+'.join(sorted(set(bad))), '%s: two series built with one %s object; after %s on the first and in-place changes of the result: %s' % (where, shared_kind, opname, sorted(set(bad))), rep))
    return fails, n


# ------------------------------------------------------------------ oracle 2: registry entries made to fail part-way
def _is_plain(x):
    return type(x) is np.ndarray


def _spoil(x, how):
    """last channel (row of the first axis; last sample for 1-d) of a float array -> NaN / zeros, in place (before the snapshot)"""
    if isinstance(x, np.ndarray) and x.dtype.kind in 'fc' and x.size > 1 and x.flags.writeable and not isinstance(x, np.ma.MaskedArray):
        x[-1] = np.nan if how == 'nan' else 0
        return True
    if isinstance(getattr(x, 'data', None), np.ndarray) and not isinstance(x, np.ndarray):
        return _spoil(x.data, how)
    return False


def failure_variants(build):
    """(tag, kind, f, a, k): the entries of a freshly built table with one thing made to fail"""
    for how in ('nan', 'zero'):
        for name, f, a, k in build():
            if name.startswith(NO_SPOIL):
                continue
            if any([_spoil(x, how) for x in list(a) + list(k.values())]):
                yield name, how + '-last-channel', f, a, k
    for name, f, a, k in build():
        idx = [i for i, x in enumerate(a) if _is_plain(x) and x.ndim >= 1 and x.shape[-1] > 2]
        if len(idx) >= 2:
            a = list(a)
            a[idx[1]] = np.array(a[idx[1]][..., :-1])
            yield name, 'second-array-one-sample-short', f, tuple(a), k
    for name, f, a, k in build():
        idx = [i for i, x in enumerate(a) if isinstance(x, (int, float, tuple)) and not isinstance(x, bool)]
        for i in idx[:2]:
            a2 = list(copy.deepcopy(a))
            a2[i] = None
            yield name, 'none-for-arg%d' % i, f, tuple(a2), copy.deepcopy(k)
    for name, f, a, k in build():
        for key in [key for key in sorted(k) if isinstance(k[key], (int, float)) and not isinstance(k[key], bool)][:2]:
            a2, k2 = copy.deepcopy(a), copy.deepcopy(k)
            k2[key] = -1
            yield name, 'negative-%s' % key, f, a2, k2
        for key in [key for key in sorted(k) if isinstance(k[key], dict)]:
            for tag, upd in (('unknown-method', {'this_method': 'no_such_method'}), ('bad-NFFT', {'NFFT': -4}), ('none-Fs', {'Fs': None})):
                a2, k2 = copy.deepcopy(a), copy.deepcopy(k)
                k2[key] = dict(k2[key], **upd)
                yield name, '%s-in-%s' % (tag, 'method-dict'), f, a2, k2
        if 'time_unit' in k:
            a2, k2 = copy.deepcopy(a), copy.deepcopy(k)
            k2['time_unit'] = 'parsec'
            yield name, 'invalid-unit', f, a2, k2


class _Timeout(Exception):
    pass


def timed_call(name, f, a, k, seconds=5):
    """c16.call_entry under a watchdog: an iterative routine that does not converge on a spoiled input is cut off (outcome `Timeout`:
    the arguments are still compared)"""
    import signal
    C = _c16()

    def on_alarm(signum, frame):
        raise _Timeout()
    try:
        old = signal.signal(signal.SIGALRM, on_alarm)
    except ValueError:       # not the main thread
        return C.call_entry(name, f, a, k)
    signal.setitimer(signal.ITIMER_REAL, seconds)
    try:
        return C.call_entry(name, f, a, k)
    except _Timeout:
        return None, 'Timeout'
    finally:
        signal.setitimer(signal.ITIMER_REAL, 0)
        signal.signal(signal.SIGALRM, old)


class watchdog(object):
    """with watchdog(3): …  raises _Timeout inside the block after that many seconds (main thread only)"""
    def __init__(self, seconds):
        self.seconds, self.old = seconds, None

    def __enter__(self):
        import signal

        def on_alarm(signum, frame):
            raise _Timeout()
        try:
            self.old = signal.signal(signal.SIGALRM, on_alarm)
            signal.setitimer(signal.ITIMER_REAL, self.seconds)
        except ValueError:
            self.old = None
        return self

    def __exit__(self, *exc):
        import signal
        if self.old is not None:
            signal.setitimer(signal.ITIMER_REAL, 0)
            signal.signal(signal.SIGALRM, self.old)
        return False


NO_SPOIL = ('utils.tridi_inverse_iteration',)      # iterative solver: a spoiled matrix is outside its domain (it need not terminate)


def judged_call(where, name, f, a, k, fails, rep, may_alias=False):
    """arguments unchanged whether the call raises or returns; a returned result shares nothing and may be overwritten"""
    C, X = _c16(), __import__('c16_ext')
    labels = ['arg%d' % i for i in range(len(a))] + [C.arg_label(key) for key in sorted(k)]
    argv = list(a) + [k[key] for key in sorted(k)]
    before = [C.snap(x) for x in argv]
    res, raised = timed_call(name, f, a, k)

    def compare(stage):
        hit = False
        for lab, b0, x in zip(labels, before, argv):
            dd = C.differs(b0, C.snap(x))
            if dd:
                hit = True
                sym = 'argument-mutated/' + C.dict_delta(b0, C.snap(x)) if lab == 'method-dict' else dd
                fails.append(Failure('%s/%s%s%s%s' % (where, lab, '/' if lab == 'method-dict' else '-', sym, stage),
                                     'nitime %s %s its argument `%s` modified (%s)%s' % (name, 'raised (%s) and left' % raised if raised else 'returned with', lab, dd,
                                                                                        ' after the caller overwrote the RESULT' if stage else ''), rep))
        return hit
    if compare(''):
        return res, raised, True
    if raised is None and res is not None and not may_alias:
        args_arr = X.arg_arrays(argv)
        if any(X.overlaps(r, xa) for r in X.result_arrays(res) for xa in args_arr):
            fails.append(Failure('%s/result-shares-memory-with-argument' % where, 'nitime %s returned a result that shares memory with an argument' % name, rep))
        else:
            histories.scribble(res)
            compare('/after-result-overwritten')
    return res, raised, False


def _build(seed, stream, v, fam):
    C, X = _c16(), __import__('c16_ext')
    base_fam = 'generic' if fam.startswith('L1-') else fam
    E = C.entry_points(np_rng(PID, seed, stream), v, base_fam)
    return X.retype_entries(E, fam[3:]) if fam.startswith('L1-') else E


R2_FAMILIES_QUICK = ('generic', 'zero-mean', 'L1-int32')


def entry_failures(tier, seed, only_fam=None):
    import warnings
    C, X = _c16(), __import__('c16_ext')
    fails, n, nraised = [], 0, 0
    fams = R2_FAMILIES_QUICK if tier == 'quick' else C.FAMILIES
    with warnings.catch_warnings():
        warnings.simplefilter('ignore')
        for fam in fams:
            if only_fam not in (None, fam):
                continue
            stream = 'r2/fail/%s' % fam
            rep = {'what': 'r2', 'part': 'entry-failures', 'fam': fam, 'seed': seed}
            try:
                for name, kind, f, a, k in failure_variants(lambda: _build(seed, stream, 0, fam)):
                    with np.errstate(all='ignore'):
                        _, raised, _ = judged_call('entry/%s/fail:%s' % (name, kind), name, f, a, k, fails, dict(rep, name=name), may_alias=name.startswith(X.RESULT_MAY_BE_ARGUMENT))
                    n += 1
                    nraised += 1 if raised else 0
            except Exception as e:  # noqa
                fails.append(Failure('entry/setup-r2/%s/%s' % (fam, err_kind(e)), 'cannot build the failure variants for family %s: %r' % (fam, e), rep))
    return fails, {'failure_variant_calls': n, 'failure_variants_raised': nraised}


# ------------------------------------------------------------------ oracle 3: one argument a view of another
def alias_forms(x, y):
    """[(form, x', y')] with y' a view of / the same object as x' (x, y plain arrays of equal shape and dtype); values of x' y' may differ from x y"""
    out = [('same-object', x, x), ('view', x, x[...]), ('transposed-and-back', x, x.T.T), ('reversed-view', x, x[..., ::-1])]
    if x.shape[-1] >= 3:
        base = np.concatenate([x, y[..., -1:]], axis=-1)
        out.append(('overlapping-slices', base[..., :-1], base[..., 1:]))
    st = np.empty((2 * x.shape[0],) + x.shape[1:], dtype=x.dtype)
    st[::2], st[1::2] = x, y
    out.append(('interleaved-rows', st[::2], st[1::2]))
    return out


def entry_aliases(tier, seed, only_fam=None):
    import warnings
    C, X = _c16(), __import__('c16_ext')
    fails, n = [], 0
    fams = ('generic', 'zero-mean') if tier == 'quick' else ('generic', 'zero-mean', 'centred', 'unit-var', 'int-dtype', 'complex', 'L1-int32', 'L1-float32')
    with warnings.catch_warnings():
        warnings.simplefilter('ignore')
        for fam in fams:
            if only_fam not in (None, fam):
                continue
            rep = {'what': 'r2', 'part': 'entry-aliases', 'fam': fam, 'seed': seed}
            try:
                E = _build(seed, 'r2/alias/%s' % fam, 0, fam)
            except Exception as e:  # noqa
                fails.append(Failure('entry/setup-r2-alias/%s/%s' % (fam, err_kind(e)), 'cannot build the table for family %s: %r' % (fam, e), rep))
                continue
            for name, f, a, k in E:
                idx = [i for i, x in enumerate(a) if _is_plain(x) and x.ndim >= 1 and x.size > 1]
                pairs = [(i, j) for i in idx for j in idx if i < j and a[i].shape == a[j].shape and a[i].dtype == a[j].dtype]
                rows = [(i, j) for i in idx for j in idx if i != j and a[i].ndim + 1 == a[j].ndim and a[i].shape == a[j].shape[1:] and a[i].dtype == a[j].dtype]
                variants = []
                for i, j in pairs[:1]:
                    for form, xi, yj in alias_forms(a[i], a[j]):
                        a2 = list(a)
                        a2[i], a2[j] = xi, yj
                        variants.append(('%d~%d:%s' % (i, j, form), a2))
                for i, j in rows[:1]:
                    a2 = list(a)
                    a2[i] = a[j][0]
                    variants.append(('%d-is-row-of-%d' % (i, j), a2))
                    a2 = list(a)
                    a2[i] = a[j][-1]
                    variants.append(('%d-is-last-row-of-%d' % (i, j), a2))
                for form, a2 in variants:
                    where = 'alias/%s/%s' % (name, form.split(':')[-1] if ':' in form else form)
                    indep = [np.array(x) if _is_plain(x) else copy.deepcopy(x) for x in a2]
                    with np.errstate(all='ignore'):
                        want, wraised = C.call_entry(name, f, indep, copy.deepcopy(k))
                        want_c = X.canon(want) if wraised is None else ('raised', wraised)
                        res, raised, hit = judged_call(where, name, f, a2, copy.deepcopy(k), fails, dict(rep, name=name), may_alias=True)
                    n += 1
                    if hit:
                        continue
                    # (judged_call with may_alias=True does not overwrite the result: compare first)
                    got_c = X.canon(res) if raised is None else ('raised', raised)
                    if (want_c[0] == 'raised') != (got_c[0] == 'raised') or (want_c[0] != 'raised' and not X.same(want_c, got_c)):
                        fails.append(Failure(where + '/result-differs-from-independent-arguments',
                                             'nitime %s with aliased arguments (%s) gives another result than with independent equal-valued arrays (%s vs %s); family %s'
                                             % (name, form, 'raised ' + str(raised) if raised else 'returned', 'raised ' + str(wraised) if wraised else 'returned', fam), dict(rep, name=name)))
                        continue
                    if raised is None and not name.startswith(X.RESULT_MAY_BE_ARGUMENT):
                        if any(X.overlaps(r, xa) for r in X.result_arrays(res) for xa in X.arg_arrays(a2)):
                            fails.append(Failure(where + '/result-shares-memory-with-argument', 'nitime %s (%s) returned a result sharing memory with an argument' % (name, form), dict(rep, name=name)))
    return fails, {'alias_variant_calls': n}


# ------------------------------------------------------------------ oracle 4: analyzers — failing configurations, aliased inputs
def failing_analyzers():
    import nitime.analysis as an
    t = ts()
    L = []
    add = lambda name, f, attrs: L.append((name, f, attrs))
    seedn = lambda s, n: t.TimeSeries(np.array(s.data[0, :n]), sampling_interval=s.sampling_interval)
    add('SpectralAnalyzer[unknown-method]', lambda s: (an.SpectralAnalyzer, (s,), {'method': {'this_method': 'no_such', 'NFFT': 32}}), ['psd', 'cpsd', 'spectrum_fourier'])
    add('SpectralAnalyzer[bad-NFFT]', lambda s: (an.SpectralAnalyzer, (s,), {'method': {'this_method': 'welch', 'NFFT': -4}}), ['psd', 'cpsd', 'spectrum_multi_taper'])
    add('SpectralAnalyzer[BW-too-small]', lambda s: (an.SpectralAnalyzer, (s,), {'BW': 1e-9}), ['spectrum_multi_taper', 'psd'])
    add('CoherenceAnalyzer[bad-NFFT]', lambda s: (an.CoherenceAnalyzer, (s,), {'method': {'this_method': 'welch', 'NFFT': -4}}), ['coherence', 'frequencies', 'delay', 'coherence_partial'])
    add('CoherenceAnalyzer[unknown-method]', lambda s: (an.CoherenceAnalyzer, (s,), {'method': {'this_method': 'no_such'}}), ['coherence', 'phase'])
    add('MTCoherenceAnalyzer[bad-bandwidth]', lambda s: (an.MTCoherenceAnalyzer, (s,), {'bandwidth': -1.0}), ['coherence', 'confidence_interval'])
    add('SparseCoherenceAnalyzer[index-out-of-range]', lambda s: (an.SparseCoherenceAnalyzer, (s,), {'ij': [(0, 1), (0, 9)], 'method': {'this_method': 'welch', 'NFFT': 32}}), ['coherence', 'phases', 'delay'])
    add('SeedCoherenceAnalyzer[short-seed]', lambda s: (an.SeedCoherenceAnalyzer, (seedn(s, 100), s), {'method': {'this_method': 'welch', 'NFFT': 32}}), ['coherence', 'delay'])
    add('SeedCorrelationAnalyzer[short-seed]', lambda s: (an.SeedCorrelationAnalyzer, (seedn(s, 100), s), {}), ['corrcoef'])
    add('FilterAnalyzer[lb>ub]', lambda s: (an.FilterAnalyzer, (s,), {'lb': 0.4, 'ub': 0.1, 'filt_order': 16}), ['filtered_boxcar', 'filtered_fourier', 'fir', 'iir'])
    add('FilterAnalyzer[above-nyquist]', lambda s: (an.FilterAnalyzer, (s,), {'lb': 0.1, 'ub': 7.0, 'filt_order': 16}), ['fir', 'iir', 'filtered_boxcar', 'filtered_fourier'])
    add('FilterAnalyzer[order-too-large]', lambda s: (an.FilterAnalyzer, (s,), {'lb': 0.1, 'ub': 0.3, 'filt_order': 4096, 'gpass': -1}), ['fir', 'iir'])
    add('FilterAnalyzer[none-ub]', lambda s: (an.FilterAnalyzer, (s,), {'lb': None, 'ub': None}), ['fir', 'iir', 'filtered_boxcar', 'filtered_fourier'])
    add('GrangerAnalyzer[order-too-large]', lambda s: (an.GrangerAnalyzer, (s,), {'order': 200}), ['causality_xy', 'frequencies'])
    add('GrangerAnalyzer[index-out-of-range]', lambda s: (an.GrangerAnalyzer, (s,), {'order': 2, 'ij': [(0, 1), (0, 9)]}), ['causality_xy', 'causality_yx', 'simultaneous_causality'])
    add('GrangerAnalyzer[max-order-criterion]', lambda s: (an.GrangerAnalyzer, (s,), {'order': None, 'max_order': 3}), ['causality_xy', 'order'])
    add('CorrelationAnalyzer', lambda s: (an.CorrelationAnalyzer, (s,), {}), ['corrcoef', 'xcorr', 'xcorr_norm'])
    add('NormalizationAnalyzer', lambda s: (an.NormalizationAnalyzer, (s,), {}), ['percent_change', 'z_score'])
    add('HilbertAnalyzer', lambda s: (an.HilbertAnalyzer, (s,), {}), ['analytic', 'amplitude', 'phase'])
    add('SNRAnalyzer[2d]', lambda s: (an.SNRAnalyzer, (s,), {}), ['mt_noise_psd', 'mt_signal_psd', 'mt_coherence', 'correlation'])
    add('MorletWaveletAnalyzer[no-frequencies]', lambda s: (an.MorletWaveletAnalyzer, (seedn(s, 128),), {'freqs': None, 'f_min': None, 'f_max': None}), ['analytic', 'amplitude'])

    def ev(s, at, codes, n=None):
        e = np.zeros(n or s.data.shape[-1], dtype=int)
        e[at] = codes
        return t.TimeSeries(e, sampling_interval=s.sampling_interval, t0=s.t0)
    add('EventRelatedAnalyzer[event-at-the-end]', lambda s: (an.EventRelatedAnalyzer, (s, ev(s, [5, 60, 126], [1, 1, 1]), 8), {}), ['eta', 'ets', 'et_data', 'FIR', 'xcorr_eta'])
    add('EventRelatedAnalyzer[len_et-too-long]', lambda s: (an.EventRelatedAnalyzer, (s, ev(s, [5, 60], [1, 2]), 500), {}), ['eta', 'ets'])
    add('EventRelatedAnalyzer[short-events]', lambda s: (an.EventRelatedAnalyzer, (s, ev(s, [5, 60], [1, 2], n=100), 6), {}), ['eta', 'ets', 'FIR', 'xcorr_eta'])
    add('EventRelatedAnalyzer[no-events]', lambda s: (an.EventRelatedAnalyzer, (s, ev(s, [], []), 6), {}), ['eta', 'ets', 'FIR'])
    add('EventRelatedAnalyzer[negative-offset-beyond-start]', lambda s: (an.EventRelatedAnalyzer, (s, ev(s, [1, 60], [1, 1]), 6), {'offset': -5, 'zscore': True, 'correct_baseline': True}), ['eta', 'ets'])
    return L


def aliased_analyzers():
    import nitime.analysis as an
    t = ts()
    L = []
    add = lambda name, f, attrs: L.append((name, f, attrs))
    sv = lambda s, d: t.TimeSeries(d, sampling_interval=s.sampling_interval, t0=s.t0)       # TimeSeries keeps np.asarray(d): a view stays a view
    w = {'this_method': 'welch', 'NFFT': 32}
    add('SeedCoherenceAnalyzer[seed-is-row-view]', lambda s: (an.SeedCoherenceAnalyzer, (sv(s, s.data[0]), s), {'method': dict(w)}), ['coherence', 'coherency', 'relative_phases', 'delay'])
    add('SeedCoherenceAnalyzer[seeds-are-strided-rows]', lambda s: (an.SeedCoherenceAnalyzer, (sv(s, s.data[1::2]), s), {'method': dict(w)}), ['coherence', 'relative_phases'])
    add('SeedCoherenceAnalyzer[seed-is-target]', lambda s: (an.SeedCoherenceAnalyzer, (s, s), {'method': dict(w)}), ['coherence', 'delay'])
    add('SeedCoherenceAnalyzer[seed-reversed-view]', lambda s: (an.SeedCoherenceAnalyzer, (sv(s, s.data[0, ::-1]), s), {'method': dict(w)}), ['coherence'])
    add('SeedCorrelationAnalyzer[seed-is-row-view]', lambda s: (an.SeedCorrelationAnalyzer, (sv(s, s.data[0]), s), {}), ['corrcoef'])
    add('SeedCorrelationAnalyzer[seeds-are-strided-rows]', lambda s: (an.SeedCorrelationAnalyzer, (sv(s, s.data[::2]), s), {}), ['corrcoef'])
    add('SeedCorrelationAnalyzer[seed-is-target]', lambda s: (an.SeedCorrelationAnalyzer, (s, s), {}), ['corrcoef'])
    add('EventRelatedAnalyzer[events-are-a-row-view]', lambda s: (an.EventRelatedAnalyzer, (s, sv(s, s.data[0]), 6), {}), ['eta', 'ets', 'et_data', 'FIR', 'xcorr_eta'])
    add('EventRelatedAnalyzer[events-are-the-data]', lambda s: (an.EventRelatedAnalyzer, (sv(s, s.data[0]), sv(s, s.data[0]), 6), {}), ['eta', 'ets', 'xcorr_eta'])
    add('EventRelatedAnalyzer[events-row-view-zscore]', lambda s: (an.EventRelatedAnalyzer, (s, sv(s, s.data[0]), 6), {'zscore': True, 'correct_baseline': True, 'offset': -2}), ['eta', 'ets'])
    return L


def _ana_series(seed, name, kind, event_coded=False):
    T = ts().TimeSeries
    rs = np_rng(PID, seed, 'r2/ana/' + name)
    d = rs.randn(3, 128)
    if event_coded:
        d = np.round(d * 4)
        d[0] = 0
        d[0, [5, 30, 60, 90]] = 1
        d[0, [15, 45, 75]] = 2
        d = d.astype(np.int64)
    if kind == 'zero-last':
        d[-1] = 0
    elif kind == 'nan-last':
        d[-1] = np.nan
    s = T(d, sampling_interval=0.5, t0=2.0, time_unit='s', metadata={'k': [1, 2], 'roi': {'c': np.arange(3)}})
    _ = s.time
    return s


def _independent(x, memo):
    """an equal-valued argument sharing nothing (series rebuilt around a copy of their data)"""
    t = ts()
    if id(x) in memo:
        return memo[id(x)]
    if isinstance(x, t.TimeSeries):
        y = t.TimeSeries(np.array(x.data), sampling_interval=x.sampling_interval, t0=x.t0, time_unit=x.time_unit, metadata=copy.deepcopy(x.metadata))
    else:
        y = copy.deepcopy(x)
    return y


def analyzer_failures(tier, seed):
    import warnings
    import nitime.analysis as an
    C, X = _c16(), __import__('c16_ext')
    fails, n, nraised = [], 0, 0
    rep = {'what': 'r2', 'part': 'analyzers', 'seed': seed}
    plans = [(nm, b, at, kind, False) for nm, b, at in failing_analyzers() for kind in ('generic', 'zero-last', 'nan-last')]
    plans += [(nm, b, at, 'generic', True) for nm, b, at in aliased_analyzers()]
    with warnings.catch_warnings(), np.errstate(all='ignore'):
        warnings.simplefilter('ignore')
        for name, build_, attrs, kind, aliased in plans:
            where0 = 'analyzer-%s/%s/%s' % ('alias' if aliased else 'fail', name, kind)
            ec = name.startswith('EventRelatedAnalyzer[events')
            s_in = _ana_series(seed, name, kind, event_coded=ec)
            twin = _ana_series(seed, name, kind, event_coded=ec)
            try:
                cls, a, k = build_(s_in)
            except Exception:  # noqa
                continue
            argv = list(a) + [k[key] for key in sorted(k)]
            labels = ['arg%d' % i for i in range(len(a))] + [C.arg_label(key) for key in sorted(k)]
            before = [C.snap(x) for x in argv]
            state = {'full0': series_full_state(s_in)}

            def compare(where):
                bad = False
                for i_, (lab, x, b0) in enumerate(zip(labels, argv, before)):
                    b1 = C.snap(x)
                    if C.differs(b0, b1):
                        bad = True
                        before[i_] = b1          # reported once: later stages compare with the state reached
                        if lab == 'method-dict':
                            # same key shape as the sweep's (the recorded CoherenceAnalyzer finding is keyed by class and delta)
                            fails.append(Failure('entry/%s/method-dict/argument-mutated/%s' % (name, C.dict_delta(b0, b1)), '%s changed the caller\'s method dict (%s)' % (where, C.dict_delta(b0, b1)), rep))
                        else:
                            fails.append(Failure('%s/%s-changed' % (where, lab), '%s changed its constructor argument `%s` (%s)' % (where, lab, C.differs(b0, b1)), rep))
                if not bad and series_full_state(s_in) != state['full0']:
                    state['full0'] = series_full_state(s_in)
                    fails.append(Failure('%s/input-series-changed' % where, '%s changed the input series (metadata / axis)' % where, rep))

            def fresh_read(at_):
                """the outcome of reading ONE attribute on a new analyzer built by the same recipe on the untouched twin"""
                try:
                    c2, a2, k2 = build_(_ana_series(seed, name, kind, event_coded=ec))
                    np.random.seed(1)
                    with watchdog(3):
                        return X.canon(getattr(c2(*a2, **k2), at_))
                except Exception as e:  # noqa
                    return ('raised', err_kind(e))
            np.random.seed(1)
            try:
                with watchdog(3):
                    A_ = cls(*a, **k)
            except Exception:  # noqa
                nraised += 1
                compare(where0 + '/constructor-refused')
                A_ = None
            n += 1
            outs = []
            if A_ is not None:
                compare(where0 + '/constructor')
                for at in attrs:
                    keys0 = set(vars(A_))
                    try:
                        with watchdog(3):
                            val = getattr(A_, at)
                        ok = True
                    except Exception as e:  # noqa
                        val, ok = None, False
                        nraised += 1
                    n += 1
                    compare('%s.%s%s' % (where0, at, '' if ok else '/read-raised'))
                    if not ok:
                        # what a failed read leaves on the analyzer: a COMPLETE one-time attribute computed on the way (equal to what a fresh
                        # analyzer returns for it) or option bookkeeping without arrays is fine; anything else is a half-made result
                        for key_ in sorted(set(vars(A_)) - keys0):
                            v_ = vars(A_)[key_]
                            is_prop = any(key_ in vars(c_) for c_ in type(A_).__mro__)
                            if is_prop:
                                w_ = fresh_read(key_)
                                if w_[0] == 'raised' or not X.same(X.canon(v_), w_):
                                    fails.append(Failure('%s.%s/failed-read-left-attribute/%s' % (where0, at, key_),
                                                         'reading %s.%s raised and left `%s` on the analyzer, which is not what a fresh analyzer returns for it (%s)' % (name, at, key_, 'the fresh read raises' if w_[0] == 'raised' else 'values differ'), rep))
                            elif X.result_arrays(v_):
                                fails.append(Failure('%s.%s/failed-read-left-array-attribute/%s' % (where0, at, key_),
                                                     'reading %s.%s raised and left the new attribute `%s` holding arrays on the analyzer' % (name, at, key_), rep))
                    else:
                        outs.append((at, val, X.canon(val)))
                        for r_ in X.result_arrays(val):
                            if any(X.overlaps(r_, xa) for x in argv for xa in X.arg_arrays([x])):
                                fails.append(Failure('%s.%s/output-shares-memory-with-input' % (where0, at), 'the output %s of %s shares memory with a constructor argument' % (at, name), rep))
                                break
                if aliased:
                    # expectation = the outputs for independent equal-valued inputs
                    memo = {}
                    a_i = [_independent(x, memo) for x in a]
                    np.random.seed(1)
                    try:
                        B_ = cls(*a_i, **copy.deepcopy(k))
                        for at, val, c0 in outs:
                            try:
                                c1 = X.canon(getattr(B_, at))
                            except Exception:  # noqa
                                c1 = None
                            if c1 is None or not X.same(c0, c1):
                                fails.append(Failure('%s.%s/differs-from-independent-inputs' % (where0, at), 'the output %s of %s differs between aliased inputs and independent equal-valued inputs' % (at, name), rep))
                    except Exception:  # noqa
                        pass
                if not aliased:
                    for at in attrs:
                        try:
                            with watchdog(3):
                                g_ = X.canon(getattr(A_, at))
                        except Exception as e:  # noqa
                            g_ = ('raised', err_kind(e))
                        w_ = fresh_read(at)
                        if (g_[0] == 'raised') != (w_[0] == 'raised') or (g_[0] != 'raised' and not X.same(g_, w_)):
                            fails.append(Failure('%s.%s/read-after-failed-reads-differs-from-fresh-analyzer' % (where0, at),
                                                 'after the (partly failing) reads %s, reading %s.%s again gives %s where a fresh analyzer on an equal series gives %s'
                                                 % (attrs, name, at, g_[1] if g_[0] == 'raised' else 'a value', w_[1] if w_[0] == 'raised' else 'another value'), rep))
                for at, val, _ in outs:
                    histories.scribble(val)
                compare(where0 + '/outputs-overwritten')
            # the NEXT ordinary calls on the same series answer as on a fresh series
            if not ec:
                for nm2, mk in (('SpectralAnalyzer.psd', lambda s: an.SpectralAnalyzer(s, method={'NFFT': 32}).psd), ('CorrelationAnalyzer.corrcoef', lambda s: an.CorrelationAnalyzer(s).corrcoef),
                                ('copy', lambda s: series_full_state(s.copy()))):
                    try:
                        g = mk(s_in)
                    except Exception as e:  # noqa
                        g = ('raised', err_kind(e))
                    try:
                        w_ = mk(twin)
                    except Exception as e:  # noqa
                        w_ = ('raised', err_kind(e))
                    same = (g == w_) if nm2 == 'copy' else X.same(X.canon(g), X.canon(w_))
                    if not same:
                        fails.append(Failure('%s/next-%s-on-the-same-series-differs' % (where0, nm2), 'after %s, %s on the same input series differs from that on a fresh equal series' % (where0, nm2), rep))
    return fails, {'analyzer_failure_reads': n, 'analyzer_failure_raised': nraised}



# ------------------------------------------------------------------ oracle 5: time objects as operands of time axes (units differ)
def axis_time_operands(tier, seed):
    """UniformTime / TimeArray on the left, a TIME OBJECT on the right whose unit is the same as / differs from the left one's:
    arrays of times (ramp, not a ramp, wrong length), 0-d time points, the attribute objects of another axis / of a series, another
    axis.  Returned or raised, the operand is what it was: samples, unit label, conversion factor, repr, and its attributes."""
    t = ts()
    C = _c16()
    fails, n = [], 0
    rep = {'what': 'r2', 'part': 'axis-operands'}
    ops = [('add', operator.add), ('sub', operator.sub), ('radd', lambda a, b: b + a), ('rsub', lambda a, b: b - a), ('iadd', operator.iadd), ('isub', operator.isub),
           ('lt', operator.lt), ('ge', operator.ge), ('eq', operator.eq)]
    for lu in ('ms', 's', 'us'):
        lefts = [('UniformTime', lambda: t.UniformTime(t0=1, sampling_interval=2, length=4, time_unit=lu)),
                 ('TimeArray', lambda: t.TimeArray([1, 3, 5, 7], time_unit=lu))]
        for ou in ('ms', 's', 'us', 'ps'):
            other_axis = lambda: t.UniformTime(t0=3, sampling_interval=5, length=4, time_unit=ou)
            series = lambda: t.TimeSeries(np.arange(4.), sampling_interval=5, t0=3, time_unit=ou)
            operands = [('ramp', lambda: t.TimeArray([0, 2, 4, 6], time_unit=ou)), ('not-a-ramp', lambda: t.TimeArray([0, 2, 5, 6], time_unit=ou)),
                        ('wrong-length', lambda: t.TimeArray([0, 2, 4], time_unit=ou)), ('point-0d', lambda: t.TimeArray(7, time_unit=ou)),
                        ('one-element', lambda: t.TimeArray([7], time_unit=ou)), ('axis.t0', lambda: other_axis().t0), ('axis.sampling_interval', lambda: other_axis().sampling_interval),
                        ('axis.duration', lambda: other_axis().duration), ('series.t0', lambda: series().t0), ('series.sampling_interval', lambda: series().sampling_interval),
                        ('other-axis', other_axis), ('series.time', lambda: series().time), ('row-of-2d', lambda: t.TimeArray([[0, 2, 4, 6], [1, 3, 5, 7]], time_unit=ou)[1])]
            for lname, mk in lefts:
                for oname, mko in operands:
                    for opn, op in ops:
                        try:
                            x, left = mko(), mk()
                        except Exception:  # noqa
                            continue
                        state = lambda: (C.snap(x), repr(x), getattr(x, 'time_unit', None), repr(getattr(x, '_conversion_factor', None)), type(x).__name__)
                        b0 = state()
                        try:
                            op(left, x)
                            status = 'returned'
                        except Exception as e:  # noqa
                            status = 'raised ' + type(e).__name__
                        n += 1
                        b1 = state()
                        if b0 != b1:
                            what = C.differs(b0[0], b1[0]) or 'unit-label-changed'
                            if b0[2] != b1[2] or b0[3] != b1[3]:
                                what = 'unit-label-changed'
                            fails.append(Failure('axis-op/%s/%s/%s/%s-unit/operand-%s' % (lname, opn, oname, 'same' if lu == ou else 'other', what),
                                                 '%s[%s] %s %s[%s] (%s) changed the operand: %s -> %s' % (lname, lu, opn, oname, ou, status, b0[1:4], b1[1:4]), rep))
    return fails, n

# ------------------------------------------------------------------ entry points for c16.oracle / c16.replay
def oracle(tier, seed, cases, guarded):
    fails, stats = [], {}
    for c in cases or []:
        if c.meta and c.meta.get('what') == 'seriescopy':
            f = judge_seriescopy(c)
            if f:
                fails.append(f)
    f1, n1 = guarded('r2-series', lambda: series_failure_paths(tier, seed), ([], 0))
    f2, s2 = guarded('r2-entry-failures', lambda: entry_failures(tier, seed), ([], {}))
    f3, s3 = guarded('r2-entry-aliases', lambda: entry_aliases(tier, seed), ([], {}))
    f4, s4 = guarded('r2-analyzers', lambda: analyzer_failures(tier, seed), ([], {}))
    f5, n5 = guarded('r2-axis-operands', lambda: axis_time_operands(tier, seed), ([], 0))
    fails += f1 + f2 + f3 + f4 + f5
    stats['axis_time_operand_calls'] = n5
    stats.update(series_failure_path_calls=n1, **s2)
    stats.update(s3)
    stats.update(s4)
    for fh in _KEEP:
        try:
            fh.close()
        except Exception:  # noqa
            pass
    del _KEEP[:]
    return fails, stats


def replay(d):
    part = d.get('part')
    seed = int(d.get('seed', 0))
    if part == 'series':
        return series_failure_paths('quick', seed)[0]
    if part == 'entry-failures':
        return entry_failures('thorough', seed, only_fam=d.get('fam'))[0]
    if part == 'entry-aliases':
        return entry_aliases('thorough', seed, only_fam=d.get('fam'))[0]
    if part == 'analyzers':
        return analyzer_failures('quick', seed)[0]
    if part == 'axis-operands':
        return axis_time_operands('quick', seed)[0]
    return []
