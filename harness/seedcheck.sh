#!/bin/bash
# Confirm a seeded change and run a check against it, in an isolated scratch copy of /repo:
#   harness/seedcheck.sh <dir with patch.diff + demo.py> <Cxx> [--tests]
# 1. demo passes on pristine copy, 2. fails with the patch, 3. (optional --tests) suite still at baseline,
# 4. ./check Cxx quick against the patched copy must report a VIOLATION.
set -u
D=$(readlink -f "$1"); PID=$2; TESTS=${3:-}
S=$(mktemp -d /tmp/nt_seed_XXXXXX)
rsync -a --exclude .git /repo/ "$S/"
cd "$S"
/venv/bin/python "$D/demo.py" "$S" > /dev/null 2>&1; echo "demo on pristine: exit $?"
if ! patch -p1 --no-backup-if-mismatch -s < "$D/patch.diff"; then echo "PATCH DOES NOT APPLY"; rm -rf "$S"; exit 3; fi
/venv/bin/python "$D/demo.py" "$S" > /dev/null 2>&1; echo "demo with patch:  exit $?"
if [ "$TESTS" = "--tests" ]; then /venv/bin/python /verif/harness/baseline.py "$S" | tail -3; fi
cd /verif
cp -a lean "$S.lean"
NITIME_REPO="$S" VERIF_LEAN="$S.lean" VERIF_EVIDENCE_DIR="$S.ev" ./check "$PID" quick > "$S.log" 2>&1; RC=$?
grep -E "^VIOLATION|^KNOWN-FINDING|^BROKEN|INFRA" "$S.log" | head -8
echo "check exit: $RC"
rm -rf "$S" "$S.lean" "$S.ev" "$S.log"
exit $RC
