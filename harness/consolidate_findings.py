#!/usr/bin/env python3
"""Builds /verif/known_findings.json from proposed_fixes/*-findings.json and proposed_fixes/APPLIED.json.
An entry whose proposed fix diff was applied becomes status=fixed (with the commit); entries the builders
already marked fixed stay fixed; the rest stay status=known.  Run by the lead; never at check time."""
import json, glob, os, re, subprocess
V = os.path.dirname(os.path.dirname(os.path.abspath(__file__)))
applied = json.load(open(os.path.join(V, 'proposed_fixes', 'APPLIED.json')))
doc = ("Genuine defects of nipy/nitime found by the checks. status=fixed entries suppress nothing (the check passes on the repaired tree and reports "
       "the violation again if it returns). status=known entries are matched by `key` (fnmatch pattern over the oracle's failure keys "
       "clause/call-site/symptom); the check prints KNOWN-FINDING for each that reproduces and reports any other failure as a VIOLATION. "
       "Never written at run time.")
out = []
seen = set()
# hand-written entries (C01)
out.append({"status": "fixed", "property": "C01", "key": "binop/*/{pyfloat,float64,mixedlist}/not-whole-ps", "commit": "38397b6",
            "what": "fixed: property=C01 38397b6 TimeArray +,-,r+,r- and comparisons with a fractional bare number returned a float64-valued time object (wrong above 2^53 ps), e.g. TimeArray([2**53+1],'ps') + 1.0; the same commit stops the in-place scaling of ndarray operands (C16)",
            "input": "C01 binop sub T:ns:1:20000000 N:1:x3fea064ece9a2c67 -> float64[19999186.73], expected 19999187 ps"})
for p in sorted(glob.glob(os.path.join(V, 'proposed_fixes', '*-findings.json'))):
    d = json.load(open(p))
    fl = d.get('findings', []) if isinstance(d, dict) else d
    for f in fl:
        f = dict(f)
        fix = f.get('fix') or ''
        m = re.search(r'([A-Za-z0-9_.-]+\.diff)', fix + ' ' + f.get('what', ''))
        commit = None
        if m and m.group(1) in applied:
            commit = applied[m.group(1)]
        st = f.get('status', 'known')
        if commit or st == 'fixed':
            f['status'] = 'fixed'
            if commit:
                f['commit'] = commit
            w = f.get('what', '')
            if not w.startswith('fixed:'):
                f['what'] = 'fixed: property=%s %s %s' % (f['property'], f.get('commit', f.get('commit', '?')), w)
        else:
            f['status'] = 'known'
        k = (f['property'], f['key'], f['status'])
        if k in seen:
            continue
        seen.add(k)
        out.append(f)
json.dump({"_doc": doc, "findings": out}, open(os.path.join(V, 'known_findings.json'), 'w'), indent=1)
kn = [f for f in out if f['status'] == 'known']
print('%d entries: %d fixed, %d known' % (len(out), len(out) - len(kn), len(kn)))
for f in kn:
    print('  known:', f['property'], f['key'])
