"""C15, round 2: classes L7 (failure paths / partial updates) and L8 (aliasing between arguments and live objects).

Imported lazily by harness/c15.py (cases / oracle / replay).  Three groups:

* `objhist`   HISTORIES of reads and `set_input` on ONE GrangerAnalyzer where the per-pair loop of `_model` fails for
              pair k after pairs < k succeeded (order estimation does not converge / a NaN channel / a flat channel /
              a pair index outside the data).  Correspondence with the Lean object model (`Model/C15Obj.lean`, op
              `objhist`): every read is `err` or lists, per pair, WHICH input's fit it carries (provenance, found by
              comparing with the algorithm layer `fit_model` + `granger_causality_xy` on every input of the history).
* `seedrows`  seeds that are views of the target (row slices, row-strided, reversed, whole target, the same series
              object, transposed-and-back, rows of a common bigger array, fancy copies): the result row of seed i must be
              the dense (all-to-all) row of the VALUES of seed i; correspondence op `seedrows` (which target row each
              seed row's result equals).
* oracle-only experiments `failure_experiments` (all 14 analyzer classes x failure families: reads that raise, then
  (a) inputs byte-identical, (b) later reads on the same object = a fresh object's, (c) `set_input` → every output = a
  fresh analyzer's on the new series = the direct algorithm call, (d) no new private attribute survives `set_input`),
  `alias_experiments` (inputs that are strided / reversed / duplicated-row views; concatenation of one object with
  itself and with its own views; reader with one coordinate array / one file given twice).
"""
import warnings

import numpy as np

import common
from common import Case, Failure

warnings.simplefilter('ignore')


def C():
    import c15
    return c15


# ------------------------------------------------------------------ inputs
def ar_channel(coefs, n, rs):
    burn = 100
    x = np.zeros(n + burn)
    e = rs.randn(n + burn)
    for t in range(len(coefs), n + burn):
        x[t] = sum(c * x[t - k - 1] for k, c in enumerate(coefs)) + e[t]
    return x[burn:]


BAD_KINDS = ['nan', 'zero', 'inf', 'ar']


def bad_channel(kind, n, rs):
    if kind == 'nan':
        x = rs.randn(n)
        x[rs.randint(0, n)] = np.nan
        return x
    if kind == 'inf':
        x = rs.randn(n)
        x[rs.randint(0, n)] = np.inf
        return x
    if kind == 'zero':
        return np.zeros(n)
    return ar_channel([0.3, 0.2, 0.2, 0.15, 0.1], n, rs)       # order estimation does not settle below max_order 3..5


def series(data, unit='ms', iv=1.0, t0=100.0):
    return C().nt().TimeSeries(data, sampling_interval=iv, t0=t0, time_unit=unit)


def good_data(nch, n, rs, drive=0.0):
    d = rs.randn(nch, n)
    if drive:
        common_ = rs.randn(n)
        d = d + np.linspace(0.2, drive, nch)[:, None] * common_
    return d


# ------------------------------------------------------------------ Granger: histories with failing pairs (model correspondence)
GR_KW = dict(n_freqs=32)


def granger_pool(spec):
    """the inputs of one history: list of (nch x n) arrays; input 0 has a bad LAST channel (or a bad middle one)"""
    rs = np.random.RandomState(spec['seed'])
    n, nch = spec['n'], spec['nch']
    pool = []
    for d in range(spec['ninputs']):
        x = good_data(nch, n, rs, drive=1.5)
        if d in spec['bad_inputs']:
            x[spec['bad_chan']] = bad_channel(spec['bad_kind'], n, rs)
        pool.append(x)
    return pool


def granger_kwargs(spec):
    kw = dict(GR_KW)
    if spec['order'] is None:
        kw['max_order'] = spec['max_order']
    else:
        kw['order'] = spec['order']
    return kw


def direct_fit(x, pair, spec):
    """the algorithm layer on the data: ('ok', order, coef, ecov, gc tuple) or ('err',)"""
    from nitime.analysis.granger import fit_model
    import nitime.algorithms as alg
    i, j = pair
    try:
        order, Rxx, coef, ecov = fit_model(x[i], x[j], order=spec['order'], max_order=spec['max_order'] if spec['order'] is None else 10)
        w, fxy, fyx, fsim, Sw = alg.granger_causality_xy(coef, ecov, n_freqs=GR_KW['n_freqs'])
        return ('ok', order, coef, ecov, (fxy, fyx, fsim))
    except Exception:  # noqa
        return ('err',)


def gen_objhist_spec(rng, k):
    nch = 3 if k % 3 else 4
    pairs = [(i, j) for i in range(nch) for j in range(i + 1, nch)]
    if k % 4 == 1:
        rng.shuffle(pairs)
    if k % 4 == 2:
        pairs = [(j, i) for i, j in pairs]
    kind = BAD_KINDS[k % 4]
    order = None if kind == 'ar' or k % 2 == 0 else 2
    bad_chan = nch - 1 if k % 5 else nch - 2
    ninputs = 3
    bad_inputs = [0] if k % 3 else [0, 2]
    # the history: always a failing read, a change of input and a read; then random continuations
    ops = ['r'] if k % 2 else []
    ops += ['s1', 'r'] if k % 6 == 5 else []
    ops += ['s0', 'r', 's1', 'r']
    for _ in range(rng.randint(0, 4)):
        ops.append(rng.choice(['r', 's0', 's1', 's2', 'r']))
    if ops[-1] != 'r':
        ops.append('r')
    getters = [rng.choice(['error_cov', 'causality_xy', 'order', 'model_coef', 'causality_yx', 'simultaneous_causality']) for _ in ops]
    return dict(seed=rng.randrange(10**6), n=rng.choice([160, 200, 240]), nch=nch, pairs=pairs, bad_kind=kind, bad_chan=bad_chan,
                order=order, max_order=rng.choice([3, 4]), ninputs=ninputs, bad_inputs=bad_inputs, ops=ops, getters=getters,
                default_ij=(k % 7 == 3), unit=['ms', 's', 'us'][k % 3])


def provenance(value, getter, pairs, direct, order_given):
    """for every pair: the input ids whose direct result equals the value the analyzer holds ('?' if none)"""
    out = []
    for pi, (i, j) in enumerate(pairs):
        mine = []
        for d, table in enumerate(direct):
            r = table[pi]
            if r[0] != 'ok':
                continue
            if getter == 'error_cov':
                ok = C().close(value[i, j], r[3], 1e-9)
            elif getter == 'model_coef':
                ok = C().close(value[i, j], r[2], 1e-9)
            elif getter == 'order':
                ok = None            # an integer does not identify the input
            else:
                want = r[4][{'causality_xy': 0, 'causality_yx': 1, 'simultaneous_causality': 2}[getter]]
                ok = C().close(value[i, j], want, 1e-8)
            if ok:
                mine.append(d)
        out.append(mine)
    return out


def run_objhist(spec):
    """-> (list of per-read outcomes, direct tables, fails table)   outcome = 'err' | list (per pair) of candidate input ids"""
    pool = granger_pool(spec)
    pairs = [tuple(p) for p in spec['pairs']]
    direct = [[direct_fit(x, p, spec) for p in pairs] for x in pool]
    A = C().na()
    S = [series(x, unit=spec['unit']) for x in pool]
    an = A.GrangerAnalyzer(S[0], ij=None if spec['default_ij'] else list(pairs), **granger_kwargs(spec))
    cur = 0
    outs = []
    for op, g in zip(spec['ops'], spec['getters']):
        if op == 'r':
            if g == 'order':
                g = 'error_cov'
            st, v = C().read(an, g)
            if st != 'ok':
                outs.append(('err', v, cur))
            else:
                use = pairs if not spec['default_ij'] else pairs
                outs.append(('ok', provenance(v, g, use, direct, spec['order']), cur, g))
        else:
            cur = int(op[1:])
            an.set_input(S[cur])
    return outs, direct, pairs


def default_pairs(nch):
    from nitime.utils import tril_indices_from
    x, y = np.meshgrid(np.arange(nch), np.arange(nch))
    return [(int(a), int(b)) for a, b in zip(x[tril_indices_from(x, -1)], y[tril_indices_from(y, -1)])]


def objhist_case(spec):
    spec = dict(spec)
    if spec['default_ij']:
        spec['pairs'] = default_pairs(spec['nch'])
    outs, direct, pairs = run_objhist(spec)
    parts = []
    for o in outs:
        if o[0] == 'err':
            parts.append('err')
        else:
            cur = o[2]
            toks = []
            for pi, cand in enumerate(o[1]):
                # the current input when it is among the candidates (bit-equal fits of two inputs cannot be told apart)
                d = cur if cur in cand else (cand[0] if cand else -1)
                toks.append('%s:%d' % ('?' if d < 0 else d, pi))
            parts.append(','.join(toks))
    impl = 'ok ' + ' ; '.join(parts)
    fails = ','.join('%d:%d' % (d, pi) for d, table in enumerate(direct) for pi, r in enumerate(table) if r[0] != 'ok') or '-'
    line = 'C15 objhist %d %s %s' % (len(pairs), fails, ','.join(spec['ops']))
    return Case(line, impl, 'GrangerAnalyzer/failure-history', meta={'op': 'objhist', 'spec': spec}, nontrivial=True)


def judge_objhist(c):
    """independent of the model: every read after the history equals the algorithm layer on the data held NOW"""
    spec = c.meta['spec']
    fails, seen = [], set()

    def fail(key, what):
        if key not in seen:
            seen.add(key)
            fails.append(Failure('GrangerAnalyzer/failure-history/' + key, '%s [history %s, bad channel %d (%s) in inputs %s, order=%r max_order=%r, pairs %s]' % (
                what, ','.join(spec['ops']), spec['bad_chan'], spec['bad_kind'], spec['bad_inputs'], spec['order'], spec['max_order'], spec['pairs']),
                {'meta': c.meta}, case=c if c.line else None))
    try:
        outs, direct, pairs = run_objhist(spec)
    except Exception as e:  # noqa
        fail('raises', 'the history itself raised %r' % e)
        return fails
    for o in outs:
        cur = o[2]
        want_err = any(r[0] != 'ok' for r in direct[cur])
        if o[0] == 'err':
            if not want_err:
                fail('refused', 'a read on input %d raised %s although the algorithm layer fits every pair of that input' % (cur, o[1]))
            continue
        if want_err:
            continue        # a read that answers although one pair cannot be fitted: not this clause
        for pi, cand in enumerate(o[1]):
            if cur not in cand:
                fail(o[3] + '/value', 'after a refused analysis and set_input, %s%s is not what fit_model / granger_causality_xy give on channels %s of the '
                     'input held now (input %d)%s' % (o[3], list(pairs[pi]), list(pairs[pi]), cur,
                                                      '; it is the result for input %d, analysed (and refused) earlier' % cand[0] if cand else ''))
    return fails


# ------------------------------------------------------------------ seeds that are views of the target
SEED_FORMS = ['copy', 'fancy', 'slice', 'step2', 'step3', 'rev', 'revstep', 'whole', 'same-object', 'tback', 'row1d', 'bigbase', 'dup', 'own']


def seed_setup(spec):
    """-> (seed series, target series, idx or None, mem token)"""
    TS = C().nt()
    rs = np.random.RandomState(spec['seed'])
    nch, n = spec['nch'], spec['n']
    common_ = rs.randn(n)
    big = rs.randn(2 * nch, n) + np.linspace(0.15, 2.5, 2 * nch)[:, None] * common_
    form = spec['form']
    if form == 'bigbase':
        tdata = big[::2]            # the target itself is a row-strided view; seeds are rows of the same base
    elif spec.get('fortran'):
        tdata = np.asfortranarray(big[:nch])
    else:
        tdata = np.ascontiguousarray(big[:nch])
    kw = dict(sampling_interval=spec['iv'], t0=spec['t0'], time_unit=spec['unit'])
    target = TS.TimeSeries(tdata, **kw)
    td = target.data
    idx, mem, sdata = None, 'own', None
    a, s = spec['a'] % nch, spec['step']
    if form == 'copy':
        idx = list(range(a, nch, 2))
        sdata = np.array(td[idx], copy=True)
    elif form == 'fancy':
        idx = [(a + 2 * q) % nch for q in range(3)]
        sdata = td[idx]
    elif form == 'slice':
        b = min(nch, a + 3)
        idx = list(range(a, b))
        sdata, mem = td[a:b], 'view:%d:1' % a
    elif form in ('step2', 'step3'):
        st = 2 if form == 'step2' else 3
        idx = list(range(a % st, nch, st))
        sdata, mem = td[a % st::st], 'view:%d:%d' % (a % st, st)
    elif form == 'rev':
        hi, lo = nch - 1 - (a % 2), max(0, nch - 5)
        idx = list(range(hi, lo, -1))
        sdata, mem = td[hi:lo:-1], 'view:%d:-1' % hi
    elif form == 'revstep':
        idx = list(range(nch - 1, -1, -2))
        sdata, mem = td[::-2], 'view:%d:-2' % (nch - 1)
    elif form == 'whole':
        idx = list(range(nch))
        sdata, mem = td, 'view:0:1'
    elif form == 'same-object':
        return target, target, list(range(nch)), 'view:0:1'
    elif form == 'tback':
        idx = list(range(1, nch, s))
        sdata, mem = td.T[:, 1::s].T, 'view:1:%d' % s
    elif form == 'row1d':
        idx = [a]
        sdata, mem = td[a], 'view:%d:1' % a
    elif form == 'bigbase':
        # rows of the common base: even rows ARE target rows (idx known), odd rows are not
        if spec['a'] % 2:
            sdata, idx, mem = big[2:2 * nch:4], list(range(1, nch, 2)), 'view:1:2'
        else:
            sdata, idx, mem = big[1::2][:3], None, 'own'
    elif form == 'dup':
        idx = [a, a, (a + 1) % nch]
        sdata = td[idx]
    else:
        sdata = rs.randn(2, n) + common_
    seed = TS.TimeSeries(sdata, **kw)
    return seed, target, idx, mem


SEED_METHOD = {'this_method': 'welch', 'NFFT': 32}


def seed_analyzer(which, seed, target, spec):
    A = C().na()
    if which == 'corr':
        return A.SeedCorrelationAnalyzer(seed, target)
    kw = {}
    if spec.get('opts'):
        fs = float(target.sampling_rate)
        kw = dict(lb=0.1 * fs, ub=0.4 * fs, prefer_speed_over_memory=False, scale_by_freq=False)
    return A.SeedCoherenceAnalyzer(seed, target, method=dict(SEED_METHOD), **kw)


SEED_OUT = {'coh': ['coherence', 'coherency', 'relative_phases'], 'corr': ['corrcoef']}


def welch_coherence(x, y, nfft=32):
    win = np.hanning(nfft)
    step = nfft - nfft // 2
    sxy = sxx = syy = 0
    for start in range(0, x.shape[-1] - nfft + 1, step):
        fx = np.fft.fft(win * x[start:start + nfft])[:nfft // 2 + 1]
        fy = np.fft.fft(win * y[start:start + nfft])[:nfft // 2 + 1]
        sxy = sxy + fx * np.conj(fy)
        sxx = sxx + np.abs(fx) ** 2
        syy = syy + np.abs(fy) ** 2
    return np.abs(sxy) ** 2 / (sxx * syy)


def seed_dense(which, g, rows, target, spec):
    """the expectation from VALUES only: an analyzer whose seed series holds a private copy of the rows (one row at a time,
    so that no multi-row path is involved) — `rows` is (k x n)"""
    TS = C().nt()
    out = []
    for r in rows:
        tcopy = TS.TimeSeries(np.array(target.data, copy=True, order='C'), sampling_interval=target.sampling_interval, t0=target.t0, time_unit=target.time_unit)
        s1 = TS.TimeSeries(np.array(r, copy=True), sampling_interval=target.sampling_interval, t0=target.t0, time_unit=target.time_unit)
        out.append(np.asarray(getattr(seed_analyzer(which, s1, tcopy, spec), g)))
    return np.array(out)


def run_seed(spec):
    seed, target, idx, mem = seed_setup(spec)
    which = spec['which']
    t_before = np.array(target.data, copy=True)
    s_before = np.array(seed.data, copy=True)
    an = seed_analyzer(which, seed, target, spec)
    res = {}
    for g in SEED_OUT[which]:
        res[g] = C().read(an, g)
    return seed, target, idx, mem, res, t_before, s_before, an


def seed_case(spec):
    seed, target, idx, mem, res, tb, sb, an = run_seed(spec)
    g = SEED_OUT[spec['which']][0]
    st, v = res[g]
    nch = spec['nch']
    if st != 'ok':
        impl = 'err ' + str(v)
    else:
        v = np.asarray(v)
        dense = seed_dense(spec['which'], g, tb, target, spec)         # all-to-all on the target's values
        k = 1 if np.asarray(seed.data).ndim == 1 else np.asarray(seed.data).shape[0]
        if v.size == k * dense[0].size:         # the analyzers squeeze: a single seed row (1-d, or 2-d with one row) loses its axis
            v = v.reshape((k,) + dense[0].shape)
        toks = []
        for i in range(v.shape[0]):
            m = [r for r in range(nch) if C().close(v[i], dense[r], 1e-8)]
            want = idx[i] if idx is not None and i < len(idx) else None
            toks.append(str(want if want in m else (m[0] if m else '?')))
        impl = 'ok ' + ','.join(toks)
    line = 'C15 seedrows %d %s %s' % (nch, ','.join(map(str, idx)), mem)
    return Case(line, impl, 'Seed%sAnalyzer/seed-is-view/%s' % ('Coherence' if spec['which'] == 'coh' else 'Correlation', spec['form']),
                meta={'op': 'seedrows', 'spec': spec}, nontrivial=True)


def judge_seed(c):
    spec = c.meta['spec']
    name = 'SeedCoherenceAnalyzer' if spec['which'] == 'coh' else 'SeedCorrelationAnalyzer'
    fails, seen = [], set()

    def fail(key, what):
        if key not in seen:
            seen.add(key)
            fails.append(Failure('%s/seed-is-view/%s' % (name, key), '%s [seed form %s, target %d x %d%s, unit %s]' % (
                what, spec['form'], spec['nch'], spec['n'], ' Fortran-ordered' if spec.get('fortran') else '', spec['unit']), {'meta': c.meta},
                case=c if c.line else None))
    try:
        seed, target, idx, mem, res, tb, sb, an = run_seed(spec)
    except Exception as e:  # noqa
        fail('raises', 'construction raised %r' % e)
        return fails
    if not (np.array_equal(np.asarray(target.data), tb, equal_nan=True) and np.array_equal(np.asarray(seed.data), sb, equal_nan=True)):
        fail('input-mutated', 'reading the outputs changed the seed / target data')
    rows = sb if sb.ndim == 2 else sb[None]
    for g, (st, v) in res.items():
        if st != 'ok':
            fail(g + '/raises', '%s raised %s' % (g, v))
            continue
        v = np.asarray(v)
        want = seed_dense(spec['which'], g, rows, target, spec)
        if sb.ndim == 1:
            want = want[0]
        want = want.squeeze() if want.shape != v.shape else want
        if want.shape != v.shape:
            fail(g + '/shape', '%s has shape %s, expected %s' % (g, list(v.shape), list(want.shape)))
            continue
        if not C().close(v, want, 1e-8):
            bad = [i for i in range(rows.shape[0])] if sb.ndim == 1 else [i for i in range(rows.shape[0]) if not C().close(v[i], want[i], 1e-8)]
            fail(g + '/value', '%s of seed channel(s) %s differs from the result for a seed series holding a COPY of the same values '
                 '(the pairing of seed and target channels must depend on the values only, not on where the seed lives in memory)' % (g, bad))
        if g == 'coherence' and not spec.get('opts') and v.ndim == 3:
            brute = np.array([[welch_coherence(s, t) for t in tb] for s in rows])
            if brute.shape == v.shape and not C().close(v, brute, 1e-7):
                fail(g + '/definition', 'coherence differs from the Welch estimate (Hanning, NFFT 32, half overlap) of the seed and target channels')
        if isinstance(v, np.ndarray) and (np.shares_memory(v, np.asarray(target.data)) or np.shares_memory(v, np.asarray(seed.data))):
            fail(g + '/result-shares-memory', '%s shares memory with an input' % g)
    # the caller changes the target in place (the seed view follows): a NEW analyzer on the same objects answers for the values held now
    try:
        target.data[...] = np.asarray(target.data)[..., ::-1] * 0.5 + 0.25
        g = SEED_OUT[spec['which']][0]
        now = np.array(seed.data, copy=True)
        v2 = np.asarray(getattr(seed_analyzer(spec['which'], seed, target, spec), g))
        want2 = seed_dense(spec['which'], g, now if now.ndim == 2 else now[None], target, spec)
        want2 = want2[0] if now.ndim == 1 else want2
        want2 = want2.squeeze() if want2.shape != v2.shape else want2
        if want2.shape != v2.shape or not C().close(v2, want2, 1e-8):
            fail(g + '/after-in-place-change/value', 'after target.data was changed in place, a new analyzer on the same seed/target objects does not answer '
                 'for the values held now')
        st0, v0 = res[g]
        if st0 == 'ok' and isinstance(v0, np.ndarray):
            ref = seed_dense(spec['which'], g, rows, C().nt().TimeSeries(tb, sampling_interval=target.sampling_interval, t0=target.t0,
                                                                        time_unit=target.time_unit), spec)
            ref = ref[0] if sb.ndim == 1 else ref
            ref = ref.squeeze() if ref.shape != np.asarray(v0).shape else ref
            if ref.shape == np.asarray(v0).shape and not C().close(v0, ref, 1e-8):
                fail(g + '/earlier-result-changed', 'the result handed out before the in-place change of the target no longer holds what it held')
    except ValueError:
        pass            # read-only or non-writable view
    return fails


def gen_seed_spec(rng, k, which):
    form = SEED_FORMS[k % len(SEED_FORMS)]
    unit = ['ms', 's', 'us'][k % 3]
    return dict(which=which, form=form, seed=rng.randrange(10**6), nch=rng.choice([6, 7, 8]), n=rng.choice([128, 160, 130]), a=rng.randint(0, 5),
                step=rng.choice([2, 3]), unit=unit, iv=C().GOOD_IV[unit][k % 3], t0=C().T0S[k % 6], fortran=(k // len(SEED_FORMS)) % 3 == 2,
                opts=(k // len(SEED_FORMS)) % 2 == 1 and which == 'coh')


# ------------------------------------------------------------------ cases
def r2_cases(rng, tier, seed):
    out = []
    for k in range({'quick': 8, 'thorough': 64}[tier]):
        out.append(objhist_case(gen_objhist_spec(rng, k + seed)))
    nseed = {'quick': len(SEED_FORMS), 'thorough': 6 * len(SEED_FORMS)}[tier]
    for k in range(nseed):
        sp = gen_seed_spec(rng, k + seed * 3, 'coh')
        if seed_setup(sp)[2] is not None:
            out.append(seed_case(sp))
    for k in range(nseed // 2):
        sp = gen_seed_spec(rng, 2 * k + 3 + seed, 'corr')
        if seed_setup(sp)[2] is not None:
            out.append(seed_case(sp))
    c15 = C()
    for i, n in enumerate([2, 3, 4, 5, 8, 9, 16, 17, 31, 64, 65] + [rng.randint(6, 130) for _ in range({'quick': 4, 'thorough': 30}[tier])]):
        unit = c15.UNITS[(i + seed) % 3]
        out.append(shift_case(n, unit, c15.GOOD_IV[unit][i % 3], c15.T0S[i % 6]))
    return [c for c in out]


# ------------------------------------------------------------------ failure histories on every analyzer class (oracle only)
DATA_FAMILIES = ['nan-last', 'zero-last', 'inf-mid', 'short', 'one-channel']
PARAM_FAMILIES = {'SparseCoherenceAnalyzer': ['bad-ij'], 'GrangerAnalyzer': ['bad-ij', 'ar-last'], 'FilterAnalyzer': ['band-refused', 'order-refused'],
                  'CoherenceAnalyzer': ['bad-method'], 'SpectralAnalyzer': ['bad-method'], 'MorletWaveletAnalyzer': ['bad-freqs'],
                  'EventRelatedAnalyzer': ['event-at-end', 'ragged-codes'], 'SeedCoherenceAnalyzer': ['seed-short'], 'SeedCorrelationAnalyzer': ['seed-short']}


def bad_input(T, fam, name, rs):
    """a series with the axis of T whose data make some reads raise (or give NaN) part-way"""
    d = np.array(T.data, copy=True)
    n = d.shape[-1]
    if fam == 'nan-last':
        if d.ndim > 1:
            d[-1, n // 3] = np.nan
        else:
            d[n // 3] = np.nan
    elif fam == 'zero-last':
        if d.ndim > 1:
            d[-1] = 0.0
        else:
            d[:] = 0.0
    elif fam == 'inf-mid':
        if d.ndim > 1:
            d[d.shape[0] // 2, n // 2] = np.inf
        else:
            d[n // 2] = np.inf
    elif fam == 'short':
        d = d[..., :7]
    elif fam == 'one-channel':
        d = d[:1] if d.ndim > 1 else d[:1]
    elif fam == 'ar-last':
        d[-1] = ar_channel([0.3, 0.2, 0.2, 0.15, 0.1], n, rs)
    return C().nt().TimeSeries(d, sampling_interval=T.sampling_interval, time_unit=T.time_unit, t0=T.t0)


def r2_analyzer(name, T, fs_new, fam):
    """the analyzer of the history experiments, with the family's parameters"""
    A = C().na()
    m = {'this_method': 'welch', 'NFFT': 32, 'n_overlap': 16}
    if fam == 'bad-ij':
        if name == 'SparseCoherenceAnalyzer':
            return A.SparseCoherenceAnalyzer(T, ij=[(0, 1), (1, 7)], method=dict(m))
        return A.GrangerAnalyzer(T, ij=[(0, 1), (0, 7), (1, 2)], order=2, n_freqs=32)
    if fam == 'ar-last':
        return A.GrangerAnalyzer(T, ij=[(0, 1), (0, 2), (1, 2)], max_order=3, n_freqs=32)
    if name == 'GrangerAnalyzer':
        return A.GrangerAnalyzer(T, order=2, n_freqs=32)
    if fam == 'bad-method':
        return getattr(A, name)(T, method={'this_method': 'no-such-method', 'NFFT': 32})
    if fam == 'band-refused':
        return A.FilterAnalyzer(T, lb=0.2 * fs_new, ub=0.9 * fs_new, filt_order=8)          # above Nyquist: scipy refuses the fir / iir design
    if fam == 'order-refused':
        return A.FilterAnalyzer(T, lb=0.0537 * fs_new, ub=0.3071 * fs_new, filt_order=4 * T.data.shape[-1])      # filtfilt refuses: padlen > n
    if fam == 'bad-freqs':
        return A.MorletWaveletAnalyzer(T, freqs=[0.2 * fs_new, -0.3 * fs_new])
    if fam in ('event-at-end', 'ragged-codes'):
        ev = np.zeros(T.data.shape)
        if fam == 'event-at-end':
            ev[..., [3, 10, T.data.shape[-1] - 1]] = 1
            ev[..., [6, 14]] = 2
        else:
            ev[0, [3, 10, 18]] = 1
            ev[0, [6, 14]] = 2
            ev[1:, [4, 12]] = 1
        E = C().nt().TimeSeries(ev, sampling_interval=T.sampling_interval, time_unit=T.time_unit, t0=T.t0)
        return A.EventRelatedAnalyzer(T, E, 5, offset=1)
    if fam == 'seed-short':
        seed = C().nt().TimeSeries(np.asarray(T.data)[:2, :-3], sampling_interval=T.sampling_interval, time_unit=T.time_unit, t0=T.t0)
        return getattr(A, name)(seed, T)
    return C().hist_analyzer(name, T, fs_new)


def private_state(an):
    return sorted(vars(an))


def direct_granger(T, pairs, order, n_freqs):
    from nitime.analysis.granger import fit_model
    import nitime.algorithms as alg
    d = np.asarray(T.data)
    out = np.full((d.shape[0], d.shape[0], n_freqs // 2 + 1), np.nan)
    for i, j in pairs:
        o, Rxx, coef, ecov = fit_model(d[i], d[j], order=order)
        out[i, j] = alg.granger_causality_xy(coef, ecov, n_freqs=n_freqs)[1]
    return out


def failure_experiments(spec, name, rng):
    c15 = C()
    fails, seen = [], set()
    T = c15.hist_input(spec, name)
    a_in = c15.axis_of(T)
    fs_new = float(T.sampling_rate)
    meta = {'op': 'failure', 'spec': spec, 'name': name}
    rs = np.random.RandomState(spec['seed'] + 11)

    def fail(key, what):
        if key not in seen:
            seen.add(key)
            fails.append(Failure('failure/%s/%s' % (name, key), '%s [input unit=%s t0=%d ps interval=%d ps shape=%s]' % (
                what, a_in['unit'], a_in['t0'], a_in['dt'], list(np.asarray(T.data).shape)), {'meta': meta}))
    raw0 = np.array(T.data, copy=True)
    names = c15.output_names(c15.hist_analyzer(name, T, fs_new))
    fresh = {}
    for g in names:
        st, v = c15.read(c15.hist_analyzer(name, T, fs_new), g)
        if st == 'ok':
            fresh[g] = c15.snap(v)
    # reference of (d): the attributes an analyzer has after an ORDINARY history (all outputs read on another series, set_input)
    ref_vars = None
    if name in c15.HAS_SET_INPUT:
        ra = c15.hist_analyzer(name, c15.hist_input(spec, name, 1), fs_new)
        for g in names:
            c15.read(ra, g)
        ra.set_input(T)
        ref_vars = set(private_state(ra))
    nfailed = 0
    fams = [f for f in DATA_FAMILIES if not (T.data.ndim == 1 and f == 'one-channel')] + PARAM_FAMILIES.get(name, [])
    for fam in fams:
        param_fam = fam in PARAM_FAMILIES.get(name, []) and fam != 'ar-last'
        # the bad recording is ANOTHER recording (other samples in every channel, other rate and unit), so that anything left over from it shows
        Tb = T if param_fam else bad_input(c15.hist_input(spec, name, 1), fam, name, rs)
        if name == 'NormalizationAnalyzer' and fam == 'zero-last':
            pass
        held = np.array(Tb.data, copy=True)
        try:
            an = r2_analyzer(name, Tb, fs_new, fam)
        except Exception:  # noqa        refused at construction: nothing was built
            if not np.array_equal(np.asarray(Tb.data), held, equal_nan=True):
                fail('%s/construction/input-mutated' % fam, 'a refused construction changed input.data')
            continue
        v_before = set(private_state(an))
        got = {}
        for g in names:
            got[g] = c15.read(an, g)
            if not (np.asarray(Tb.data).shape == held.shape and np.array_equal(np.asarray(Tb.data), held, equal_nan=True)):
                fail('%s/%s/input-mutated' % (fam, g), 'reading %s (%s) changed input.data' % (g, got[g][0]))
                held = np.array(Tb.data, copy=True)
        errs = [g for g in names if got[g][0] == 'err']
        nfailed += len(errs)
        # (b) every read that answered, answered as a fresh object (same bad input, same parameters) that reads ONLY that output
        for g in names:
            if got[g][0] != 'ok':
                continue
            try:
                s1, v1 = c15.read(r2_analyzer(name, Tb, fs_new, fam), g)
            except Exception:  # noqa
                continue
            if s1 == 'ok' and not c15.same_snap(c15.snap(got[g][1]), c15.snap(v1)):
                fail('%s/%s/after-failed-reads/value' % (fam, g), '%s read after the failed reads %s differs from %s of a fresh analyzer on the same input' % (g, errs[:3], g))
        # a failed read, repeated, fails again (nothing half-stored answers the second time)
        for g in errs[:4]:
            s2, v2 = c15.read(an, g)
            if s2 == 'ok':
                s3, v3 = c15.read(r2_analyzer(name, Tb, fs_new, fam), g)
                if s3 != 'ok':
                    fail('%s/%s/second-read-answers' % (fam, g), 'reading %s raised (%s); reading it again on the same object returned a value' % (g, got[g][1]))
        # (c) + (d): re-target the object that went through the failures
        if name in c15.HAS_SET_INPUT and not param_fam:
            try:
                an.set_input(T)
            except Exception as e:  # noqa
                fail('%s/set_input/raises' % fam, 'set_input after failed reads raised %r' % e)
                continue
            extra = sorted(set(private_state(an)) - ref_vars - {'input'})
            if extra:
                fail('%s/state-left-behind/%s' % (fam, ','.join(extra)), 'after reads that raised (%s) and set_input(new series) the analyzer still carries the '
                     'attribute(s) %s, which an analyzer with an ordinary history does not have' % (errs[:3], extra))
            fresh_f = fresh
            if fam == 'ar-last':        # the object keeps ITS parameters (max_order=3): so does the reference
                fresh_f = {}
                for g in names:
                    st, v = c15.read(r2_analyzer(name, T, fs_new, fam), g)
                    if st == 'ok':
                        fresh_f[g] = c15.snap(v)
            for g in names:
                st, v = c15.read(an, g)
                if g not in fresh_f:
                    continue
                if st != 'ok':
                    fail('%s/retarget/%s/raises' % (fam, g), '%s after failed reads and set_input(good series) raised %s' % (g, v))
                elif not c15.same_snap(c15.snap(v), fresh_f[g]):
                    fail('%s/retarget/%s/value' % (fam, g), '%s after failed reads (%s) and set_input(new series) differs from a fresh analyzer on the new series: '
                         'the result is not what the algorithm gives on the data held now' % (g, errs[:3]))
            if name == 'GrangerAnalyzer' and fam == 'ar-last':
                st, v = c15.read(an, 'causality_xy')
                # same parameters as the failed object (max_order=3): the direct reference must use them too
                try:
                    from nitime.analysis.granger import fit_model
                    import nitime.algorithms as alg
                    d = np.asarray(T.data)
                    for i, j in [(0, 1), (0, 2), (1, 2)]:
                        o, Rxx, coef, ecov = fit_model(d[i], d[j], max_order=3)
                        want = alg.granger_causality_xy(coef, ecov, n_freqs=32)[1]
                        if st == 'ok' and not c15.close(v[i, j], want, 1e-8):
                            fail('%s/retarget/causality_xy/direct' % fam, 'causality_xy[%d,%d] after a refused analysis and set_input is not granger_causality_xy(fit_model(data[%d], data[%d]))' % (i, j, i, j))
                except ValueError:
                    pass
        # classes without set_input: a NEW object of the class on the good series, after the failures
        for g in list(fresh)[:6]:
            st, v = c15.read(c15.hist_analyzer(name, T, fs_new), g)
            if st != 'ok' or not c15.same_snap(c15.snap(v), fresh[g]):
                fail('%s/next-object/%s/value' % (fam, g), 'after failed reads on another object, %s of a new %s differs from before' % (g, name))
    if name in c15.HAS_SET_INPUT:
        # a REFUSED set_input (not a series) between two recordings, then the good recording
        for bad_name, bad in (('ndarray', np.zeros(3)), ('string', 'not a series'), ('none', None)):
            an = c15.hist_analyzer(name, c15.hist_input(spec, name, 1), fs_new)
            for g in names:
                c15.read(an, g)
            try:
                an.set_input(bad)
            except Exception:  # noqa
                pass
            for g in names[:3]:
                c15.read(an, g)
            try:
                an.set_input(T)
            except Exception as e:  # noqa
                fail('set_input-refused-%s/set_input/raises' % bad_name, 'set_input(good series) after a refused set_input raised %r' % e)
                continue
            for g in names:
                st, v = c15.read(an, g)
                if g in fresh and (st != 'ok' or not c15.same_snap(c15.snap(v), fresh[g])):
                    fail('set_input-refused-%s/retarget/%s/value' % (bad_name, g), '%s after a refused set_input(%s) and set_input(good series) differs from a fresh analyzer' % (g, bad_name))
        # L8: set_input with the object ALREADY held, after its data changed in place
        Tm = c15.hist_input(spec, name)
        an = c15.hist_analyzer(name, Tm, fs_new)
        for g in names:
            c15.read(an, g)
        Tm.data[...] = np.asarray(Tm.data)[..., ::-1] * 0.5 + 3.0
        an.set_input(Tm)
        Tn = c15.nt().TimeSeries(np.array(Tm.data, copy=True), sampling_interval=Tm.sampling_interval, time_unit=Tm.time_unit, t0=Tm.t0)
        for g in names:
            st, v = c15.read(an, g)
            s1, v1 = c15.read(c15.hist_analyzer(name, Tn, fs_new), g)
            if s1 == 'ok' and (st != 'ok' or not c15.same_snap(c15.snap(v), c15.snap(v1))):
                fail('same-object-set_input/%s/value' % g, '%s after input.data changed in place and set_input(the same series object) is not the result for the values held now' % g)
        # L8: a shallow copy of the analyzer, re-targeted: the ORIGINAL still answers for its own input, the copy for the new one
        import copy as _copy
        T1 = c15.hist_input(spec, name, 1)
        a0 = c15.hist_analyzer(name, T1, fs_new)
        c15.read(a0, names[0])
        a1 = _copy.copy(a0)
        try:
            a1.set_input(T)
            for g in names:
                st, v = c15.read(a1, g)
                if g in fresh and (st != 'ok' or not c15.same_snap(c15.snap(v), fresh[g])):
                    fail('shallow-copy/copy/%s/value' % g, '%s of copy.copy(analyzer) after set_input(new series) differs from a fresh analyzer on the new series' % g)
            for g in names:
                st, v = c15.read(a0, g)
                s1, v1 = c15.read(c15.hist_analyzer(name, T1, fs_new), g)
                if s1 == 'ok' and (st != 'ok' or not c15.same_snap(c15.snap(v), c15.snap(v1))):
                    fail('shallow-copy/original/%s/value' % g, '%s of the ORIGINAL analyzer, after its shallow copy was re-targeted, differs from a fresh analyzer on the original\'s series' % g)
        except Exception as e:  # noqa
            fail('shallow-copy/raises', 'copy.copy(analyzer).set_input raised %r' % e)
    if not np.array_equal(np.asarray(T.data), raw0, equal_nan=True):
        fail('good-input-mutated', 'the good series was changed')
    return fails, nfailed


# ------------------------------------------------------------------ aliased inputs of every analyzer, concatenation, reader (oracle only)
ALIAS_FORMS = ['strided', 'reversed-rows', 'dup-rows', 'tback', 'fortran', 'neg-time-twice']


def alias_input(T, form):
    """-> series on a VIEW (or bit-equal duplicate rows) holding a permutation / selection of T's rows; and the same values, contiguous"""
    TS = C().nt()
    d = np.array(T.data, copy=True)
    if d.ndim == 1:
        big = np.zeros((2, d.shape[0]))
        big[0] = d
        v = {'strided': big.T[:, 0], 'reversed-rows': big[::-1][1], 'dup-rows': big[0], 'tback': big.T.T[0],
             'fortran': np.asfortranarray(big)[0], 'neg-time-twice': big[0][::-1][::-1]}[form]
    else:
        big = np.zeros((2 * d.shape[0], d.shape[1]))
        big[::2] = d
        big[1::2] = d[::-1] * 0.5 + 1.0
        v = {'strided': big[::2], 'reversed-rows': big[::-2], 'dup-rows': big[[0, 0] + list(range(2, 2 * d.shape[0] - 2, 2))],
             'tback': big.T[:, 1::2].T, 'fortran': np.asfortranarray(d), 'neg-time-twice': big[::2, ::-1][:, ::-1]}[form]
    kw = dict(sampling_interval=T.sampling_interval, time_unit=T.time_unit, t0=T.t0)
    return TS.TimeSeries(v, **kw), TS.TimeSeries(np.array(v, copy=True, order='C'), **kw)


def alias_experiments(spec, name, rng):
    c15 = C()
    fails, seen = [], set()
    T = c15.hist_input(spec, name)
    fs_new = float(T.sampling_rate)
    meta = {'op': 'alias', 'spec': spec, 'name': name}

    def fail(key, what):
        if key not in seen:
            seen.add(key)
            fails.append(Failure('alias/%s/%s' % (name, key), what, {'meta': meta}))
    if name == 'EventRelatedAnalyzer':
        # the event row and the recording are views of ONE array (acquisition systems store the trigger channel with the data)
        TS, A = c15.nt(), c15.na()
        kw = dict(sampling_interval=T.sampling_interval, time_unit=T.time_unit, t0=T.t0)
        d = np.asarray(T.data)
        for form in ['trigger-last-row', 'trigger-first-row', 'rows-interleaved', 'same-object']:
            ev = np.zeros(d.shape[-1])
            ev[[3, 10, 18]] = 1
            ev[[6, 14, 20]] = 2
            if form == 'same-object':
                big = np.tile(ev, (2, 1)) * 1.0
                Dv = Ev = TS.TimeSeries(big, **kw)
            else:
                big = np.vstack([d, ev]) if form != 'trigger-first-row' else np.vstack([ev, d])
                if form == 'trigger-last-row':
                    Dv, Ev = TS.TimeSeries(big[:-1], **kw), TS.TimeSeries(big[-1], **kw)
                elif form == 'trigger-first-row':
                    Dv, Ev = TS.TimeSeries(big[1:], **kw), TS.TimeSeries(big[0], **kw)
                else:
                    big = np.vstack([d[0], ev, d[1], ev, d[2], ev])
                    Dv, Ev = TS.TimeSeries(big[::2], **kw), TS.TimeSeries(big[1::2], **kw)
            Dc, Ec = TS.TimeSeries(np.array(Dv.data, copy=True), **kw), TS.TimeSeries(np.array(Ev.data, copy=True), **kw)
            held = big.copy()
            for g in ['eta', 'ets', 'FIR', 'et_data']:
                s1, v1 = c15.read(A.EventRelatedAnalyzer(Dc, Ec, 5, offset=1), g)
                s2, v2 = c15.read(A.EventRelatedAnalyzer(Dv, Ev, 5, offset=1), g)
                if s1 == 'ok' and (s2 != 'ok' or not c15.same_snap(c15.snap(v2), c15.snap(v1), 1e-8)):
                    fail('events-view-of-data/%s/%s/value' % (form, g), 'EventRelatedAnalyzer.%s with the event series a view of the array that holds the recording (%s) '
                         'differs from the result for independent copies of the same values' % (g, form))
                if not np.array_equal(big, held):
                    fail('events-view-of-data/%s/%s/input-mutated' % (form, g), 'the shared array was changed')
                    held = big.copy()
    names = c15.output_names(c15.hist_analyzer(name, T, fs_new))
    n = 0
    for form in ALIAS_FORMS:
        if name == 'NormalizationAnalyzer' and form == 'tback':
            pass
        Tv, Tc = alias_input(T, form)
        held = np.array(Tv.data, copy=True)
        for g in names:
            s1, v1 = c15.read(c15.hist_analyzer(name, Tc, fs_new), g)
            s2, v2 = c15.read(c15.hist_analyzer(name, Tv, fs_new), g)
            n += 1
            if s1 != 'ok':
                continue
            if s2 != 'ok':
                fail('%s/%s/raises' % (form, g), '%s.%s on an input whose data is a %s view raised %s; on a contiguous copy of the same values it answers' % (name, g, form, v2))
            elif not c15.same_snap(c15.snap(v2), c15.snap(v1), 1e-8):
                fail('%s/%s/value' % (form, g), '%s.%s on an input whose data is a %s view differs from the result on a contiguous copy of the same values' % (name, g, form))
            if not np.array_equal(np.asarray(Tv.data), held, equal_nan=True):
                fail('%s/%s/input-mutated' % (form, g), 'input data changed')
                held = np.array(Tv.data, copy=True)
    return fails, n


def concat_alias_experiments(rng):
    """concatenate_time_series of one object with itself / with its own views = the data appended in time"""
    c15 = C()
    TS = c15.nt()
    fails = []
    rs = np.random.RandomState(rng.randrange(10**6))
    d = rs.randn(3, 12)
    for form in ['same-object', 'view-of-first', 'reversed-view', 'overlapping-slices', 'transposed-back']:
        a = TS.TimeSeries(d.copy(), sampling_interval=0.5, t0=2.0, time_unit='ms')
        if form == 'same-object':
            parts = [a, a]
        elif form == 'view-of-first':
            parts = [a, TS.TimeSeries(a.data[:, 2:9], sampling_interval=0.5, t0=2.0, time_unit='ms')]
        elif form == 'reversed-view':
            parts = [a, TS.TimeSeries(a.data[:, ::-1], sampling_interval=0.5, t0=2.0, time_unit='ms')]
        elif form == 'overlapping-slices':
            parts = [TS.TimeSeries(a.data[:, :8], sampling_interval=0.5, time_unit='ms'), TS.TimeSeries(a.data[:, 4:], sampling_interval=0.5, time_unit='ms')]
        else:
            parts = [a, TS.TimeSeries(a.data.T.T, sampling_interval=0.5, time_unit='ms')]
        want = np.concatenate([np.array(p.data, copy=True) for p in parts], -1)
        before = [np.array(p.data, copy=True) for p in parts]
        meta = {'op': 'concat-alias', 'form': form}
        try:
            R = TS.concatenate_time_series(parts)
        except Exception as e:  # noqa
            fails.append(Failure('concatenate_time_series/alias/%s/raises' % form, 'raised %r' % e, {'meta': meta}))
            continue
        if not np.array_equal(np.asarray(R.data), want):
            fails.append(Failure('concatenate_time_series/alias/%s/data' % form, 'runs that share memory (%s): result is not the data appended in time' % form, {'meta': meta}))
        if any(np.shares_memory(np.asarray(R.data), np.asarray(p.data)) for p in parts):
            fails.append(Failure('concatenate_time_series/alias/%s/result-shares-memory' % form, 'the result shares memory with a run', {'meta': meta}))
        R.data[...] = -7.0
        if any(not np.array_equal(np.asarray(p.data), b) for p, b in zip(parts, before)):
            fails.append(Failure('concatenate_time_series/alias/%s/write-to-result-reaches-run' % form, 'writing into the result changed a run', {'meta': meta}))
    return fails


def reader_failure_experiments(rng):
    """time_series_from_file: a list of files whose SECOND file has another volume shape / does not exist, an ROI list with one
    coordinate outside the volume: refused; the files are unchanged, and the same call without the bad item answers as before"""
    c15 = C()
    import nitime.fmri.io as io
    import nibabel as nib
    import os
    fails = []
    rs = np.random.RandomState(rng.randrange(10**6))
    tmp = c15.tmpdir()
    vols = [rs.randn(4, 4, 3, 6), rs.randn(4, 4, 3, 5), rs.randn(3, 4, 3, 5)]
    files = []
    for i, v in enumerate(vols):
        p = os.path.join(tmp, 'r2fail_%d_%d.nii' % (os.getpid(), i))
        nib.save(nib.Nifti1Image(v, np.eye(4)), p)
        files.append(p)
    sizes = [os.path.getsize(p) for p in files]
    good = np.array([[0, 1, 3], [1, 2, 0], [0, 2, 1]])
    badc = np.array([[0, 1, 9], [1, 2, 0], [0, 2, 1]])
    meta = {'op': 'reader-failure'}

    def ref():
        R = io.time_series_from_file(files[:2], coords=good, TR=2.0)
        return np.array(R.data, copy=True)
    before = ref()
    want = np.concatenate([vols[0][good[0], good[1], good[2]], vols[1][good[0], good[1], good[2]]], -1)
    if not np.array_equal(before, want):
        fails.append(Failure('time_series_from_file/failure/reference/data', 'two-file read is not the voxel data appended in time', {'meta': meta}))
    families = [('second-file-other-shape', dict(files=[files[0], files[2]], coords=np.array([[3, 1, 0], [1, 2, 0], [0, 2, 1]]))),
                ('second-file-missing', dict(files=[files[0], files[0] + '.nope'], coords=good)),
                ('roi-list-one-bad-coordinate', dict(files=files[:2], coords=[good, badc])),
                ('roi-list-bad-first', dict(files=files[0], coords=[badc, good])),
                ('bad-normalize', dict(files=files[:2], coords=good, normalize='nope')),
                ('bad-filter-method', dict(files=files[:2], coords=good, filter=dict(method='nope', lb=0.01, ub=0.1))),
                ('filter-band-refused', dict(files=files[:2], coords=good, filter=dict(method='iir', lb=0.1, ub=0.9)))]
    for fam, kw in families:
        kw = dict(kw)
        fl = kw.pop('files')
        co = kw.pop('coords')
        co_before = [np.array(c, copy=True) for c in (co if isinstance(co, list) else [co])]
        try:
            io.time_series_from_file(fl, coords=co, TR=2.0, **kw)
            raised = False
        except Exception:  # noqa
            raised = True
        if not raised and fam not in ('second-file-other-shape',):
            fails.append(Failure('time_series_from_file/failure/%s/accepted' % fam, 'an invalid call (%s) returned a result' % fam, {'meta': meta}))
        if [os.path.getsize(p) for p in files] != sizes:
            fails.append(Failure('time_series_from_file/failure/%s/file-changed' % fam, 'a file changed on disk', {'meta': meta}))
        if any(not np.array_equal(a, b) for a, b in zip(co_before, co if isinstance(co, list) else [co])):
            fails.append(Failure('time_series_from_file/failure/%s/coords-mutated' % fam, 'the coordinate arrays were changed', {'meta': meta}))
        after = ref()
        if not np.array_equal(after, want):
            fails.append(Failure('time_series_from_file/failure/%s/next-read/data' % fam, 'after a refused call (%s) the ordinary two-file read no longer returns the '
                                 'voxel data on disk' % fam, {'meta': meta}))
    # L8: one coordinate array object given twice / a view of it; one file given twice
    R = io.time_series_from_file(files[0], coords=[good, good, good[:, ::-1], good[:, 1:]], TR=2.0)
    v = vols[0]
    wants = [v[good[0], good[1], good[2]], v[good[0], good[1], good[2]], v[good[0][::-1], good[1][::-1], good[2][::-1]], v[good[0][1:], good[1][1:], good[2][1:]]]
    for i, (r, w) in enumerate(zip(R, wants)):
        if not np.array_equal(np.asarray(r.data), w):
            fails.append(Failure('time_series_from_file/alias/roi-%d/data' % i, 'ROI list whose entries are one array object / views of it: ROI %d is not the voxel data at its coordinates' % i, {'meta': meta}))
    if np.shares_memory(np.asarray(R[0].data), np.asarray(R[1].data)):
        fails.append(Failure('time_series_from_file/alias/rois-share-memory', 'two series of one ROI list share memory', {'meta': meta}))
    R2 = io.time_series_from_file([files[0], files[0]], coords=good, TR=2.0)
    w2 = np.concatenate([v[good[0], good[1], good[2]]] * 2, -1)
    if not np.array_equal(np.asarray(R2.data), w2):
        fails.append(Failure('time_series_from_file/alias/same-file-twice/data', 'one file given twice: result is not its data appended twice', {'meta': meta}))
    return fails


# ------------------------------------------------------------------ complex-valued recordings (both parities, 1-d / 2-d / 3-d)
CX_SPECTRA = ['psd', 'periodogram', 'spectrum_fourier', 'spectrum_multi_taper']


def complex_experiments(spec, rng):
    """complex-valued input series of even and odd length, 1-d / 2-d / 3-d, for every analyzer output that accepts them:
    (a) the multi-channel result, channel by channel, equals the result for that channel alone (no channel is moved);
    (b) spectrum_fourier equals the DFT evaluated AT THE REPORTED FREQUENCIES (brute force, independent of any fft ordering);
    (c) a planted complex exponential at f0 < 0 peaks at the reported frequency f0 (mod Fs; periodogram / multi-taper report 0..Fs);
    (d) filter / normalisation outputs: channel by channel = that channel alone."""
    c15 = C()
    TS, A = c15.nt(), c15.na()
    fails, seen = [], set()
    meta = {'op': 'complex', 'spec': spec}

    def fail(key, what):
        if key not in seen:
            seen.add(key)
            fails.append(Failure('complex/' + key, what + ' [unit=%s interval=%r t0=%r]' % (spec['unit'], spec['iv'], spec['t0']), {'meta': meta}))
    rs = np.random.RandomState(spec['seed'])
    kw = dict(sampling_interval=spec['iv'], time_unit=spec['unit'], t0=spec['t0'])
    nreads = 0
    for n in (spec['n_even'], spec['n_even'] + 1):
        par = 'odd' if n % 2 else 'even'
        for shape, dim in (((n,), '1d'), ((3, n), '2d'), ((2, 2, n), '3d')):
            lead = shape[:-1]
            nchan = int(np.prod(lead)) if lead else 1
            k0 = -(3 + spec['seed'] % 5)
            t = np.arange(n)
            gains = (1.0 + np.arange(nchan)).reshape(lead + (1,)) if lead else 1.0
            d = gains * np.exp(2j * np.pi * k0 * t / n) + 0.05 * (rs.randn(*shape) + 1j * rs.randn(*shape))
            T = TS.TimeSeries(d, **kw)
            Fs = 10.0**12 / c15.axis_of(T)['dt']
            f0 = Fs * k0 / n
            for g in CX_SPECTRA:
                st, v = c15.read(A.SpectralAnalyzer(T), g)
                nreads += 1
                if st != 'ok':
                    continue            # an analyzer that refuses complex data makes no claim
                f, S = np.asarray(v[0], dtype=float), np.asarray(v[1])
                if S.shape[:-1] != lead or S.shape[-1] != f.shape[0]:
                    fail('%s/%s-%s/shape' % (g, dim, par), 'SpectralAnalyzer.%s of complex data %s: frequencies %s, values %s' % (g, list(shape), list(f.shape), list(S.shape)))
                    continue
                for ci in (np.ndindex(*lead) if lead else [()]):
                    x = d[ci]
                    s1_, v1 = c15.read(A.SpectralAnalyzer(TS.TimeSeries(np.array(x, copy=True), **kw)), g)
                    if s1_ != 'ok':
                        continue
                    f1, S1 = np.asarray(v1[0], dtype=float), np.asarray(v1[1])
                    if lead and (not c15.close(f, f1, 1e-9) or not c15.close(S[ci], S1, 1e-8)):
                        fail('%s/%s-%s/channel-order' % (g, dim, par), 'SpectralAnalyzer.%s of complex %s data: channel %s of the result is not the result for that channel alone '
                             '(every channel must stay where it is)' % (g, dim, list(ci)))
                    row = S[ci]
                    if g == 'spectrum_fourier':
                        want = np.array([np.sum(x * np.exp(-2j * np.pi * fk * t / Fs)) for fk in f])
                        if not c15.close(S1, want, 1e-8):
                            fail('%s/%s/value-at-reported-frequency' % (g, par), 'spectrum_fourier of a complex series with an %s number of samples: the value reported for frequency f is not '
                                 'sum_t x[t] exp(-2 pi i f t / Fs) (the spectrum is shifted against its frequency axis)' % par)
                    fp = f1[int(np.argmax(np.abs(S1)))]
                    bw = abs(f1[1] - f1[0]) if len(f1) > 1 else Fs
                    dist = abs((fp - f0 + Fs / 2) % Fs - Fs / 2)
                    if dist > (4.6 if g == 'spectrum_multi_taper' else 0.51) * bw + 1e-9 * Fs:         # multi-taper: the peak is NW = 4 bins wide and flat
                        fail('%s/%s/peak-frequency' % (g, par), 'SpectralAnalyzer.%s: a complex exponential at %g Hz peaks at the reported frequency %g Hz (Fs = %g Hz, %s length)' % (g, f0, fp, Fs, par))
                    del row
            # (d) other analyzers that take complex recordings: channel by channel
            if dim == '2d':
                fs_new = float(T.sampling_rate)
                for name, outs in (('NormalizationAnalyzer', ['z_score']), ('FilterAnalyzer', ['filtered_boxcar', 'fir', 'iir', 'filtered_fourier']),
                                   ('CorrelationAnalyzer', ['corrcoef'])):
                    for g in outs:
                        try:
                            st, v = c15.read(c15.hist_analyzer(name, T, fs_new), g)
                        except Exception:  # noqa
                            continue
                        nreads += 1
                        if st != 'ok':
                            continue
                        if name == 'CorrelationAnalyzer':
                            want = np.corrcoef(d)
                            if not c15.close(np.asarray(v), want, 1e-8):
                                fail('%s/%s/%s/value' % (name, g, par), 'CorrelationAnalyzer.corrcoef of complex data differs from np.corrcoef')
                            continue
                        R = np.asarray(v.data)
                        for c in range(shape[0]):
                            s1_, v1 = c15.read(c15.hist_analyzer(name, TS.TimeSeries(np.array(d[c:c + 1], copy=True), **kw), fs_new), g)
                            if s1_ == 'ok' and not c15.close(R[c], np.asarray(v1.data)[0], 1e-8):
                                fail('%s/%s/%s/channel' % (name, g, par), '%s.%s of complex data: channel %d differs from the result for that channel alone' % (name, g, c))
    return fails, nreads


def r2_oracle(rng, tier, seed):
    c15 = C()
    fails = []
    stats = {'failure_reads_raised': 0, 'alias_reads': 0}
    reps = {'quick': 1, 'thorough': 3}[tier]
    for j in range(reps):
        for ai, name in enumerate(c15.ALL_ANALYZERS):
            unit = c15.UNITS[(seed + j + ai) % 3]
            hs = dict(unit=unit, iv=c15.GOOD_IV[unit][(j + ai) % 3], t0=c15.T0S[(j + ai) % len(c15.T0S)], seed=rng.randrange(10**6),
                      n=c15.SPEC_LENS[(seed + j + ai + 2) % len(c15.SPEC_LENS)])
            try:
                fl, nf = failure_experiments(hs, name, rng)
            except Exception as e:  # noqa
                fl, nf = [Failure('failure/%s/experiment-raises' % name, 'the experiment raised %r' % e, {'meta': {'op': 'failure', 'spec': hs, 'name': name}})], 0
            fails += fl
            stats['failure_reads_raised'] += nf
            try:
                fl, na_ = alias_experiments(hs, name, rng)
            except Exception as e:  # noqa
                fl, na_ = [Failure('alias/%s/experiment-raises' % name, 'the experiment raised %r' % e, {'meta': {'op': 'alias', 'spec': hs, 'name': name}})], 0
            fails += fl
            stats['alias_reads'] += na_
    # seeds with data of their own / rows of a common base that are NOT target rows (no model line: judged here)
    for k in range(len(SEED_FORMS) * reps):
        for which in ('coh', 'corr'):
            sp = gen_seed_spec(rng, k + seed, which)
            if seed_setup(sp)[2] is None:
                fails += judge_seed(Case('', '', '', meta={'op': 'seedrows', 'spec': sp}))
    for j in range({'quick': 2, 'thorough': 8}[tier]):
        unit = c15.UNITS[(seed + j) % 3]
        cs = dict(unit=unit, iv=c15.GOOD_IV[unit][(seed + j) % 3], t0=c15.T0S[(seed + j) % len(c15.T0S)], seed=rng.randrange(10**6), n_even=[64, 96, 50, 128][(seed + j) % 4])
        try:
            fl, nr = complex_experiments(cs, rng)
        except Exception as e:  # noqa
            fl, nr = [Failure('complex/experiment-raises', 'the experiment raised %r' % e, {'meta': {'op': 'complex', 'spec': cs}})], 0
        fails += fl
        stats['complex_reads'] = stats.get('complex_reads', 0) + nr
    for nm, fn in (('concatenate_time_series/alias', concat_alias_experiments), ('time_series_from_file/failure', reader_failure_experiments)):
        try:
            fails += fn(rng)
        except Exception as e:  # noqa     a valid call of the library raised inside the experiment: that is the failing input
            import traceback
            tb = traceback.extract_tb(e.__traceback__)
            where = ' <- '.join('%s:%d' % (f.filename.split('/')[-1], f.lineno) for f in tb[-3:][::-1])
            fails.append(Failure(nm + '/valid-call-raises', 'an ordinary call (two files, one 3 x 3 coordinate array, TR=2.0; or a concatenation of runs) raised %r [%s]' % (e, where),
                                 {'meta': {'op': 'reader-failure' if 'file' in nm else 'concat-alias'}}))
    return fails, stats



def shift_case(n, unit, iv, t0):
    """which DFT bin every position of SpectralAnalyzer.spectrum_fourier (complex input) shows: the recording is built so that
    bin b of its DFT has the real amplitude b + 1"""
    c15 = C()
    x = np.fft.ifft(1j * (1.0 + np.arange(n)))          # non-zero imaginary parts: the analyzer's complex branch is value-based
    T = c15.nt().TimeSeries(x.astype(complex), sampling_interval=iv, time_unit=unit, t0=t0)
    st, v = c15.read(c15.na().SpectralAnalyzer(T), 'spectrum_fourier')
    if st != 'ok':
        impl = 'err ' + str(v)
    else:
        S = np.asarray(v[1])
        impl = 'ok ' + ','.join(str(int(round(abs(a))) - 1) for a in S) if S.shape == (n,) else 'err shape %s' % (list(S.shape),)
    return Case('C15 shiftsrc %d' % n, impl, 'SpectralAnalyzer/spectrum_fourier/complex/bin-order', meta={'op': 'shiftsrc', 'n': n, 'unit': unit, 'iv': iv, 't0': t0},
                nontrivial=True)


def judge_shift(c):
    """independent: the value at position k must be the DFT evaluated at the REPORTED frequency f[k]"""
    c15 = C()
    m = c.meta
    n = m['n']
    x = np.fft.ifft(1j * (1.0 + np.arange(n)))
    T = c15.nt().TimeSeries(x, sampling_interval=m['iv'], time_unit=m['unit'], t0=m['t0'])
    st, v = c15.read(c15.na().SpectralAnalyzer(T), 'spectrum_fourier')
    if st != 'ok':
        return []
    f, S = np.asarray(v[0], dtype=float), np.asarray(v[1])
    Fs = 10.0**12 / c15.axis_of(T)['dt']
    t = np.arange(n)
    want = np.array([np.sum(x * np.exp(-2j * np.pi * fk * t / Fs)) for fk in f])
    if S.shape != want.shape or not c15.close(S, want, 1e-8):
        return [Failure('complex/spectrum_fourier/%s/value-at-reported-frequency' % ('odd' if n % 2 else 'even'),
                        'spectrum_fourier of a complex series of %d samples: the value reported for frequency f is not sum_t x[t] exp(-2 pi i f t / Fs)' % n,
                        {'meta': m}, case=c if c.line else None)]
    return []


R2_JUDGES = {'objhist': judge_objhist, 'seedrows': judge_seed, 'shiftsrc': judge_shift}


def r2_replay(m):
    op = m['op']
    rng = common.make_rng('C15', 0, 'replay-r2')
    if op == 'failure':
        return failure_experiments(m['spec'], m['name'], rng)[0]
    if op == 'alias':
        return alias_experiments(m['spec'], m['name'], rng)[0]
    if op == 'complex':
        return complex_experiments(m['spec'], rng)[0]
    if op in ('concat-alias', 'reader-failure'):
        fn = concat_alias_experiments if op == 'concat-alias' else reader_failure_experiments
        try:
            return fn(rng)
        except Exception as e:  # noqa
            nm = 'concatenate_time_series/alias' if op == 'concat-alias' else 'time_series_from_file/failure'
            return [Failure(nm + '/valid-call-raises', 'an ordinary call raised %r' % e, {'meta': m})]
    return None
