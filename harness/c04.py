"""C04 — spectral density estimates integrate to the signal power (Parseval), scale as |a|^2,
one-sided = folded two-sided, real and non-negative.

Correspondence: periodogram / periodogram_csd / multi_taper_psd / multi_taper_csd / get_spectra
(Welch) and the SpectralAnalyzer attributes psd / periodogram / spectrum_multi_taper on the real
code vs the Lean model `Nitime.C04` (run at Float; the theorems are about the same definitions
at R = real numbers, K = complex numbers).
Oracle (independent of the Lean model): time-domain energy computed with numpy against
sum(psd) * Fs / NFFT, per-taper spectra via np.fft for the adaptive range clause, re-runs on the same data in other memory layouts (Fortran, transposed view, strided, negative strides), on the
same ndarray refilled in place (identity-keyed caches), through the wrappers vs the direct call, with a
scaled signal (|a|^2), re-runs two-sided and folds by P[k] + P[N-k] (fold), sign/dtype checks.

This module is also used by harness/c06.py (same operations, matrix-level properties).
"""
import math
import numpy as np
import common
from common import Case, Failure, f2x, flist, clist, parse_flist, close_vec

PID = 'C04'
LEAN_TARGETS = ['Nitime.Props.C04']
RULE = ('one PRNG state drives: estimator in {periodogram, periodogram_csd, multi_taper_psd, multi_taper_csd, welch(get_spectra), '
        'SpectralAnalyzer.psd/.periodogram/.spectrum_multi_taper}, the csd estimators also reached through get_spectra / get_spectra_bi / CoherenceAnalyzer.spectrum with the full option set, x real/complex x n of both parities x NFFT in {None, n, >n odd/even} x '
        'sides in {default, onesided, twosided} x Fs log-uniform in (1e-2,1e4) x 1..6 channels (+ an extra leading dimension), stratified by case index so that every parity / NFFT-mode / amplitude decade 1e-9..1e6 with non-zero mean / layout (1-d, (1,n), >=4 channels) / n_overlap in {None,0,1,N/2,N-1} / unit in {s,ms,us} combination occurs in each run, coherent channels with different spectra for adaptive weights x '
        'NW/BW, low_bias, adaptive x Welch NFFT/overlap/window; distinct = distinct protocol line; non-trivial = signal not identically zero')
ASSUMPTIONS = [
    'DPSS tapers and eigenvalues are taken from nitime.utils.dpss_windows and passed to the model as data (their properties are C07)',
    'adaptive weights are taken from nitime.utils.adaptive_weights and passed to the model as data; monitored per run: real, finite, not all zero at any frequency (convergence of the iteration is not modelled)',
    'NFFT >= n in the Parseval clauses (the property quantifies over NFFT in {None, N, >N}); NFFT < n truncates the signal',
    'binary64 rounding inside the estimators is not modelled: model and implementation are compared at 1e-9 of the largest magnitude',
]
TRUSTED_EXTRA = [
    'harness/translate_c04.py (index formulas Fn, Fl, last_freq, fxy_len regenerated from spectral.py into Generated/SpecIdx.lean)',
    'scipy.fftpack.fft / np.fft.fft = the DFT (the model computes its own O(N^2) DFT with twiddles cos/sin(2 pi m/N))',
    'welchCsdAt models matplotlib.mlab.csd / mlab.psd from the documented behaviour (zero-pad to NFFT, sliding segments every NFFT-noverlap, window, detrend none, conj(X) Y averaged over segments, one-sided doubling except DC/Nyquist, / Fs / sum(window^2), two-sided output rolled to start at the most negative frequency); mlab itself is not verified',
    'the Float reading of the RScalar/CScalar-polymorphic model approximates its real/complex reading (unproved)',
    'np.hanning as the default Welch window (its values are passed to the model as data)',
    'exact reading: the same polymorphic definitions run over Q / Q(i) (ops xperiodogram, xpcsd, xwelch; NFFT in {1,2,4}, the only lengths with roots of unity in Q(i)); the implementation is compared with the exact rationals at 1e-13 and Parseval is checked with == on the exact output in every run',
]

RTOL = 1e-9
UNITS_TS = ['s', 'ms', 'us', 's']
VIAS = [None, 'get_spectra', None, 'CoherenceAnalyzer', 'get_spectra_bi', 'get_spectra']


def tsa():
    import nitime.algorithms as a
    return a


def utils():
    import nitime.utils as u
    return u


# ------------------------------------------------------------------ data <-> meta
def get_data(m):
    re = np.array(m['re'], dtype=float).reshape(m['shape'])
    if m.get('im') is not None:
        return re + 1j * np.array(m['im'], dtype=float).reshape(m['shape'])
    return re


def put_data(m, s):
    m['shape'] = list(s.shape)
    m['re'] = [float(v) for v in np.real(s).reshape(-1)]
    m['im'] = [float(v) for v in np.imag(s).reshape(-1)] if np.iscomplexobj(s) else None
    return m


def eff_onesided(m):
    cplx = m.get('im') is not None
    return (m['sides'] == 'default' and not cplx) or m['sides'] == 'onesided'


def eff_nfft(m, n):
    N = m.get('NFFT')
    if m['op'] in ('mtpsd', 'mtcsd', 'an_mt'):
        return n if (N is None or N < n) else N
    return N if N else n


def mt_params(m, n):
    """NW, Kmax exactly as multi_taper_psd/csd derive them"""
    Fs = m['Fs']
    if m.get('BW') is not None:
        NW = np.round(m['BW'] * n / Fs) / 2.0
    elif m.get('NW') is None:
        NW = 4
    else:
        NW = m['NW']
    return NW, int(2 * NW)


def mt_tapers(m, n):
    NW, Kmax = mt_params(m, n)
    dpss, eig = utils().dpss_windows(n, NW, Kmax)
    if m.get('low_bias', True):
        keep = eig > 0.9
        dpss, eig = dpss[keep], eig[keep]
    return np.asarray(dpss), np.asarray(eig)


def ok_f(v):
    return 'ok ' + flist(np.asarray(v, dtype=float).reshape(-1))


def ok_c(v):
    return 'ok ' + clist(np.asarray(v, dtype=complex).reshape(-1))


def cmp_vec(rtol=RTOL):
    def cmp(impl, model):
        if not (impl.startswith('ok ') and model.startswith('ok ')):
            return impl == model
        try:
            return close_vec(parse_flist(impl[3:]), parse_flist(model[3:]), rtol=rtol)
        except Exception:
            return False
    return cmp


# ------------------------------------------------------------------ implementation adapter
def adaptive_w(m, s):
    """adaptive weights of every channel, from the public utils on a FRESH copy of the data"""
    n = s.shape[-1]
    NW, Kmax = mt_params(m, n)
    spectra, eig = utils().tapered_spectra(np.array(s.reshape(-1, n)), (NW, Kmax), NFFT=m.get('NFFT'),
                                           low_bias=m.get('low_bias', True))
    spectra = spectra.reshape(-1, len(eig), spectra.shape[-1])
    sd = 'onesided' if eff_onesided(m) else 'twosided'
    ws = []
    for i in range(spectra.shape[0]):
        w, nu = utils().adaptive_weights(spectra[i], eig, sides=sd)
        ws.append(np.asarray(w, dtype=float))
    return np.array(ws)


def method_dict(m):
    """the `method` dictionary that drives get_spectra / get_spectra_bi / CoherenceAnalyzer for this operation"""
    op, Fs = m['op'], m['Fs']
    if op == 'pcsd':
        return {'this_method': 'periodogram_csd', 'Fs': Fs, 'NFFT': m.get('NFFT'), 'sides': m['sides']}
    if op == 'mtcsd':
        return {'this_method': 'multi_taper_csd', 'Fs': Fs, 'NFFT': m.get('NFFT'), 'sides': m['sides'], 'adaptive': m['adaptive'],
                'low_bias': m.get('low_bias', True), 'NW': m.get('NW'), 'BW': m.get('BW')}
    meth = {'this_method': 'welch', 'NFFT': m['NFFT'], 'Fs': Fs}
    if m.get('n_overlap') is not None:
        meth['n_overlap'] = m['n_overlap']
    if m.get('window') is not None:
        meth['window'] = np.array(m['window'], dtype=float)
    return meth


def run_wrapped(m, s):
    """the same estimator reached through a wrapper: get_spectra, get_spectra_bi or CoherenceAnalyzer.spectrum"""
    A = tsa()
    via, op = m['via'], m['op']
    n = s.shape[-1]
    M = int(np.prod(s.shape[:-1])) if s.ndim > 1 else 1
    meth = method_dict(m)
    key = 'W' if op == 'welch' else 'C'
    if via == 'get_spectra':
        f, fxy = A.get_spectra(s, method=meth)
    elif via == 'CoherenceAnalyzer':
        import nitime.timeseries as ts
        from nitime.analysis import CoherenceAnalyzer
        an = CoherenceAnalyzer(ts.TimeSeries(s.reshape(-1, n), sampling_rate=m['Fs']), method=meth)
        fxy, f = an.spectrum, an.frequencies
    elif via == 'get_spectra_bi':
        rows = s.reshape(-1, n)
        f, fxx, fyy, fxy01 = A.get_spectra_bi(rows[0], rows[1], method=meth)
        L = np.asarray(fxy01).shape[-1]
        fxy = np.zeros((2, 2, L), dtype=complex)
        fxy[0, 0], fxy[1, 1], fxy[0, 1] = fxx, fyy, fxy01
        if op != 'welch':
            fxy[1, 0] = np.conj(fxy01)
    else:
        raise ValueError(via)
    fxy = np.asarray(fxy)
    if not (op == 'welch' and M == 1):
        fxy = fxy.reshape(M, M, -1)
    return {'f': f, key: fxy}


def run_impl(m, s=None):
    """call the real API for the operation described by `m` (on the array object `s` when given, else on a fresh
    array built from the recorded data); returns a dict of arrays"""
    if s is None:
        s = get_data(m)
    n = s.shape[-1]
    op = m['op']
    Fs = m['Fs']
    A = tsa()
    if m.get('via') and op in ('pcsd', 'mtcsd', 'welch'):
        out = run_wrapped(m, s)
        if op == 'mtcsd' and m['adaptive']:
            out['w'] = adaptive_w(m, s)
        return out
    if op == 'periodogram':
        f, P = A.periodogram(s, Fs=Fs, N=m.get('NFFT'), sides=m['sides'])
        return {'f': f, 'P': P}
    if op == 'pcsd':
        f, Cm = A.periodogram_csd(s, Fs=Fs, NFFT=m.get('NFFT'), sides=m['sides'])
        return {'f': f, 'C': Cm}
    if op in ('mtpsd', 'mtcsd'):
        kw = dict(Fs=Fs, NW=m.get('NW'), BW=m.get('BW'), adaptive=m['adaptive'], low_bias=m.get('low_bias', True),
                  sides=m['sides'], NFFT=m.get('NFFT'))
        out = {}
        if m['adaptive']:
            out['w'] = adaptive_w(m, s)
        if op == 'mtpsd':
            f, P, _ = A.multi_taper_psd(s, jackknife=False, **kw)
            out.update(f=f, P=P)
        else:
            f, Cm = A.multi_taper_csd(s, **kw)
            out.update(f=f, C=Cm)
        return out
    if op == 'welch':
        meth = {'this_method': 'welch', 'NFFT': m['NFFT'], 'Fs': Fs}
        if m.get('n_overlap') is not None:
            meth['n_overlap'] = m['n_overlap']
        if m.get('window') is not None:
            meth['window'] = np.array(m['window'], dtype=float)
        f, fxy = A.get_spectra(s, method=meth)
        return {'f': f, 'W': fxy}
    if op in ('an_psd', 'an_periodogram', 'an_mt'):
        import nitime.timeseries as ts
        from nitime.analysis import SpectralAnalyzer
        T = ts.TimeSeries(s, sampling_rate=Fs, time_unit=m.get('unit', 's'))
        m['Fs_eff'] = float(T.sampling_rate)
        if op == 'an_psd':
            meth = {'this_method': 'welch', 'NFFT': m['NFFT'], 'Fs': Fs}
            if m.get('n_overlap') is not None:
                meth['n_overlap'] = m['n_overlap']
            f, P = SpectralAnalyzer(T, method=meth).psd
            return {'f': f, 'P': P}
        if op == 'an_periodogram':
            f, P = SpectralAnalyzer(T).periodogram
            return {'f': f, 'P': P}
        f, P = SpectralAnalyzer(T, BW=m.get('BW'), adaptive=m['adaptive'], low_bias=m.get('low_bias', False)).spectrum_multi_taper
        return {'f': f, 'P': P}
    raise ValueError(op)


def welch_overlap(m):
    if m.get('n_overlap') is not None:
        return m['n_overlap']
    N = m['NFFT']
    return int(np.ceil(N // 2)) if m['op'] == 'welch' else int(np.ceil(N / 2.0))


def welch_window(m):
    return np.array(m['window'], dtype=float) if m.get('window') is not None else np.hanning(m['NFFT'])


def make_cases(m, r, pid='C04'):
    """protocol lines for the model + the implementation's answers, from meta `m` and result `r`"""
    s = get_data(m)
    n = s.shape[-1]
    rows = s.reshape(-1, n)
    M = rows.shape[0]
    op = m['op']
    one = eff_onesided(m)
    sd = '1' if one else '2'
    cplx = m.get('im') is not None
    nz = bool(np.any(rows != 0))
    pad = 'padded' if eff_nfft(m, n) > n else 'nopad'
    out = []
    if m.get('exact'):
        return exact_cases(m, r, pid)
    if op in ('periodogram', 'an_periodogram'):
        Fs = m.get('Fs_eff', m['Fs'])
        N = eff_nfft(m, n)
        P = np.asarray(r['P']).reshape(M, -1)
        for i in range(M):
            out.append(Case('%s periodogram %s %d %s %s' % (pid, f2x(Fs), N, sd, clist(rows[i])), ok_f(P[i]),
                            '%s/%s/%s' % (op, 'onesided' if one else 'twosided', pad), cmp=cmp_vec(), meta=m if i == 0 else None, nontrivial=nz))
    elif op == 'pcsd':
        N = eff_nfft(m, n)
        out.append(Case('%s pcsd %s %d %s %d %s' % (pid, f2x(m['Fs']), N, sd, M, clist(rows.reshape(-1))), ok_c(r['C']),
                        'periodogram_csd/%s/%s' % ('onesided' if one else 'twosided', pad), cmp=cmp_vec(), meta=m, nontrivial=nz))
    elif op in ('mtpsd', 'an_mt', 'mtcsd'):
        if op == 'an_mt':
            m = dict(m, sides='default', NFFT=None, low_bias=m.get('low_bias', False))
        Fs = m.get('Fs_eff', m['Fs'])
        N = eff_nfft(m, n)
        pad = 'padded' if N > n else 'nopad'
        if op == 'an_mt' and 'Fs_eff' in m:
            # the analyzer passes its own sampling rate; BW -> NW uses that rate
            mm = dict(m, Fs=Fs)
        else:
            mm = m
        dpss, eig = mt_tapers(mm, n)
        T = len(eig)
        wm = 'a' if m['adaptive'] else 'f'
        cl = '%s/%s/%s/%s' % ({'mtpsd': 'multi_taper_psd', 'an_mt': 'an_mt', 'mtcsd': 'multi_taper_csd'}[op],
                              'adaptive' if m['adaptive'] else 'fixed', 'onesided' if one else 'twosided', pad)
        if op == 'mtcsd':
            w = r['w'].reshape(-1) if m['adaptive'] else np.sqrt(eig)
            out.append(Case('%s mtcsd %s %d %s %d %d %s %s %s %s' % (pid, f2x(Fs), N, sd, M, T, flist(dpss.reshape(-1)), wm,
                                                                   flist(w), clist(rows.reshape(-1))),
                            ok_c(r['C']), cl, cmp=cmp_vec(), meta=m, nontrivial=nz))
        else:
            P = np.asarray(r['P']).reshape(M, -1)
            for i in range(M):
                if m['adaptive']:
                    if op == 'an_mt':
                        # weights recomputed here exactly as multi_taper_psd does for this row
                        NW, Kmax = mt_params(mm, n)
                        sp, ev = utils().tapered_spectra(rows[i:i + 1], (NW, Kmax), NFFT=None, low_bias=mm['low_bias'])
                        sp = sp.reshape(len(ev), -1)
                        w, _ = utils().adaptive_weights(sp, ev, sides='onesided' if one else 'twosided')
                        w = np.asarray(w, dtype=float).reshape(-1)
                    else:
                        w = r['w'][i].reshape(-1)
                else:
                    w = np.sqrt(eig)
                out.append(Case('%s mtpsd %s %d %s %d %s %s %s %s' % (pid, f2x(Fs), N, sd, T, flist(dpss.reshape(-1)), wm, flist(w),
                                                                    clist(rows[i])),
                                ok_f(P[i]), cl, cmp=cmp_vec(1e-8 if m['adaptive'] else RTOL), meta=m if i == 0 else None, nontrivial=nz))
    elif op == 'welch':
        N = m['NFFT']
        one = not cplx
        nov = welch_overlap(m)
        win = welch_window(m)
        pad = 'padded' if N > n else 'nopad'
        out.append(Case('%s welch %s %d %d %s %d %s %s' % (pid, f2x(m['Fs']), N, nov, '1' if one else '2', M, flist(win),
                                                          clist(rows.reshape(-1))),
                        ok_c(r['W']), 'welch/%s/%s' % ('onesided' if one else 'twosided', pad), cmp=cmp_vec(), meta=m, nontrivial=nz))
    elif op == 'an_psd':
        N = m['NFFT']
        one = not cplx
        nov = welch_overlap(m)
        win = np.hanning(N)
        P = np.asarray(r['P']).reshape(M, -1)
        pad = 'padded' if N > n else 'nopad'
        for i in range(M):
            out.append(Case('%s welch %s %d %d %s 1 %s %s' % (pid, f2x(m['Fs_eff']), N, nov, '1' if one else '2', flist(win), clist(rows[i])),
                            ok_c(P[i]), 'an_psd/%s/%s' % ('onesided' if one else 'twosided', pad), cmp=cmp_vec(),
                            meta=m if i == 0 else None, nontrivial=nz))
    if m.get('via'):
        for c in out:
            c.clause += '/via-' + m['via']
    return out



# ------------------------------------------------------------------ exact runs (model over Q / Q(i), NFFT in {1,2,4})
from fractions import Fraction as Fr


def frs(v):
    f = Fr(float(v))
    return str(f.numerator) if f.denominator == 1 else '%d/%d' % (f.numerator, f.denominator)


def qlist(zs):
    out = []
    for z in np.asarray(zs).reshape(-1):
        z = complex(z)
        out += [frs(z.real), frs(z.imag)]
    return ','.join(out) if out else '-'


def rlist(vs):
    vs = [frs(v) for v in np.asarray(vs).reshape(-1)]
    return ','.join(vs) if vs else '-'


def parse_fracs(sx):
    return [] if sx == '-' else [Fr(t) for t in sx.split(',')]


def cmp_exact(check=None, cplx_out=False):
    """implementation (binary64) against the EXACT rational output of the model: every entry within 1e-13 of the
    largest magnitude; `check(exact values)` additionally verifies an exact identity (Parseval) on the model's output"""
    def cmp(impl, model):
        if not (impl.startswith('ok ') and model.startswith('ok ')):
            return False
        a = parse_flist(impl[3:])
        b = parse_fracs(model[3:])
        if len(a) != len(b):
            return False
        sc = max([abs(float(x)) for x in b] + [abs(x) for x in a] + [0.0])
        if any(abs(x - float(y)) > 1e-13 * sc for x, y in zip(a, b)):
            return False
        return True if check is None else bool(check(b))
    return cmp


def exact_cases(m, r, pid):
    """protocol lines for the exact model ops; the exact Parseval identity is checked on the model's own output"""
    s = get_data(m)
    n = s.shape[-1]
    rows = s.reshape(-1, n)
    M = rows.shape[0]
    op = m['op']
    cplx = m.get('im') is not None
    Fs = Fr(float(m['Fs']))
    out = []
    nz = bool(np.any(rows != 0))
    def power(i):
        return sum(Fr(float(v.real)) ** 2 + Fr(float(v.imag)) ** 2 for v in rows[i].astype(complex)) / n
    if op == 'periodogram':
        one = eff_onesided(m)
        N = eff_nfft(m, n)
        P = np.asarray(r['P']).reshape(M, -1)
        for i in range(M):
            chk = (lambda b, i=i: sum(b) * Fs / N == power(i)) if (N >= n and (not one or not cplx)) else None
            out.append(Case('%s xperiodogram %s %d %s %s' % (pid, frs(m['Fs']), N, '1' if one else '2', qlist(rows[i])), ok_f(P[i]),
                            'exact/periodogram/%s' % ('onesided' if one else 'twosided'), cmp=cmp_exact(chk), meta=m if i == 0 else None, nontrivial=nz))
    elif op == 'pcsd':
        one = eff_onesided(m)
        N = eff_nfft(m, n)
        L = N // 2 + 1 if one else N
        def chk(b):
            if not (N >= n and (not one or not cplx)):
                return True
            for i in range(M):
                d = [b[2 * ((i * M + i) * L + k)] for k in range(L)]
                if sum(d) * Fs / N != power(i):
                    return False
            return True
        out.append(Case('%s xpcsd %s %d %s %d %s' % (pid, frs(m['Fs']), N, '1' if one else '2', M, qlist(rows.reshape(-1))), ok_c(r['C']),
                        'exact/periodogram_csd/%s' % ('onesided' if one else 'twosided'), cmp=cmp_exact(chk), meta=m, nontrivial=nz))
    elif op == 'welch':
        N = m['NFFT']
        one = not cplx
        nov = welch_overlap(m)
        win = [Fr(float(v)) for v in welch_window(m)]
        L = N // 2 + 1 if one else N
        xp = [[(Fr(float(v.real)), Fr(float(v.imag))) for v in rows[i].astype(complex)] + [(Fr(0), Fr(0))] * max(0, N - n) for i in range(M)]
        starts = list(range(0, len(xp[0]) - N + 1, N - nov))
        w2 = sum(w * w for w in win)
        def want(i):
            tot = sum(sum(win[j] ** 2 * (xp[i][s0 + j][0] ** 2 + xp[i][s0 + j][1] ** 2) for j in range(N)) for s0 in starts)
            return tot / len(starts) / w2
        def chk(b):
            for i in range(M):
                d = [b[2 * (((i * M + i) * L + k) if M > 1 else k)] for k in range(L)]
                if sum(d) * Fs / N != want(i):
                    return False
            return True
        out.append(Case('%s xwelch %s %d %d %s %d %s %s' % (pid, frs(m['Fs']), N, nov, '1' if one else '2', M, rlist(welch_window(m)),
                                                           qlist(rows.reshape(-1))), ok_c(r['W']),
                        'exact/welch/%s' % ('onesided' if one else 'twosided'), cmp=cmp_exact(chk), meta=m, nontrivial=nz))
    return out


def gen_exact(rng, nr, kind, i):
    """small dyadic inputs on which the implementation's binary64 arithmetic is (nearly) exact"""
    cplx = (i % 3) == 2
    Fs = [1.0, 2.0, 0.5, 10.0, 3.0, 0.25][i % 6]
    def vals(shape):
        v = np.array([rng.randint(-12, 12) / 4.0 for _ in range(int(np.prod(shape)))]).reshape(shape)
        if cplx:
            v = v + 1j * np.array([rng.randint(-8, 8) / 4.0 for _ in range(int(np.prod(shape)))]).reshape(shape)
        return v
    sides = ['default', 'onesided', 'twosided'][(i // 2) % 3]
    if cplx and sides == 'onesided':
        sides = 'default'
    if kind == 'xperiodogram':
        N = [4, 2, 4, 1, 4][i % 5]
        n = rng.randint(1, N)
        shape = [(n,), (2, n), (1, n), (3, n)][(i // 3) % 4]
        return put_data({'op': 'periodogram', 'exact': True, 'Fs': Fs, 'NFFT': N if (n < N or i % 2) else None, 'sides': sides, 'scale': 2.0}, vals(shape))
    if kind == 'xpcsd':
        N = [4, 2, 4][i % 3]
        n = rng.randint(1, N)
        return put_data({'op': 'pcsd', 'exact': True, 'Fs': Fs, 'NFFT': N if (n < N or i % 2) else None, 'sides': sides, 'scale': 2.0},
                        vals((rng.randint(1, 3), n)))
    N = [4, 2, 4, 4][i % 4]
    n = rng.randint(1, 4 * N + 1)
    M = [1, 2, 3][(i // 2) % 3]
    wins = {4: [[1, 1, 1, 1], [0.5, 1, 1, 0.5], [0.25, 0.75, 0.75, 0.25]], 2: [[1, 1], [0.5, 1.5]]}[N]
    m = {'op': 'welch', 'exact': True, 'Fs': Fs, 'NFFT': N, 'sides': 'default', 'n_overlap': [0, 1, N - 1, N // 2][(i // 3) % 4],
         'window': [float(v) for v in wins[(i // 5) % len(wins)]], 'scale': 2.0}
    return put_data(m, vals((n,) if M == 1 else (M, n)))


# ------------------------------------------------------------------ independent oracle
def fold_two_sided(P2, N):
    """one-sided density implied by a two-sided one: P[k] + P[N-k] for the paired bins"""
    L = N // 2 + 1
    out = np.zeros(P2.shape[:-1] + (L,), dtype=P2.dtype)
    for k in range(L):
        if k == 0 or 2 * k == N:
            out[..., k] = P2[..., k]
        else:
            out[..., k] = P2[..., k] + P2[..., N - k]
    return out


def rel_close(a, b, rtol):
    a, b = np.asarray(a), np.asarray(b)
    if a.shape != b.shape:
        return False
    if not (np.all(np.isfinite(a)) and np.all(np.isfinite(b))):
        return False
    sc = max(float(np.max(np.abs(a))) if a.size else 0.0, float(np.max(np.abs(b))) if b.size else 0.0)
    return bool(np.all(np.abs(a - b) <= rtol * sc + 1e-300))


def tapered_energy(rows, dpss):
    """E[i, t] = sum_j |h_t(j) (x_i(j) - mean x_i)|^2"""
    xm = rows - rows.mean(axis=-1, keepdims=True)
    return (np.abs(xm[:, None, :] * dpss[None, :, :]) ** 2).sum(axis=-1)


def judge(m, r=None, robust=True):
    """property-level judgement of the implementation on the operation `m` (list of (symptom, what))"""
    if r is None:
        r = run_impl(m)
    s = get_data(m)
    n = s.shape[-1]
    rows = s.reshape(-1, n)
    M = rows.shape[0]
    op = m['op']
    cplx = m.get('im') is not None
    one = eff_onesided(m) if op not in ('welch', 'an_psd') else not cplx
    bad = []
    Fs = m.get('Fs_eff', m['Fs'])
    power = (np.abs(rows) ** 2).sum(axis=-1) / n
    rt = 2e-9
    if op in ('periodogram', 'an_periodogram'):
        N = eff_nfft(m, n)
        P = np.asarray(r['P'])
        Pr = P.reshape(M, -1)
        if np.iscomplexobj(P):
            bad.append(('not-real', 'periodogram returned a complex array'))
        elif np.any(Pr < 0):
            bad.append(('negative', 'negative density %g' % Pr.min()))
        if Pr.shape[-1] != (N // 2 + 1 if one else N):
            bad.append(('length', 'returned %d bins for NFFT=%d' % (Pr.shape[-1], N)))
        elif N >= n and (not one or not cplx):
            tot = Pr.sum(axis=-1) * Fs / N
            if not rel_close(tot, power, rt):
                bad.append(('parseval', 'sum(psd)*Fs/NFFT = %r but mean |x|^2 = %r (n=%d NFFT=%d Fs=%g)' % (tot.tolist()[:3], power.tolist()[:3], n, N, Fs)))
        if op == 'periodogram':
            a = m.get('scale', 1.5)
            r2 = run_impl(put_data(dict(m), a * s))
            if not rel_close(np.asarray(r2['P']), abs(a) ** 2 * P, rt):
                bad.append(('scale', 'periodogram(a*x) != |a|^2 periodogram(x) for a=%r' % (a,)))
            if one and not cplx:
                r3 = run_impl(dict(m, sides='twosided'))
                if not rel_close(fold_two_sided(np.asarray(r3['P']), N), P, rt):
                    bad.append(('fold', 'one-sided output is not the two-sided output folded onto k <= N/2'))
    elif op == 'pcsd':
        N = eff_nfft(m, n)
        Cm = np.asarray(r['C'])
        d = np.array([Cm[i, i] for i in range(M)])
        if np.max(np.abs(d.imag)) > 1e-12 * max(np.max(np.abs(d)), 1e-300):
            bad.append(('not-real', 'diagonal of the csd has an imaginary part'))
        elif np.any(d.real < 0):
            bad.append(('negative', 'negative auto-density %g' % d.real.min()))
        if N >= n and (not one or not cplx):
            tot = d.real.sum(axis=-1) * Fs / N
            if not rel_close(tot, power, rt):
                bad.append(('parseval', 'sum(diag csd)*Fs/NFFT = %r but mean |x|^2 = %r (n=%d NFFT=%d): density divided by Fs*NFFT instead of Fs*n'
                            % (tot.tolist()[:3], power.tolist()[:3], n, N)))
        # the auto-densities must be what periodogram() returns for that channel with the same settings
        _, P1 = tsa().periodogram(rows, Fs=Fs, N=m.get('NFFT'), sides=m['sides'])
        if not rel_close(d.real, np.asarray(P1).reshape(M, -1), rt):
            bad.append(('diag-ne-periodogram', 'diagonal of periodogram_csd differs from periodogram() of the same channel (n=%d NFFT=%d): max ratio %.6g'
                        % (n, N, float(np.max(np.abs(d.real)) / max(np.max(np.abs(P1)), 1e-300)))))
        a = m.get('scale', 1.5)
        r2 = run_impl(put_data(dict(m), a * s))
        if not rel_close(np.asarray(r2['C']), abs(a) ** 2 * Cm, rt):
            bad.append(('scale', 'periodogram_csd(a*x) != |a|^2 periodogram_csd(x)'))
        if one and not cplx:
            r3 = run_impl(dict(m, sides='twosided'))
            if not rel_close(fold_two_sided(np.array([np.asarray(r3['C'])[i, i].real for i in range(M)]), N), d.real, rt):
                bad.append(('fold', 'one-sided auto-densities are not the folded two-sided ones'))
    elif op in ('mtpsd', 'an_mt', 'mtcsd'):
        mm = dict(m)
        if op == 'an_mt':
            mm.update(sides='default', NFFT=None, low_bias=m.get('low_bias', False), Fs=Fs)
            one = not cplx
        N = eff_nfft(mm, n)
        dpss, eig = mt_tapers(mm, n)
        if op == 'mtcsd':
            Cm = np.asarray(r['C'])
            d = np.array([Cm[i, i] for i in range(M)])
            if np.max(np.abs(d.imag)) > 1e-12 * max(np.max(np.abs(d)), 1e-300):
                bad.append(('not-real', 'diagonal of the multitaper csd has an imaginary part'))
            P = d.real
        else:
            P = np.asarray(r['P'])
            if np.iscomplexobj(P):
                bad.append(('not-real', 'multitaper psd returned as a complex array'))
                P = P.real
            P = P.reshape(M, -1)
        if np.any(P < 0):
            bad.append(('negative', 'negative density %g' % P.min()))
        if P.shape[-1] != (N // 2 + 1 if one else N):
            bad.append(('length', 'returned %d bins for NFFT=%d' % (P.shape[-1], N)))
        elif not one or not cplx:
            if not m['adaptive']:
                E = tapered_energy(rows, dpss)                      # (M, K)
                want = (E * eig[None, :]).sum(axis=-1) / eig.sum()
                tot = P.sum(axis=-1) * Fs / N
                if not rel_close(tot, want, rt):
                    bad.append(('parseval', 'sum(psd)*Fs/NFFT = %r, eigenvalue-weighted tapered power = %r' % (tot.tolist()[:3], want.tolist()[:3])))
            else:
                w = r.get('w')
                if w is not None:
                    w = np.asarray(w)
                    if not np.all(np.isfinite(w)) or np.any((w ** 2).sum(axis=-2) == 0):
                        bad.append(('assumption-weights', 'adaptive weights not finite / all zero at some frequency'))
                xm = rows - rows.mean(axis=-1, keepdims=True)
                Y = np.fft.fft(xm[:, None, :] * dpss[None, :, :], n=N, axis=-1)
                Sk = np.abs(Y) ** 2 / Fs                                 # (M, K, N) two-sided direct estimates
                if one:
                    Sk = np.stack([fold_two_sided(Sk[:, t, :], N) for t in range(Sk.shape[1])], axis=1)
                lo, hi = Sk.min(axis=1), Sk.max(axis=1)
                tol = 1e-9 * max(float(hi.max()), 1e-300)
                if np.any(P < lo - tol) or np.any(P > hi + tol):
                    bad.append(('range', 'adaptive estimate leaves [min_k S_k(f), max_k S_k(f)]'))
        if op != 'an_mt':
            a = m.get('scale', 1.5)
            r2 = run_impl(put_data(dict(m), a * s))
            key = 'C' if op == 'mtcsd' else 'P'
            if not rel_close(np.asarray(r2[key]), abs(a) ** 2 * np.asarray(r[key]), 1e-6 if m['adaptive'] else rt):
                bad.append(('scale', 'multitaper(a*x) != |a|^2 multitaper(x)'))
            if one and not cplx and not m['adaptive']:
                r3 = run_impl(dict(m, sides='twosided'))
                P2 = np.asarray(r3['P']).reshape(M, -1) if op == 'mtpsd' else np.array([np.asarray(r3['C'])[i, i].real for i in range(M)])
                if not rel_close(fold_two_sided(P2, N), P, rt):
                    bad.append(('fold', 'one-sided multitaper output is not the folded two-sided output'))
    elif op in ('welch', 'an_psd'):
        N = m['NFFT']
        nov = welch_overlap(m)
        win = welch_window(m) if op == 'welch' else np.hanning(N)
        if op == 'welch':
            W = np.asarray(r['W'])
            d = W.reshape(1, -1) if M == 1 else np.array([W[i, i] for i in range(M)])
        else:
            d = np.asarray(r['P']).reshape(M, -1)
        if np.max(np.abs(np.imag(d))) > 1e-12 * max(np.max(np.abs(d)), 1e-300):
            bad.append(('not-real', 'Welch auto-density has an imaginary part'))
        d = np.real(d)
        if np.any(d < 0):
            bad.append(('negative', 'negative Welch density %g' % d.min()))
        xp = rows if n >= N else np.concatenate([rows, np.zeros((M, N - n), dtype=rows.dtype)], axis=-1)
        starts = range(0, xp.shape[-1] - N + 1, N - nov)
        seg = np.array([[(np.abs(xp[i, s0:s0 + N] * win) ** 2).sum() for s0 in starts] for i in range(M)])
        want = seg.mean(axis=-1) / (win ** 2).sum()
        if d.shape[-1] != (N // 2 + 1 if one else N):
            bad.append(('length', 'returned %d bins for NFFT=%d' % (d.shape[-1], N)))
        else:
            tot = d.sum(axis=-1) * Fs / N
            if not rel_close(tot, want, rt):
                bad.append(('parseval', 'sum(psd)*Fs/NFFT = %r, mean windowed segment power / sum(w^2) = %r' % (tot.tolist()[:3], want.tolist()[:3])))
        if op == 'welch':
            a = m.get('scale', 1.5)
            r2 = run_impl(put_data(dict(m), a * s))
            if not rel_close(np.asarray(r2['W']), abs(a) ** 2 * np.asarray(r['W']), rt):
                bad.append(('scale', 'welch(a*x) != |a|^2 welch(x)'))
    if robust:
        bad += robustness(m, r)
    return bad


# ------------------------------------------------------------------ robustness classes (layouts, identity-keyed caches, wrappers)
def layout_variants(s):
    """the same logical array in other memory layouts"""
    out = []
    if s.ndim >= 2:
        out.append(('fortran', np.asfortranarray(s)))
        out.append(('transposed-view', np.ascontiguousarray(s.T).T))
        big = np.zeros((2 * s.shape[0],) + s.shape[1:], dtype=s.dtype)
        big[::2] = s
        out.append(('channel-strided', big[::2]))
        out.append(('channel-negative-stride', np.ascontiguousarray(s[::-1])[::-1]))
    big = np.zeros(s.shape[:-1] + (2 * s.shape[-1] + 1,), dtype=s.dtype)
    big[..., 1::2] = s
    out.append(('time-strided', big[..., 1::2]))
    out.append(('time-negative-stride', np.ascontiguousarray(s[..., ::-1])[..., ::-1]))
    return out


def same_result(r1, r2, tol):
    for k in ('P', 'C', 'W'):
        if k in r1:
            a, b = np.asarray(r1[k]), np.asarray(r2[k])
            if a.shape != b.shape or not rel_close(a, b, tol):
                return False
    f1, f2 = r1.get('f'), r2.get('f')
    if f1 is not None and f2 is not None and (np.shape(f1) != np.shape(f2) or not np.allclose(f1, f2, rtol=1e-12, atol=0)):
        return False
    return True


def robustness(m, r):
    """classes of regressions that one call on one fresh C-contiguous array cannot show:
    memory layouts, state kept between calls on the same array object, wrappers vs direct call"""
    bad = []
    if m['op'].startswith('an_'):
        return bad
    s = get_data(m)
    tol = 1e-6 if m.get('adaptive') else 2e-9
    for name, v in layout_variants(s):
        assert np.array_equal(v, s)
        try:
            r2 = run_impl(m, v)
        except Exception as e:
            bad.append(('layout-' + name, 'raises %s on a %s array with the same contents' % (type(e).__name__, name)))
            continue
        if not same_result(r2, r, tol):
            bad.append(('layout-' + name, 'result for a %s array differs from the result for its C-contiguous copy' % name))
    # identity-keyed caches: same ndarray object, refilled in place (channels rotated, new values)
    a = np.array(s)
    run_impl(m, a)
    new = (np.roll(s, 1, axis=0) if s.ndim >= 2 and s.shape[0] > 1 else s)[..., ::-1] * 0.5 + 0.25 * np.max(np.abs(s))
    a[...] = new
    r2 = run_impl(m, a)
    r3 = run_impl(m, np.array(new))
    if not same_result(r2, r3, tol):
        bad.append(('stale-after-inplace-overwrite', 'second call on the same ndarray refilled in place differs from a call on a fresh copy of the new contents'))
    if not np.array_equal(a, new):
        bad.append(('input-modified', 'the estimator changed its input array'))
    if m.get('via'):
        rd = run_impl(dict(m, via=None))
        if not same_result({k: v for k, v in r.items() if k != 'f'}, rd, tol):
            bad.append(('wrapper-ne-direct', 'values through %s differ from the direct call with the same options' % m['via']))
    return bad


def clause_of(m):
    s = get_data(m)
    n = s.shape[-1]
    cplx = m.get('im') is not None
    op = m['op']
    one = eff_onesided(m) if op not in ('welch', 'an_psd', 'an_mt', 'an_periodogram') else not cplx
    N = eff_nfft(m, n) if op not in ('welch', 'an_psd') else m['NFFT']
    name = {'periodogram': 'periodogram', 'pcsd': 'periodogram_csd', 'mtpsd': 'multi_taper_psd', 'mtcsd': 'multi_taper_csd',
            'welch': 'welch', 'an_psd': 'an_psd', 'an_periodogram': 'an_periodogram', 'an_mt': 'an_mt'}[op]
    if op in ('mtpsd', 'mtcsd', 'an_mt'):
        name += '/adaptive' if m['adaptive'] else '/fixed'
    return '%s/%s/%s%s' % (name, 'onesided' if one else 'twosided', 'padded' if N > n else 'nopad', ('/via-' + m['via']) if m.get('via') else '')


# ------------------------------------------------------------------ generators
# Stratified + adversarial: the i-th case of a kind fixes the parity of n, the NFFT mode (None, n, other parity,
# same parity, 2n, 2n+1, far), the amplitude decade (1e-9 .. 1e6), a non-zero mean relative to the amplitude and the
# channel layout by cycling through tables (co-prime periods), so every combination that a regression may need
# (odd n with even NFFT, single channel with NFFT != n, >= 4 channels, n_overlap = 0, complex data, tiny / huge
# amplitudes with an offset, coherent channels with different spectra, non-second units) occurs in every run;
# the remaining choices are random.
AMPS = [1.0, 1e-9, 1e3, 1e-6, 1e6, 1e-3, 30.0]
MEANS = [0.0, 1.0, -2.5, 0.0, 10.0]
NFFT_MODES = ['none', 'n', 'other-parity', 'same-parity', '2n', '2n+1', 'far']


def gen_signal(rng, nr, shape, cplx, i=None, coherent=False):
    n = shape[-1]
    i = rng.randrange(10**6) if i is None else i
    kind = rng.random()
    if coherent and len(shape) >= 2:
        # strongly coherent channels with different spectra: one common source through different short filters
        src = np.cumsum(nr.standard_normal(n + 8)) * 0.2 + nr.standard_normal(n + 8)
        M = int(np.prod(shape[:-1]))
        rows = []
        for c in range(M):
            ker = np.array([1.0, rng.uniform(-0.9, 0.9), rng.uniform(-0.5, 0.5), rng.uniform(-0.3, 0.3)]) * rng.uniform(0.3, 3)
            rows.append(np.convolve(src, ker, mode='full')[4:4 + n] + 0.05 * nr.standard_normal(n))
        s = np.array(rows).reshape(shape)
    elif kind < 0.55:
        s = nr.standard_normal(shape)
    elif kind < 0.8:
        t = np.arange(n)
        s = np.sin(2 * np.pi * rng.uniform(0.02, 0.45) * t + rng.uniform(0, 6)) * rng.uniform(0.5, 3) + 0.3 * nr.standard_normal(shape)
    else:
        s = np.cumsum(nr.standard_normal(shape), axis=-1) * 0.3
    amp = AMPS[i % len(AMPS)]
    s = (s + MEANS[(i // 2) % len(MEANS)]) * amp
    if cplx:
        s = s + 1j * nr.standard_normal(shape) * rng.choice([1.0, 0.1]) * amp
    return s


def gen_fs(rng):
    return rng.choice([2 * math.pi, 1.0, 10.0 ** rng.uniform(-2, 4), 10.0 ** rng.uniform(-2, 4)])


def gen_shape(rng, n, maxch=5, allow_1d=True, i=None):
    i = rng.randrange(10**6) if i is None else i
    lay = i % 6
    if lay == 0 and allow_1d:
        return (n,)
    if lay == 1:
        return (1, n)                                   # single channel, 2-d
    if lay == 2:
        return (rng.randint(4, max(4, maxch)), n)       # >= 4 channels
    if lay == 3:
        return (rng.randint(1, 2), rng.randint(2, 3), n)    # extra leading dimension
    return (rng.randint(2, max(2, maxch)), n)


def gen_nfft(rng, n, i=None):
    mode = NFFT_MODES[(rng.randrange(7) if i is None else i // 2) % 7]
    return {'none': None, 'n': n, 'other-parity': n + rng.choice([1, 3, 7]), 'same-parity': n + rng.choice([2, 4, 10]),
            '2n': 2 * n, '2n+1': 2 * n + 1, 'far': n + rng.randint(11, 40)}[mode]


def gen_n(rng, lo, hi, i):
    n = rng.randint(lo, hi)
    if i is not None and n % 2 != i % 2:
        n += 1
    return n


def gen_meta(rng, nr, tier, kind, i=None):
    big = tier == 'thorough'
    nmax = 160 if big else 48
    i = rng.randrange(10**6) if i is None else i
    if kind in ('xperiodogram', 'xpcsd', 'xwelch'):
        return gen_exact(rng, nr, kind, i)
    if kind in ('periodogram', 'pcsd'):
        n = gen_n(rng, 8, nmax, i)
        cplx = (i % 11) in (2, 5, 8)
        shape = gen_shape(rng, n, maxch=6, allow_1d=(kind == 'periodogram'), i=i // 3)
        m = {'op': kind, 'Fs': gen_fs(rng), 'NFFT': gen_nfft(rng, n, i), 'sides': ['default', 'onesided', 'twosided', 'default'][(i // 5) % 4],
             'scale': rng.choice([1.5, -2.0, 0.25, 3.0])}
        if cplx and m['sides'] == 'onesided' and rng.random() < 0.7:
            m['sides'] = 'default'
        if kind == 'pcsd':
            m['via'] = VIAS[(i // 4) % len(VIAS)]
            if m['via'] == 'get_spectra_bi':
                shape = (2, n)
        return put_data(m, gen_signal(rng, nr, shape, cplx, i=i // 7))
    if kind in ('mtpsd', 'mtcsd'):
        n = gen_n(rng, 16, nmax, i)
        cplx = (i % 11) in (2, 5, 8)
        shape = gen_shape(rng, n, maxch=5 if kind == 'mtcsd' else 4, allow_1d=(kind == 'mtpsd'), i=i // 3)
        Fs = gen_fs(rng)
        m = {'op': kind, 'Fs': Fs, 'NFFT': gen_nfft(rng, n, i), 'sides': ['default', 'onesided', 'twosided', 'default'][(i // 5) % 4],
             'adaptive': (i % 5) in (1, 3), 'low_bias': (i % 3) != 0, 'scale': rng.choice([1.5, -2.0, 0.25, 1e4, 1e-4])}
        if cplx and m['sides'] == 'onesided':
            m['sides'] = 'default'
        if rng.random() < 0.3:
            m['BW'] = rng.choice([4, 5, 6, 8]) * Fs / n
            m['NW'] = None
        else:
            m['NW'] = rng.choice([2, 2.5, 3, 4, None])
            m['BW'] = None
        if kind == 'mtcsd':
            m['via'] = VIAS[(i // 4) % len(VIAS)]
            if m['via'] == 'get_spectra_bi':
                shape = (2, n)
        return put_data(m, gen_signal(rng, nr, shape, cplx, i=i // 7, coherent=(m['adaptive'] and i % 2 == 1)))
    if kind == 'welch':
        Ns = [8, 9, 12, 15, 16, 21, 32] + ([64, 63] if big else [])
        N = Ns[i % len(Ns)]
        n = [rng.randint(max(4, N // 2), N - 1), rng.randint(N, 4 * N), rng.randint(2 * N, 6 * N), N, 2 * N + 1][(i // 2) % 5]
        cplx = (i % 11) in (2, 5, 8)
        M = [1, 2, 3, 4, 5, 1][(i // 3) % 6]
        shape = (n,) if M == 1 else (M, n)
        m = {'op': 'welch', 'Fs': gen_fs(rng), 'NFFT': N, 'sides': 'default',
             'n_overlap': [None, 0, 1, N // 2, N - 1, rng.randint(0, N - 1)][(i // 5) % 6],
             'window': rng.choice([None, None, [float(v) for v in np.ones(N)], [float(v) for v in np.hamming(N)]]),
             'scale': rng.choice([1.5, -2.0, 0.25])}
        m['via'] = [None, None, 'get_spectra_bi', 'CoherenceAnalyzer'][(i // 4) % 4]
        if m['via'] == 'get_spectra_bi':
            shape = (2, n)
        elif m['via'] == 'CoherenceAnalyzer':
            if M == 1:
                shape = (2, n)
            if m['n_overlap'] is None:
                m['n_overlap'] = N // 2     # the analyzer's own default overlap (32) ignores NFFT
        return put_data(m, gen_signal(rng, nr, shape, cplx, i=i // 7))
    if kind == 'an_psd':
        N = [8, 9, 16, 21, 32][i % 5]
        n = rng.randint(N // 2 + 2, 5 * N)
        cplx = (i % 4) == 3
        shape = [(n,), (rng.randint(1, 4), n), (2, 2, n)][(i // 2) % 3]
        m = {'op': 'an_psd', 'Fs': gen_fs(rng), 'NFFT': N, 'sides': 'default', 'n_overlap': [None, 0, N // 2, N - 2][(i // 3) % 4],
             'unit': UNITS_TS[i % len(UNITS_TS)]}
        return put_data(m, gen_signal(rng, nr, shape, cplx, i=i // 7))
    if kind == 'an_periodogram':
        n = gen_n(rng, 8, nmax, i)
        cplx = (i % 4) == 3
        m = {'op': 'an_periodogram', 'Fs': gen_fs(rng), 'NFFT': None, 'sides': 'default', 'unit': UNITS_TS[i % len(UNITS_TS)]}
        return put_data(m, gen_signal(rng, nr, gen_shape(rng, n, 4, i=i // 2), cplx, i=i // 7))
    if kind == 'an_mt':
        n = gen_n(rng, 16, nmax, i)
        cplx = False
        Fs = gen_fs(rng)
        m = {'op': 'an_mt', 'Fs': Fs, 'NFFT': None, 'sides': 'default', 'adaptive': (i % 5) in (1, 3),
             'low_bias': (i % 2) == 0, 'BW': [None, 5 * Fs / n, 8 * Fs / n][(i // 2) % 3], 'NW': None, 'unit': UNITS_TS[i % len(UNITS_TS)]}
        shape = [(n,), (rng.randint(1, 3), n)][(i // 3) % 2]
        return put_data(m, gen_signal(rng, nr, shape, cplx, i=i // 7))
    raise ValueError(kind)


MIX = {'quick': [('periodogram', 160), ('pcsd', 100), ('mtpsd', 90), ('mtcsd', 60), ('welch', 100), ('an_psd', 30), ('an_periodogram', 25), ('an_mt', 25),
                 ('xperiodogram', 60), ('xpcsd', 40), ('xwelch', 60)],
       'thorough': [('periodogram', 900), ('pcsd', 500), ('mtpsd', 400), ('mtcsd', 250), ('welch', 500), ('an_psd', 120), ('an_periodogram', 100), ('an_mt', 100),
                    ('xperiodogram', 400), ('xpcsd', 300), ('xwelch', 400)]}


def gen_all(rng, tier, seed, pid=PID, mix=None):
    nr = common.np_rng(pid, seed, 'signals')
    out = []
    off = rng.randrange(10**4)
    for kind, cnt in (mix or MIX)[tier]:
        for i in range(cnt):
            out.append(gen_meta(rng, nr, tier, kind, i=off + i))
    return out


_RES = {}
SKIPPED = {}


def cases(rng, tier, seed):
    import warnings, io, contextlib
    out = []
    _RES.clear()
    SKIPPED.clear()
    with warnings.catch_warnings(), contextlib.redirect_stdout(io.StringIO()):
        warnings.simplefilter('ignore')
        for m in gen_all(rng, tier, seed):
            try:
                r = run_impl(m)
            except Exception as e:  # an estimator that raises on a valid configuration
                if m['op'] in ('mtpsd', 'mtcsd', 'an_mt'):
                    try:
                        mt_tapers(dict(m, low_bias=False), m['shape'][-1])
                    except Exception:
                        # the taper computation itself fails (e.g. dpss_windows(19, 4, 8): ZeroDivisionError
                        # in tridisolve) -- that is C07's subject, the estimator never ran: skipped, counted
                        SKIPPED['taper-computation-raises'] = SKIPPED.get('taper-computation-raises', 0) + 1
                        continue
                out.append(Case('%s raises' % PID, 'err ' + common.err_kind(e), clause_of(m), meta=m))
                continue
            cs = make_cases(m, r)
            for c in cs:
                if c.meta is not None:
                    _RES[id(c)] = (r, cs)
            out += cs
    return out


def oracle(rng, tier, seed, focus, cases=None):
    import warnings, io, contextlib
    fails, n, checks = [], 0, 0
    with warnings.catch_warnings(), contextlib.redirect_stdout(io.StringIO()):
        warnings.simplefilter('ignore')
        for c in (cases or []):
            if c.meta is None:
                continue
            n += 1
            m = c.meta
            if c.impl.startswith('err'):
                fails.append(Failure(clause_of(m) + '/raises', 'estimator raised %s on a valid configuration' % c.impl, {'meta': m}, case=c))
                continue
            r, group = _RES.get(id(c), (None, [c]))
            for sym, what in judge(m, r):
                for g in group:     # every protocol line of this operation shares the judgement
                    fails.append(Failure('%s/%s' % (clause_of(m), sym), '%s: %s' % (clause_of(m), what),
                                         {'meta': m, 'symptom': sym}, case=g))
            checks += 1
    return fails, {'judged': n, 'failed': len(fails), 'focus': len(focus), 'skipped': dict(SKIPPED)}


def replay(d):
    import warnings, io, contextlib
    m = d['meta']
    with warnings.catch_warnings(), contextlib.redirect_stdout(io.StringIO()):
        warnings.simplefilter('ignore')
        try:
            res = judge(m)
        except Exception as e:
            return Failure(clause_of(m) + '/raises', 'estimator raised %r' % (e,), d)
    want = d.get('symptom')
    for sym, what in res:
        if want is None or sym == want:
            return Failure('%s/%s' % (clause_of(m), sym), what, d)
    return None
