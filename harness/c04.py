"""C04 — spectral density estimates integrate to the signal power (Parseval), scale as |a|^2,
one-sided = folded two-sided, real and non-negative.

Correspondence: periodogram / periodogram_csd / multi_taper_psd / multi_taper_csd / get_spectra
(Welch) and the SpectralAnalyzer attributes psd / periodogram / spectrum_multi_taper on the real
code vs the Lean model `Nitime.C04` (run at Float; the theorems are about the same definitions
at R = real numbers, K = complex numbers).
Oracle (independent of the Lean model): time-domain energy computed with numpy against
sum(psd) * Fs / NFFT, per-taper spectra via np.fft for the adaptive range clause, re-runs on the same data in other memory layouts (Fortran, transposed view, strided, negative strides), on the
same ndarray refilled in place (identity-keyed caches), through the wrappers vs the direct call, with a
scaled signal (|a|^2), re-runs two-sided and folds by P[k] + P[N-k] (fold), sign/dtype checks.

This module is also used by harness/c06.py (same operations, matrix-level properties).
"""
import math
import numpy as np
import common
from common import Case, Failure, f2x, flist, clist, parse_flist, close_vec

PID = 'C04'
LEAN_TARGETS = ['Nitime.Props.C04', 'Nitime.Props.C04Hist', 'Nitime.Props.C04Block']
RULE = ('one PRNG state drives: estimator in {periodogram, periodogram_csd, multi_taper_psd, multi_taper_csd, welch(get_spectra), '
        'SpectralAnalyzer.psd/.periodogram/.spectrum_multi_taper}, the csd estimators also reached through get_spectra / get_spectra_bi / CoherenceAnalyzer.spectrum with the full option set, x real/complex x n of both parities x NFFT in {None, n, >n odd/even} x '
        'sides in {default, onesided, twosided} x Fs log-uniform in (1e-2,1e4) x 1..6 channels (+ an extra leading dimension), stratified by case index so that every parity / NFFT-mode / amplitude decade 1e-9..1e6 with non-zero mean / layout (1-d, (1,n), >=4 channels) / n_overlap in {None,0,1,N/2,N-1} / unit in {s,ms,us} combination occurs in each run, coherent channels with different spectra for adaptive weights x '
        'NW/BW, low_bias, adaptive x Welch NFFT/overlap/window; '
        'session 3 families: (L1) every estimator / analyzer on int16/int32/int64/uint8/float32/complex64/big-endian/read-only recordings (expectation from the exact float64 embedding; integer samples go to the model as integers); '
        '(L3) normalize in {default, False, True}, NW and BW both given, Welch dict keys window as float64/float32/int array or callable, explicit detrend, spec without Fs / this_method, SpectralAnalyzer.cpsd; '
        'precomputed transform Sk= (complex128 / complex64 / read-only / 3-d, length n, >n odd/even, 2n, <n) in programs of 1..4 calls periodogram_csd / periodogram / periodogram(row) on ONE transform object with varying sides / normalize, results scribbled on between calls; '
        '(L2/L6) self-contained histories (part of the case, replayable): dpss_windows(N, NW, Kmax, interp_from, interp_kind) / other NW / tapered_spectra calls before a multitaper estimate on a fresh signal length, a variant call with other options (sides, NFFT, low_bias, adaptive flipped; same n, NW) before the judged call, the judged call made twice with the first result overwritten, one Welch spec dict handed to CoherenceAnalyzer / SpectralAnalyzer objects of a recording with another sampling rate before the judged analyzer, request histories through dpss_windows classified against scipy.signal.windows.dpss; '
        'tapered_spectra(precomputed tapers) + mtm_cross_spectrum called directly for every pair, twice on the same spectra; '
        'round 4, oracle-only (harness/c04big.py; judged per bin and per channel against the definition by np.fft with scipy DPSS tapers, Parseval, fold, diag = psd): (L9) every estimator / tapered_spectra / mtm_cross_spectrum / Welch / SpectralAnalyzer getter at NFFT in {2^13, 2^13+1, 2^14, 2^14+2, 2^15} with n <= 256, 1..9 channels and 4x5 leading dimensions, K*NFFT*M above 2^18 and 2^20 with M odd, recordings of 2^13..2^16 samples; every even NFFT in 2..512 for the Nyquist bin; (L10) per-channel gains 2^+-250 .. 2^+-500 uniform and lopsided, expectation = exact rescaling of the result for the unscaled data; '
        'blockfold / blockrows: the block-wise one-sided assembly of the model applied to the two-sided periodogram of the implementation = its one-sided periodogram, rows of tapered_spectra that hold the transform = rows filled by ceil(M/rows) blocks; '
        'distinct = distinct protocol line; non-trivial = signal not identically zero')
ASSUMPTIONS = [
    'DPSS tapers and eigenvalues are taken from nitime.utils.dpss_windows and passed to the model as data (their properties are C07)',
    'adaptive weights are taken from nitime.utils.adaptive_weights and passed to the model as data; monitored per run: real, finite, not all zero at any frequency (convergence of the iteration is not modelled)',
    'NFFT >= n in the Parseval clauses (the property quantifies over NFFT in {None, N, >N}); NFFT < n truncates the signal',
    'binary64 rounding inside the estimators is not modelled: model and implementation are compared at 1e-9 of the largest magnitude',
    'float32 / complex64 data, a complex64 precomputed transform or a float32 window make scipy / numpy compute the FFT in single precision: those cases are compared at 2e-5 (integer recordings are converted to binary64 exactly and keep 1e-9 / 2e-9)',
    'a method dictionary shared between analyzers carries an explicit n_overlap (CoherenceAnalyzer writes its own default overlap of 32 into the caller\'s dictionary whatever NFFT is; that is C13/C14 matter, the spec is kept valid here)',
    'history cases: the tapers given to the model and used by the oracle come from scipy.signal.windows.dpss (agrees with utils.dpss_windows to ~1e-15 up to the sign of a taper, which no estimator output depends on), never from the process whose state is judged',
]
TRUSTED_EXTRA = ['harness/translate_c04.py gen_ansess: which object each SpectralAnalyzer getter takes the sampling rate from, what __init__ stores under Fs, set_input = BaseAnalyzer.set_input -> Generated/AnalyzerFs.lean; the session model Model/C04Sess.lean is monitored by the `ansess` correspondence (rate used = frequency axis of the real result, series held)',
                 
    'harness/translate_c04.py (index formulas Fn, Fl, last_freq, fxy_len regenerated from spectral.py into Generated/SpecIdx.lean)',
    'scipy.fftpack.fft / np.fft.fft = the DFT (the model computes its own O(N^2) DFT with twiddles cos/sin(2 pi m/N))',
    'welchCsdAt models matplotlib.mlab.csd / mlab.psd from the documented behaviour (zero-pad to NFFT, sliding segments every NFFT-noverlap, window, detrend none, conj(X) Y averaged over segments, one-sided doubling except DC/Nyquist, / Fs / sum(window^2), two-sided output rolled to start at the most negative frequency); mlab itself is not verified',
    'the Float reading of the RScalar/CScalar-polymorphic model approximates its real/complex reading (unproved)',
    'np.hanning as the default Welch window (its values are passed to the model as data)',
    'harness/translate_c04.py gen_specwrites: flow-insensitive ast analysis giving, per estimator, the names modified in place and the names that may view a parameter (Generated/SpecWrites.lean; Props/C04Hist.lean estimators_do_not_write_parameters is decide over it, skAfter / skRun_eq_map rest on it)',
    'scipy.signal.windows.dpss as the independent taper provider of the history cases and of the taper-provider histories',
    'numpy.fft.fft computes the caller-supplied transform Sk of the Sk= cases (the model takes Sk as data and never transforms)',
    'round 4 oracle-only families (harness/c04big.py): numpy.fft.fft / numpy.einsum / scipy.signal.windows.dpss compute the definition the implementation is compared with per bin at sizes the model does not run (NFFT 2^13..2^16); numpy.ldexp as the exact power-of-two scaling of the L10 cases; the block-wise definitions of Model/C04Block.lean are tied to the code only through the driver ops blockfold / blockrows (today\'s source has no blocks)',
    'exact reading: the same polymorphic definitions run over Q / Q(i) (ops xperiodogram, xpcsd, xwelch; NFFT in {1,2,4}, the only lengths with roots of unity in Q(i)); the implementation is compared with the exact rationals at 1e-13 and Parseval is checked with == on the exact output in every run',
]

RTOL = 1e-9
UNITS_TS = ['s', 'ms', 'us', 's']
VIAS = [None, 'get_spectra', None, 'CoherenceAnalyzer', 'get_spectra_bi', 'get_spectra']
VIAS_MT = [None, 'get_spectra', 'mtm-direct', 'CoherenceAnalyzer', 'get_spectra_bi', 'get_spectra', 'mtm-direct']


def to_mtm_direct(m):
    """mtm_cross_spectrum has no Fs: the direct calls are compared with the estimator at Fs = 1"""
    if m.get('BW') is not None:
        m['BW'] = m['BW'] / m['Fs']
    m['Fs'] = 1.0
    return m


def tsa():
    import nitime.algorithms as a
    return a


def utils():
    import nitime.utils as u
    return u


# ------------------------------------------------------------------ data <-> meta
def get_data(m):
    re = np.array(m['re'], dtype=float).reshape(m['shape'])
    if m.get('im') is not None:
        return re + 1j * np.array(m['im'], dtype=float).reshape(m['shape'])
    return re


def put_data(m, s):
    m['shape'] = list(s.shape)
    m['re'] = [float(v) for v in np.real(s).reshape(-1)]
    m['im'] = [float(v) for v in np.imag(s).reshape(-1)] if np.iscomplexobj(s) else None
    return m


EXACT_INT = ('int16', 'int32', 'int64', 'uint8')
LOWPREC = ('float32', 'complex64')


def get_input(m):
    """the array handed to the implementation: the recorded values in the recorded dtype / flags (L1 families).  The
    recorded values are exactly representable in that dtype (they were produced by converting the typed array to
    float64), so the expectation computed from get_data(m) is the exact embedding; derived data that no longer
    round-trip (a scaled integer signal) are passed as float64."""
    x = get_data(m)
    k = m.get('dtype')
    if not k:
        return x
    try:
        if k in EXACT_INT or k in LOWPREC:
            if np.iscomplexobj(x) and k != 'complex64':
                return x
            v = x.astype(k)
            if not np.array_equal(v.astype(x.dtype), x):
                return x
            return v
        if k == 'bigendian':
            return x.astype(x.dtype.newbyteorder('>'))
        if k == 'readonly':
            v = x.copy()
            v.flags.writeable = False
            return v
    except Exception:
        pass
    return x


def tol_of(m, base):
    # single-precision data, transform or window: numpy / scipy then compute the FFT in single precision
    return max(base, 2e-5) if (m.get('dtype') in LOWPREC or m.get('sk_kind') == 'c64' or m.get('window_kind') == 'float32') else base


def sig(m, rows):
    """signal argument of a protocol line: decimal integers for integer recordings (embedded by the MODEL), else binary64"""
    rows = np.asarray(rows)
    if m.get('dtype') in EXACT_INT and not np.iscomplexobj(rows) and np.array_equal(rows, np.round(rows)) \
            and float(np.max(np.abs(rows))) < 2.0 ** 52:
        return 'i' + ','.join(str(int(v)) for v in rows.reshape(-1))
    return clist(rows.reshape(-1))


def eff_onesided(m):
    cplx = m.get('im') is not None
    return (m['sides'] == 'default' and not cplx) or m['sides'] == 'onesided'


def eff_nfft(m, n):
    N = m.get('NFFT')
    if m['op'] in ('mtpsd', 'mtcsd', 'an_mt'):
        return n if (N is None or N < n) else N
    return N if N else n


def mt_params(m, n):
    """NW, Kmax exactly as multi_taper_psd/csd derive them"""
    Fs = m['Fs']
    if m.get('BW') is not None:
        NW = np.round(m['BW'] * n / Fs) / 2.0
    elif m.get('NW') is None:
        NW = 4
    else:
        NW = m['NW']
    return NW, int(2 * NW)


def indep_tapers(n, NW, Kmax):
    """DPSS tapers and concentration ratios from an implementation that shares nothing with nitime (scipy.signal.windows.dpss);
    agrees with utils.dpss_windows to ~1e-15 up to the sign of a taper, which no estimator output depends on"""
    from scipy.signal.windows import dpss
    d, e = dpss(int(n), float(NW), int(Kmax), return_ratios=True)
    return np.asarray(d, dtype=float).reshape(int(Kmax), int(n)), np.asarray(e, dtype=float).reshape(-1)


def mt_tapers(m, n):
    NW, Kmax = mt_params(m, n)
    if m.get('hist') is not None:
        # history cases: the tapers the MODEL and the ORACLE use must not come from the process whose state is judged
        dpss, eig = indep_tapers(n, NW, Kmax)
    else:
        dpss, eig = utils().dpss_windows(n, NW, Kmax)
    if m.get('low_bias', True):
        keep = eig > 0.9
        dpss, eig = dpss[keep], eig[keep]
    return np.asarray(dpss), np.asarray(eig)


def ok_f(v):
    return 'ok ' + flist(np.asarray(v, dtype=float).reshape(-1))


def ok_c(v):
    return 'ok ' + clist(np.asarray(v, dtype=complex).reshape(-1))


def cmp_vec(rtol=RTOL):
    def cmp(impl, model):
        if not (impl.startswith('ok ') and model.startswith('ok ')):
            return impl == model
        try:
            return close_vec(parse_flist(impl[3:]), parse_flist(model[3:]), rtol=rtol)
        except Exception:
            return False
    return cmp


# ------------------------------------------------------------------ implementation adapter
def adaptive_w(m, s):
    """adaptive weights of every channel, from the public utils on a FRESH copy of the data"""
    n = s.shape[-1]
    NW, Kmax = mt_params(m, n)
    spectra, eig = utils().tapered_spectra(np.array(s.reshape(-1, n)), (NW, Kmax), NFFT=m.get('NFFT'),
                                           low_bias=m.get('low_bias', True))
    spectra = spectra.reshape(-1, len(eig), spectra.shape[-1])
    sd = 'onesided' if eff_onesided(m) else 'twosided'
    ws = []
    for i in range(spectra.shape[0]):
        w, nu = utils().adaptive_weights(spectra[i], eig, sides=sd)
        ws.append(np.asarray(w, dtype=float))
    return np.array(ws)


def method_dict(m):
    """the `method` dictionary that drives get_spectra / get_spectra_bi / CoherenceAnalyzer for this operation"""
    op, Fs = m['op'], m['Fs']
    if op == 'pcsd':
        d = {'this_method': 'periodogram_csd', 'Fs': Fs, 'NFFT': m.get('NFFT'), 'sides': m['sides']}
        if m.get('normalize') is not None:
            d['normalize'] = m['normalize']
        return d
    if op == 'mtcsd':
        return {'this_method': 'multi_taper_csd', 'Fs': Fs, 'NFFT': m.get('NFFT'), 'sides': m['sides'], 'adaptive': m['adaptive'],
                'low_bias': m.get('low_bias', True), 'NW': m.get('NW'), 'BW': m.get('BW')}
    return welch_dict(m, Fs)


def welch_dict(m, Fs, with_fs=True):
    """the Welch method dictionary with every optional key the case asks for (window as float64 / float32 / integer
    array or as a callable, explicit detrend, n_overlap; 'this_method' present or left to the default)"""
    meth = {'NFFT': m['NFFT']}
    if not m.get('no_this_method'):
        meth['this_method'] = 'welch'
    if with_fs:
        meth['Fs'] = Fs
    if m.get('n_overlap') is not None:
        meth['n_overlap'] = m['n_overlap']
    if m.get('window') is not None:
        w = np.array(m['window'], dtype=float)
        wk = m.get('window_kind')
        if wk == 'float32' and np.array_equal(w.astype(np.float32).astype(float), w):
            w = w.astype(np.float32)
        elif wk == 'int' and np.array_equal(np.round(w), w):
            w = w.astype(np.int64)
        elif wk == 'callable':
            w = (lambda arr, w=w: arr * w)
        meth['window'] = w
    if m.get('detrend_key'):
        from matplotlib import mlab
        meth['detrend'] = mlab.detrend_none
    return meth


def run_wrapped(m, s):
    """the same estimator reached through a wrapper: get_spectra, get_spectra_bi or CoherenceAnalyzer.spectrum"""
    A = tsa()
    via, op = m['via'], m['op']
    n = s.shape[-1]
    M = int(np.prod(s.shape[:-1])) if s.ndim > 1 else 1
    meth = method_dict(m)
    key = 'W' if op == 'welch' else 'C'
    if via == 'get_spectra':
        f, fxy = A.get_spectra(s, method=meth)
    elif via == 'CoherenceAnalyzer':
        import nitime.timeseries as ts
        from nitime.analysis import CoherenceAnalyzer
        an = CoherenceAnalyzer(ts.TimeSeries(s.reshape(-1, n), sampling_rate=m['Fs']), method=meth)
        fxy, f = an.spectrum, an.frequencies
    elif via == 'mtm-direct':
        # the two lower-level entry points called directly: tapered_spectra with PRECOMPUTED tapers (ndarray branch) and
        # mtm_cross_spectrum for every pair; every pair is evaluated twice on the SAME spectra / weights objects and the
        # first results are scribbled on by the caller (L2 / L6); Fs is 1 (mtm_cross_spectrum does not divide by Fs)
        import histories
        U = utils()
        dpss, eig = mt_tapers(m, n)
        sd = 'onesided' if eff_onesided(m) else 'twosided'
        tx = np.asarray(U.tapered_spectra(np.array(s.reshape(-1, n)), np.array(dpss), NFFT=m.get('NFFT')))
        tx = tx.reshape(M, len(eig), -1)
        w = adaptive_w(m, s) if m['adaptive'] else [np.sqrt(eig).reshape(-1, 1)] * M
        keep = (tx.copy(), [np.array(x) for x in w])
        L = tx.shape[-1] // 2 + 1 if sd == 'onesided' else tx.shape[-1]
        fxy = np.zeros((M, M, L), dtype=complex)
        for rep in range(2):
            for i in range(M):
                for j in range(M):
                    r0 = A.mtm_cross_spectrum(tx[i], tx[i], w[i], sides=sd) if i == j else \
                        A.mtm_cross_spectrum(tx[i], tx[j], (w[i], w[j]), sides=sd)
                    fxy[i, j] = r0
                    histories.scribble(r0)
        flags = []
        for i in range(M):
            # L8: the same spectra object as tx AND ty with one weights object twice (cross branch) = the auto branch
            c = np.asarray(A.mtm_cross_spectrum(tx[i], tx[i], (w[i], w[i]), sides=sd))
            if not rel_close(c, fxy[i, i], 1e-9):
                flags.append(('aliased-arguments', 'mtm_cross_spectrum(t, t, (w, w)) differs from mtm_cross_spectrum(t, t, w) for channel %d' % i))
                break
        if not (np.array_equal(tx, keep[0]) and all(np.array_equal(a, b) for a, b in zip(w, keep[1]))):
            fxy[...] = np.nan          # the spectra / weights handed in were modified
        f = None
        fxy = np.asarray(fxy)
        if not (op == 'welch' and M == 1):
            fxy = fxy.reshape(M, M, -1)
        return {'f': f, key: fxy, 'flags': flags}
    elif via == 'SpectralAnalyzer.cpsd':
        f, fxy = build_analyzer(m, s).cpsd
        if m.get('retarget') and RT_FLAGS:
            fxy = np.asarray(fxy)
            if not (op == 'welch' and M == 1):
                fxy = fxy.reshape(M, M, -1)
            return {'f': f, key: fxy, 'flags': list(RT_FLAGS)}
    elif via == 'get_spectra_bi':
        rows = s.reshape(-1, n)
        x, y = rows[0], rows[1]
        if m.get('alias') == 'same':
            y = x                       # L8: one array object in both roles
        elif m.get('alias') == 'reversed-view':
            y = x[::-1]                 # L8: the second argument is a view of the first
        f, fxx, fyy, fxy01 = A.get_spectra_bi(x, y, method=meth)
        L = np.asarray(fxy01).shape[-1]
        fxy = np.zeros((2, 2, L), dtype=complex)
        fxy[0, 0], fxy[1, 1], fxy[0, 1] = fxx, fyy, fxy01
        if op != 'welch':
            fxy[1, 0] = np.conj(fxy01)
    else:
        raise ValueError(via)
    fxy = np.asarray(fxy)
    if not (op == 'welch' and M == 1):
        fxy = fxy.reshape(M, M, -1)
    return {'f': f, key: fxy}


def run_impl(m, s=None):
    """call the real API for the operation described by `m` (on the array object `s` when given, else on a fresh
    array built from the recorded data); returns a dict of arrays"""
    if s is None:
        s = get_input(m)
    n = s.shape[-1]
    op = m['op']
    Fs = m['Fs']
    A = tsa()
    if m.get('hist'):
        run_history_steps(m)
        if HIST_FLAGS:
            fl = list(HIST_FLAGS)
            out = run_impl(dict(m, hist=None), s)
            out['flags'] = out.get('flags', []) + fl
            if 'Fs_eff' not in m:
                pass
            return out
    if op == 'skhist':
        return run_skhist(m, s)
    if op == 'tapers':
        return run_tapers(m)
    if m.get('twice'):
        # L6: the judged call is made twice before on the same input: the result handed out first must still hold what it
        # held after the second call; then the caller overwrites both, and the judged call is made
        import histories, copy
        try:
            m1 = dict(m, twice=False, hist=None)
            mv = same_array_variant(m1, n)
            if mv is not None:
                # L2: first another estimate of the SAME array object with other options (identity-keyed state across options)
                try:
                    histories.scribble(run_impl(mv, s))
                except Exception:
                    pass
            a = run_impl(m1, s)
            snap = copy.deepcopy(a)
            b = run_impl(m1, s)
            changed = [k for k in a if isinstance(a[k], np.ndarray) and not np.array_equal(a[k], snap[k], equal_nan=True)]
            histories.scribble(a)
            histories.scribble(b)
            out = run_impl(m1, s)
            if changed:
                out['handed_out_changed'] = changed
            if 'Fs_eff' in m1:
                m['Fs_eff'] = m1['Fs_eff']
            return out
        except Exception:
            pass
    if m.get('via') and op in ('pcsd', 'mtcsd', 'welch'):
        out = run_wrapped(m, s)
        if op == 'mtcsd' and m['adaptive']:
            out['w'] = adaptive_w(m, s)
        return out
    nkw = {} if m.get('normalize') is None else {'normalize': m['normalize']}
    if op == 'periodogram':
        f, P = A.periodogram(s, Fs=Fs, N=m.get('NFFT'), sides=m['sides'], **nkw)
        return {'f': f, 'P': P}
    if op == 'pcsd':
        f, Cm = A.periodogram_csd(s, Fs=Fs, NFFT=m.get('NFFT'), sides=m['sides'], **nkw)
        return {'f': f, 'C': Cm}
    if op in ('mtpsd', 'mtcsd'):
        kw = dict(Fs=Fs, NW=m.get('NW'), BW=m.get('BW'), adaptive=m['adaptive'], low_bias=m.get('low_bias', True),
                  sides=m['sides'], NFFT=m.get('NFFT'))
        out = {}
        if m['adaptive']:
            out['w'] = adaptive_w(m, s)
        if op == 'mtpsd':
            f, P, _ = A.multi_taper_psd(s, jackknife=False, **kw)
            out.update(f=f, P=P)
        else:
            f, Cm = A.multi_taper_csd(s, **kw)
            out.update(f=f, C=Cm)
        return out
    if op == 'welch':
        f, fxy = A.get_spectra(s, method=None if m.get('method_none') else welch_dict(m, Fs))
        return {'f': f, 'W': fxy}
    if op in ('an_psd', 'an_periodogram', 'an_mt'):
        an = build_analyzer(m, s)
        if op == 'an_psd':
            f, P = an.psd
        elif op == 'an_periodogram':
            f, P = an.periodogram
        else:
            f, P = an.spectrum_multi_taper
        out = {'f': f, 'P': P}
        if m.get('retarget') and RT_FLAGS:
            out['flags'] = list(RT_FLAGS)
        return out
    raise ValueError(op)


def same_array_variant(m, n):
    """the same operation with other option values (sides, NFFT, low_bias, overlap / window), to be run on the same ndarray"""
    op = m['op']
    if op in ('periodogram', 'pcsd', 'mtpsd', 'mtcsd'):
        mv = dict(m, sides='default' if m['sides'] == 'twosided' else 'twosided', NFFT=(n + 3) if not m.get('NFFT') else None)
        if op in ('mtpsd', 'mtcsd'):
            mv['low_bias'] = not m.get('low_bias', True)
        return mv
    if op == 'welch' and not m.get('method_none'):
        N = m['NFFT']
        mv = dict(m, n_overlap=0 if welch_overlap(m) != 0 else N // 2,
                  window=[float(v) for v in np.hamming(N)] if m.get('window') is None else None)
        mv.pop('window_kind', None)
        return mv
    return None


def build_analyzer(m, s):
    """SpectralAnalyzer for the operation; with m['shared'] the method dictionary OBJECT was first handed to the analyzers
    of another recording with another sampling rate (L2: one spec dict written once and reused in a loop)"""
    import nitime.timeseries as ts
    from nitime.analysis import SpectralAnalyzer, CoherenceAnalyzer
    import histories
    op, Fs = m['op'], m['Fs']
    if m.get('ts_reuse'):
        # L2: the TimeSeries OBJECT was analysed before with other contents, then refilled in place; a NEW analyzer is judged
        s0 = np.array(s)
        s0[...] = (np.roll(s0, 1, axis=-1) * 0.5 + 1) if s0.dtype.kind in 'fc' else np.roll(s0, 1, axis=-1)
        T = ts.TimeSeries(s0, sampling_rate=Fs, time_unit=m.get('unit', 's'))
        try:
            first = build_analyzer_on(m, T, Fs)
            histories.scribble(getattr(first, {'an_psd': 'psd', 'welch': 'cpsd', 'an_periodogram': 'periodogram', 'an_mt': 'spectrum_multi_taper'}[op]))
        except Exception:
            pass
        T.data[...] = s
    else:
        T = ts.TimeSeries(s, sampling_rate=Fs, time_unit=m.get('unit', 's'))
    m['Fs_eff'] = float(T.sampling_rate)
    if m.get('retarget'):
        return retargeted_analyzer(m, T, Fs, s)
    return build_analyzer_on(m, T, Fs)


GETTERS = ['psd', 'cpsd', 'periodogram', 'spectrum_multi_taper', 'spectrum_fourier']
JUDGED_GETTER = {'an_psd': 'psd', 'welch': 'cpsd', 'an_periodogram': 'periodogram', 'an_mt': 'spectrum_multi_taper'}
RT_FLAGS = []


def first_series(m, s, rt):
    """the recording the analyzer is BUILT on: another sampling rate, another length, other contents (own spectrum per channel)"""
    import nitime.timeseries as ts
    n0 = int(rt['n0'])
    lead = tuple(s.shape[:-1])
    M = int(np.prod(lead)) if lead else 1
    t = np.arange(n0)
    rows = np.array([(2.0 + c) * np.cos(2 * np.pi * (c + 1.0) / (2.0 * (M + 1.0)) * t + 0.3 * c) + 0.25 * np.sin(1.7 * t + c) for c in range(M)])
    x0 = rows.reshape(lead + (n0,)) if lead else rows[0]
    if np.iscomplexobj(s):
        x0 = x0 + 1j * np.roll(x0, 1, axis=-1) * 0.5
    return ts.TimeSeries(x0, sampling_rate=m['Fs'] * rt['ratio'])


def fourier_flags(m, an, T):
    """spectrum_fourier of the series HELD: frequency axis at the held rate, Parseval of the raw transform"""
    try:
        f, F = an.spectrum_fourier
    except Exception as e:
        return [('retarget/spectrum_fourier-raises', 'spectrum_fourier raised %r after the re-target' % (e,))]
    x = np.asarray(T.data)
    n = x.shape[-1]
    Fs = float(T.sampling_rate)
    out = []
    f = np.asarray(f, dtype=float)
    F = np.asarray(F)
    if np.iscomplexobj(x) and np.any(np.iscomplex(x)):
        wantf = (np.arange(n) - n // 2) * Fs / n
        tot = np.sum(np.abs(F) ** 2, axis=-1)
    else:
        wantf = np.arange(n // 2 + 1) * Fs / n
        P = np.abs(F) ** 2
        dbl = P[..., 1:(n + 1) // 2].sum(axis=-1) * 2
        tot = P[..., 0] + dbl + (P[..., n // 2] if n % 2 == 0 else 0)
    if f.shape != wantf.shape or not rel_close(f, wantf, 1e-9):
        out.append(('retarget/spectrum_fourier-frequency-axis', 'spectrum_fourier: the frequency axis is not k*Fs/n of the series held (Fs = %r)' % Fs))
    en = np.sum(np.abs(x) ** 2, axis=-1) * n
    if np.shape(tot) != np.shape(en) or not rel_close(np.asarray(tot), np.asarray(en), 1e-9):
        tot_, en_ = np.asarray(tot), np.asarray(en)
        if tot_.shape == en_.shape and tot_.ndim >= 1 and rel_close(np.fft.ifftshift(tot_), en_, 1e-9):
            # the energies are right but sit in other rows: fftshift was applied to the channel axes too
            out.append(('spectrum_fourier-channels-rolled', 'spectrum_fourier of a complex multi-channel series: the transform of channel c is returned in row '
                        '(c + M//2) %% M (np.fft.fftshift over ALL axes): sum |F|^2 per row = %s, n * sum |x|^2 per channel = %s' % (tot_.reshape(-1)[:4].tolist(), en_.reshape(-1)[:4].tolist())))
        else:
            out.append(('retarget/spectrum_fourier-parseval', 'spectrum_fourier: sum |F|^2 (folded) differs from n * sum |x|^2 of the series held, channel by channel'))
    return out


def retargeted_analyzer(m, T, Fs, s):
    """ONE SpectralAnalyzer built on another recording (other rate / length / contents), read, then re-targeted with set_input
    (and possibly reset) to the judged series; other getters are read in the recorded order before the judged one"""
    import histories
    rt = m['retarget']
    del RT_FLAGS[:]
    T0 = first_series(m, s, rt)
    an = build_analyzer_on(m, T0, Fs * rt['ratio'] if rt.get('dict_fs') == 'first' else Fs)
    held = []
    for g in rt['pre']:
        try:
            held.append(getattr(an, g))
        except Exception:
            pass
    an.set_input(T)
    if rt['how'] == 'set_input+reset':
        an.reset()
    elif rt['how'] == 'set_input-twice':
        an.set_input(T0)
        for g in rt['pre'][:1]:
            try:
                held.append(getattr(an, g))
            except Exception:
                pass
        an.set_input(T)
    histories.scribble(held)
    for g in rt['mid']:
        if g == 'spectrum_fourier':
            RT_FLAGS.extend(fourier_flags(m, an, T))
            continue
        try:
            getattr(an, g)
        except Exception:
            pass
    return an


def build_analyzer_on(m, T, Fs):
    import nitime.timeseries as ts
    from nitime.analysis import SpectralAnalyzer, CoherenceAnalyzer
    op = m['op']
    if op in ('an_psd', 'welch'):
        sh = m.get('shared')
        meth = None if m.get('method_none') else welch_dict(m, Fs, with_fs=not (sh or m.get('no_fs_key')))
        if sh:
            other = ts.TimeSeries(np.arange(2 * 3 * m['NFFT'], dtype=float).reshape(2, -1) % 7 - 3.0, sampling_rate=Fs * sh['ratio'])
            for who in sh['who']:
                if who == 'coherence-ctor':
                    CoherenceAnalyzer(other, method=meth)
                elif who == 'coherence-spectrum':
                    CoherenceAnalyzer(other, method=meth).spectrum
                elif who == 'cpsd':
                    SpectralAnalyzer(other, method=meth).cpsd
                elif who == 'psd':
                    SpectralAnalyzer(other, method=meth).psd
        return SpectralAnalyzer(T, method=meth)
    if op == 'an_periodogram':
        return SpectralAnalyzer(T)
    return SpectralAnalyzer(T, BW=m.get('BW'), adaptive=m['adaptive'], low_bias=m.get('low_bias', False))


# ------------------------------------------------------------------ histories (L2 / L6)
HIST_FLAGS = []


def refused_call(kind, args):
    """L7: a call the library refuses (documented ValueError / a type error); returns the objects handed in, copies of what
    they held before, and whether the call raised"""
    import copy
    A, U = tsa(), utils()
    if kind == 'dpss-interp-too-long':
        n, NW, K = args
        objs = []
        call = lambda: U.dpss_windows(n, NW, K, interp_from=n + 5)
    elif kind == 'get_spectra-unknown-method':
        x = np.cos(np.arange(48.0)).reshape(2, 24)
        d = {'this_method': 'fourier', 'Fs': 1.0, 'NFFT': 8}
        objs = [x, d]
        call = lambda: A.get_spectra(x, d)
    elif kind == 'mtm-shape-mismatch':
        n, = args
        tx, ty, w = np.ones((3, n), complex), np.ones((3, n - 1), complex) * 2j, np.ones((3, 1))
        objs = [tx, ty, w]
        call = lambda: A.mtm_cross_spectrum(tx, ty, w)
    elif kind == 'mt-NW-too-large':
        n, = args
        x = np.cos(np.arange(2.0 * n)).reshape(2, n)
        objs = [x]
        call = lambda: A.multi_taper_csd(x, NW=n)
    elif kind == 'welch-overlap-ge-NFFT':
        x = np.cos(np.arange(48.0)).reshape(2, 24)
        d = {'this_method': 'welch', 'NFFT': 8, 'n_overlap': 8, 'Fs': 2.0}
        objs = [x, d]
        call = lambda: A.get_spectra(x, d)
    elif kind == 'pcsd-Sk-list':
        x = np.cos(np.arange(48.0)).reshape(2, 24)
        objs = [x]
        call = lambda: A.periodogram_csd(x, Sk=[1, 2, 3])
    else:
        raise ValueError(kind)
    before = copy.deepcopy(objs)
    raised = False
    try:
        call()
    except Exception:
        raised = True
    same = all((np.array_equal(a, b) if isinstance(a, np.ndarray) else a == b) for a, b in zip(objs, before))
    return raised, same


REFUSALS = ['dpss-interp-too-long', 'get_spectra-unknown-method', 'mtm-shape-mismatch', 'mt-NW-too-large', 'welch-overlap-ge-NFFT', 'pcsd-Sk-list']


def run_history_steps(m):
    """what happened in the process before the judged call (every step is part of the case: replayable)"""
    import histories
    U = utils()
    del HIST_FLAGS[:]
    for st in m['hist']:
        try:
            if st[0] == 'refused':
                raised, same = refused_call(st[1], st[2])
                if raised and not same:
                    HIST_FLAGS.append(('refused-call-changed-arguments', 'the refused call %s raised but left its arguments changed' % st[1]))
                continue
            if st[0] == 'dpss':
                _, n, NW, K, frm, kind = st
                r = U.dpss_windows(n, NW, K, interp_from=frm, interp_kind=kind) if frm else U.dpss_windows(n, NW, K)
                histories.scribble(r)
            elif st[0] == 'call':
                histories.scribble(run_impl(st[1]))
            elif st[0] == 'tapered_spectra':
                _, shape, NW, K, low_bias = st
                x = np.cos(np.arange(int(np.prod(shape)), dtype=float)).reshape(shape)
                histories.scribble(U.tapered_spectra(x, (NW, K), low_bias=low_bias))
        except Exception:
            pass


SK_KINDS = ['c128', 'strided', 'c64', 'ro', 'F', '3d', 'c128']


def make_sk(m):
    """the caller's precomputed transform (numpy's FFT of the float64 data, NOT nitime's code path)"""
    x = get_data(m)
    Sk = np.fft.fft(x, n=m['Nsk'])
    k = m.get('sk_kind', 'c128')
    if k == 'c64':
        Sk = Sk.astype(np.complex64)
    elif k == 'ro':
        Sk.flags.writeable = False
    elif k == 'strided':
        big = np.zeros(Sk.shape[:-1] + (2 * Sk.shape[-1],), dtype=Sk.dtype)
        big[..., ::2] = Sk
        Sk = big[..., ::2]
    elif k == 'F':
        Sk = np.asfortranarray(Sk)
    return Sk


def sk_call(A, m, s, Sk, c):
    kind, sides, norm = c[0], c[1], bool(c[2])
    if kind == 'c':
        return np.asarray(A.periodogram_csd(s, Fs=m['Fs'], Sk=Sk, sides=sides, normalize=norm)[1])
    if kind == 'p':
        return np.asarray(A.periodogram(s, Fs=m['Fs'], Sk=Sk, sides=sides, normalize=norm)[1])
    r = c[3]
    s2 = s.reshape(-1, s.shape[-1])
    return np.asarray(A.periodogram(s2[r], Fs=m['Fs'], Sk=Sk.reshape(-1, Sk.shape[-1])[r], sides=sides, normalize=norm)[1])


def run_skhist(m, s):
    """the program  f1(s, Sk=Sk); f2(s, Sk=Sk); ...  on ONE transform object; with m['scribble'] every result handed out
    is overwritten by the caller before the next call"""
    import histories
    A = tsa()
    Sk = make_sk(m)
    keep = Sk.copy()
    outs = []
    for c in m['calls']:
        r = sk_call(A, m, s, Sk, c)
        outs.append(np.array(r))
        if m.get('scribble'):
            histories.scribble(r)
    return {'H': outs, 'sk_changed': not np.array_equal(Sk, keep)}


def run_tapers(m):
    """a history of dpss_windows requests; every answer is classified against the independent provider: 0 = the exactly
    computed set (up to the sign of a taper), 1 = something else (interpolated tapers)"""
    U = utils()
    out = []
    for (n, nw4, K, frm, kind) in m['reqs']:
        NW = nw4 / 4.0
        try:
            d, e = U.dpss_windows(n, NW, K, interp_from=frm, interp_kind=INTERP_KINDS[kind]) if frm else U.dpss_windows(n, NW, K)
        except ValueError:
            out.append(2)               # refused (interp_from > N)
            continue
        d0, e0 = indep_tapers(n, NW, K)
        sg = np.sign((np.asarray(d) * d0).sum(axis=-1))
        sg[sg == 0] = 1
        exact = np.max(np.abs(np.asarray(d) - sg[:, None] * d0)) < 1e-7 and np.max(np.abs(np.asarray(e) - e0)) < 1e-7
        out.append(0 if exact else 1)
        try:
            d[...] = 0.125          # the caller is free to rescale the tapers it was handed
            e[...] = 0.125
        except Exception:
            pass
    return {'T': out}


INTERP_KINDS = ['linear', 'nearest', 'zero', 'cubic']


def welch_overlap(m):
    if m.get('n_overlap') is not None:
        return m['n_overlap']
    N = m['NFFT']
    return int(np.ceil(N // 2)) if m['op'] == 'welch' else int(np.ceil(N / 2.0))


def welch_window(m):
    return np.array(m['window'], dtype=float) if m.get('window') is not None else np.hanning(m['NFFT'])


def make_cases(m, r, pid='C04'):
    """protocol lines for the model + the implementation's answers, from meta `m` and result `r`"""
    s = get_data(m)
    n = s.shape[-1]
    rows = s.reshape(-1, n)
    M = rows.shape[0]
    op = m['op']
    one = eff_onesided(m)
    sd = '1' if one else '2'
    cplx = m.get('im') is not None
    nz = bool(np.any(rows != 0))
    pad = 'padded' if eff_nfft(m, n) > n else 'nopad'
    out = []
    if m.get('exact'):
        return exact_cases(m, r, pid)
    ct = tol_of(m, RTOL)
    if op == 'skhist':
        Sk = np.asarray(make_sk(m), dtype=complex).reshape(M, -1)
        calls = ';'.join(':'.join([c[0], c[1], '1' if c[2] else '0'] + ([str(c[3])] if c[0] == 'r' else [])) for c in m['calls'])
        flat = np.concatenate([np.asarray(o, dtype=complex).reshape(-1) for o in r['H']])
        out.append(Case('%s skhist %s %d %s %d %s %s' % (pid, f2x(m['Fs']), n, '1' if cplx else '0', M, clist(Sk.reshape(-1)), calls),
                        ok_c(flat), clause_of(m), cmp=cmp_vec(ct), meta=m, nontrivial=nz))
        # the single calls of the history, on the model's precomputed-transform branch
        c0 = m['calls'][0]
        if c0[0] == 'c':
            out.append(Case('%s pcsdsk %s %d %s %s %s %d %s' % (pid, f2x(m['Fs']), n, '1' if cplx else '0', c0[1], '1' if c0[2] else '0', M,
                                                               clist(Sk.reshape(-1))),
                            ok_c(r['H'][0]), 'periodogram_csd/Sk/single', cmp=cmp_vec(ct), meta=None, nontrivial=nz))
        elif c0[0] == 'p':
            P0 = np.asarray(r['H'][0]).reshape(M, -1)
            for i in range(min(M, 2)):
                out.append(Case('%s pgsk %s %d %s %s %s %s' % (pid, f2x(m['Fs']), n, '1' if cplx else '0', c0[1], '1' if c0[2] else '0', clist(Sk[i])),
                                ok_f(P0[i]), 'periodogram/Sk/single', cmp=cmp_vec(ct), meta=None, nontrivial=nz))
        return out
    if op == 'tapers':
        line = '%s tapers %s' % (pid, ';'.join(':'.join(str(int(v)) for v in q) for q in m['reqs']))
        return [Case(line, 'ok ' + ','.join(str(v) for v in r['T']), 'taper_provider/history', meta=m)]
    if op in ('periodogram', 'an_periodogram'):
        Fs = m.get('Fs_eff', m['Fs'])
        N = eff_nfft(m, n)
        P = np.asarray(r['P']).reshape(M, -1)
        for i in range(M):
            if m.get('normalize') is None:
                line = '%s periodogram %s %d %s %s' % (pid, f2x(Fs), N, sd, sig(m, rows[i]))
            else:
                line = '%s periodogramn %s %d %s %s %s' % (pid, f2x(Fs), N, sd, '1' if m['normalize'] else '0', sig(m, rows[i]))
            out.append(Case(line, ok_f(P[i]),
                            '%s/%s/%s' % (op, 'onesided' if one else 'twosided', pad), cmp=cmp_vec(ct), meta=m if i == 0 else None, nontrivial=nz))
    elif op == 'pcsd':
        N = eff_nfft(m, n)
        if m.get('normalize') is None:
            line = '%s pcsd %s %d %s %d %s' % (pid, f2x(m['Fs']), N, sd, M, sig(m, rows))
        else:
            line = '%s pcsdn %s %d %s %s %d %s' % (pid, f2x(m['Fs']), N, sd, '1' if m['normalize'] else '0', M, sig(m, rows))
        out.append(Case(line, ok_c(r['C']),
                        'periodogram_csd/%s/%s' % ('onesided' if one else 'twosided', pad), cmp=cmp_vec(ct), meta=m, nontrivial=nz))
    elif op in ('mtpsd', 'an_mt', 'mtcsd'):
        if op == 'an_mt':
            m = dict(m, sides='default', NFFT=None, low_bias=m.get('low_bias', False))
        Fs = m.get('Fs_eff', m['Fs'])
        N = eff_nfft(m, n)
        pad = 'padded' if N > n else 'nopad'
        if op == 'an_mt' and 'Fs_eff' in m:
            # the analyzer passes its own sampling rate; BW -> NW uses that rate
            mm = dict(m, Fs=Fs)
        else:
            mm = m
        dpss, eig = mt_tapers(mm, n)
        T = len(eig)
        wm = 'a' if m['adaptive'] else 'f'
        cl = '%s/%s/%s/%s' % ({'mtpsd': 'multi_taper_psd', 'an_mt': 'an_mt', 'mtcsd': 'multi_taper_csd'}[op],
                              'adaptive' if m['adaptive'] else 'fixed', 'onesided' if one else 'twosided', pad)
        if op == 'mtcsd':
            w = r['w'].reshape(-1) if m['adaptive'] else np.sqrt(eig)
            out.append(Case('%s mtcsd %s %d %s %d %d %s %s %s %s' % (pid, f2x(Fs), N, sd, M, T, flist(dpss.reshape(-1)), wm,
                                                                   flist(w), sig(m, rows)),
                            ok_c(r['C']), cl, cmp=cmp_vec(tol_of(m, 1e-8 if m['adaptive'] else RTOL)), meta=m, nontrivial=nz))
        else:
            P = np.asarray(r['P']).reshape(M, -1)
            for i in range(M):
                if m['adaptive']:
                    if op == 'an_mt':
                        # weights recomputed here exactly as multi_taper_psd does for this row
                        NW, Kmax = mt_params(mm, n)
                        sp, ev = utils().tapered_spectra(rows[i:i + 1], (NW, Kmax), NFFT=None, low_bias=mm['low_bias'])
                        sp = sp.reshape(len(ev), -1)
                        w, _ = utils().adaptive_weights(sp, ev, sides='onesided' if one else 'twosided')
                        w = np.asarray(w, dtype=float).reshape(-1)
                    else:
                        w = r['w'][i].reshape(-1)
                else:
                    w = np.sqrt(eig)
                out.append(Case('%s mtpsd %s %d %s %d %s %s %s %s' % (pid, f2x(Fs), N, sd, T, flist(dpss.reshape(-1)), wm, flist(w),
                                                                    sig(m, rows[i])),
                                ok_f(P[i]), cl, cmp=cmp_vec(tol_of(m, 1e-8 if m['adaptive'] else RTOL)), meta=m if i == 0 else None, nontrivial=nz))
    elif op == 'welch':
        N = m['NFFT']
        one = not cplx
        nov = welch_overlap(m)
        win = welch_window(m)
        pad = 'padded' if N > n else 'nopad'
        out.append(Case('%s welch %s %d %d %s %d %s %s' % (pid, f2x(m.get('Fs_eff', m['Fs']) if m.get('via') == 'SpectralAnalyzer.cpsd' else m['Fs']), N, nov, '1' if one else '2', M, flist(win),
                                                          sig(m, rows)),
                        ok_c(r['W']), 'welch/%s/%s' % ('onesided' if one else 'twosided', pad), cmp=cmp_vec(ct), meta=m, nontrivial=nz))
    elif op == 'an_psd':
        N = m['NFFT']
        one = not cplx
        nov = welch_overlap(m)
        win = welch_window(m)
        P = np.asarray(r['P']).reshape(M, -1)
        pad = 'padded' if N > n else 'nopad'
        for i in range(M):
            out.append(Case('%s welch %s %d %d %s 1 %s %s' % (pid, f2x(m['Fs_eff']), N, nov, '1' if one else '2', flist(win), sig(m, rows[i])),
                            ok_c(P[i]), 'an_psd/%s/%s' % ('onesided' if one else 'twosided', pad), cmp=cmp_vec(ct),
                            meta=m if i == 0 else None, nontrivial=nz))
    if m.get('via'):
        for c in out:
            c.clause += '/via-' + m['via']
    tag = tag_of(m)
    if tag:
        for c in out:
            c.clause += tag
    return out


def tag_of(m):
    """clause suffix of the input-space class a case belongs to"""
    t = ''
    if m.get('dtype'):
        t += '/dtype-' + m['dtype']
    if m.get('normalize') is not None:
        t += '/normalize-%s' % m['normalize']
    if m.get('alias'):
        t += '/alias-' + m['alias']
    if m.get('method_none'):
        t += '/method-None'
    if m.get('distinct'):
        t += '/distinct-channels'
    if m.get('retarget'):
        t += '/retarget-%s' % m['retarget']['how']
    if m.get('hist') or m.get('shared') or m.get('twice') or m.get('ts_reuse'):
        t += '/history'
    return t


# ------------------------------------------------------------------ exact runs (model over Q / Q(i), NFFT in {1,2,4})
from fractions import Fraction as Fr


def frs(v):
    f = Fr(float(v))
    return str(f.numerator) if f.denominator == 1 else '%d/%d' % (f.numerator, f.denominator)


def qlist(zs):
    out = []
    for z in np.asarray(zs).reshape(-1):
        z = complex(z)
        out += [frs(z.real), frs(z.imag)]
    return ','.join(out) if out else '-'


def rlist(vs):
    vs = [frs(v) for v in np.asarray(vs).reshape(-1)]
    return ','.join(vs) if vs else '-'


def parse_fracs(sx):
    return [] if sx == '-' else [Fr(t) for t in sx.split(',')]


def cmp_exact(check=None, cplx_out=False):
    """implementation (binary64) against the EXACT rational output of the model: every entry within 1e-13 of the
    largest magnitude; `check(exact values)` additionally verifies an exact identity (Parseval) on the model's output"""
    def cmp(impl, model):
        if not (impl.startswith('ok ') and model.startswith('ok ')):
            return False
        a = parse_flist(impl[3:])
        b = parse_fracs(model[3:])
        if len(a) != len(b):
            return False
        sc = max([abs(float(x)) for x in b] + [abs(x) for x in a] + [0.0])
        if any(abs(x - float(y)) > 1e-13 * sc for x, y in zip(a, b)):
            return False
        return True if check is None else bool(check(b))
    return cmp


def exact_cases(m, r, pid):
    """protocol lines for the exact model ops; the exact Parseval identity is checked on the model's own output"""
    s = get_data(m)
    n = s.shape[-1]
    rows = s.reshape(-1, n)
    M = rows.shape[0]
    op = m['op']
    cplx = m.get('im') is not None
    Fs = Fr(float(m['Fs']))
    out = []
    nz = bool(np.any(rows != 0))
    def power(i):
        return sum(Fr(float(v.real)) ** 2 + Fr(float(v.imag)) ** 2 for v in rows[i].astype(complex)) / n
    if op == 'periodogram':
        one = eff_onesided(m)
        N = eff_nfft(m, n)
        P = np.asarray(r['P']).reshape(M, -1)
        for i in range(M):
            chk = (lambda b, i=i: sum(b) * Fs / N == power(i)) if (N >= n and (not one or not cplx)) else None
            out.append(Case('%s xperiodogram %s %d %s %s' % (pid, frs(m['Fs']), N, '1' if one else '2', qlist(rows[i])), ok_f(P[i]),
                            'exact/periodogram/%s' % ('onesided' if one else 'twosided'), cmp=cmp_exact(chk), meta=m if i == 0 else None, nontrivial=nz))
    elif op == 'pcsd':
        one = eff_onesided(m)
        N = eff_nfft(m, n)
        L = N // 2 + 1 if one else N
        def chk(b):
            if not (N >= n and (not one or not cplx)):
                return True
            for i in range(M):
                d = [b[2 * ((i * M + i) * L + k)] for k in range(L)]
                if sum(d) * Fs / N != power(i):
                    return False
            return True
        out.append(Case('%s xpcsd %s %d %s %d %s' % (pid, frs(m['Fs']), N, '1' if one else '2', M, qlist(rows.reshape(-1))), ok_c(r['C']),
                        'exact/periodogram_csd/%s' % ('onesided' if one else 'twosided'), cmp=cmp_exact(chk), meta=m, nontrivial=nz))
    elif op == 'welch':
        N = m['NFFT']
        one = not cplx
        nov = welch_overlap(m)
        win = [Fr(float(v)) for v in welch_window(m)]
        L = N // 2 + 1 if one else N
        xp = [[(Fr(float(v.real)), Fr(float(v.imag))) for v in rows[i].astype(complex)] + [(Fr(0), Fr(0))] * max(0, N - n) for i in range(M)]
        starts = list(range(0, len(xp[0]) - N + 1, N - nov))
        w2 = sum(w * w for w in win)
        def want(i):
            tot = sum(sum(win[j] ** 2 * (xp[i][s0 + j][0] ** 2 + xp[i][s0 + j][1] ** 2) for j in range(N)) for s0 in starts)
            return tot / len(starts) / w2
        def chk(b):
            for i in range(M):
                d = [b[2 * (((i * M + i) * L + k) if M > 1 else k)] for k in range(L)]
                if sum(d) * Fs / N != want(i):
                    return False
            return True
        out.append(Case('%s xwelch %s %d %d %s %d %s %s' % (pid, frs(m['Fs']), N, nov, '1' if one else '2', M, rlist(welch_window(m)),
                                                           qlist(rows.reshape(-1))), ok_c(r['W']),
                        'exact/welch/%s' % ('onesided' if one else 'twosided'), cmp=cmp_exact(chk), meta=m, nontrivial=nz))
    return out


def gen_exact(rng, nr, kind, i):
    """small dyadic inputs on which the implementation's binary64 arithmetic is (nearly) exact"""
    cplx = (i % 3) == 2
    Fs = [1.0, 2.0, 0.5, 10.0, 3.0, 0.25][i % 6]
    def vals(shape):
        v = np.array([rng.randint(-12, 12) / 4.0 for _ in range(int(np.prod(shape)))]).reshape(shape)
        if cplx:
            v = v + 1j * np.array([rng.randint(-8, 8) / 4.0 for _ in range(int(np.prod(shape)))]).reshape(shape)
        return v
    sides = ['default', 'onesided', 'twosided'][(i // 2) % 3]
    if cplx and sides == 'onesided':
        sides = 'default'
    if kind == 'xperiodogram':
        N = [4, 2, 4, 1, 4][i % 5]
        n = rng.randint(1, N)
        shape = [(n,), (2, n), (1, n), (3, n)][(i // 3) % 4]
        return put_data({'op': 'periodogram', 'exact': True, 'Fs': Fs, 'NFFT': N if (n < N or i % 2) else None, 'sides': sides, 'scale': 2.0}, vals(shape))
    if kind == 'xpcsd':
        N = [4, 2, 4][i % 3]
        n = rng.randint(1, N)
        return put_data({'op': 'pcsd', 'exact': True, 'Fs': Fs, 'NFFT': N if (n < N or i % 2) else None, 'sides': sides, 'scale': 2.0},
                        vals((rng.randint(1, 3), n)))
    N = [4, 2, 4, 4][i % 4]
    n = rng.randint(1, 4 * N + 1)
    M = [1, 2, 3][(i // 2) % 3]
    wins = {4: [[1, 1, 1, 1], [0.5, 1, 1, 0.5], [0.25, 0.75, 0.75, 0.25]], 2: [[1, 1], [0.5, 1.5]]}[N]
    m = {'op': 'welch', 'exact': True, 'Fs': Fs, 'NFFT': N, 'sides': 'default', 'n_overlap': [0, 1, N - 1, N // 2][(i // 3) % 4],
         'window': [float(v) for v in wins[(i // 5) % len(wins)]], 'scale': 2.0}
    return put_data(m, vals((n,) if M == 1 else (M, n)))


# ------------------------------------------------------------------ independent oracle
def fold_two_sided(P2, N):
    """one-sided density implied by a two-sided one: P[k] + P[N-k] for the paired bins"""
    L = N // 2 + 1
    out = np.zeros(P2.shape[:-1] + (L,), dtype=P2.dtype)
    for k in range(L):
        if k == 0 or 2 * k == N:
            out[..., k] = P2[..., k]
        else:
            out[..., k] = P2[..., k] + P2[..., N - k]
    return out


def rel_close(a, b, rtol):
    a, b = np.asarray(a), np.asarray(b)
    if a.shape != b.shape:
        return False
    if not (np.all(np.isfinite(a)) and np.all(np.isfinite(b))):
        return False
    sc = max(float(np.max(np.abs(a))) if a.size else 0.0, float(np.max(np.abs(b))) if b.size else 0.0)
    return bool(np.all(np.abs(a - b) <= rtol * sc + 1e-300))


def tapered_energy(rows, dpss):
    """E[i, t] = sum_j |h_t(j) (x_i(j) - mean x_i)|^2"""
    xm = rows - rows.mean(axis=-1, keepdims=True)
    return (np.abs(xm[:, None, :] * dpss[None, :, :]) ** 2).sum(axis=-1)


def judge(m, r=None, robust=True):
    """property-level judgement of the implementation on the operation `m` (list of (symptom, what))"""
    if r is None:
        r = run_impl(m)
    if m['op'] == 'skhist':
        return judge_skhist(m, r)
    if m['op'] == 'tapers':
        return [('lookup-ne-recompute', 'request %d of the history %s: dpss_windows returned %s tapers (independent DPSS implementation as reference)'
                 % (i, m['reqs'], 'something other than the exactly computed' if q[3] == 0 else 'the exactly computed set instead of interpolated'))
                for i, (q, t) in enumerate(zip(m['reqs'], r['T'])) if t != (2 if q[3] > q[0] else 1 if q[3] else 0)][:1]
    s = get_data(m)
    n = s.shape[-1]
    rows = s.reshape(-1, n)
    M = rows.shape[0]
    op = m['op']
    cplx = m.get('im') is not None
    one = eff_onesided(m) if op not in ('welch', 'an_psd') else not cplx
    bad = []
    Fs = m.get('Fs_eff', m['Fs'])
    power = (np.abs(rows) ** 2).sum(axis=-1) / n
    rt = tol_of(m, 2e-9)
    if m.get('normalize') is False:
        power = power * (Fs * n)            # normalize=False: the density is NOT divided by Fs * n
    nkw = {} if m.get('normalize') is None else {'normalize': m['normalize']}
    if robust and (m.get('hist') or m.get('shared') or m.get('twice') or m.get('dtype') or m.get('ts_reuse') or m.get('method_none')):
        robust = False
    for sym, what in r.get('flags', []):
        bad.append((sym, what))
    if r.get('handed_out_changed'):
        bad.append(('handed-out-result-changed', 'a result handed out earlier (%s) changed when the same call was made again' % r['handed_out_changed']))
    if op in ('periodogram', 'an_periodogram'):
        N = eff_nfft(m, n)
        P = np.asarray(r['P'])
        Pr = P.reshape(M, -1)
        if np.iscomplexobj(P):
            bad.append(('not-real', 'periodogram returned a complex array'))
        elif np.any(Pr < 0):
            bad.append(('negative', 'negative density %g' % Pr.min()))
        if Pr.shape[-1] != (N // 2 + 1 if one else N):
            bad.append(('length', 'returned %d bins for NFFT=%d' % (Pr.shape[-1], N)))
        elif N >= n and (not one or not cplx):
            tot = Pr.sum(axis=-1) * Fs / N
            if not rel_close(tot, power, rt):
                bad.append(('parseval', 'sum(psd)*Fs/NFFT = %r but mean |x|^2 = %r (n=%d NFFT=%d Fs=%g)' % (tot.tolist()[:3], power.tolist()[:3], n, N, Fs)))
        if op == 'periodogram':
            a = m.get('scale', 1.5)
            r2 = run_impl(put_data(dict(m), a * s))
            if not rel_close(np.asarray(r2['P']), abs(a) ** 2 * P, rt):
                bad.append(('scale', 'periodogram(a*x) != |a|^2 periodogram(x) for a=%r' % (a,)))
            if one and not cplx:
                r3 = run_impl(dict(m, sides='twosided'))
                if not rel_close(fold_two_sided(np.asarray(r3['P']), N), P, rt):
                    bad.append(('fold', 'one-sided output is not the two-sided output folded onto k <= N/2'))
    elif op == 'pcsd':
        N = eff_nfft(m, n)
        Cm = np.asarray(r['C'])
        d = np.array([Cm[i, i] for i in range(M)])
        if np.max(np.abs(d.imag)) > 1e-12 * max(np.max(np.abs(d)), 1e-300):
            bad.append(('not-real', 'diagonal of the csd has an imaginary part'))
        elif np.any(d.real < 0):
            bad.append(('negative', 'negative auto-density %g' % d.real.min()))
        if N >= n and (not one or not cplx):
            tot = d.real.sum(axis=-1) * Fs / N
            if not rel_close(tot, power, rt):
                bad.append(('parseval', 'sum(diag csd)*Fs/NFFT = %r but mean |x|^2 = %r (n=%d NFFT=%d): density divided by Fs*NFFT instead of Fs*n'
                            % (tot.tolist()[:3], power.tolist()[:3], n, N)))
        # the auto-densities must be what periodogram() returns for that channel with the same settings
        _, P1 = tsa().periodogram(rows, Fs=Fs, N=m.get('NFFT'), sides=m['sides'], **nkw)
        if not rel_close(d.real, np.asarray(P1).reshape(M, -1), rt):
            bad.append(('diag-ne-periodogram', 'diagonal of periodogram_csd differs from periodogram() of the same channel (n=%d NFFT=%d): max ratio %.6g'
                        % (n, N, float(np.max(np.abs(d.real)) / max(np.max(np.abs(P1)), 1e-300)))))
        a = m.get('scale', 1.5)
        r2 = run_impl(put_data(dict(m), a * s))
        if not rel_close(np.asarray(r2['C']), abs(a) ** 2 * Cm, rt):
            bad.append(('scale', 'periodogram_csd(a*x) != |a|^2 periodogram_csd(x)'))
        if one and not cplx:
            r3 = run_impl(dict(m, sides='twosided'))
            if not rel_close(fold_two_sided(np.array([np.asarray(r3['C'])[i, i].real for i in range(M)]), N), d.real, rt):
                bad.append(('fold', 'one-sided auto-densities are not the folded two-sided ones'))
    elif op in ('mtpsd', 'an_mt', 'mtcsd'):
        mm = dict(m)
        if op == 'an_mt':
            mm.update(sides='default', NFFT=None, low_bias=m.get('low_bias', False), Fs=Fs)
            one = not cplx
        N = eff_nfft(mm, n)
        dpss, eig = mt_tapers(mm, n)
        if op == 'mtcsd':
            Cm = np.asarray(r['C'])
            d = np.array([Cm[i, i] for i in range(M)])
            if np.max(np.abs(d.imag)) > 1e-12 * max(np.max(np.abs(d)), 1e-300):
                bad.append(('not-real', 'diagonal of the multitaper csd has an imaginary part'))
            P = d.real
        else:
            P = np.asarray(r['P'])
            if np.iscomplexobj(P) and op == 'an_mt' and cplx:
                # SpectralAnalyzer.spectrum_multi_taper allocates a complex array for complex data by design
                if np.max(np.abs(P.imag)) > 1e-12 * max(float(np.max(np.abs(P))), 1e-300):
                    bad.append(('not-real', 'multitaper psd has an imaginary part'))
                P = P.real
            elif np.iscomplexobj(P):
                bad.append(('not-real', 'multitaper psd returned as a complex array'))
                P = P.real
            P = P.reshape(M, -1)
        if np.any(P < 0):
            bad.append(('negative', 'negative density %g' % P.min()))
        if P.shape[-1] != (N // 2 + 1 if one else N):
            bad.append(('length', 'returned %d bins for NFFT=%d' % (P.shape[-1], N)))
        elif not one or not cplx:
            if not m['adaptive']:
                E = tapered_energy(rows, dpss)                      # (M, K)
                want = (E * eig[None, :]).sum(axis=-1) / eig.sum()
                tot = P.sum(axis=-1) * Fs / N
                if not rel_close(tot, want, rt):
                    bad.append(('parseval', 'sum(psd)*Fs/NFFT = %r, eigenvalue-weighted tapered power = %r' % (tot.tolist()[:3], want.tolist()[:3])))
            else:
                w = r.get('w')
                if w is not None:
                    w = np.asarray(w)
                    if not np.all(np.isfinite(w)) or np.any((w ** 2).sum(axis=-2) == 0):
                        bad.append(('assumption-weights', 'adaptive weights not finite / all zero at some frequency'))
                xm = rows - rows.mean(axis=-1, keepdims=True)
                Y = np.fft.fft(xm[:, None, :] * dpss[None, :, :], n=N, axis=-1)
                Sk = np.abs(Y) ** 2 / Fs                                 # (M, K, N) two-sided direct estimates
                if one:
                    Sk = np.stack([fold_two_sided(Sk[:, t, :], N) for t in range(Sk.shape[1])], axis=1)
                lo, hi = Sk.min(axis=1), Sk.max(axis=1)
                tol = 1e-9 * max(float(hi.max()), 1e-300)
                if np.any(P < lo - tol) or np.any(P > hi + tol):
                    bad.append(('range', 'adaptive estimate leaves [min_k S_k(f), max_k S_k(f)]'))
        if op != 'an_mt':
            a = m.get('scale', 1.5)
            r2 = run_impl(put_data(dict(m), a * s))
            key = 'C' if op == 'mtcsd' else 'P'
            if not rel_close(np.asarray(r2[key]), abs(a) ** 2 * np.asarray(r[key]), max(1e-6, rt) if m['adaptive'] else rt):
                bad.append(('scale', 'multitaper(a*x) != |a|^2 multitaper(x)'))
            if one and not cplx and not m['adaptive']:
                r3 = run_impl(dict(m, sides='twosided'))
                P2 = np.asarray(r3['P']).reshape(M, -1) if op == 'mtpsd' else np.array([np.asarray(r3['C'])[i, i].real for i in range(M)])
                if not rel_close(fold_two_sided(P2, N), P, rt):
                    bad.append(('fold', 'one-sided multitaper output is not the folded two-sided output'))
    elif op in ('welch', 'an_psd'):
        N = m['NFFT']
        nov = welch_overlap(m)
        win = welch_window(m)
        if op == 'welch':
            W = np.asarray(r['W'])
            d = W.reshape(1, -1) if M == 1 else np.array([W[i, i] for i in range(M)])
        else:
            d = np.asarray(r['P']).reshape(M, -1)
        if np.max(np.abs(np.imag(d))) > max(1e-12, rt * 1e-3) * max(np.max(np.abs(d)), 1e-300):
            bad.append(('not-real', 'Welch auto-density has an imaginary part'))
        d = np.real(d)
        if np.any(d < 0):
            bad.append(('negative', 'negative Welch density %g' % d.min()))
        xp = rows if n >= N else np.concatenate([rows, np.zeros((M, N - n), dtype=rows.dtype)], axis=-1)
        starts = range(0, xp.shape[-1] - N + 1, N - nov)
        seg = np.array([[(np.abs(xp[i, s0:s0 + N] * win) ** 2).sum() for s0 in starts] for i in range(M)])
        want = seg.mean(axis=-1) / (win ** 2).sum()
        if d.shape[-1] != (N // 2 + 1 if one else N):
            bad.append(('length', 'returned %d bins for NFFT=%d' % (d.shape[-1], N)))
        else:
            tot = d.sum(axis=-1) * Fs / N
            if not rel_close(tot, want, rt):
                bad.append(('parseval', 'sum(psd)*Fs/NFFT = %r, mean windowed segment power / sum(w^2) = %r' % (tot.tolist()[:3], want.tolist()[:3])))
        if op == 'welch':
            a = m.get('scale', 1.5)
            r2 = run_impl(put_data(dict(m), a * s))
            if not rel_close(np.asarray(r2['W']), abs(a) ** 2 * np.asarray(r['W']), rt):
                bad.append(('scale', 'welch(a*x) != |a|^2 welch(x)'))
    if robust:
        bad += robustness(m, r)
    return bad


def judge_skhist(m, r):
    """every output of the program f1(Sk); f2(Sk); ... must be what a fresh call on a fresh transform returns, integrate to
    the mean power (normalised outputs, transform not shorter than the signal) and the one-sided outputs must be the fold
    of the two-sided ones -- on the first use and on every later use of the same transform"""
    A = tsa()
    s = get_data(m)
    n = s.shape[-1]
    rows = s.reshape(-1, n)
    M = rows.shape[0]
    cplx = m.get('im') is not None
    N = m['Nsk']
    Fs = m['Fs']
    rt = tol_of(m, 2e-9)
    power = (np.abs(rows) ** 2).sum(axis=-1) / n
    bad = []
    for idx, (c, out) in enumerate(zip(m['calls'], r['H'])):
        kind, sides, norm = c[0], c[1], bool(c[2])
        one = (sides == 'default' and not cplx) or sides == 'onesided'
        fresh = sk_call(A, m, np.array(s), np.ascontiguousarray(np.fft.fft(s, n=N)), c)
        which = 'first' if idx == 0 else 'later'
        if not rel_close(np.asarray(out), fresh, rt):
            bad.append(('%s-use-ne-fresh' % which, 'use %d (%s) of ONE precomputed transform differs from the same call on a freshly computed transform: ratio %.6g%s'
                        % (idx, c, float(np.max(np.abs(out)) / max(float(np.max(np.abs(fresh))), 1e-300)),
                           '; the caller\'s Sk was modified' if r.get('sk_changed') else '')))
            continue
        if norm and N >= n and (not one or not cplx):
            if kind == 'c':
                d = np.array([np.asarray(out)[i, i].real for i in range(M)])
                pw = power
            elif kind == 'p':
                d, pw = np.asarray(out).reshape(M, -1), power
            else:
                d, pw = np.asarray(out).reshape(1, -1), power[c[3]:c[3] + 1]
            tot = d.sum(axis=-1) * Fs / N
            if not rel_close(tot, pw, rt):
                bad.append(('%s-use-parseval' % which, 'use %d (%s): sum(psd)*Fs/N = %r but mean |x|^2 = %r' % (idx, c, tot.tolist()[:3], pw.tolist()[:3])))
    return bad


# ------------------------------------------------------------------ robustness classes (layouts, identity-keyed caches, wrappers)
def layout_variants(s):
    """the same logical array in other memory layouts"""
    out = []
    if s.ndim >= 2:
        out.append(('fortran', np.asfortranarray(s)))
        out.append(('transposed-view', np.ascontiguousarray(s.T).T))
        big = np.zeros((2 * s.shape[0],) + s.shape[1:], dtype=s.dtype)
        big[::2] = s
        out.append(('channel-strided', big[::2]))
        out.append(('channel-negative-stride', np.ascontiguousarray(s[::-1])[::-1]))
    big = np.zeros(s.shape[:-1] + (2 * s.shape[-1] + 1,), dtype=s.dtype)
    big[..., 1::2] = s
    out.append(('time-strided', big[..., 1::2]))
    out.append(('time-negative-stride', np.ascontiguousarray(s[..., ::-1])[..., ::-1]))
    return out


def same_result(r1, r2, tol):
    for k in ('P', 'C', 'W'):
        if k in r1:
            a, b = np.asarray(r1[k]), np.asarray(r2[k])
            if a.shape != b.shape or not rel_close(a, b, tol):
                return False
    f1, f2 = r1.get('f'), r2.get('f')
    if f1 is not None and f2 is not None and (np.shape(f1) != np.shape(f2) or not np.allclose(f1, f2, rtol=1e-12, atol=0)):
        return False
    return True


def robustness(m, r):
    """classes of regressions that one call on one fresh C-contiguous array cannot show:
    memory layouts, state kept between calls on the same array object, wrappers vs direct call"""
    bad = []
    if m['op'].startswith('an_'):
        return bad
    s = get_data(m)
    tol = 1e-6 if m.get('adaptive') else 2e-9
    for name, v in layout_variants(s):
        assert np.array_equal(v, s)
        try:
            r2 = run_impl(m, v)
        except Exception as e:
            bad.append(('layout-' + name, 'raises %s on a %s array with the same contents' % (type(e).__name__, name)))
            continue
        if not same_result(r2, r, tol):
            bad.append(('layout-' + name, 'result for a %s array differs from the result for its C-contiguous copy' % name))
    # identity-keyed caches: same ndarray object, refilled in place (channels rotated, new values)
    a = np.array(s)
    run_impl(m, a)
    new = (np.roll(s, 1, axis=0) if s.ndim >= 2 and s.shape[0] > 1 else s)[..., ::-1] * 0.5 + 0.25 * np.max(np.abs(s))
    a[...] = new
    r2 = run_impl(m, a)
    r3 = run_impl(m, np.array(new))
    if not same_result(r2, r3, tol):
        bad.append(('stale-after-inplace-overwrite', 'second call on the same ndarray refilled in place differs from a call on a fresh copy of the new contents'))
    if not np.array_equal(a, new):
        bad.append(('input-modified', 'the estimator changed its input array'))
    if m.get('via'):
        rd = run_impl(dict(m, via=None))
        if not same_result({k: v for k, v in r.items() if k != 'f'}, rd, tol):
            bad.append(('wrapper-ne-direct', 'values through %s differ from the direct call with the same options' % m['via']))
    return bad


def clause_of(m):
    if m['op'] == 'skhist':
        return 'sk_history/%s/%s%s' % ({'c': 'periodogram_csd', 'p': 'periodogram', 'r': 'periodogram_row'}[m['calls'][0][0]],
                                       'reuse' if len(m['calls']) > 1 else 'single', '/scribble' if m.get('scribble') else '')
    if m['op'] == 'tapers':
        return 'taper_provider/history'
    return clause_base(m) + tag_of(m)


def clause_base(m):
    s = get_data(m)
    n = s.shape[-1]
    cplx = m.get('im') is not None
    op = m['op']
    one = eff_onesided(m) if op not in ('welch', 'an_psd', 'an_mt', 'an_periodogram') else not cplx
    N = eff_nfft(m, n) if op not in ('welch', 'an_psd') else m['NFFT']
    name = {'periodogram': 'periodogram', 'pcsd': 'periodogram_csd', 'mtpsd': 'multi_taper_psd', 'mtcsd': 'multi_taper_csd',
            'welch': 'welch', 'an_psd': 'an_psd', 'an_periodogram': 'an_periodogram', 'an_mt': 'an_mt'}[op]
    if op in ('mtpsd', 'mtcsd', 'an_mt'):
        name += '/adaptive' if m['adaptive'] else '/fixed'
    return '%s/%s/%s%s' % (name, 'onesided' if one else 'twosided', 'padded' if N > n else 'nopad', ('/via-' + m['via']) if m.get('via') else '')


# ------------------------------------------------------------------ generators
# Stratified + adversarial: the i-th case of a kind fixes the parity of n, the NFFT mode (None, n, other parity,
# same parity, 2n, 2n+1, far), the amplitude decade (1e-9 .. 1e6), a non-zero mean relative to the amplitude and the
# channel layout by cycling through tables (co-prime periods), so every combination that a regression may need
# (odd n with even NFFT, single channel with NFFT != n, >= 4 channels, n_overlap = 0, complex data, tiny / huge
# amplitudes with an offset, coherent channels with different spectra, non-second units) occurs in every run;
# the remaining choices are random.
AMPS = [1.0, 1e-9, 1e3, 1e-6, 1e6, 1e-3, 30.0]
MEANS = [0.0, 1.0, -2.5, 0.0, 10.0]
NFFT_MODES = ['none', 'n', 'other-parity', 'same-parity', '2n', '2n+1', 'far']


def gen_signal(rng, nr, shape, cplx, i=None, coherent=False):
    n = shape[-1]
    i = rng.randrange(10**6) if i is None else i
    kind = rng.random()
    if coherent and len(shape) >= 2:
        # strongly coherent channels with different spectra: one common source through different short filters
        src = np.cumsum(nr.standard_normal(n + 8)) * 0.2 + nr.standard_normal(n + 8)
        M = int(np.prod(shape[:-1]))
        rows = []
        for c in range(M):
            ker = np.array([1.0, rng.uniform(-0.9, 0.9), rng.uniform(-0.5, 0.5), rng.uniform(-0.3, 0.3)]) * rng.uniform(0.3, 3)
            rows.append(np.convolve(src, ker, mode='full')[4:4 + n] + 0.05 * nr.standard_normal(n))
        s = np.array(rows).reshape(shape)
    elif kind < 0.55:
        s = nr.standard_normal(shape)
    elif kind < 0.8:
        t = np.arange(n)
        s = np.sin(2 * np.pi * rng.uniform(0.02, 0.45) * t + rng.uniform(0, 6)) * rng.uniform(0.5, 3) + 0.3 * nr.standard_normal(shape)
    else:
        s = np.cumsum(nr.standard_normal(shape), axis=-1) * 0.3
    amp = AMPS[i % len(AMPS)]
    s = (s + MEANS[(i // 2) % len(MEANS)]) * amp
    if cplx:
        s = s + 1j * nr.standard_normal(shape) * rng.choice([1.0, 0.1]) * amp
    return s


def gen_fs(rng):
    return rng.choice([2 * math.pi, 1.0, 10.0 ** rng.uniform(-2, 4), 10.0 ** rng.uniform(-2, 4)])


def gen_shape(rng, n, maxch=5, allow_1d=True, i=None):
    i = rng.randrange(10**6) if i is None else i
    lay = i % 6
    if lay == 0 and allow_1d:
        return (n,)
    if lay == 1:
        return (1, n)                                   # single channel, 2-d
    if lay == 2:
        return (rng.randint(4, max(4, maxch)), n)       # >= 4 channels
    if lay == 3:
        return (rng.randint(1, 2), rng.randint(2, 3), n)    # extra leading dimension
    return (rng.randint(2, max(2, maxch)), n)


def gen_nfft(rng, n, i=None):
    mode = NFFT_MODES[(rng.randrange(7) if i is None else i // 2) % 7]
    return {'none': None, 'n': n, 'other-parity': n + rng.choice([1, 3, 7]), 'same-parity': n + rng.choice([2, 4, 10]),
            '2n': 2 * n, '2n+1': 2 * n + 1, 'far': n + rng.randint(11, 40)}[mode]


def gen_n(rng, lo, hi, i):
    n = rng.randint(lo, hi)
    if i is not None and n % 2 != i % 2:
        n += 1
    return n


HIST_OPS = {'h_mt': ['mtpsd', 'mtcsd', 'an_mt', 'mtpsd', 'mtcsd'], 'h_call': ['periodogram', 'pcsd', 'mtpsd', 'mtcsd', 'welch', 'an_periodogram']}


def gen_meta(rng, nr, tier, kind, i=None, nfix=None):
    big = tier == 'thorough'
    nmax = 160 if big else 48
    i = rng.randrange(10**6) if i is None else i
    if kind in ('xperiodogram', 'xpcsd', 'xwelch'):
        return gen_exact(rng, nr, kind, i)
    if kind.startswith('h_') or kind == 'tapers':
        return gen_history(rng, nr, tier, kind, i, nmax)
    if kind in ('periodogram', 'pcsd'):
        n = nfix or gen_n(rng, 8, nmax, i)
        cplx = (i % 11) in (2, 5, 8)
        shape = gen_shape(rng, n, maxch=6, allow_1d=(kind == 'periodogram'), i=i // 3)
        m = {'op': kind, 'Fs': gen_fs(rng), 'NFFT': gen_nfft(rng, n, i), 'sides': ['default', 'onesided', 'twosided', 'default'][(i // 5) % 4],
             'scale': rng.choice([1.5, -2.0, 0.25, 3.0])}
        if cplx and m['sides'] == 'onesided' and rng.random() < 0.7:
            m['sides'] = 'default'
        nm = [None, None, None, False, None, True][(i // 2) % 6]
        if nm is not None:
            m['normalize'] = nm
        if kind == 'periodogram' and i % 19 == 7:
            m['NFFT'] = 0               # `N = s.shape[-1] if not N else N`: an explicit 0 means n
        if kind == 'pcsd':
            m['via'] = VIAS[(i // 4) % len(VIAS)]
            if m['via'] == 'get_spectra_bi':
                shape = (2, n)
        return put_data(m, gen_signal(rng, nr, shape, cplx, i=i // 7))
    if kind in ('mtpsd', 'mtcsd'):
        n = nfix or gen_n(rng, 16, nmax, i)
        cplx = (i % 11) in (2, 5, 8)
        shape = gen_shape(rng, n, maxch=5 if kind == 'mtcsd' else 4, allow_1d=(kind == 'mtpsd'), i=i // 3)
        Fs = gen_fs(rng)
        m = {'op': kind, 'Fs': Fs, 'NFFT': gen_nfft(rng, n, i), 'sides': ['default', 'onesided', 'twosided', 'default'][(i // 5) % 4],
             'adaptive': (i % 5) in (1, 3), 'low_bias': (i % 3) != 0, 'scale': rng.choice([1.5, -2.0, 0.25, 1e4, 1e-4])}
        if cplx and m['sides'] == 'onesided':
            m['sides'] = 'default'
        if rng.random() < 0.3:
            m['BW'] = rng.choice([4, 5, 6, 8]) * Fs / n
            m['NW'] = None
        else:
            m['NW'] = rng.choice([2, 2.5, 3, 4, None])
            m['BW'] = None
        if i % 17 == 3:
            m['NFFT'] = [0, n - 5, n // 2][(i // 17) % 3]       # documented: NFFT < n is not allowed and means n
        if i % 13 == 6:
            # both given: BW wins (the NW passed along must be ignored)
            m['BW'], m['NW'] = rng.choice([4, 6]) * Fs / n, rng.choice([2, 3.5])
        if kind == 'mtcsd':
            m['via'] = VIAS_MT[(i // 4) % len(VIAS_MT)]
            if m['via'] == 'get_spectra_bi':
                shape = (2, n)
            elif m['via'] == 'mtm-direct':
                shape = (rng.randint(1, 3), n)
                to_mtm_direct(m)
        return put_data(m, gen_signal(rng, nr, shape, cplx, i=i // 7, coherent=(m['adaptive'] and i % 2 == 1)))
    if kind == 'welch':
        Ns = [8, 9, 12, 15, 16, 21, 32] + ([64, 63] if big else [])
        N = Ns[i % len(Ns)]
        n = [rng.randint(max(4, N // 2), N - 1), rng.randint(N, 4 * N), rng.randint(2 * N, 6 * N), N, 2 * N + 1][(i // 2) % 5]
        cplx = (i % 11) in (2, 5, 8)
        M = [1, 2, 3, 4, 5, 1][(i // 3) % 6]
        shape = (n,) if M == 1 else (M, n)
        m = {'op': 'welch', 'Fs': gen_fs(rng), 'NFFT': N, 'sides': 'default',
             'n_overlap': [None, 0, 1, N // 2, N - 1, rng.randint(0, N - 1)][(i // 5) % 6],
             'window': rng.choice([None, None, [float(v) for v in np.ones(N)], [float(v) for v in np.hamming(N)]]),
             'scale': rng.choice([1.5, -2.0, 0.25])}
        m['via'] = [None, None, 'get_spectra_bi', 'CoherenceAnalyzer', None, 'SpectralAnalyzer.cpsd'][(i // 4) % 6]
        if m['via'] == 'get_spectra_bi':
            shape = (2, n)
        elif m['via'] == 'CoherenceAnalyzer':
            if M == 1:
                shape = (2, n)
            if m['n_overlap'] is None:
                m['n_overlap'] = N // 2     # the analyzer's own default overlap (32) ignores NFFT
        elif m['via'] == 'SpectralAnalyzer.cpsd':
            m['unit'] = UNITS_TS[i % len(UNITS_TS)]
        # L3: the optional keys of the Welch method dictionary in all their accepted forms
        if m['window'] is not None:
            m['window_kind'] = [None, 'float32', 'int', 'callable'][(i // 2) % 4]
        if i % 5 == 2:
            m['detrend_key'] = True
        if m['via'] is None and i % 9 == 4:
            m['no_this_method'] = True
        if m['via'] is None and i % 17 == 5:
            # get_spectra(x) with method=None: every default of the Welch branch (NFFT 64, Fs 2 pi, hanning, overlap 32)
            m.update(method_none=True, NFFT=64, Fs=2 * math.pi, n_overlap=None, window=None)
            for k in ('window_kind', 'detrend_key', 'no_this_method'):
                m.pop(k, None)
            shape = shape[:-1] + (rng.randint(40, 150),)
        return put_data(m, gen_signal(rng, nr, shape, cplx, i=i // 7))
    if kind == 'an_psd':
        N = [8, 9, 16, 21, 32][i % 5]
        n = rng.randint(N // 2 + 2, 5 * N)
        cplx = (i % 4) == 3
        shape = [(n,), (rng.randint(1, 4), n), (2, 2, n)][(i // 2) % 3]
        m = {'op': 'an_psd', 'Fs': gen_fs(rng), 'NFFT': N, 'sides': 'default', 'n_overlap': [None, 0, N // 2, N - 2][(i // 3) % 4],
             'unit': UNITS_TS[i % len(UNITS_TS)]}
        # L3: window / detrend keys, a spec without 'Fs' / 'this_method'
        if i % 3 == 1:
            m['window'] = [float(v) for v in (np.hamming(N) if i % 2 else np.ones(N))]
            m['window_kind'] = [None, 'callable', 'int', 'float32'][(i // 3) % 4]
        if i % 4 == 2:
            m['detrend_key'] = True
        if i % 2 == 0:
            m['no_fs_key'] = True
        if i % 5 == 3:
            m['no_this_method'] = True
        return put_data(m, gen_signal(rng, nr, shape, cplx, i=i // 7))
    if kind == 'an_periodogram':
        n = gen_n(rng, 8, nmax, i)
        cplx = (i % 4) == 3
        m = {'op': 'an_periodogram', 'Fs': gen_fs(rng), 'NFFT': None, 'sides': 'default', 'unit': UNITS_TS[i % len(UNITS_TS)]}
        return put_data(m, gen_signal(rng, nr, gen_shape(rng, n, 4, i=i // 2), cplx, i=i // 7))
    if kind == 'an_mt':
        n = nfix or gen_n(rng, 16, nmax, i)
        cplx = False
        Fs = gen_fs(rng)
        m = {'op': 'an_mt', 'Fs': Fs, 'NFFT': None, 'sides': 'default', 'adaptive': (i % 5) in (1, 3),
             'low_bias': (i % 2) == 0, 'BW': [None, 5 * Fs / n, 8 * Fs / n][(i // 2) % 3], 'NW': None, 'unit': UNITS_TS[i % len(UNITS_TS)]}
        shape = [(n,), (rng.randint(1, 3), n)][(i // 3) % 2]
        return put_data(m, gen_signal(rng, nr, shape, cplx, i=i // 7))
    raise ValueError(kind)


DTYPE_CYCLE = ['int16', 'float32', 'int64', 'uint8', 'int32', 'complex64', 'bigendian', 'readonly']


def with_dtype(m, k):
    """L1: the same kind of recording stored as int16 / int32 / int64 / uint8 / float32 / complex64 / big-endian / read-only;
    the recorded data are the typed array converted back to float64 (exact), from which model and oracle compute"""
    import histories
    x = get_data(m)
    fam = histories.dtype_family(x, kinds=(k,))
    if not fam:
        return m
    v = np.asarray(fam[0][1])
    put_data(m, v.astype(complex) if np.iscomplexobj(v) else v.astype(float))
    m['dtype'] = k
    if k == 'complex64' and m.get('sides') == 'onesided':
        m['sides'] = 'default'
    return m


_HIST_N = [0]


def fresh_n(nmax):
    """a signal length no ordinary case uses (ordinary n <= nmax + 1) and no other history case used: keys of module-level
    caches are then untouched when the history starts, whatever ran before in this process"""
    _HIST_N[0] += 1
    # (wraps after 60 lengths to bound the cost of the O(N^2) model transform in thorough runs; a repeated length can only
    # hide a history effect in a later case, never create one)
    return nmax + 3 + (_HIST_N[0] % 60)


def gen_history(rng, nr, tier, kind, i, nmax):
    if kind == 'h_sk':
        n = gen_n(rng, 8, min(nmax, 40), i)
        cplx = (i % 7) == 3
        skk = SK_KINDS[i % len(SK_KINDS)]
        shape = (2, 2, n) if skk == '3d' else [(1, n), (2, n), (3, n), (4, n)][(i // 2) % 4]
        M = int(np.prod(shape[:-1]))
        Nsk = [n, n + 1, n + 4, 2 * n, n, n + 7, max(4, n - 3)][(i // 3) % 7]
        sd = ['default', 'twosided', 'onesided', 'default']
        L = [2, 3, 1, 2, 4][i % 5]
        calls = []
        for j in range(L):
            k = ['c', 'c', 'p', 'r'][(i + 3 * j) % 4] if j else ['c', 'c', 'p'][i % 3]
            side = sd[(i // 2 + j) % 4]
            if cplx and side == 'onesided':
                side = 'default'
            norm = not ((i + j) % 6 == 5)
            calls.append([k, side, norm] + ([rng.randrange(M)] if k == 'r' else []))
        m = {'op': 'skhist', 'Fs': gen_fs(rng), 'Nsk': Nsk, 'calls': calls, 'sk_kind': skk if skk != '3d' else 'c128', 'scribble': i % 3 == 0,
             'sides': 'default'}
        return put_data(m, gen_signal(rng, nr, shape, cplx, i=i // 7))
    if kind == 'tapers':
        n = fresh_n(nmax)
        nw4 = [8, 10, 12, 16, 9, 14][i % 6]
        K = int(2 * nw4 / 4.0)
        frm = [n // 2, n // 3 + 3, n - 5][i % 3]
        kk = (i // 2) % len(INTERP_KINDS)
        a, b, c = [n, nw4, K, frm, kk], [n, nw4, K, 0, 0], [n, [12, 8, 10][i % 3] if nw4 != [12, 8, 10][i % 3] else 16, 4, 0, 0]
        bad_req = [n, nw4, K, n + 4, 0]          # refused: interp_from > N
        reqs = [[a, b], [b, a], [a, c, b], [c, a, b, b], [b, c, a, a, b], [a, a, b], [bad_req, b, a], [a, bad_req, b]][(i // 3) % 8]
        return {'op': 'tapers', 'reqs': reqs, 'Fs': 1.0, 'sides': 'default', 'shape': [1], 're': [1.0], 'im': None}
    if kind == 'h_mt':
        op = HIST_OPS['h_mt'][i % len(HIST_OPS['h_mt'])]
        n = fresh_n(nmax)
        m = gen_meta(rng, nr, tier, op, i=i, nfix=n)
        if op == 'mtcsd':
            m['via'] = [None, 'get_spectra'][i % 2] if m['shape'][0] != 2 or len(m['shape']) != 2 else m['via']
        NW, K = mt_params(dict(m, Fs=m['Fs']), n)
        frm = [n // 2, n // 3 + 4, n - 3][(i // 2) % 3]
        steps = [['dpss', n, float(NW), int(K), int(frm), INTERP_KINDS[(i // 3) % len(INTERP_KINDS)]]]
        if i % 3 == 1:
            steps.insert(0, ['dpss', n, float(NW) + 0.5, int(K) + 1, 0, 'linear'])
        if i % 4 == 2:
            steps.append(['tapered_spectra', [2, n], float(NW), int(K), bool(i % 8 == 2)])
        if i % 2 == 0:
            # L7: calls the library refuses, on the judged (n, NW, Kmax) or unrelated, before everything else
            steps.insert(0, ['refused', 'dpss-interp-too-long', [n, float(NW), int(K)]])
            steps.append(['refused', ['mt-NW-too-large', 'mtm-shape-mismatch'][(i // 2) % 2], [n]])
        m['hist'] = steps
        return m
    if kind == 'h_call':
        op = HIST_OPS['h_call'][i % len(HIST_OPS['h_call'])]
        if op in ('welch', 'an_periodogram'):
            m = gen_meta(rng, nr, tier, op, i=i)
            if op == 'welch' and not m.get('method_none'):
                # same NFFT, same n, same layout: other window / overlap, other data
                N = m['NFFT']
                mv = dict(m)
                mv['window'] = [float(v) for v in np.hamming(N)] if m.get('window') is None else None
                mv.pop('window_kind', None)
                mv['n_overlap'] = 0 if welch_overlap(m) != 0 else N // 2
                put_data(mv, get_data(m)[..., ::-1] * 0.5 + 1.0)
            else:
                mv = gen_meta(rng, nr, tier, op, i=i + 1)
        else:
            n = fresh_n(nmax)
            m = gen_meta(rng, nr, tier, op, i=i, nfix=n)
            mv = gen_meta(rng, nr, tier, op, i=i + 5, nfix=n)
            if op in ('mtpsd', 'mtcsd'):
                # the variant differs in what a sloppy cache key would forget: low_bias, adaptive, sides, NFFT -- same n, NW
                mv['NW'], mv['BW'] = m.get('NW'), m.get('BW')
                if m.get('BW') is not None:
                    mv['Fs'] = m['Fs']
                mv['low_bias'] = not m.get('low_bias', True)
                mv['adaptive'] = not m['adaptive']
        mv.pop('hist', None)
        m['hist'] = [['call', mv]]
        if i % 3 == 1:
            m['hist'].append(['refused', ['get_spectra-unknown-method', 'welch-overlap-ge-NFFT', 'pcsd-Sk-list'][(i // 3) % 3], []])
        m['twice'] = i % 2 == 0
        return m
    if kind == 'h_an':
        op = ['an_psd', 'welch'][i % 2]
        m = gen_meta(rng, nr, tier, op, i=(i // 2) * 24 + (20 if op == 'welch' else 0))
        if op == 'welch':
            m['via'] = 'SpectralAnalyzer.cpsd'
            m['unit'] = UNITS_TS[i % len(UNITS_TS)]
            m.pop('no_this_method', None)
        if i % 4 == 3:
            # the same TimeSeries object analysed before with other contents, refilled in place, NEW analyzer
            m['ts_reuse'] = True
            m.pop('method_none', None)
            return m
        m['shared'] = {'ratio': [2.0, 0.5, 10.0][i % 3],
                       'who': [['coherence-ctor'], ['cpsd'], ['coherence-spectrum', 'psd'], ['psd', 'coherence-ctor']][(i // 2) % 4]}
        if i % 5 == 2:
            # every analyzer built with method=None (class-level / module-level default dicts)
            m.update(method_none=True, NFFT=64, n_overlap=None, window=None)
            for k in ('window_kind', 'detrend_key', 'no_this_method', 'no_fs_key'):
                m.pop(k, None)
            m['shared']['who'] = [w for w in m['shared']['who'] if not w.startswith('coherence')] or ['psd', 'cpsd']
            return m
        m.pop('no_fs_key', None)
        if m.get('n_overlap') is None:
            # CoherenceAnalyzer writes its own default overlap (32, whatever NFFT) into the caller's dict: keep the spec valid
            m['n_overlap'] = m['NFFT'] // 2
        return m
    raise ValueError(kind)


MIX = {'quick': [('periodogram', 160), ('pcsd', 100), ('mtpsd', 90), ('mtcsd', 60), ('welch', 100), ('an_psd', 30), ('an_periodogram', 25), ('an_mt', 25),
                 ('xperiodogram', 60), ('xpcsd', 40), ('xwelch', 60),
                 ('periodogram@dtype', 40), ('pcsd@dtype', 32), ('mtpsd@dtype', 32), ('mtcsd@dtype', 24), ('welch@dtype', 32), ('an_psd@dtype', 16),
                 ('an_periodogram@dtype', 16), ('an_mt@dtype', 24),
                 ('an_psd@rt', 40), ('welch@rt', 20), ('an_periodogram@rt', 20), ('an_mt@rt', 20),
                 ('pcsd@lab', 12), ('mtcsd@lab', 10), ('welch@lab', 14), ('mtpsd@lab', 8), ('periodogram@lab', 8), ('an_psd@lab', 6), ('an_mt@lab', 6),
                 ('h_sk', 70), ('h_mt', 30), ('h_call', 36), ('h_an', 16), ('tapers', 12)],
       'thorough': [('periodogram', 900), ('pcsd', 500), ('mtpsd', 400), ('mtcsd', 250), ('welch', 500), ('an_psd', 120), ('an_periodogram', 100), ('an_mt', 100),
                    ('xperiodogram', 400), ('xpcsd', 300), ('xwelch', 400),
                    ('periodogram@dtype', 200), ('pcsd@dtype', 160), ('mtpsd@dtype', 120), ('mtcsd@dtype', 96), ('welch@dtype', 160), ('an_psd@dtype', 64),
                    ('an_periodogram@dtype', 64), ('an_mt@dtype', 64),
                    ('an_psd@rt', 240), ('welch@rt', 120), ('an_periodogram@rt', 120), ('an_mt@rt', 120),
                    ('pcsd@lab', 60), ('mtcsd@lab', 50), ('welch@lab', 70), ('mtpsd@lab', 40), ('periodogram@lab', 40), ('an_psd@lab', 30), ('an_mt@lab', 30),
                    ('h_sk', 350), ('h_mt', 120), ('h_call', 150), ('h_an', 64), ('tapers', 48)]}


def gen_all(rng, tier, seed, pid=PID, mix=None):
    nr = common.np_rng(pid, seed, 'signals')
    out = []
    off = rng.randrange(10**4)
    _HIST_N[0] = 0
    for kind, cnt in (mix or MIX)[tier]:
        for i in range(cnt):
            m = gen_meta(rng, nr, tier, kind.split('@')[0], i=off + i)
            if m.get('via') == 'get_spectra_bi' and (off + i) % 3 != 0 and not m.get('hist'):
                # L8: get_spectra_bi(x, x) / get_spectra_bi(x, x[::-1]): the expectation is the one for independent equal-valued arrays
                x = get_data(m)
                m['alias'] = ['same', 'reversed-view'][(off + i) % 2]
                x[1] = x[0] if m['alias'] == 'same' else x[0][::-1]
                put_data(m, x)
            if '@dtype' in kind:
                m = with_dtype(m, DTYPE_CYCLE[(off + i) % len(DTYPE_CYCLE)])
            if '@lab' in kind or '@rt' in kind:
                m = with_distinct_channels(m, rng, i, min_channels=1 if '@rt' in kind else 3)
            if '@rt' in kind:
                m = with_retarget(m, i)
            out.append(m)
    return out


RT_RATIOS = [0.5, 2.0, 3.7, 0.1, 1.0]
RT_PRE = [[], ['@'], list(GETTERS), ['cpsd'], ['psd'], ['spectrum_fourier', '@']]
RT_MID = [[], ['cpsd'], ['psd'], ['periodogram', 'spectrum_multi_taper'], list(GETTERS), list(reversed(GETTERS)), ['spectrum_fourier', 'cpsd'], ['psd', 'cpsd'],
          ['spectrum_fourier'], ['cpsd', 'psd', 'spectrum_fourier']]
RT_HOW = ['set_input', 'set_input', 'set_input+reset', 'set_input-twice']


def with_retarget(m, i):
    """DETERMINISTIC enumeration (by the case index) of analyzer re-target sequences: ratio of the two sampling rates x length of the first
    recording x what was read before set_input x which OTHER getters are read, in which order, before the judged one x set_input /
    set_input + reset / set_input twice; the rate a method dict carries is the judged series' or the first one's"""
    op = 'welch' if m['op'] == 'welch' else m['op']
    if op == 'welch':
        m['via'] = 'SpectralAnalyzer.cpsd'
        m.setdefault('unit', 's')
    for k in ('shared', 'ts_reuse', 'twice', 'hist', 'method_none', 'alias'):
        m.pop(k, None)
    j = JUDGED_GETTER[op]
    n = m['shape'][-1]
    sub = lambda l: [j if g == '@' else g for g in l]
    m['retarget'] = {'ratio': RT_RATIOS[i % len(RT_RATIOS)], 'n0': [n, n + 5, max(8, n // 2 + 3), 2 * n + 1][(i // 2) % 4],
                     'pre': sub(RT_PRE[(i // 3) % len(RT_PRE)]), 'mid': [g for g in RT_MID[i % len(RT_MID)] if g != j],
                     'how': RT_HOW[(i // 5) % len(RT_HOW)], 'dict_fs': ['judged', 'first'][(i // 7) % 2]}
    return m


def with_distinct_channels(m, rng, i, min_channels=3):
    """every channel its own spectrum: own scale (1 + c/2) and own dominant frequency -- a value attributed to the wrong channel / the
    wrong (i, j) role is then far from what Parseval / the model expect for that channel"""
    s = get_data(m)
    m.pop('alias', None)           # the rows are made different below: one array in both roles is the subject of the alias cases
    if s.ndim == 1 or int(np.prod(s.shape[:-1])) < min_channels:
        if m.get('via') in ('get_spectra_bi', 'mtm-direct') or m['op'] in ('periodogram', 'mtpsd') and s.ndim == 1 and min_channels == 1:
            rows = s.reshape(-1, s.shape[-1])
        else:
            M = [3, 4, 5, 2, 6][i % 5] if min_channels > 1 else [1, 3, 4, 2][i % 4]
            rows = np.array([np.roll(s.reshape(-1, s.shape[-1])[c % max(1, s.reshape(-1, s.shape[-1]).shape[0])], 3 * c) for c in range(M)])
    else:
        rows = s.reshape(-1, s.shape[-1])
    M, n = rows.shape
    t = np.arange(n)
    amp = float(np.sqrt(np.mean(np.abs(rows) ** 2))) or 1.0
    rows = np.array([(1 + 0.5 * c) * rows[c] + amp * (1 + 0.5 * c) * np.sin(2 * np.pi * (c + 1.0) / (2.0 * (M + 1.0)) * t + 0.7 * c) for c in range(M)])
    if s.ndim >= 3 and int(np.prod(s.shape[:-1])) == M:
        rows = rows.reshape(s.shape)
    elif s.ndim == 1 and M == 1:
        rows = rows[0]
    m['distinct'] = True
    return put_data(m, rows)



# ------------------------------------------------------------------ analyzer sessions against the session model (op `ansess`)
AN_TOK = {'psd': 'psd', 'cpsd': 'cpsd', 'periodogram': 'periodogram', 'spectrum_multi_taper': 'mt', 'spectrum_fourier': 'fourier'}
SESS_RATES = [100, 250, 8, 1000, 50]


def ansess_scenarios():
    """DETERMINISTIC: method argument {None, dict without 'Fs', dict with an 'Fs' of its own} x event programs that read the five getters in
    every rotation before / after set_input to series of other rates and lengths, with reset"""
    G = list(GETTERS)
    progs = []
    for r in range(5):
        rot = G[r:] + G[:r]
        progs.append([('read', rot[0]), ('set', 1), ('read', rot[0])] + [('read', g) for g in rot[1:]])
        progs.append([('set', 1)] + [('read', g) for g in rot])
        progs.append([('read', g) for g in rot[:2]] + [('set', 2), ('reset',), ('read', rot[1]), ('set', 3), ('read', rot[0]), ('read', rot[1])])
    progs.append([('read', 'psd'), ('reset',), ('read', 'psd'), ('set', 4), ('set', 1), ('read', 'cpsd'), ('read', 'psd')])
    out = []
    for k, pr in enumerate(progs):
        out.append({'op': 'ansess', 'method': ['none', 'nofs', 7][k % 3], 'prog': [list(e) for e in pr], 'rate0': SESS_RATES[k % 5], 'k': k})
    return out


def run_ansess(sc):
    import nitime.timeseries as ts
    from nitime.analysis import SpectralAnalyzer
    k = sc['k']
    rates = [sc['rate0']] + [SESS_RATES[(k + j) % 5] for j in range(1, 5)]
    lens = [40, 33, 52, 47, 36]

    def series(j):
        n = lens[(j + k) % 5]
        t = np.arange(n)
        return ts.TimeSeries(np.array([(1 + c) * np.sin(2 * np.pi * (c + 1) / 7.0 * t + j) + 0.1 * np.cos(0.9 * t) for c in range(2)]), sampling_rate=float(rates[j]))
    meth = None if sc['method'] == 'none' else {'this_method': 'welch', 'NFFT': 16} if sc['method'] == 'nofs' else {'this_method': 'welch', 'NFFT': 16, 'Fs': float(sc['method'])}
    NFFT = 64 if meth is None else 16
    S = [series(j) for j in range(5)]
    an = SpectralAnalyzer(S[0], method=meth, BW=None)
    toks, line = [], []
    for e in sc['prog']:
        if e[0] == 'set':
            an.set_input(S[e[1]])
            line.append('s%d:%d' % (rates[e[1]], e[1]))
        elif e[0] == 'reset':
            an.reset()
            line.append('r')
        else:
            g = e[1]
            line.append(AN_TOK[g])
            f = np.asarray(getattr(an, g)[0], dtype=float)
            held = [j for j in range(5) if an.input is S[j]][0]
            n = S[held].data.shape[-1]
            used = f[1] * (NFFT if g in ('psd', 'cpsd') else n)
            cand = sorted(set(rates) | ({float(sc['method'])} if isinstance(sc['method'], (int, float)) else set()), key=lambda r: abs(r - used))
            rate = cand[0] if abs(cand[0] - used) <= 1e-6 * max(1.0, abs(used)) else used
            toks.append('%s:%d@%s' % (AN_TOK[g], held, ('%d' % rate) if float(rate).is_integer() else repr(float(rate))))
    um = sc['method'] if sc['method'] in ('none', 'nofs') else str(sc['method'])
    return 'C04 ansess %s %d %s' % (um, sc['rate0'], ' '.join(line)), ' '.join(toks) or 'none'


def ansess_cases():
    out = []
    for sc in ansess_scenarios():
        try:
            line, impl = run_ansess(sc)
        except Exception as e:
            line, impl = 'C04 ansess none 1', 'err ' + common.err_kind(e)
        out.append(Case(line, impl, 'analyzer_session/rate-used', meta=None))
    return out

def block_cases(seed):
    """round 4 (L9) correspondence of Model/C04Block.lean: `blockfold` = the block-wise one-sided assembly (lower bound offset by
    the block start) of the model applied to the implementation's TWO-sided density must be the implementation's ONE-sided
    density, for several block sizes; `blockrows` = the rows filled by ceil(M/rows) blocks of `rows` rows must be the rows of
    utils.tapered_spectra's result that hold the transform of their channel (sizes above a 2^18-value cap)"""
    import c04big
    out = []
    rs = np.random.RandomState(4242 + int(seed))
    k = 0
    for n, N in [(9, 16), (12, 12), (7, 21), (16, 34), (20, 20), (5, 10), (31, 64)]:
        x = rs.randn(n) + 0.5
        for est in ('periodogram', 'multi_taper_psd'):
            if est == 'periodogram':
                P2 = np.asarray(tsa().periodogram(x, Fs=1.5, N=N, sides='twosided')[1])
                P1 = np.asarray(tsa().periodogram(x, Fs=1.5, N=N, sides='onesided')[1])
            else:
                if n < 9:
                    continue
                kw = dict(Fs=1.5, NW=2, low_bias=False, adaptive=False, jackknife=False, NFFT=N)
                P2 = np.asarray(tsa().multi_taper_psd(x, sides='twosided', **kw)[1])
                P1 = np.asarray(tsa().multi_taper_psd(x, sides='onesided', **kw)[1])
            for b in sorted({1, 2, 3 + k % 3, max(1, N // 4), N // 2, N // 2 + 1, N, 0}):
                out.append(Case('%s blockfold %d %d %s' % (PID, N, b, flist(P2)), ok_f(P1), 'blockfold/%s' % est, cmp=cmp_vec(1e-12), meta=None))
            k += 1
    for (M, n, N, NW, lb) in [(3, 256, 2 ** 14, 4, True), (5, 200, 2 ** 13, 4, True), (7, 64, 2 ** 14, 2, False)][int(seed) % 3:][:2]:
        dpss, eig = c04big.ref_tapers(n, NW, lb)
        x = rs.randn(M, n) + 0.25
        T = np.asarray(utils().tapered_spectra(x, np.array(dpss), NFFT=N)).reshape(M, len(eig), N)
        R = c04big.ref_tapered(x, dpss, N)
        rows_ok = [i for i in range(M) if c04big.entry_close(T[i], R[i], 1e-8) is None]
        rows = max(1, min(M, 2 ** 18 // max(1, len(eig) * N)))
        out.append(Case('%s blockrows %d %d' % (PID, M, rows), 'ok ' + ','.join(str(i) for i in rows_ok), 'blockrows/tapered_spectra', meta=None))
    for M in range(1, 8):
        rows = 1 + (M + int(seed)) % (M + 1)
        out.append(Case('%s blockrows %d %d' % (PID, M, rows), 'ok ' + ','.join(str(i) for i in range(M)), 'blockrows/all-rows', meta=None))
    return out


_RES = {}
SKIPPED = {}


def cases(rng, tier, seed):
    import warnings, io, contextlib
    out = []
    _RES.clear()
    SKIPPED.clear()
    with warnings.catch_warnings(), contextlib.redirect_stdout(io.StringIO()):
        warnings.simplefilter('ignore')
        for m in gen_all(rng, tier, seed):
            try:
                r = run_impl(m)
            except Exception as e:  # an estimator that raises on a valid configuration
                if m['op'] in ('mtpsd', 'mtcsd', 'an_mt'):
                    try:
                        mt_tapers(dict(m, low_bias=False), m['shape'][-1])
                    except Exception:
                        # the taper computation itself fails (e.g. dpss_windows(19, 4, 8): ZeroDivisionError
                        # in tridisolve) -- that is C07's subject, the estimator never ran: skipped, counted
                        SKIPPED['taper-computation-raises'] = SKIPPED.get('taper-computation-raises', 0) + 1
                        continue
                out.append(Case('%s raises' % PID, 'err ' + common.err_kind(e), clause_of(m), meta=m))
                continue
            cs = make_cases(m, r)
            for c in cs:
                if c.meta is not None:
                    _RES[id(c)] = (r, cs)
            out += cs
        out += ansess_cases()
        out += block_cases(seed)
    return out


def oracle(rng, tier, seed, focus, cases=None):
    import warnings, io, contextlib
    fails, n, checks = [], 0, 0
    with warnings.catch_warnings(), contextlib.redirect_stdout(io.StringIO()):
        warnings.simplefilter('ignore')
        for c in (cases or []):
            if c.meta is None:
                continue
            n += 1
            m = c.meta
            if c.impl.startswith('err'):
                fails.append(Failure(clause_of(m) + '/raises', 'estimator raised %s on a valid configuration' % c.impl, {'meta': m}, case=c))
                continue
            r, group = _RES.get(id(c), (None, [c]))
            for sym, what in judge(m, r):
                for g in group:     # every protocol line of this operation shares the judgement
                    fails.append(Failure('%s/%s' % (clause_of(m), sym), '%s: %s' % (clause_of(m), what),
                                         {'meta': m, 'symptom': sym}, case=g))
            checks += 1
        # round 4: oracle-only families (L9 size thresholds, every even N for the Nyquist bin, L10 extreme / lopsided magnitudes);
        # no model line (the model's naive DFT is O(N^2)); judged against the definition computed by plain numpy
        import c04big
        bigf, bigcnt = c04big.run_pool(PID, tier, seed)
        for key, what, spc in bigf:
            fails.append(Failure(key, what, {'big': spc, 'key': key}))
    return fails, {'judged': n, 'failed': len(fails), 'focus': len(focus), 'skipped': dict(SKIPPED), 'oracle_only': bigcnt}


def replay(d):
    import warnings, io, contextlib
    if d.get('big') is not None:
        import c04big
        res = c04big.judge(d['big'])
        for key, what in res:
            if d.get('key') is None or key == d['key']:
                return Failure(key, what, d)
        return None
    m = d['meta']
    with warnings.catch_warnings(), contextlib.redirect_stdout(io.StringIO()):
        warnings.simplefilter('ignore')
        try:
            res = judge(m)
        except Exception as e:
            return Failure(clause_of(m) + '/raises', 'estimator raised %r' % (e,), d)
    want = d.get('symptom')
    for sym, what in res:
        if want is None or sym == want:
            return Failure('%s/%s' % (clause_of(m), sym), what, d)
    return None
