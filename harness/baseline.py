#!/venv/bin/python
"""Run the repository's pinned test suite in a tree (default /repo) and compare the set of
passing tests with /root/.vp/BASELINE.json (stable_pass).  Exit 0 iff every stable test passes."""
import sys, os, json, subprocess, tempfile, xml.etree.ElementTree as ET
tree = sys.argv[1] if len(sys.argv) > 1 else '/repo'
base = json.load(open('/root/.vp/BASELINE.json'))
with tempfile.TemporaryDirectory() as d:
    x = os.path.join(d, 'j.xml')
    p = subprocess.run(['/venv/bin/python', '-m', 'pytest', '-q', '-p', 'no:cacheprovider', '--timeout=900',
                        '--continue-on-collection-errors', '--junitxml=' + x], cwd=tree, capture_output=True, text=True)
    passed = set()
    for tc in ET.parse(x).getroot().iter('testcase'):
        if not any(c.tag in ('failure', 'error', 'skipped') for c in tc):
            passed.add(tc.get('classname') + '::' + tc.get('name'))
missing = sorted(set(base['stable_pass']) - passed)
print(p.stdout.strip().splitlines()[-1])
print('stable tests passing: %d / %d' % (len(base['stable_pass']) - len(missing), len(base['stable_pass'])))
for m in missing:
    print('  NOT PASSING:', m)
sys.exit(1 if missing else 0)
