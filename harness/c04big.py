"""Round 4 — oracle-only families of C04 / C06 (no model line: the model's naive DFT is O(N^2)).

L9  size thresholds.  Every estimator entry point (periodogram, periodogram_csd, multi_taper_psd / _csd fixed and adaptive,
    utils.tapered_spectra with (NW, Kmax) and with precomputed tapers, mtm_cross_spectrum called directly, get_spectra
    (Welch), SpectralAnalyzer.psd / .cpsd / .periodogram / .spectrum_multi_taper / .spectrum_fourier) at sizes beyond
    every block threshold a chunked implementation could have: NFFT in {2^13, 2^13+1, 2^14, 2^14+2, 2^15} with n <= 256
    (the data stay small), 1..7 channels and 4x5 leading dimensions, K*NFFT*M above 2^18 and above 2^20 with M odd /
    M not a multiple of small block sizes, long recordings without padding (n = 2048 x 20 channels, n = 2^13+1, 2^16).
    Judged per bin against the DEFINITION computed with plain numpy (np.fft.fft of the de-meaned tapered rows, tapers from
    scipy.signal.windows.dpss), per channel / per matrix entry (each with its own scale, so that one lost channel or one
    un-doubled bin cannot hide behind a large neighbour), plus Parseval, fold of the two-sided output, Hermitian symmetry
    and diagonal = single-channel estimator on the implementation's own output.
nyq every even N in 2..512 (all of them in every run: cheap): one-sided periodogram / periodogram_csd / multi_taper_psd /
    multi_taper_csd / Welch with NFFT = N: N/2+1 bins, the Nyquist bin present and NOT doubled, frequency axis k*Fs/N.
L10 extreme and lopsided magnitudes.  Channel c multiplied by 2^g_c (exact in binary64), g_c in +-250 .. +-500 uniform and
    lopsided ([250, -250, 0, -30, 100]...): entry (i, j) of every matrix must be 2^(g_i+g_j) times the entry for the
    unscaled data to rounding-free accuracy (1e-13; adaptive weights 1e-6), stay finite, Hermitian, diagonal = the
    single-channel estimator of that (scaled) channel, |C_ij|^2 <= C_ii C_jj, and positive semidefinite after the exact
    rescaling by 2^-(g_i+g_j).

A spec is a small JSON-able dict (sizes, options, data seed); the data are regenerated from the seed, so a replay needs
nothing else.  `judge(spec)` -> list of (key, what).
"""
import math
import numpy as np

CAP18, CAP20 = 2 ** 18, 2 ** 20
_TAPERS = {}


def A():
    import nitime.algorithms as a
    return a


def U():
    import nitime.utils as u
    return u


# ------------------------------------------------------------------ data
def data_of(sp):
    """deterministic data of a spec: coloured noise + a sinusoid per channel + offset, per-channel power-of-two gains"""
    shape = tuple(sp['shape'])
    n = shape[-1]
    rs = np.random.RandomState(sp['dseed'] % (2 ** 31))
    x = rs.randn(*shape)
    M = int(np.prod(shape[:-1])) if len(shape) > 1 else 1
    t = np.arange(n)
    rows = x.reshape(M, n)
    for c in range(M):
        rows[c] = (1.0 + 0.5 * c) * rows[c] + (0.5 + c) * np.sin(2 * np.pi * (c + 1.37) * t / max(n, 2) * (1 + c % 3)) + sp.get('mean', 0.75) * (1 + (c % 2))
    x = rows.reshape(shape) * sp.get('amp', 1.0)
    if sp.get('cplx'):
        x = x + 1j * np.roll(x, 3, axis=-1)[..., ::-1] * 0.5
    return np.ascontiguousarray(x)


def gains_of(sp, M):
    g = sp.get('g') or [0]
    return np.array([g[c % len(g)] for c in range(M)], dtype=int)


def apply_gains(x, g):
    """channel c times 2^g[c] (exact)"""
    n = x.shape[-1]
    rows = x.reshape(-1, n)
    out = np.array([np.ldexp(rows[c].real, int(g[c])) + (1j * np.ldexp(rows[c].imag, int(g[c])) if np.iscomplexobj(x) else 0) for c in range(rows.shape[0])])
    if not np.iscomplexobj(x):
        out = out.real
    return np.ascontiguousarray(out.reshape(x.shape))


# ------------------------------------------------------------------ the definitions, by plain numpy
def ref_tapers(n, NW, low_bias):
    key = (int(n), float(NW), bool(low_bias))
    if key not in _TAPERS:
        from scipy.signal.windows import dpss
        d, e = dpss(int(n), float(NW), int(2 * NW), return_ratios=True)
        d, e = np.asarray(d, dtype=float).reshape(int(2 * NW), int(n)), np.asarray(e, dtype=float).reshape(-1)
        if low_bias:
            keep = e > 0.9
            d, e = d[keep], e[keep]
        if len(_TAPERS) > 64:
            _TAPERS.clear()
        _TAPERS[key] = (d, e)
    return _TAPERS[key]


def ref_tapered(rows, dpss, N):
    xm = rows - rows.mean(axis=-1, keepdims=True)
    return np.fft.fft(xm[:, None, :] * dpss[None, :, :], n=N, axis=-1)       # (M, K, N)


def onesided_of(P2, N):
    """one-sided assembly of a two-sided array along the last axis: bins 0..N/2, bins 1..(N+1)/2-1 doubled"""
    out = np.array(P2[..., :N // 2 + 1])
    out[..., 1:(N + 1) // 2] *= 2
    return out


def ref_freqs(N, Fs, one):
    return np.arange(N // 2 + 1 if one else N) * (Fs / N)


def ref_periodogram(rows, Fs, N, one):
    S = np.fft.fft(rows, n=N, axis=-1)
    P = np.abs(S) ** 2 / (Fs * rows.shape[-1])
    return onesided_of(P, N) if one else P


def ref_pcsd(rows, Fs, N, one):
    S = np.fft.fft(rows, n=N, axis=-1)
    C = S[:, None, :] * np.conj(S[None, :, :]) / (Fs * rows.shape[-1])
    return onesided_of(C, N) if one else C


def ref_mt(rows, Fs, N, dpss, eig, one, W=None):
    """multitaper cross-spectral matrix; W = None: sqrt(eigenvalue) weights, else per-channel weights (M, K, L)"""
    Y = ref_tapered(rows, dpss, N)
    L = N // 2 + 1 if one else N
    Y = Y[..., :L]
    if W is None:
        W = np.sqrt(eig)[None, :, None] * np.ones((rows.shape[0], 1, 1))
    wY = W * Y
    nrm = np.sqrt((W ** 2).sum(axis=1))                               # (M, 1 or L)
    C = np.einsum('ikf,jkf->ijf', wY, np.conj(wY)) / (nrm[:, None, :] * nrm[None, :, :])
    if one:
        C[..., 1:(N + 1) // 2] *= 2
    return C / Fs


def ref_welch(rows, Fs, N, nov, win, one):
    M, n = rows.shape
    xp = rows if n >= N else np.concatenate([rows, np.zeros((M, N - n), dtype=rows.dtype)], axis=-1)
    starts = list(range(0, xp.shape[-1] - N + 1, N - nov))
    X = np.array([np.fft.fft(xp[:, s0:s0 + N] * win[None, :], axis=-1) for s0 in starts])     # (S, M, N)
    C = np.einsum('sif,sjf->ijf', X, np.conj(X)) / (len(starts) * Fs * (win ** 2).sum())
    if one:
        return onesided_of(C, N)
    return C


# ------------------------------------------------------------------ comparisons
def entry_close(a, b, rtol, floor=0.0):
    """per-row comparison along the last axis: every row of `a` against the same row of `b` at rtol of THAT row's largest
    magnitude (but not below `floor`); returns None or a description of the worst row / bin"""
    a, b = np.asarray(a), np.asarray(b)
    if a.shape != b.shape:
        return 'shape %s instead of %s' % (a.shape, b.shape)
    L = a.shape[-1]
    a2, b2 = a.reshape(-1, L), b.reshape(-1, L)
    if not np.all(np.isfinite(a2)):
        r, k = np.argwhere(~np.isfinite(a2))[0]
        return 'non-finite value in row %d at bin %d' % (r, k)
    sc = np.maximum(np.max(np.abs(b2), axis=-1), floor)
    err = np.abs(a2 - b2)
    badm = err > (rtol * sc[:, None] + 1e-305)
    if np.any(badm):
        r, k = np.argwhere(badm)[0]
        nb = int(badm.sum())
        return 'row %d bin %d: %r instead of %r (%d bins of %d rows differ; first bins %s)' % (
            r, k, complex(a2[r, k]) if np.iscomplexobj(a2) else float(a2[r, k]), complex(b2[r, k]) if np.iscomplexobj(b2) else float(b2[r, k]),
            nb, int(np.any(badm, axis=-1).sum()), [int(v) for v in np.argwhere(badm[r])[:4, 0]])
    return None


def regime(K, N, M):
    p = K * N * M
    return 'KNM-gt-2^20' if p > CAP20 else 'KNM-gt-2^18' if p > CAP18 else 'KNM-le-2^18'


def sd(one):
    return 'onesided' if one else 'twosided'


# ------------------------------------------------------------------ L9 judgement
def judge_l9(sp):
    e = sp['entry']
    x = data_of(sp)
    n = x.shape[-1]
    rows = x.reshape(-1, n)
    M = rows.shape[0]
    cplx = bool(sp.get('cplx'))
    one = (sp['sides'] == 'default' and not cplx) or sp['sides'] == 'onesided'
    Fs = sp['Fs']
    N = sp.get('N') or n
    bad = []
    rt = 1e-9
    nbins = 'bins-gt-2^13' if (N // 2 + 1 if one else N) > 2 ** 13 else 'bins-le-2^13'

    def add(cl, sym, what):
        bad.append(('large/%s/%s' % (cl, sym), 'L9 %s: %s' % (describe(sp), what)))

    if e in ('periodogram', 'an_periodogram', 'pcsd'):
        cl = '%s/%s/%s' % ({'periodogram': 'periodogram', 'an_periodogram': 'an_periodogram', 'pcsd': 'periodogram_csd'}[e], sd(one), nbins)
        if e == 'periodogram':
            f, P = A().periodogram(x, Fs=Fs, N=sp.get('N'), sides=sp['sides'])
        elif e == 'an_periodogram':
            f, P = analyzer(sp, x).periodogram
        else:
            f, C = A().periodogram_csd(x, Fs=Fs, NFFT=sp.get('N'), sides=sp['sides'])
            C = np.asarray(C)
            w = entry_close(C, ref_pcsd(rows, Fs, N, one), rt)
            if w:
                add(cl, 'ne-definition', 'periodogram_csd differs from S_i conj(S_j)/(Fs n) by np.fft: ' + w)
            if entry_close(C, np.conj(np.transpose(C, (1, 0, 2))), rt):
                add(cl, 'hermitian', 'C[i,j] != conj(C[j,i])')
            P = np.array([C[i, i].real for i in range(M)])
            _, P1 = A().periodogram(rows, Fs=Fs, N=sp.get('N'), sides=sp['sides'])
            w = entry_close(P, np.asarray(P1).reshape(M, -1), rt)
            if w:
                add(cl, 'diag-ne-psd', 'diagonal differs from periodogram() of the channel: ' + w)
        P = np.asarray(P).reshape(M, -1)
        w = entry_close(P, ref_periodogram(rows, Fs, N, one), rt)
        if w and e != 'pcsd':
            add(cl, 'ne-definition', 'differs from |fft(x, NFFT)|^2/(Fs n) assembled by numpy: ' + w)
        w = entry_close(np.asarray(f), ref_freqs(N, Fs, one), 1e-12)
        if w:
            add(cl, 'freqs', 'frequency axis is not k*Fs/NFFT: ' + w)
        if not one or not cplx:
            tot = P.sum(axis=-1) * Fs / N
            w = entry_close(tot[:, None], ((np.abs(rows) ** 2).sum(axis=-1) / n)[:, None], rt)
            if w:
                add(cl, 'parseval', 'sum(psd)*Fs/NFFT != mean |x|^2: ' + w)
        if one and not cplx and e == 'periodogram':
            _, P2 = A().periodogram(x, Fs=Fs, N=sp.get('N'), sides='twosided')
            P2 = np.asarray(P2).reshape(M, -1)
            fo = P2[:, :N // 2 + 1].copy()
            fo[:, 1:(N + 1) // 2] += P2[:, :N // 2:-1][:, :(N + 1) // 2 - 1]
            w = entry_close(P, fo, rt)
            if w:
                add(cl, 'fold', 'one-sided output is not the folded two-sided output: ' + w)
        return bad

    if e in ('mtpsd', 'mtcsd', 'an_mt', 'tapered', 'tapered_pre', 'mtm'):
        NW = sp['NW']
        lb = sp.get('low_bias', True)
        dpss, eig = ref_tapers(n, NW, lb)
        K = len(eig)
        reg = regime(K, N, M)
        if e in ('tapered', 'tapered_pre'):
            cl = 'tapered_spectra/%s/%s' % ('tapers-computed' if e == 'tapered' else 'tapers-given', reg)
            if e == 'tapered':
                T, ev = U().tapered_spectra(x, (NW, int(2 * NW)), NFFT=sp.get('N'), low_bias=lb)
                if np.shape(ev) != np.shape(eig) or not np.allclose(ev, eig, rtol=1e-6, atol=1e-9):
                    add(cl, 'eigvals', 'eigenvalues returned %s, scipy dpss ratios %s' % (np.asarray(ev).tolist(), eig.tolist()))
            else:
                T = U().tapered_spectra(x, np.array(dpss), NFFT=sp.get('N'))
            T = np.asarray(T)
            if T.shape != tuple(sp['shape'][:-1]) + (K, N):
                add(cl, 'shape', 'shape %s, expected %s' % (T.shape, tuple(sp['shape'][:-1]) + (K, N)))
                return bad
            R = ref_tapered(rows, dpss, N)
            Tm = T.reshape(M, K, N)
            if e == 'tapered':
                # the sign of a taper is a convention: align every taper's sign with the reference on the first channel
                sg = np.sign(np.real(np.sum(Tm[0] * np.conj(R[0]), axis=-1)))
                sg[sg == 0] = 1
                Tm = Tm * sg[None, :, None]
            w = entry_close(Tm, R, 1e-8)
            if w:
                add(cl, 'ne-definition', 'tapered spectra differ from np.fft.fft((x - mean) * taper, NFFT) (rows = channel*K + taper): ' + w)
            en = (np.abs(Tm) ** 2).sum(axis=-1) / N
            want = (np.abs((rows - rows.mean(axis=-1, keepdims=True))[:, None, :] * dpss[None]) ** 2).sum(axis=-1)
            w = entry_close(en.reshape(-1, 1), want.reshape(-1, 1), 1e-8)
            if w:
                add(cl, 'parseval', 'sum_k |y(k)|^2 / NFFT != sum_j |h(j) x(j)|^2 (rows = channel*K + taper): ' + w)
            return bad
        if e == 'mtm':
            # mtm_cross_spectrum called directly on big spectra: auto branch, cross branch, per-frequency weights
            cl = 'mtm_cross_spectrum/%s/%s' % (sd(one), nbins)
            Y = ref_tapered(rows, dpss, N)
            L = N // 2 + 1 if one else N
            rs = np.random.RandomState(sp['dseed'] % 1000 + 7)
            Wf = 0.25 + rs.rand(M, K, L)                          # per-frequency weights (what adaptive weighting passes)
            ws = np.sqrt(eig).reshape(K, 1)
            refF = ref_mt(rows, 1.0, N, dpss, eig, one)
            refA = ref_mt(rows, 1.0, N, dpss, eig, one, W=Wf)
            for i in range(M):
                a = np.asarray(A().mtm_cross_spectrum(np.array(Y[i]), np.array(Y[i]), ws.copy(), sides=sd(one)))
                w = entry_close(a.reshape(1, -1), refF[i, i].real.reshape(1, -1), rt)
                if w:
                    add(cl, 'auto/ne-definition', 'auto spectrum of channel %d (eigenvalue weights): %s' % (i, w))
                    break
                a = np.asarray(A().mtm_cross_spectrum(np.array(Y[i]), np.array(Y[i]), Wf[i].copy(), sides=sd(one)))
                w = entry_close(a.reshape(1, -1), refA[i, i].real.reshape(1, -1), rt)
                if w:
                    add(cl, 'auto-per-frequency-weights/ne-definition', 'auto spectrum of channel %d (per-frequency weights): %s' % (i, w))
                    break
            for i in range(M):
                j = (i + 1) % M
                c = np.asarray(A().mtm_cross_spectrum(np.array(Y[i]), np.array(Y[j]), (ws.copy(), ws.copy()), sides=sd(one)))
                w = entry_close(c.reshape(1, -1), refF[i, j].reshape(1, -1), rt, floor=rt * float(np.max(np.abs(refF[i, i]))))
                if w:
                    add(cl, 'cross/ne-definition', 'cross spectrum of channels (%d, %d): %s' % (i, j, w))
                    break
                c = np.asarray(A().mtm_cross_spectrum(np.array(Y[i]), np.array(Y[j]), (Wf[i].copy(), Wf[j].copy()), sides=sd(one)))
                w = entry_close(c.reshape(1, -1), refA[i, j].reshape(1, -1), rt, floor=rt * float(np.max(np.abs(refA[i, i]))))
                if w:
                    add(cl, 'cross-per-frequency-weights/ne-definition', 'cross spectrum of channels (%d, %d), per-frequency weights: %s' % (i, j, w))
                    break
            return bad
        adaptive = bool(sp.get('adaptive'))
        name = {'mtpsd': 'multi_taper_psd', 'mtcsd': 'multi_taper_csd', 'an_mt': 'an_mt'}[e]
        cl = '%s/%s/%s/%s/%s' % (name, 'adaptive' if adaptive else 'fixed', sd(one), reg, nbins)
        W = None
        tol = rt
        if adaptive:
            Y = ref_tapered(rows, dpss, N)
            W = np.array([np.asarray(U().adaptive_weights(np.array(Y[i]), eig, sides=sd(one))[0], dtype=float) for i in range(M)])
            tol = 1e-6
        ref = ref_mt(rows, Fs, N, dpss, eig, one, W=W)
        kw = dict(Fs=Fs, NW=NW, adaptive=adaptive, low_bias=lb, sides=sp['sides'], NFFT=sp.get('N'))
        if e == 'mtcsd':
            f, C = A().multi_taper_csd(x, **kw)
            C = np.asarray(C)
            dfl = rt * float(np.max(np.abs(ref)))
            w = entry_close(C, ref, tol, floor=0.0)
            if w:
                # cross terms of nearly incoherent channels are compared at the scale of the auto terms
                sc = np.sqrt(np.max(np.abs(ref[np.arange(M), np.arange(M)]), axis=-1))
                w = entry_close(C / (sc[:, None, None] * sc[None, :, None]), ref / (sc[:, None, None] * sc[None, :, None]), tol, floor=1.0)
            if w:
                add(cl, 'ne-definition', 'multi_taper_csd differs from the weighted Gram matrix of the tapered spectra by np.fft (rows = i*M + j): ' + w)
            if entry_close(C, np.conj(np.transpose(C, (1, 0, 2))), rt):
                add(cl, 'hermitian', 'C[i,j] != conj(C[j,i])')
            P = np.array([C[i, i].real for i in range(M)])
            _, P1, _ = A().multi_taper_psd(rows, jackknife=False, **kw)
            w = entry_close(P, np.asarray(P1).reshape(M, -1), tol)
            if w:
                add(cl, 'diag-ne-psd', 'diagonal differs from multi_taper_psd of the channel: ' + w)
        else:
            if e == 'mtpsd':
                f, P, _ = A().multi_taper_psd(x, jackknife=False, **kw)
            else:
                f, P = analyzer(sp, x).spectrum_multi_taper
            P = np.asarray(P).reshape(M, -1)
            w = entry_close(P, np.array([ref[i, i].real for i in range(M)]), tol)
            if w:
                add(cl, 'ne-definition', 'multitaper psd differs from sum_k w_k^2 |y_k|^2 / sum_k w_k^2 / Fs by np.fft (rows = channels): ' + w)
        w = entry_close(np.asarray(f), ref_freqs(N, Fs, one), 1e-12)
        if w:
            add(cl, 'freqs', 'frequency axis is not k*Fs/NFFT: ' + w)
        if not adaptive and (not one or not cplx):
            E = (np.abs((rows - rows.mean(axis=-1, keepdims=True))[:, None, :] * dpss[None]) ** 2).sum(axis=-1)
            want = (E * eig[None, :]).sum(axis=-1) / eig.sum()
            tot = P.sum(axis=-1) * Fs / N
            w = entry_close(tot[:, None], want[:, None], rt)
            if w:
                add(cl, 'parseval', 'sum(psd)*Fs/NFFT != eigenvalue-weighted tapered power (rows = channels): ' + w)
        if one and not cplx and not adaptive and e != 'an_mt':
            kw2 = dict(kw, sides='twosided')
            if e == 'mtcsd':
                C2 = np.asarray(A().multi_taper_csd(x, **kw2)[1])
                P2 = np.array([C2[i, i].real for i in range(M)])
            else:
                P2 = np.asarray(A().multi_taper_psd(x, jackknife=False, **kw2)[1]).reshape(M, -1)
            fo = P2[:, :N // 2 + 1].copy()
            fo[:, 1:(N + 1) // 2] += P2[:, :N // 2:-1][:, :(N + 1) // 2 - 1]
            w = entry_close(P, fo, rt)
            if w:
                add(cl, 'fold', 'one-sided output is not the folded two-sided output: ' + w)
        return bad

    if e in ('welch', 'an_psd', 'an_cpsd'):
        one = not cplx
        Nw = sp['N']
        nov = sp.get('nov', Nw // 2)
        win = np.hanning(Nw)
        cl = '%s/%s/%s' % ({'welch': 'welch', 'an_psd': 'an_psd', 'an_cpsd': 'an_cpsd'}[e], sd(one), 'bins-gt-2^13' if (Nw // 2 + 1 if one else Nw) > 2 ** 13 else 'bins-le-2^13')
        ref = ref_welch(rows, Fs, Nw, nov, win, one)
        meth = {'this_method': 'welch', 'NFFT': Nw, 'Fs': Fs, 'n_overlap': nov}
        if e == 'welch':
            f, W = A().get_spectra(rows if M > 1 else rows[0], method=meth)
        elif e == 'an_cpsd':
            f, W = analyzer(sp, rows, method={'NFFT': Nw, 'n_overlap': nov}).cpsd
        else:
            f, W = analyzer(sp, rows, method={'NFFT': Nw, 'n_overlap': nov}).psd
        W = np.asarray(W)
        if e == 'an_psd' or M == 1:
            d = W.reshape(M, -1)
        else:
            d = np.array([W[i, i] for i in range(M)])
            if not cplx:
                up = np.array([W[i, j] for i in range(M) for j in range(i, M)])
                rf = np.array([ref[i, j] for i in range(M) for j in range(i, M)])
                sc = np.sqrt(np.max(np.abs(ref[np.arange(M), np.arange(M)]), axis=-1))
                scu = np.array([sc[i] * sc[j] for i in range(M) for j in range(i, M)])
                w = entry_close(up / scu[:, None], rf / scu[:, None], rt, floor=1.0)
                if w:
                    add(cl, 'ne-definition', 'upper triangle of get_spectra differs from the segment-averaged X_i conj(X_j) by np.fft (rows = pairs i<=j): ' + w)
        if np.max(np.abs(np.imag(d))) > 1e-12 * max(float(np.max(np.abs(d))), 1e-300):
            add(cl, 'not-real', 'Welch auto-density has an imaginary part')
        d = np.real(d)
        if not cplx:
            w = entry_close(d, np.array([ref[i, i].real for i in range(M)]), rt)
            if w:
                add(cl, 'diag-ne-definition', 'Welch auto-density differs from mean_seg |fft(w x_seg)|^2/(Fs sum w^2) by np.fft (rows = channels): ' + w)
        xp = rows if n >= Nw else np.concatenate([rows, np.zeros((M, Nw - n), dtype=rows.dtype)], axis=-1)
        starts = range(0, xp.shape[-1] - Nw + 1, Nw - nov)
        seg = np.array([[(np.abs(xp[i, s0:s0 + Nw] * win) ** 2).sum() for s0 in starts] for i in range(M)])
        want = seg.mean(axis=-1) / (win ** 2).sum()
        if d.shape[-1] != (Nw // 2 + 1 if one else Nw):
            add(cl, 'length', 'returned %d bins for NFFT=%d' % (d.shape[-1], Nw))
        else:
            w = entry_close((d.sum(axis=-1) * Fs / Nw)[:, None], want[:, None], rt)
            if w:
                add(cl, 'parseval', 'sum(psd)*Fs/NFFT != mean windowed segment power / sum(w^2): ' + w)
        return bad

    if e == 'an_fourier':
        cl = 'an_fourier/%s' % ('complex' if cplx else 'real')
        f, F = analyzer(sp, rows).spectrum_fourier
        F = np.asarray(F).reshape(M, -1)
        S = np.fft.fft(rows, axis=-1)
        ref = np.fft.fftshift(S, axes=-1) if cplx else S[:, :n // 2 + 1]
        w = entry_close(F, ref, rt)
        if w:
            add(cl, 'ne-definition', 'spectrum_fourier differs from np.fft.fft of the channel: ' + w)
        return bad
    raise ValueError(e)


def analyzer(sp, x, method=None):
    import nitime.timeseries as ts
    from nitime.analysis import SpectralAnalyzer
    T = ts.TimeSeries(np.array(x), sampling_rate=sp['Fs'])
    if sp['entry'] == 'an_mt':
        # spectrum_multi_taper takes BW / adaptive / low_bias from the CONSTRUCTOR arguments (NW is not an option there:
        # BW = NW * 2 * Fs / n gives the requested NW through multi_taper_psd's own rounding)
        n = np.shape(x)[-1]
        BW = None if sp.get('NW', 4) == 4 else sp['NW'] * 2.0 * sp['Fs'] / n
        return SpectralAnalyzer(T, BW=BW, adaptive=bool(sp.get('adaptive')), low_bias=bool(sp.get('low_bias', True)))
    return SpectralAnalyzer(T, method=method) if method is not None else SpectralAnalyzer(T)


def describe(sp):
    return ' '.join('%s=%s' % (k, sp[k]) for k in ('entry', 'shape', 'N', 'NW', 'low_bias', 'adaptive', 'sides', 'cplx', 'Fs', 'g', 'dseed') if sp.get(k) is not None)


# ------------------------------------------------------------------ Nyquist-bin sweep (every even N in 2..512)
def judge_nyq(sp):
    N = sp['N']
    Fs = sp['Fs']
    bad = []
    rt = 1e-9
    rs = np.random.RandomState(sp['dseed'] % (2 ** 31))

    def add(est, sym, what):
        bad.append(('nyquist-bin/%s/%s' % (est, sym), 'even NFFT = %d, Fs = %r (seed %d): %s' % (N, Fs, sp['dseed'], what)))

    def check(est, f, P, ref):
        P = np.asarray(P)
        if P.shape[-1] != N // 2 + 1:
            add(est, 'length', '%d bins returned, N/2+1 = %d expected (is the Nyquist bin there?)' % (P.shape[-1], N // 2 + 1))
            return
        w = entry_close(P, ref, rt)
        if w:
            add(est, 'ne-definition', 'one-sided output differs from the definition (bin 0 and bin N/2 once, the others doubled): ' + w)
        w = entry_close(np.asarray(f), ref_freqs(N, Fs, True), 1e-12)
        if w:
            add(est, 'freqs', 'frequency axis is not k*Fs/N up to Fs/2: ' + w)

    for n in sorted({N, max(1, N - 1 - (sp['dseed'] % max(1, N // 2)))}):
        x = rs.randn(2, n) + 0.5
        x[:, ::2] += 0.7                                   # power AT the Nyquist frequency
        f, P = A().periodogram(x, Fs=Fs, N=N, sides=['default', 'onesided'][n % 2])
        check('periodogram', f, P, ref_periodogram(x, Fs, N, True))
        f, C = A().periodogram_csd(x, Fs=Fs, NFFT=N, sides=['onesided', 'default'][n % 2])
        check('periodogram_csd', f, C, ref_pcsd(x, Fs, N, True))
    if N >= 16:
        n = N if N <= 64 else [N, 64, 33][sp['dseed'] % 3]
        if n == N and N > 200:
            n = 48
        NW = [2, 3, 2.5][sp['dseed'] % 3]
        lb = bool(sp['dseed'] % 2)
        try:
            dpss, eig = ref_tapers(n, NW, lb)
        except Exception:
            dpss = None
        if dpss is not None and len(eig) > 0:
            x = rs.randn(2, n) + 0.5
            x[:, ::2] += 0.7
            ref = ref_mt(x, Fs, N, dpss, eig, True)
            try:
                f, P, _ = A().multi_taper_psd(x, Fs=Fs, NW=NW, low_bias=lb, adaptive=False, jackknife=False, sides='onesided', NFFT=N)
                check('multi_taper_psd', f, P, np.array([ref[0, 0].real, ref[1, 1].real]))
                f, C = A().multi_taper_csd(x, Fs=Fs, NW=NW, low_bias=lb, adaptive=False, sides='default', NFFT=N)
                sc = float(np.max(np.abs(ref)))
                w = entry_close(np.asarray(C), ref, rt, floor=1e-3 * sc)
                if np.asarray(C).shape[-1] != N // 2 + 1:
                    add('multi_taper_csd', 'length', '%d bins returned' % np.asarray(C).shape[-1])
                elif w:
                    add('multi_taper_csd', 'ne-definition', 'one-sided matrix differs from the definition: ' + w)
            except ZeroDivisionError:
                pass
    if N >= 4:
        n = 2 * N + (sp['dseed'] % 5)
        x = rs.randn(2, n) + 0.5
        x[:, ::2] += 0.7
        nov = [N // 2, 0, N - 1][sp['dseed'] % 3]
        f, W = A().get_spectra(x, method={'this_method': 'welch', 'NFFT': N, 'Fs': Fs, 'n_overlap': nov})
        ref = ref_welch(x, Fs, N, nov, np.hanning(N), True)
        W = np.asarray(W)
        if W.shape[-1] != N // 2 + 1:
            add('welch', 'length', '%d bins returned' % W.shape[-1])
        else:
            d = np.array([W[0, 0].real, W[1, 1].real])
            w = entry_close(d, np.array([ref[0, 0].real, ref[1, 1].real]), rt)
            if w:
                add('welch', 'ne-definition', 'one-sided Welch auto-density differs from the definition: ' + w)
            w = entry_close(np.asarray(f), ref_freqs(N, Fs, True), 1e-12)
            if w:
                add('welch', 'freqs', 'frequency axis is not k*Fs/N up to Fs/2: ' + w)
    return bad


# ------------------------------------------------------------------ L10 judgement
def run_matrix(sp, x):
    """(matrix (M, M, L) complex or None, per-channel densities (M, L)) of the entry on data x"""
    e = sp['entry']
    n = x.shape[-1]
    rows = x.reshape(-1, n)
    M = rows.shape[0]
    Fs = sp['Fs']
    kwm = dict(Fs=Fs, NW=sp.get('NW'), adaptive=bool(sp.get('adaptive')), low_bias=sp.get('low_bias', True), sides=sp['sides'], NFFT=sp.get('N'))
    if e == 'periodogram':
        return None, np.asarray(A().periodogram(x, Fs=Fs, N=sp.get('N'), sides=sp['sides'])[1]).reshape(M, -1)
    if e == 'pcsd':
        C = np.asarray(A().periodogram_csd(x, Fs=Fs, NFFT=sp.get('N'), sides=sp['sides'])[1])
        return C, np.array([C[i, i].real for i in range(M)])
    if e == 'mtpsd':
        return None, np.asarray(A().multi_taper_psd(x, jackknife=False, **kwm)[1]).reshape(M, -1)
    if e == 'mtcsd':
        C = np.asarray(A().multi_taper_csd(x, **kwm)[1])
        return C, np.array([C[i, i].real for i in range(M)])
    if e == 'welch':
        W = np.asarray(A().get_spectra(rows if M > 1 else rows[0], method={'this_method': 'welch', 'NFFT': sp['N'], 'Fs': Fs, 'n_overlap': sp.get('nov', sp['N'] // 2)})[1])
        if M == 1:
            return None, np.real(W).reshape(1, -1)
        C = W.copy()
        for i in range(M):
            for j in range(i):
                C[i, j] = np.conj(W[j, i])
        return C, np.array([C[i, i].real for i in range(M)])
    if e == 'an_psd':
        return None, np.real(np.asarray(analyzer(sp, rows, method={'NFFT': sp['N'], 'n_overlap': sp.get('nov', sp['N'] // 2)}).psd[1])).reshape(M, -1)
    if e == 'an_periodogram':
        return None, np.asarray(analyzer(sp, rows).periodogram[1]).reshape(M, -1)
    if e == 'an_mt':
        return None, np.real(np.asarray(analyzer(sp, rows).spectrum_multi_taper[1])).reshape(M, -1)
    raise ValueError(e)


def single_of(sp, row):
    e = sp['entry']
    Fs = sp['Fs']
    if e == 'pcsd':
        return np.asarray(A().periodogram(row, Fs=Fs, N=sp.get('N'), sides=sp['sides'])[1]).reshape(-1)
    if e == 'mtcsd':
        return np.asarray(A().multi_taper_psd(row, Fs=Fs, NW=sp.get('NW'), adaptive=bool(sp.get('adaptive')), low_bias=sp.get('low_bias', True),
                                              sides=sp['sides'], NFFT=sp.get('N'), jackknife=False)[1]).reshape(-1)
    return np.real(np.asarray(A().get_spectra(row, method={'this_method': 'welch', 'NFFT': sp['N'], 'Fs': Fs, 'n_overlap': sp.get('nov', sp['N'] // 2)})[1])).reshape(-1)


def gain_class(g):
    g = list(g)
    if len(set(g)) == 1:
        return 'uniform-2^%s%d' % ('+' if g[0] > 0 else '-', abs(g[0]) // 50 * 50)
    return 'lopsided'


def judge_l10(sp):
    e = sp['entry']
    x0 = data_of(sp)
    n = x0.shape[-1]
    M = int(np.prod(x0.shape[:-1])) if x0.ndim > 1 else 1
    g = gains_of(sp, M)
    x1 = apply_gains(x0, g)
    name = {'periodogram': 'periodogram', 'pcsd': 'periodogram_csd', 'mtpsd': 'multi_taper_psd', 'mtcsd': 'multi_taper_csd', 'welch': 'welch',
            'an_psd': 'an_psd', 'an_periodogram': 'an_periodogram', 'an_mt': 'an_mt'}[e]
    if e in ('mtpsd', 'mtcsd', 'an_mt'):
        name += '/adaptive' if sp.get('adaptive') else '/fixed'
    cl = 'magnitude/%s/%s' % (name, gain_class(g))
    bad = []
    tol = 1e-6 if sp.get('adaptive') else 1e-13

    def add(sym, what):
        bad.append(('%s/%s' % (cl, sym), 'L10 %s: %s' % (describe(sp), what)))

    C0, P0 = run_matrix(sp, x0)
    C1, P1 = run_matrix(sp, x1)
    if not np.all(np.isfinite(P1)):
        add('non-finite', 'the density of the scaled data is not finite although |a|^2 times the unscaled density is representable')
        return bad
    want = np.array([np.ldexp(P0[c], 2 * int(g[c])) for c in range(M)])
    w = entry_close(P1, want, tol)
    if w:
        add('scale', 'density of channel c times 2^g_c is not 2^(2 g_c) times the density of channel c: ' + w)
    if np.any(P1 < 0):
        add('negative', 'negative density %g' % P1.min())
    if C1 is not None:
        wantC = np.array([[np.ldexp(C0[i, j].real, int(g[i] + g[j])) + 1j * np.ldexp(C0[i, j].imag, int(g[i] + g[j])) for j in range(M)] for i in range(M)])
        if not np.all(np.isfinite(C1)):
            add('non-finite', 'the matrix of the scaled data is not finite')
            return bad
        # off-diagonal entries of weakly coherent pairs: judged at the scale sqrt(C_ii C_jj), computed without overflow
        s1 = np.sqrt(np.max(np.abs(wantC[np.arange(M), np.arange(M)]), axis=-1))
        nrm = s1[:, None, None] * np.ones((1, M, 1)), np.ones((M, 1, 1)) * s1[None, :, None]
        a = C1 / nrm[0] / nrm[1]
        b = wantC / nrm[0] / nrm[1]
        w = entry_close(a, b, tol, floor=1.0)
        if w:
            add('scale-matrix', 'entry (i, j) is not 2^(g_i+g_j) times the entry for the unscaled channels (rows = i*M + j, normalised by sqrt(C_ii C_jj)): ' + w)
        if entry_close(a, np.conj(np.transpose(a, (1, 0, 2))), 1e-13, floor=1.0):
            add('hermitian', 'C[i,j] != conj(C[j,i]) on channels of very different magnitude')
        if np.max(np.abs(np.imag(a[np.arange(M), np.arange(M)]))) > 1e-13:
            add('diag-not-real', 'imaginary part on the diagonal')
        rows1 = x1.reshape(-1, n)
        for i in range(M):
            p = single_of(sp, rows1[i])
            w = entry_close(C1[i, i].real.reshape(1, -1), p.reshape(1, -1), max(tol, 2e-9))
            if w:
                add('diag-ne-psd', 'diagonal entry of channel %d (gain 2^%d) differs from the single-channel estimator: %s' % (i, g[i], w))
                break
        # positive semidefinite: 2x2 minors in normalised form, and all eigenvalues after the exact rescaling by 2^-(g_i+g_j)
        dn = np.real(a[np.arange(M), np.arange(M)])                               # (M, L)
        co = np.abs(a) ** 2 - (dn[:, None, :] * dn[None, :, :]) * (1 + 1e-9)
        if np.any(co > 1e-12):
            i, j, k = np.argwhere(co > 1e-12)[0]
            add('psd', '|C_ij|^2 > C_ii C_jj for the pair (%d, %d) at bin %d' % (i, j, k))
        Cr = np.array([[np.ldexp(C1[i, j].real, -int(g[i] + g[j])) + 1j * np.ldexp(C1[i, j].imag, -int(g[i] + g[j])) for j in range(M)] for i in range(M)])
        H = 0.5 * (Cr + np.conj(np.transpose(Cr, (1, 0, 2))))
        ev = np.linalg.eigvalsh(np.transpose(H, (2, 0, 1)))
        if ev.min() < -1e-10 * max(float(np.max(np.abs(Cr))), 1e-300):
            add('psd', 'min eigenvalue %g of the exactly rescaled matrix (largest |entry| %g)' % (ev.min(), float(np.max(np.abs(Cr)))))
    return bad


def judge(sp):
    import warnings, io, contextlib
    with warnings.catch_warnings(), contextlib.redirect_stdout(io.StringIO()), np.errstate(all='ignore'):
        warnings.simplefilter('ignore')
        try:
            return {'L9': judge_l9, 'nyq': judge_nyq, 'L10': judge_l10}[sp['fam']](sp)
        except Exception as ex:
            import traceback
            tb = traceback.extract_tb(ex.__traceback__)
            inside = any('/nitime/' in (fr.filename or '') for fr in tb)
            fam = {'L9': 'large', 'nyq': 'nyquist-bin', 'L10': 'magnitude'}[sp['fam']]
            return [('%s/%s/raises' % (fam, sp.get('entry', 'sweep')), '%s: raised %s: %s (%s)' % (describe(sp), type(ex).__name__, ex, 'inside nitime' if inside else 'in the harness'))]


# ------------------------------------------------------------------ spec pools
def l9_pool(pid, tier, seed):
    """L9 specs.  The regimes are fixed (every run enters each of them); the data seed, n, Fs and the pick among equivalent
    sizes rotate with VERIF_SEED"""
    out = []
    s = int(seed)
    ns = [256, 200, 128, 64, 255]
    Ns = [2 ** 13, 2 ** 13 + 1, 2 ** 14, 2 ** 15, 2 ** 14 + 2]
    FS = [1.0, 2 * math.pi, 250.0, 0.5]

    def sp(entry, shape, N, i, **kw):
        d = dict(fam='L9', entry=entry, shape=list(shape), N=N, sides='default', Fs=FS[(s + i) % len(FS)], dseed=1000 * s + i, amp=[1.0, 1e-3, 40.0][(s + i) % 3])
        d.update(kw)
        out.append(d)

    i = 0
    mt_regimes = [  # (shape, N, NW, low_bias): K*N*M above 2^18 / 2^20, M odd or not a multiple of the rows that fit under a 2^18 cap
        ((3, 256), 2 ** 14, 4, True), ((5, 200), 2 ** 13, 4, True), ((4, 5, 2048), None, 4, True), ((3, 128), 2 ** 13 + 1, 4, False),
        ((5, 256), 2 ** 15, 4, True), ((4, 5, 128), 2 ** 13, 3, True), ((7, 64), 2 ** 14, 2, False), ((2, 256), 2 ** 15, 4, True),
        ((1, 200), 2 ** 15, 4, True), ((3, 255), 2 ** 14 + 2, 3, True), ((5, 64), 2 ** 14, 2.5, True), ((6, 128), 2 ** 13, 4, False),
        ((9, 100), 2 ** 13 + 1, 2, True)]
    if pid == 'C04':
        for j, N in enumerate(Ns):
            sp('periodogram', [(1, ns[(s + j) % 5]), (3, ns[(s + j + 1) % 5]), (4, 5, 64), (ns[(s + j) % 5],), (5, 100)][j], N, i, sides=['default', 'onesided', 'twosided', 'default', 'default'][j]); i += 1
        sp('periodogram', (2, 2 ** 14 + 2 * (s % 2)), None, i); i += 1
        # M*NFFT above 2^18 / 2^20 with M odd (a cap on the values transformed in one go)
        sp('periodogram', (9, 64), 2 ** 15, i); i += 1
        sp('periodogram', (33, 32), 2 ** 15, i, sides=['default', 'twosided'][s % 2]); i += 1
        sp('periodogram', (4, 5, 64), 2 ** 14, i); i += 1
        sp('periodogram', (3, 7, 50), 2 ** 13 + 1, i); i += 1
        sp('pcsd', (9, 64), 2 ** 15, i); i += 1
        sp('pcsd', (17, 40), 2 ** 14, i); i += 1
        sp('periodogram', (2, 150), 2 ** 14, i, cplx=True); i += 1
        for j, N in enumerate(Ns[:4]):
            sp('pcsd', [(3, ns[(s + j) % 5]), (2, 200), (2, 3, 64), (5, 100)][j], N, i, sides=['default', 'onesided', 'default', 'twosided'][j]); i += 1
        for j, (shape, N, NW, lb) in enumerate(mt_regimes):
            sp('mtpsd', shape, N, i, NW=NW, low_bias=lb, sides=['default', 'onesided', 'default', 'twosided'][(s + j) % 4]); i += 1
        for j, (shape, N, NW, lb) in enumerate(mt_regimes[:6]):
            sp('mtcsd', shape, N, i, NW=NW, low_bias=lb); i += 1
        for j, (shape, N, NW, lb) in enumerate(mt_regimes):
            sp(['tapered', 'tapered_pre'][(s + j) % 2], shape, N, i, NW=NW, low_bias=lb); i += 1
            if tier == 'thorough':
                sp(['tapered_pre', 'tapered'][(s + j) % 2], shape, N, i, NW=NW, low_bias=lb); i += 1
        sp('mtpsd', (3, 200), 2 ** 14, i, NW=4, adaptive=True); i += 1
        sp('mtpsd', (5, 128), 2 ** 13, i, NW=3, adaptive=True, sides='twosided'); i += 1
        sp('mtpsd', (3, 128), 2 ** 14, i, NW=4, cplx=True); i += 1
        sp('mtm', (3, 128), 2 ** 14, i, NW=4, sides='onesided'); i += 1
        sp('mtm', (2, 100), 2 ** 13 + 1, i, NW=3, sides=['twosided', 'onesided'][s % 2]); i += 1
        sp('welch', (1, 200), 2 ** 14, i); i += 1
        sp('welch', (3, 2 ** 14 + 100 + s % 7), 2 ** 13, i, nov=[2 ** 12, 0, 100][s % 3]); i += 1
        sp('welch', (2, 256), 2 ** 15, i); i += 1
        sp('an_psd', (3, 2 ** 15 + 5), 2 ** 14, i); i += 1
        sp('an_cpsd', (2, 256), 2 ** 14 + 2, i); i += 1
        sp('an_periodogram', (3, 2 ** 14 + 2), None, i); i += 1
        sp('an_periodogram', (1, 2 ** 15 + 1), None, i); i += 1
        sp('an_mt', (3, 2 ** 13 + 2 * (s % 2)), None, i, NW=4, low_bias=False); i += 1
        sp('an_fourier', (3, 2 ** 14 + 1), None, i); i += 1
        sp('an_fourier', (5, 2 ** 13), None, i, cplx=True); i += 1
        if tier == 'thorough':
            sp('an_mt', (1, 2 ** 16), None, i, NW=4); i += 1
            sp('mtpsd', (2, 2 ** 16), None, i, NW=4); i += 1
            for j, N in enumerate(Ns):
                sp('mtpsd', (5, 96), N, i, NW=2, sides='onesided'); i += 1
                sp('welch', (2, 3 * N + 17), N, i); i += 1
    else:
        for j, N in enumerate(Ns):
            sp('pcsd', [(3, ns[(s + j) % 5]), (2, 200), (2, 3, 64), (5, 100), (4, 128)][j], N, i, sides=['default', 'onesided', 'default', 'twosided', 'default'][j]); i += 1
        sp('pcsd', (3, 2 ** 14 + 2), None, i); i += 1
        sp('pcsd', (9, 64), 2 ** 15, i); i += 1
        sp('pcsd', (17, 40), 2 ** 14, i); i += 1
        for j, (shape, N, NW, lb) in enumerate(mt_regimes):
            sp('mtcsd', shape, N, i, NW=NW, low_bias=lb, sides=['default', 'onesided', 'default', 'default', 'twosided'][(s + j) % 5]); i += 1
        sp('mtcsd', (3, 200), 2 ** 14, i, NW=4, adaptive=True); i += 1
        sp('mtcsd', (2, 128), 2 ** 15, i, NW=3, adaptive=True); i += 1
        sp('mtcsd', (3, 128), 2 ** 14, i, NW=4, cplx=True); i += 1
        sp('mtm', (3, 128), 2 ** 14 + 2 * (s % 2), i, NW=4, sides='onesided'); i += 1
        sp('mtm', (2, 100), 2 ** 15, i, NW=3, sides='onesided'); i += 1
        sp('welch', (3, 256), 2 ** 14, i); i += 1
        sp('welch', (3, 2 ** 14 + 100 + s % 7), 2 ** 13 + 1, i, nov=[2 ** 12, 0, 100][s % 3]); i += 1
        sp('an_cpsd', (3, 2 ** 15 + 5), 2 ** 14, i); i += 1
        if tier == 'thorough':
            for j, N in enumerate(Ns):
                sp('mtcsd', (4, 96), N, i, NW=2, sides='onesided'); i += 1
            # long recordings without padding (the DPSS computation for n > 2^14 takes seconds: thorough only)
            sp('mtcsd', (3, 2 ** 14 + 2), None, i, NW=4); i += 1
            sp('mtcsd', (2, 2 ** 15 + 2), None, i, NW=4, sides='onesided'); i += 1
    return out


def nyq_pool(pid, tier, seed):
    return [dict(fam='nyq', N=N, Fs=[1.0, 2 * math.pi, 250.0, 0.3, 1000.0][(N // 2 + int(seed)) % 5], dseed=7919 * int(seed) + N, pid=pid) for N in range(2, 513, 2)]


GAIN_SETS = [[250], [-250], [400], [-400], [500], [-500], [250, -250, 0], [-30, 0, 0, 0], [100, -300, 250, -30, 0], [0, 0, -500], [480, -480], [300, 0, -300, 30]]
GAIN_ADAPT = [[200], [-200], [250, -250, 0], [-30, 0, 0], [100, -200], [250], [-250]]


def l10_pool(pid, tier, seed):
    out = []
    s = int(seed)
    reps = 3 if tier == 'thorough' else 1
    entries = ['periodogram', 'pcsd', 'mtpsd', 'mtcsd', 'welch', 'an_psd', 'an_periodogram', 'an_mt'] if pid == 'C04' else ['pcsd', 'mtcsd', 'welch']
    i = 0
    for rep in range(reps):
        for e in entries:
            for gi, g in enumerate(GAIN_SETS):
                n = [24, 33, 40, 31, 64][(s + i) % 5]
                M = max(len(g), [1, 2, 3][(s + i) % 3]) if e not in ('pcsd', 'mtcsd') else max(len(g), 2)
                if pid == 'C06':
                    M = max(M, 2)
                d = dict(fam='L10', entry=e, shape=[M, n], g=g, Fs=[1.0, 2 * math.pi, 100.0][(s + i) % 3], dseed=5000 * s + 17 * i + rep, amp=2.0 ** -6, mean=0.5,
                         sides=['default', 'twosided', 'onesided'][(s + i) % 3], N=[None, n + 3, 2 * n, n + 4][(s + i) % 4])
                if e in ('welch', 'an_psd'):
                    d['N'] = [8, 9, 16, 12][(s + i) % 4]
                    d['shape'] = [M, [d['N'] - 2, 3 * d['N'] + 1, 5 * d['N']][(s + i) % 3]]
                    d['sides'] = 'default'
                if e in ('an_periodogram', 'an_mt'):
                    d['N'] = None
                    d['sides'] = 'default'
                if e in ('mtpsd', 'mtcsd', 'an_mt'):
                    d['NW'] = [2, 3, 4, 2.5][(s + i) % 4]
                    d['low_bias'] = bool((s + i) % 2) or e == 'an_mt' and False
                    if d['low_bias'] and d['NW'] == 2 and n < 30:
                        d['low_bias'] = False
                out.append(d)
                i += 1
        for e in [x for x in ('mtpsd', 'mtcsd') if x in entries]:
            for g in GAIN_ADAPT:
                n = [32, 41, 48][(s + i) % 3]
                out.append(dict(fam='L10', entry=e, shape=[max(len(g), 2), n], g=g, Fs=[1.0, 50.0][(s + i) % 2], dseed=5000 * s + 17 * i + rep, amp=2.0 ** -4, mean=0.5,
                                sides=['default', 'twosided'][(s + i) % 2], N=[None, 2 * n][(s + i) % 2], NW=[3, 4][(s + i) % 2], low_bias=True, adaptive=True))
                i += 1
    return out


def pool(pid, tier, seed):
    return l9_pool(pid, tier, seed) + nyq_pool(pid, tier, seed) + l10_pool(pid, tier, seed)


def run_pool(pid, tier, seed):
    """-> (list of (key, what, spec), stats)"""
    fails, cnt = [], {}
    for spc in pool(pid, tier, seed):
        cnt[spc['fam']] = cnt.get(spc['fam'], 0) + 1
        for key, what in judge(spc):
            fails.append((key, what, spc))
    return fails, cnt
