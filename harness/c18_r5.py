"""C18 round 5 — L10: extreme and lopsided magnitudes for all four FilterAnalyzer methods.

Every scale-free clause of C18 (projection, idempotence, homogeneity, mean preservation, shape / axis / unit / rate) is
judged on data scaled by EXACT powers of two 2^±43, 2^±100, 2^±250 (one gain for the series, and lopsided: a different gain
per channel of one 2-d series).  Expectation = the result on the unscaled data times the gain, per channel:
  * filtered_fourier / filtered_boxcar: BIT-EQUAL (fft / ifft / np.convolve / np.mean only add and multiply: an exact
    power-of-two scaling commutes with every rounding as long as nothing leaves the normal range; data are O(1..30));
  * fir / iir: 1e-9 of the channel's largest magnitude.
Directly on the scaled data: shape, sampling interval / rate, t0, unit, time axis; channel means (1e-9 of the channel's
magnitude); Fourier projection on the TRUE bin frequencies (numpy FFT of input vs output, per channel), idempotence,
pure on-bin sinusoids (in-band kept, out-of-band removed to 1e-9 of the amplitude).  Baseline variant: a level 2^20..2^24
plus a +-3 fluctuation u: F(L + u) = L + F(u) to 1e-9 L (linearity + a constant series is kept).
Numpy only, the real code only; everything is derived from the integer `sd`.
"""
import random
import numpy as np
import common
from common import Failure

METHODS = ['filtered_fourier', 'filtered_boxcar', 'fir', 'iir']
EXPS = [43, -43, 100, -100, 250, -250]
LOPSIDED = [0, -43, 100, -250]
EXACT = ('filtered_fourier', 'filtered_boxcar')
NS = [64, 96, 301]


LONG_NS = [16385, 16384, 20001, 32769, 17000]


def nt():
    import nitime.timeseries as ts
    from nitime.analysis import FilterAnalyzer
    return ts, FilterAnalyzer


def seeds(seed, tier):
    r = random.Random('C18-scale-%d' % seed)
    k = 12 if tier == 'thorough' else 3
    out = [r.randint(0, 10**6) * 3 + (i % 3) for i in range(k)]       # sd % 3 picks the length: all three every run
    # long records beyond the sizes at which FFT-based routines are tempted to switch algorithm (2^14, 2^15), both parities
    # (wave 10, C18-20): negative sd = index into LONG_NS
    out += [-(1 + (seed + j) % len(LONG_NS)) for j in range(len(LONG_NS) if tier == 'thorough' else 2)]
    return out


def plan(sd):
    r = random.Random('C18-scale-plan-%d' % sd)
    nr = common.np_rng('C18', sd, 'scale')
    n = LONG_NS[(-sd - 1) % len(LONG_NS)] if sd < 0 else NS[sd % 3]
    fs = r.choice([1.0, 2.0, 10.0, 250.0])
    kind = r.choice(['lowpass', 'highpass', 'bandpass'])
    a, b = r.uniform(0.15, 0.4), r.uniform(0.5, 0.8)
    nyq = fs / 2
    lb = 0 if kind == 'lowpass' else a * nyq
    ub = None if kind == 'highpass' else b * nyq
    x = nr.randn(4, n) * nr.uniform(0.5, 4) + nr.uniform(-20, 20, (4, 1))
    return {'n': n, 'fs': fs, 'kind': kind, 'lb': lb, 'ub': ub, 'unit': r.choice(['s', 'ms', 'us']), 't0': r.choice([0.0, 3.5, 120.0]),
            'x': x, 'perm': r.sample(LOPSIDED, 4), 'perm2': r.sample(EXPS, 4), 'ph': [r.uniform(0, 2 * np.pi) for _ in range(2)],
            'level': 2.0 ** r.randint(20, 24), 'u': nr.uniform(-3, 3, (3, n))}


def rows(a):
    a = np.asarray(a, dtype='d')
    return a.reshape(1, -1) if a.ndim == 1 else a


def experiment(sd):
    """-> list of Failures (at most one per key)"""
    ts, FA = nt()
    P = plan(sd)
    n, fs, lb, ub = P['n'], P['fs'], P['lb'], P['ub']
    fails, seen = [], set()

    def bad(key, what):
        key = 'scale/' + key
        if key in seen:
            return
        seen.add(key)
        fails.append(Failure(key, 'magnitudes sd=%d (n=%d Fs=%g %s lb=%g ub=%s unit=%s t0=%g): %s' % (
            sd, n, fs, P['kind'], lb, ub, P['unit'], P['t0'], what), {'kind': 'scale', 'sd': sd, 'key': key}))

    def series(d):
        return ts.TimeSeries(np.array(d, dtype='d'), sampling_rate=fs, t0=P['t0'], time_unit=P['unit'])

    def run(m, d):
        T = series(d)
        r = common.call(lambda: getattr(FA(T, lb=lb, ub=ub, filt_order=8), m))
        return T, r

    def chmax(d):
        return np.maximum(np.abs(rows(d)).max(axis=1, keepdims=True), 1e-300)

    def direct(m, d, lab):
        """clauses judged on the (scaled) data itself; -> output rows or None"""
        T, O = run(m, d)
        if isinstance(O, str):
            bad('%s/raises' % m, '%s: %s' % (lab, O))
            return None
        if np.asarray(O.data).shape != np.asarray(T.data).shape:
            bad('%s/shape' % m, '%s: output shape %s, input %s' % (lab, np.asarray(O.data).shape, np.asarray(T.data).shape))
            return None
        if not np.array_equal(np.asarray(T.data), np.asarray(d, dtype='d')):
            bad('%s/input-modified' % m, '%s: the input series data changed' % lab)
        if (O.sampling_interval != T.sampling_interval or O.sampling_rate != T.sampling_rate or O.time_unit != T.time_unit
                or not np.all(np.asarray(O.t0) == np.asarray(T.t0)) or len(O.time) != len(T.time)
                or not np.all(np.asarray(O.time) == np.asarray(T.time))):
            bad('%s/axis' % m, '%s: sampling interval / rate / t0 / unit / time axis differ from the input' % lab)
        din, dout = rows(T.data), rows(O.data)
        sc = chmax(din)
        if not np.all(np.isfinite(dout)):
            bad('%s/non-finite' % m, '%s: non-finite output for finite input in the normal range' % lab)
            return None
        dm = np.abs(dout.mean(axis=1, keepdims=True) - din.mean(axis=1, keepdims=True)) / sc
        if dm.max() > 1e-9:
            c = int(np.argmax(dm))
            bad('%s/mean' % m, '%s: mean of channel %d changed by %.3g of its magnitude %.3g' % (lab, c, dm.max(), sc[c, 0]))
        if m == 'filtered_fourier':
            Xf, Yf = np.fft.fft(din / sc, axis=1), np.fft.fft(dout / sc, axis=1)       # per-channel normalisation (keeps 2^250 data clear of overflow in |.|)
            k = np.arange(n)
            ftrue = np.minimum(k, n - k) * fs / n
            ubx = fs / 2 if ub is None else ub
            eps = 1e-9 * max(fs, 1)
            inside = ((ftrue > lb + eps) & (ftrue < ubx - eps)) | (k == 0)
            outside = ((ftrue < lb - eps) | (ftrue > ubx + eps)) & (k != 0)
            tol = 1e-9 * np.abs(Xf).max(axis=1, keepdims=True)
            e_in = (np.abs(Yf - Xf) / tol)[:, inside]
            if e_in.size and e_in.max() > 1:
                c, j = np.unravel_index(np.argmax(e_in), e_in.shape)
                kk = int(k[inside][j])
                bad('filtered_fourier/projection/in-band-changed', '%s: channel %d bin %d (true frequency %.6g, inside the band) changed by %.3g of the largest coefficient' % (
                    lab, c, kk, ftrue[kk], e_in.max() * 1e-9))
            e_out = (np.abs(Yf) / tol)[:, outside]
            if e_out.size and e_out.max() > 1:
                c, j = np.unravel_index(np.argmax(e_out), e_out.shape)
                kk = int(k[outside][j])
                bad('filtered_fourier/projection/out-of-band-kept', '%s: channel %d bin %d (true frequency %.6g, outside the band) kept at %.3g of the largest coefficient' % (
                    lab, c, kk, ftrue[kk], e_out.max() * 1e-9))
            T2, O2 = run(m, np.asarray(O.data))
            if isinstance(O2, str):
                bad('filtered_fourier/idempotent', '%s: second pass raises %s' % (lab, O2))
            else:
                e2 = np.abs(rows(O2.data) - dout) / sc
                if e2.max() > 1e-9:
                    bad('filtered_fourier/idempotent', '%s: filtering twice differs from filtering once by %.3g of the magnitude' % (lab, e2.max()))
        return dout

    def homog(m, base_in, base_out, g, lab, key):
        """F(g x) against g F(x), g a column of exact powers of two (one per channel)"""
        g = np.asarray(g, dtype='d').reshape(-1, 1)
        d = rows(base_in) * g
        if np.asarray(base_in).ndim == 1:
            d = d[0]
        got = direct(m, d, lab)
        if got is None:
            return
        want = base_out * g
        if m in EXACT:
            if not np.array_equal(got, want):
                err = np.abs(got - want) / chmax(want)
                c = int(np.argmax(err.max(axis=1)))
                bad('%s/%s' % (m, key), '%s: F(g x) is not bit-equal to g F(x) for power-of-two g (channel %d, gain 2^%d: off by %.3g of the channel magnitude)' % (
                    lab, c, int(np.log2(g[c, 0])), err.max()))
        else:
            err = np.abs(got - want) / chmax(want)
            if err.max() > 1e-9:
                c = int(np.argmax(err.max(axis=1)))
                bad('%s/%s' % (m, key), '%s: F(g x) differs from g F(x) (channel %d, gain 2^%d) by %.3g of the channel magnitude' % (
                    lab, c, int(np.log2(g[c, 0])), err.max()))

    x4 = P['x']
    x1 = x4[0].copy()
    x3 = x4[:3].copy()
    t = np.arange(n)
    for m in METHODS:
        b1 = direct(m, x1, '1-d unscaled')
        b3 = direct(m, x3, '3-channel unscaled')
        b4 = direct(m, x4, '4-channel unscaled')
        if b1 is None or b3 is None or b4 is None:
            continue
        # ---- one gain for the whole series: 1-d and 3-channel
        for e in EXPS:
            homog(m, x1, b1, [2.0 ** e], '1-d data x 2^%d' % e, 'homogeneity')
            homog(m, x3, b3, [2.0 ** e] * 3, '3-channel data x 2^%d' % e, 'homogeneity')
        # ---- lopsided: a different gain per channel of one series
        homog(m, x4, b4, [2.0 ** e for e in P['perm']], 'channel gains 2^%s' % (P['perm'],), 'homogeneity-lopsided')
        homog(m, x4, b4, [2.0 ** e for e in P['perm2']], 'channel gains 2^%s' % (P['perm2'],), 'homogeneity-lopsided')
        # ---- large additive baseline: F(L + u) = L + F(u)
        u = P['u']
        L = P['level'] * np.array([[1.0], [-1.0], [0.5]])
        bu = direct(m, u, 'fluctuation alone')
        bl = direct(m, L + u, 'level 2^%d +- 3' % int(np.log2(P['level'])))
        if bu is not None and bl is not None:
            err = np.abs(bl - (L + bu)) / np.abs(L)
            if err.max() > 1e-9:
                bad('%s/baseline' % m, 'level 2^%d + u: F(L + u) differs from L + F(u) by %.3g (fluctuation +-3)' % (int(np.log2(P['level'])), (err * np.abs(L)).max()))
    # ---- pure on-bin sinusoids through the Fourier filter at every amplitude
    kb = np.arange(1, (n - 1) // 2 + 1)
    fb = kb * fs / n
    ubx = fs / 2 if ub is None else ub
    k_in = [int(k) for k, f in zip(kb, fb) if lb + 0.02 * fs < f < ubx - 0.02 * fs]
    k_out = [int(k) for k, f in zip(kb, fb) if f < lb - 0.02 * fs or f > ubx + 0.02 * fs]
    if k_in and k_out:
        r = random.Random('C18-scale-sin-%d' % sd)
        ki, ko = r.choice(k_in), r.choice(k_out)
        s_in = 1.5 * np.cos(2 * np.pi * ki * t / n + P['ph'][0])
        s_out = 0.7 * np.cos(2 * np.pi * ko * t / n + P['ph'][1])
        for e in [0] + EXPS:
            A = 2.0 ** e
            T, O = run('filtered_fourier', A * (s_in + s_out + 0.25))
            if isinstance(O, str):
                bad('filtered_fourier/raises', 'sinusoids of amplitude 2^%d: %s' % (e, O))
                continue
            err = np.abs(np.asarray(O.data) / A - (s_in + 0.25)).max()
            if not err <= 1e-9:
                bad('filtered_fourier/sinusoid', 'amplitude 2^%d: in-band on-bin sinusoid (bin %d) + out-of-band one (bin %d) + offset: output differs from the in-band '
                    'sinusoid + offset by %.3g of the amplitude' % (e, ki, ko, err))
    return fails


def judge(seed, tier):
    fails, k = [], 0
    for sd in seeds(seed, tier):
        k += 1
        r = common.call(lambda: experiment(sd))
        if isinstance(r, str):
            fails.append(Failure('scale/raises', 'magnitude experiment sd=%d raised %s' % (sd, r), {'kind': 'scale', 'sd': sd}))
        else:
            fails += r
    return fails, k


def replay(d):
    r = common.call(lambda: experiment(d['sd']))
    if isinstance(r, str):
        return Failure('scale/raises', r, d)
    for f in r:
        if d.get('key') is None or f.key == d['key']:
            return f
    return None
